"""C09 at plugin level -- the stage `stage(ctx)` called at the end of checks/C09.py.

The core of C09 is decided on a harness-owned output around the real RetriableBatcher; this stage exercises the real
output plugins' OWN error classification (which failures their out function reports as errors, i.e. which are retried).

1. elasticsearch: specs/EsSplit.tla is the transcription of out()/send/sendSplit against a scripted backend; TLC checks
   (a) nil only if accepted or refused for good, (b) a retryable answer is reported as an error, (c) ranges in order /
   nothing resent, (d) out() itself feeds nothing to the dead queue (only the give-up does), rejects the spec mutants
   M_StatusOfFailingRequest and M_DeadQueueOnlyOnGiveUp, and exports every script.  A script whose result is not "err"
   (success or deliberate drop): the dead queue receives nothing, every event is committed once by the main batcher
   (else es_dead_queue_fed_without_give_up); "err" with a dead queue and the retries used up: every event goes to the dead
   queue once and is not committed by the main batcher (else output_dead_queue_handover). Each script is replayed
   on the REAL plugin (real Start, RetriableBatcher, Out) with an in-process backend, in the variants
   {later attempts ok | same script again (exhaustion)} x {dead queue or not} x retry, and one ordered log of requests,
   commits, dead-queue hand-overs and error-callback runs is compared with the expectation.
2. generic one-step family over http, splunk, loki, kafka: the backend fails k times with a retryable failure and then
   succeeds, or never succeeds; same oracle for all.
"""
import concurrent.futures
import json
import os
import shutil

import vlib

ES_PKG = "plugin/output/elasticsearch"
GENERIC = ["http", "splunk", "loki", "kafka"]


def _positions(log, t):
    return [i for i, e in enumerate(log) if e["t"] == t]


def judge_common(rec_base, log, ids, expect_fail_first, later, dq, retry, attempts, pfx):
    """The part of the oracle that is the same for every output. ids = the batch's event ids; attempts = number of
    calls of out() seen by the sink; expect_fail_first = the first attempt must be reported as a failure."""
    recs = []
    commits = [e["id"] for e in log if e["t"] == "commit"]
    dqs = [e["id"] for e in log if e["t"] == "dq"]
    errcb = len(_positions(log, "errcb"))
    reqpos = _positions(log, "req")
    last_req = reqpos[-1] if reqpos else -1
    if any(e["t"] == "timeout" for e in log):
        return [dict(rec_base, kind=pfx + "_hang", log=log)]
    if any(commits.count(i) > 1 for i in ids) or any(dqs.count(i) > 1 for i in ids):
        recs.append(dict(rec_base, kind="output_commit_count", commits=commits, dq=dqs, log=log))
    # not committed while retries are pending: every commit / hand-over comes after the last request of the last attempt
    early = [i for i in _positions(log, "commit") + _positions(log, "dq") if i < last_req]
    if early:
        recs.append(dict(rec_base, kind="output_commit_while_pending", attempts=attempts, log=log))
    if not expect_fail_first:
        # reported as a success (accepted, or the deliberate drop): no give-up, so the dead queue receives NOTHING and the
        # main batcher commits every event exactly once -- the batch goes one way
        if dqs:
            recs.append(dict(rec_base, kind=pfx + "_dead_queue_fed_without_give_up", dq=dqs, commits=commits, errcb=errcb,
                             also_committed_by_main=sorted(set(dqs) & set(commits)), log=log))
        elif sorted(commits) != sorted(ids) or errcb:
            recs.append(dict(rec_base, kind=pfx + "_success_not_committed_once", commits=commits, dq=dqs, errcb=errcb, log=log))
        return recs
    if later == "ok":
        if attempts < 2:
            recs.append(dict(rec_base, kind=pfx + "_commit_without_retry", attempts=attempts, commits=commits, log=log))
        elif dqs:
            # the retry succeeded: nothing was given up
            recs.append(dict(rec_base, kind=pfx + "_dead_queue_fed_without_give_up", dq=dqs, commits=commits, errcb=errcb,
                             also_committed_by_main=sorted(set(dqs) & set(commits)), log=log))
        elif sorted(commits) != sorted(ids) or dqs or errcb:
            recs.append(dict(rec_base, kind="output_after_retry_not_committed_once", commits=commits, dq=dqs, errcb=errcb, log=log))
        return recs
    # the backend never recovers: given up only after the configured number of retries, reported once, routed once
    if attempts < retry + 1:
        kind = pfx + "_commit_without_retry" if attempts <= 1 and retry >= 1 else "output_attempts_too_few"
        recs.append(dict(rec_base, kind=kind, attempts=attempts, configured_retry=retry, commits=commits, log=log))
        return recs
    if errcb != 1:
        recs.append(dict(rec_base, kind="output_error_callback_count", errcb=errcb, log=log))
    if dq:
        if sorted(dqs) != sorted(ids) or commits:
            recs.append(dict(rec_base, kind="output_dead_queue_handover", dq=dqs, commits=commits, log=log))
    else:
        if sorted(commits) != sorted(ids) or dqs:
            recs.append(dict(rec_base, kind="output_exhausted_not_committed_once", commits=commits, dq=dqs, log=log))
    return recs


def run_harness(ctx, binary, test, cases, tag, timeout=2700):
    path = os.path.join(ctx.scratch, "c09o_%s_cases.ndjson" % tag)
    outp = os.path.join(ctx.scratch, "c09o_%s_out.ndjson" % tag)
    with open(path, "w") as f:
        for c in cases:
            f.write(json.dumps(c) + "\n")
    rc, txt = ctx.run_bin(binary, test, env={"VERIF_CASES": path, "VERIF_OUT": outp, "LOG_LEVEL": "error"}, timeout=timeout)
    if rc != 0:
        if "panic:" in txt and "plugin/output/" in txt:
            i = txt.index("panic:")
            return None, {"kind": "output_panic", "stage": tag, "panic": txt[i:i + 600]}
        raise vlib.Infra("C09 outputs stage: %s harness failed rc=%s:\n%s" % (tag, rc, txt[-3000:]))
    res = {}
    for line in open(outp):
        r = json.loads(line)
        res[r["idx"]] = r["log"]
    if len(res) != len(cases):
        raise vlib.Infra("C09 outputs stage: %s harness executed %d of %d cases" % (tag, len(res), len(cases)))
    return res, None


def es_stage(ctx, recs):
    quick = ctx.tier == "quick"
    res = ctx.tlc_expect_ok("EsSplit", "EsSplit_quick.cfg" if quick else "EsSplit_thorough.cfg", deadlock=False, timeout=1800,
                            workers=4, name="EsSplit: out/send/sendSplit vs every backend script")
    scripts = res.printed
    if len(scripts) < 50:
        raise vlib.Infra("EsSplit exported only %d scripts" % len(scripts))
    m = ctx.tlc("EsSplit", "EsSplit_mut.cfg", deadlock=False, timeout=1800, workers=4,
                overrides={"M_StatusOfFailingRequest": "FALSE"}, name="EsSplit mutant M_StatusOfFailingRequest off")
    if m.ok or m.kind != "invariant":
        raise vlib.Infra("spec mutant M_StatusOfFailingRequest=FALSE is not rejected (ok=%s %s)" % (m.ok, m.violated))
    # "a non-retryable status also feeds the dead queue" (and out() still returns nil): the batch would go two ways
    m = ctx.tlc("EsSplit", "EsSplit_mut.cfg", deadlock=False, timeout=1800, workers=4,
                overrides={"M_DeadQueueOnlyOnGiveUp": "FALSE"}, name="EsSplit mutant M_DeadQueueOnlyOnGiveUp off")
    if m.ok or m.kind != "invariant" or m.violated != "DeadQueueOnlyOnGiveUp":
        raise vlib.Infra("spec mutant M_DeadQueueOnlyOnGiveUp=FALSE is not rejected by DeadQueueOnlyOnGiveUp (ok=%s %s)" % (m.ok, m.violated))
    scripts.sort(key=lambda c: json.dumps(c, sort_keys=True))
    cases = []
    for s in scripts:
        if s["result"] == "err":
            variants = [(later, dq, retry) for later in ("ok", "same") for dq in (False, True) for retry in (0, 2)]
        else:
            # success / deliberate drop: no give-up whatever the dead queue / retry setting -- the dead queue stays empty
            variants = [("ok", False, 1), ("same", True, 1), ("ok", True, 0)]
        for later, dq, retry in variants:
            cases.append({"idx": len(cases), "n": s["n"], "split": s["split"], "script": s["script"], "later": later,
                          "dq": dq, "retry": retry, "result": s["result"]})
    ctx.tlc_expect_ok("GiveUpHandover", "GiveUpHandover_ok.cfg", deadlock=False, timeout=900, workers=2, name="GiveUpHandover: batch object given up, then refilled")
    gm = ctx.tlc("GiveUpHandover", "GiveUpHandover_mut.cfg", deadlock=False, timeout=900, workers=2, name="GiveUpHandover mutant: hand-over in the background")
    if gm.ok or gm.violated != "DeadQueueGetsTheBatch":
        raise vlib.Infra("spec mutant M_HandoverBeforeRelease=FALSE is not rejected (ok=%s %s)" % (gm.ok, gm.violated))
    # a second batch right behind a batch that is being given up to a SLOW dead queue (one worker = one batch object: the second
    # batch is collected in the object the first one has just left).  What the dead queue receives are the events of the first
    # batch, whatever happens to the batch object meanwhile; the second batch is delivered and committed.
    follow = []
    for n in (2, 3, 4):
        for k in range(2 if quick else 6):
            ids = list(range(1, n + 1))
            follow.append({"idx": len(cases) + len(follow), "n": n, "split": False, "script": [{"ids": ids, "ans": "unavailable"}], "later": "same",
                           "dq": True, "retry": 0 if k % 2 == 0 else 1, "result": "err", "follow": n + 1})
    binary = ctx.c09o_builds[ES_PKG].result()
    out, crash = run_harness(ctx, binary, "^TestVerifC09ES$", cases + follow, "es")
    if crash:
        recs.append(crash)
        return {"scripts": len(scripts), "runs": 0, "crashed": True}
    drift = 0
    shapes = set()
    for c in cases:
        log = out[c["idx"]]
        ids = list(range(1, c["n"] + 1))
        base = {"stage": "es", "sink": "elasticsearch",
                "case": {k: c[k] for k in ("n", "split", "script", "later", "dq", "retry", "result")}}
        reqs = [e for e in log if e["t"] == "req"]
        starts = [i for i, e in enumerate(reqs) if e.get("ids") == ids]
        attempts = len(starts)
        first = reqs[:starts[1]] if len(starts) > 1 else reqs
        got = [[e.get("ids") or [], e["ans"]] for e in first]
        want = [[s["ids"], s["ans"]] for s in c["script"]]
        expect_fail = c["result"] == "err"
        rr = []
        if got != want:
            # same requests up to the point where the real plugin stopped early / went on = a different classification
            rr.append(dict(base, kind="es_requests_differ", want=want, got=got, log=log))
        rr += judge_common(base, log, ids, expect_fail, c["later"], c["dq"], c["retry"], attempts, "es")
        if not expect_fail and attempts > 1 and not rr:
            drift += 1          # retried although the transcription says "reported as success": not forbidden by C09
        recs += rr
        ctx.evaluations += 1
        ctx.traces_validated += 1
        if expect_fail:
            shapes.add((json.dumps(want), c["later"], c["dq"], c["retry"]))
    for c in follow:
        log = out[c["idx"]]
        first = list(range(1, c["n"] + 1))
        second = list(range(c["n"] + 1, c["n"] + c["follow"] + 1))
        dqs = [e["id"] for e in log if e["t"] == "dq"]
        commits = [e["id"] for e in log if e["t"] == "commit"]
        base = {"stage": "es", "sink": "elasticsearch", "case": {k: c[k] for k in ("n", "retry", "follow")}}
        if any(e["t"] == "timeout" for e in log):
            recs.append(dict(base, kind="es_follow_hang", dq=dqs, commits=commits))
        elif sorted(dqs) != first or sorted(commits) != second:
            recs.append(dict(base, kind="es_dead_queue_got_other_events", dq=dqs, commits=commits, want_dq=first, want_commits=second))
        ctx.evaluations += 1
        ctx.traces_validated += 1
    if drift:
        vlib.log("MODEL-DRIFT: elasticsearch retried %d script(s) the transcription classifies as success/drop" % drift)
        ctx.drift += drift
    if isinstance(ctx.nontrivial, set):
        ctx.nontrivial |= {("c09es",) + s for s in shapes}
    return {"scripts": len(scripts), "runs": len(cases), "runs_with_retryable_first_attempt": len(shapes)}


def generic_stage(ctx, recs):
    """backend fails k times with a retryable failure, then succeeds (k <= retry+1) or never succeeds"""
    stats = {}
    for sink in GENERIC:
        src = os.path.join(vlib.OVERLAY_SRC, "plugin", "output", sink, "zz_verif_c09_out_test.go")
        if not os.path.exists(src):
            continue
        cases = []
        for n in (1, 3):
            for retry in (0, 1, 3):
                for dq in (False, True):
                    for k in list(range(0, retry + 2)) + [-1]:          # -1: never succeeds
                        cases.append({"idx": len(cases), "n": n, "retry": retry, "dq": dq, "fail": k})
        binary = ctx.c09o_builds["plugin/output/" + sink].result()
        out, crash = run_harness(ctx, binary, "^TestVerifC09Out$", cases, sink)
        if crash:
            recs.append(dict(crash, sink=sink))
            stats[sink] = {"runs": 0, "crashed": True}
            continue
        for c in cases:
            log = out[c["idx"]]
            ids = list(range(1, c["n"] + 1))
            attempts = len([e for e in log if e["t"] == "req"])
            never = c["fail"] < 0
            base = {"stage": "generic", "sink": sink, "case": {k: c[k] for k in ("n", "retry", "dq", "fail")}}
            if never:
                rr = judge_common(base, log, ids, True, "same", c["dq"], c["retry"], attempts, "output")
            elif c["fail"] == 0:
                rr = judge_common(base, log, ids, False, "ok", c["dq"], c["retry"], attempts, "output")
            else:
                rr = judge_common(base, log, ids, True, "ok", c["dq"], c["retry"], attempts, "output")
                if not rr and attempts < c["fail"] + 1:
                    rr.append(dict(base, kind="output_attempts_too_few", attempts=attempts, failures_scripted=c["fail"], log=log))
            recs += rr
            ctx.evaluations += 1
            ctx.traces_validated += 1
            if isinstance(ctx.nontrivial, set) and c["fail"] != 0:
                ctx.nontrivial.add(("c09out", sink, c["n"], c["retry"], c["dq"], c["fail"]))
        stats[sink] = {"runs": len(cases)}
    return stats


def fd_stage(ctx, recs):
    """scope of a dead queue: specs/DeadQueueScope.tla + pipelines built through fd.addPipeline in every order"""
    quick = ctx.tier == "quick"
    res = ctx.tlc_expect_ok("DeadQueueScope", "DeadQueueScope_quick.cfg" if quick else "DeadQueueScope_thorough.cfg", deadlock=False,
                            timeout=1800, workers=2, name="DeadQueueScope: routing is a function of the pipeline's own config (modulo D)")
    cases = res.printed
    if len(cases) < 100:
        raise vlib.Infra("DeadQueueScope exported only %d cases" % len(cases))
    for sw in ("M_DeadQueueOnCopy", "M_LenCheckedBeforeTypeRemoved"):
        m = ctx.tlc("DeadQueueScope", "DeadQueueScope_mut.cfg", deadlock=False, timeout=1800, workers=2,
                    overrides={sw: "FALSE"}, name="DeadQueueScope mutant %s off" % sw)
        if m.ok or m.violated != "DeadQueueIffDeclared":
            raise vlib.Infra("spec mutant %s=FALSE is not rejected (ok=%s %s)" % (sw, m.ok, m.violated))
    st = ctx.tlc("DeadQueueScope", "DeadQueueScope_strict.cfg", deadlock=False, timeout=1800, workers=2,
                 name="DeadQueueScope strict DeadQueueIsOwn, deviation on")
    if st.ok or st.violated != "DeadQueueIsOwn":
        raise vlib.Infra("strict DeadQueueIsOwn with the deviation on: expected a counterexample, got ok=%s %s" % (st.ok, st.violated))
    ideal = ctx.tlc("DeadQueueScope", "DeadQueueScope_strict.cfg", deadlock=False, timeout=1800, workers=2,
                    overrides={"D_DqConfigOnRegistryEntry": "FALSE"}, name="DeadQueueScope strict, deviation off (ideal)")
    if not ideal.ok:
        raise vlib.Infra("strict DeadQueueIsOwn without the deviation should hold: %s" % ideal.violated)
    cases.sort(key=lambda c: json.dumps(c, sort_keys=True))
    if quick:
        two = [c for c in cases if len(c["cfgs"]) == 2]
        three = [c for c in cases if len(c["cfgs"]) > 2]
        cases = two + ctx.rng.sample(three, min(len(three), 60))
    for i, c in enumerate(cases):
        c["idx"] = i
    binary = ctx.c09o_builds["fd"].result()
    path = os.path.join(ctx.scratch, "c09fd_cases.ndjson")
    outp = os.path.join(ctx.scratch, "c09fd_out.ndjson")
    with open(path, "w") as f:
        for c in cases:
            f.write(json.dumps({"idx": c["idx"], "cfgs": c["cfgs"], "order": c["order"]}) + "\n")
    rc, txt = ctx.run_bin(binary, "^TestVerifC09Fd$", env={"VERIF_CASES": path, "VERIF_OUT": outp, "LOG_LEVEL": "error"}, timeout=2700)
    if rc != 0:
        raise vlib.Infra("C09 outputs stage: fd harness failed rc=%s:\n%s" % (rc, txt[-3000:]))
    out = {}
    for line in open(outp):
        r = json.loads(line)
        out[r["idx"]] = r
    if len(out) != len(cases):
        raise vlib.Infra("C09 outputs stage: fd harness executed %d of %d cases" % (len(out), len(cases)))
    for c in cases:
        r = out[c["idx"]]
        base = {"stage": "fd", "case": {"cfgs": c["cfgs"], "order": c["order"]}}
        if r["static_plain_has_dq"]:
            recs.append(dict(base, kind="fd_static_info_has_dead_queue", dq_type=r.get("static_plain_dq_type")))
        # getStaticInfo per section shape: a dead queue iff the section names a type (an empty section = none)
        for shape, want in (("none", False), ("empty", False), ("type", True), ("a", True)):
            got = (r.get("static_shape_has_dq") or {}).get(shape)
            if got is not None and got != want:
                recs.append(dict(base, kind="fd_static_info_dead_queue_dropped" if want else "fd_static_info_has_dead_queue",
                                 section_shape=shape))
        for pi, pp in enumerate(r["pipes"]):
            declared = pp["cfg"] not in ("none", "empty")       # the section names a type; {} is the same as no section
            want_name = "default" if pp["cfg"] == "type" else pp["cfg"]
            b = dict(base, pipeline=pi + 1, section=pp["cfg"], observed={k: pp[k] for k in ("errcb", "handed", "commits")})
            offs = sorted(pp["commits"])
            if pp.get("timeout"):
                recs.append(dict(b, kind="fd_hang"))
                continue
            if any(n != 1 for n in pp["commits"].values()):
                recs.append(dict(b, kind="fd_commit_count"))
            if pp["errcb"] != len(offs):              # one event per batch: one given-up batch per event
                recs.append(dict(b, kind="fd_error_callback_count"))
            handed = pp["handed"] or []
            if not declared:
                if handed:
                    recs.append(dict(b, kind="fd_foreign_dead_queue", dq_names=sorted({h["dq_name"] for h in handed})))
            else:
                if not handed:
                    # declared, never set up: nothing handed over, the main output commits
                    recs.append(dict(b, kind="fd_declared_dead_queue_not_used", type_only_section=pp["cfg"] == "type"))
                elif sorted(str(h["offset"]) for h in handed) != offs:
                    recs.append(dict(b, kind="fd_dead_queue_handover"))
                wrong = sorted({h["dq_name"] for h in handed if h["dq_name"] != want_name})
                if wrong:
                    recs.append(dict(b, kind="fd_dead_queue_config_of_other_pipeline", got=wrong,
                                     got_is_config_of_last_constructed_pipeline_with_dead_queue=wrong == [c["model_dq_config"][pi]],
                                     events_still_handed_over_once_and_committed_once=(
                                         sorted(str(h["offset"]) for h in handed) == offs and all(n == 1 for n in pp["commits"].values()))))
            ctx.evaluations += 1
        ctx.traces_validated += 1
        if isinstance(ctx.nontrivial, set) and len(set(c["cfgs"])) > 1:
            ctx.nontrivial.add(("c09fd", tuple(c["cfgs"]), tuple(c["order"])))
    return {"cases_from_tlc": len(res.printed), "cases_run": len(cases)}


def start_builds(ctx):
    """the five test binaries are compiled in the background while TLC runs (go_test_build creates its private go.mod
    directory lazily, which is not thread-safe: create it first)"""
    md = os.path.join(ctx.scratch, "gomod")
    if not os.path.isdir(md):
        os.makedirs(md)
        for f in ("go.mod", "go.sum"):
            shutil.copy(os.path.join(vlib.REPO, f), md)
    ctx.overlay_json()
    pool = concurrent.futures.ThreadPoolExecutor(max_workers=6)
    pkgs = ["fd", ES_PKG] + ["plugin/output/" + s for s in GENERIC
                       if os.path.exists(os.path.join(vlib.OVERLAY_SRC, "plugin", "output", s, "zz_verif_c09_out_test.go"))]
    ctx.c09o_builds = {p: pool.submit(ctx.go_test_build, p) for p in pkgs}
    pool.shutdown(wait=False)


def stage(ctx):
    recs = []
    start_builds(ctx)
    info = {"elasticsearch": es_stage(ctx, recs)}
    info["generic"] = generic_stage(ctx, recs)
    info["dead_queue_scope"] = fd_stage(ctx, recs)
    ctx.extra["c09_outputs"] = info
    ctx.assumptions += [
        "C09 plugin-level stage: one batcher worker, retention 1ms; elasticsearch scripts enumerated by TLC for batches of <= 4 "
        "(thorough 6) events; retryable = 503 or a connection closed without an answer; the 400 / final-413 drop without retry is "
        "the plugin's documented classification; the generic family covers http, splunk, loki, kafka (gelf sleeps 1 s per failed "
        "attempt and file has no retry option: not covered)",
    ]
    ctx.assumptions.append(
        "C09 dead-queue scope: per pipeline the deadqueue section is absent, {}, type only, or type + option ({} is treated as absent, as the code does); 2..3 pipelines with one output type and one dead-queue type, built through fd.addPipeline in every "
        "order with harness plugins around the real RetriableBatcher / Router (real output plugins cannot be imported into package "
        "fd: import cycle); one event per batch")
    vlib.log("C09 outputs stage: %s" % json.dumps(info))
    ctx.classify(recs)
