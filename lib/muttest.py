#!/usr/bin/env python3
"""dev tool: muttest.py <worktree> <name> <file> <old> <new> <check ids...> : apply one textual mutation in a scratch
worktree, run the given checks against it (VERIF_REPO), print verdicts, revert."""
import os, subprocess, sys
wt, name, f, old, new = sys.argv[1:6]
ids = sys.argv[6:]
p = os.path.join(wt, f)
s = open(p).read()
if old not in s:
    print("MUT %s: pattern not found" % name); sys.exit(2)
open(p, "w").write(s.replace(old, new, 1))
try:
    for i in ids:
        env = dict(os.environ, VERIF_REPO=wt, VERIF_DEV_SKIP_DESIGN="1")
        r = subprocess.run(["/verif/bin/check", i, "--tier", "quick"], env=env, stdout=subprocess.PIPE, stderr=subprocess.STDOUT, text=True)
        kinds = sorted(set(l.split('"kind": "')[1].split('"')[0] for l in r.stdout.splitlines() if l.startswith("violation record") and '"kind": "' in l))
        last = [l for l in r.stdout.splitlines() if l.startswith(("VIOLATION", "OK ", "INFRA"))]
        print("MUT %-28s %s rc=%d %s %s" % (name, i, r.returncode, kinds, (last[-1][:160] if last else r.stdout[-300:])))
finally:
    subprocess.run(["git", "-C", wt, "checkout", "--", "."])
