#!/usr/bin/env python3
"""Regenerates /verif/MANIFEST.json from the table below (one source of truth for the registered checks)."""
import json
import os

VERIF = os.path.dirname(os.path.dirname(os.path.abspath(__file__)))

# id -> (technique, level text, level note, design ref)
CORE_NOTE = 'Trusted: harness-owned input/action/output plugins around the real Pipeline, streams, pools, Batcher and RetriableBatcher; action chain limited to a filter and a join-like action; small-scope model (<=4 events, 2 processors, 2 workers); real schedules are sampled (scripted + random), not exhaustive; property monitors evaluated by TLC on every recorded step.'

CHECKS = {
    "C01": ("TLC model checking of Pipeline.tla (design model, one action per critical section) + TLC-generated schedules (spec-mutant "
            "counterexamples, simulation) replayed into the real pipeline + TLC trace validation of every run against PipelineObs monitors",
            "The commit-frontier invariant is checked exhaustively on the design model (all interleavings of reader, 2 processors, 2 workers, "
            "discards, retries, dead queue in small scope); the same invariant is then evaluated by TLC on every step of traces recorded from the "
            "real code under schedules that TLC constructed to distinguish an implementation with each commit-ordering mechanism from one without.",
            CORE_NOTE, "DESIGN.md §6 C01"),
    "C02": ("same machinery as C01; monitors: per-stream commit order, strictly increasing offsets, no duplicate, every accepted event "
            "committed xor silently dropped at idle",
            "Order/once/accounted invariants checked exhaustively on Pipeline.tla and evaluated by TLC on every recorded step of the real pipeline "
            "under constructed and random schedules (several sources/streams, hold/collapse runs, refusals).", CORE_NOTE, "DESIGN.md §6 C02"),
    "C05": ("same machinery as C01 with capacity-1..3 scenarios on both pools; monitors: owned events <= capacity, single owner per event "
            "object, pool counter within [0,capacity], zero in use and no waiter at idle",
            "Pool-occupancy invariants checked on Pipeline.tla and evaluated by TLC on traces of the real pools (std and low_memory) at capacities "
            "down to 1 with concurrent readers, discards, holds and decode failures.", CORE_NOTE, "DESIGN.md §6 C05"),
    "C08": ("same machinery as C01 with batcher-centred scenarios; monitors: batch size bound, batches committed in sequence order each after "
            "its own send returned, every added event committed exactly once",
            "Batch-order invariants checked on Pipeline.tla (all completion orders of 2 workers) and evaluated by TLC on traces of the real Batcher "
            "under schedules in which a later batch's send returns first.", CORE_NOTE, "DESIGN.md §6 C08"),
    "C09": ("same machinery as C01 with failing sends, retries 0..2, with/without dead queue; monitors: attempts before give-up, no commit "
            "while retrying, one Fail per event, committed by the dead queue alone / error callback once and committed by main once",
            "Retry/dead-queue routing invariants checked on Pipeline.tla (all outcome sequences within the failure bound) and evaluated by TLC on "
            "traces of the real RetriableBatcher with scripted and random failures.", CORE_NOTE, "DESIGN.md §6 C09"),
    "C10": ("TLC model checking of KafkaInput.tla (routing x completion orders; spread routing named as deviation) + traces of the real "
            "kafka Plugin.Commit / pconsumer.consume / franz-go marks in a real spread-mode pipeline validated by TLC (KafkaMon.tla) + packing "
            "boundary cases replayed on the real assemble/disassemble functions",
            "MarkSafe/MarkOwn/MarkMonotone are checked exhaustively on the design (all routings of <=4-5 records over 2 partitions and 2-3 "
            "processors, all completion orders); the real plugin's marks are read from a real franz-go client after every Commit and each "
            "recorded step is checked by TLC against the same clauses; spread routing violates MarkSafe by design (known finding D10).",
            "Trusted: franz-go's in-memory mark bookkeeping on a client that never connects; the broker-dependent part of Plugin.Start/Stop is "
            "not run; actions/output are harness-owned; TLC integers are 32-bit so offsets above 2^31 are checked outside TLC with the spec's formulas.",
            "DESIGN.md §6 C10"),
    "C04": ("TLC model checking incl. liveness under fairness of detailed pool protocol specs (EventPoolLowMem/EventPoolStd: atomics, lock, "
            "cond-var, heartbeat) and of Pipeline.tla; TLC trap schedule of the lost-wake-up window replayed on the real pools through "
            "verif hook gates; end-to-end progress runs of the real pipeline validated by TLC",
            "NoWedge and eventual completion are model-checked for both pool protocols and for the pipeline model under weak fairness, and the "
            "mechanisms (heartbeat condition) are shown necessary by spec mutants; the window TLC constructs (Broadcast between availability "
            "check and Cond.Wait) is then reproduced deterministically on the real pools and the getter must resume within a bound; real "
            "pipeline runs at capacity 1, single processor, time-out-only flushes and timer-only batch flushes must reach idle.",
            "Trusted: bounded-time is judged by generous wall-clock bounds with the heartbeat interval shortened in-package; Go scheduler "
            "fairness; stream/processor protocol is covered at the granularity of Pipeline.tla (joinStream/attach/instantGet/blockGet/time-out), "
            "not lock by lock.", "DESIGN.md §6 C04"),
    "C06": ("TLA+ transcription of the read loop model-checked against a declarative line/offset oracle (TLC, exhaustive "
            "small scope); every TLC-exported case replayed on the real worker.work and compared",
            "TLC proves on the whole small-scope case space (all contents over {x,\\n} up to the bound x all splits into appends x "
            "all buffer sizes x size limits x cut_off x resume offsets) that the transcribed read loop hands over exactly the "
            "expected (offset, bytes) calls; the real worker.work is then executed on real files for those cases and must produce "
            "the same calls, so an off-by-one in scanned/lastOffset/accumBuf/tail handling shows as a differing call.",
            "Trusted: the transcription is bound to the code only through the replayed cases (small scope: length <= 5/7, two symbols); "
            "OS file semantics; lz4 path not covered.", "DESIGN.md §6 C06"),
}

NOT_APPLICABLE = {
    "C12": "decoders: totality/fidelity of nine byte-level parsers has no state or transitions for a TLA+ model; "
           "the deciding technique would be fuzzing/round-trip property testing, a different family (DESIGN.md §7)",
    "C13": "action-plugin robustness over all JSON events is fuzzing territory; the one protocol-level clause (which "
           "time-out events an action can receive) is decided under C15/C04 (DESIGN.md §7)",
}

NOT_YET = {
}

ALL = ["C%02d" % i for i in range(1, 21)]


def main():
    checks = []
    for pid in ALL:
        if pid not in CHECKS:
            continue
        tech, text, note, ref = CHECKS[pid]
        checks.append({
            "property_id": pid,
            "quick_cmd": "bin/check %s --tier quick" % pid,
            "thorough_cmd": "bin/check %s --tier thorough" % pid,
            "evidence_file": "/verif/evidence/%s.json" % pid,
            "replay_cmd_template": "bin/check %s --replay {path}" % pid,
            "engine": "tlc+go-harness",
            "level_claimed": {"category": "model_checking", "text": text, "design_ref": ref},
            "level_note": note,
            "technique": tech,
        })
    na = []
    for pid in ALL:
        if pid in CHECKS:
            continue
        if pid in NOT_APPLICABLE:
            na.append({"property_id": pid, "reason": NOT_APPLICABLE[pid]})
        else:
            na.append({"property_id": pid, "reason": NOT_YET.get(pid, "check not built yet (work in progress; planned per DESIGN.md §6)")})
    hooks_file = os.path.join(VERIF, "hooks.json")
    hooks = json.load(open(hooks_file)) if os.path.exists(hooks_file) else {"source_commits": []}
    m = {
        "version": 1,
        "setup_cmd": "bin/setup",
        "hooks": {
            "guard": "verif",
            "enable": "go test -tags verif -overlay <generated overlay.json> (in-package harness files live in /verif/harness/overlay and are mapped into /repo at build time; /repo is not modified)",
            "baseline_off_cmd": "cd /repo && GOFLAGS=-mod=mod GOPROXY=off go test -vet=off -count=1 -timeout 25m ./...",
            "source_commits": hooks.get("source_commits", []),
            "add_only": True,
        },
        "engines": [
            {"name": "tlc+go-harness", "path": "/verif/bin/check",
             "serves_properties": [c["property_id"] for c in checks],
             "kind_free_text": "explicit TLA+ specifications (specs/) checked by TLC; TLC-generated cases/behaviours replayed into the real Go code and traces of the real code validated against the specification"},
        ],
        "checks": checks,
        "not_applicable": na,
        "notes": "See DESIGN.md. Exit 0 = held (KNOWN-FINDING lines allowed), 1 = VIOLATION, 2 = infrastructure failure.",
    }
    json.dump(m, open(os.path.join(VERIF, "MANIFEST.json"), "w"), indent=1)
    print("MANIFEST.json: %d checks, %d not_applicable" % (len(checks), len(na)))


if __name__ == "__main__":
    main()
