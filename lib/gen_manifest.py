#!/usr/bin/env python3
"""Regenerates /verif/MANIFEST.json from the table below (one source of truth for the registered checks)."""
import json
import os

VERIF = os.path.dirname(os.path.dirname(os.path.abspath(__file__)))

# id -> (technique, level text, level note, design ref)
CORE_NOTE = 'Trusted: harness-owned input/action/output plugins around the real Pipeline, streams, pools, Batcher and RetriableBatcher; action chain limited to a filter/split action (children passing or held), a selective join-like action and a post-filter; inputs that refuse events themselves; small-scope model (<=4 events, 2 processors, 2 workers); real schedules are sampled (scripted + random), not exhaustive; property monitors evaluated by TLC on every recorded step.'

CHECKS = {
    "C07": ("TLA+ model of a crash-consistent file system + the save protocol of offsetDB.save / offset.Save (deviation switches; residual / "
            "faithful / fixed configs) + byte-level transcription of the offsets-file writer and parser, checked by TLC; TLC fault schedules "
            "executed by the real code under strace with injected syscall failures, syscall traces validated by TLC (OffsetsFileTrace), every "
            "crash-allowed disk content loaded by the real load(), every enumerated job table (offsets incl. 0, names incl. format directives and other special bytes) round-tripped through real save/load; truncate/commit/save/load sequences on the real code",
            "TLC proves AlwaysLoadable / NeverAhead / DurableBeforeReplace / FailedStepKeepsOld on every behaviour in which no named deviation fired "
            "(2 jobs x 2 streams, commits interleaved with saves, every single and double step failure, every crash view) and the writer/parser "
            "round trip outside the D8 class; the real code is bound by strace trace validation of every fault shape and real load() of all "
            "materialised post-crash states.",
            "Trusted: weakest-POSIX crash semantics of the model (crashes are not executed); strace EIO injection standing in for real I/O errors; "
            "partial failing writes only at model level; commit placements sampled; directory-entry durability not demanded.", "DESIGN.md §6 C07"),
    "C11": ("TLA+ transcription of serveBulk/processBulk/processChunk model-checked by TLC against the declarative SplitOnNL oracle (serial and "
            "two interleaved requests, spec mutants rejected); every exported case replayed on the real plugin (Start with address off, ServeHTTP) "
            "plain and gzip (also truncated gzip payloads and ErrUnexpectedEOF bodies), plus seeded long-line and concurrent families, blocked-In windows for pooled buffers and the pooled gzip readers (object identity in the spec)",
            "TLC proves on all bodies over {a,\\r,\\n} up to the bound x all splits into reads x EOF/err flavours x empty reads x a second request "
            "reusing pooled buffers that exactly SplitOnNL(body) is handed over, 200 only afterwards and never on a reader error, and that two "
            "interleaved requests never share a source id or bytes; the real plugin must produce the same In calls and status position.",
            "Trusted: transcription bound to the code through the replayed cases (length <= 5/6, three symbols); long lines and concurrency by seeded "
            "derivations; net/http framing below ServeHTTP and sync.Pool semantics assumed.", "DESIGN.md §6 C11"),
    "C14": ("declarative three-valued TLA+ evaluator of the documented do_if / match_fields semantics + transcription of the code's short-cut "
            "evaluation, model-checked against each other by TLC (named deviation switches); every exported rule built through the real config "
            "path and compared on every event with doif.Checker.Check, processor.doActions/isMatch (two event orders, and at the head of a chain whose last "
            "action holds a run, and as child events through processor.Spawn: ActionChain.tla) and end to end via fd.SetupActions (also behind the real split plugin); ts_cmp against now with shifts; multi-byte characters",
            "TLC proves on all rules in scope (every field op x value lists x case flag, regexp family, length/int/timestamp/type leaves x six "
            "comparators, all and/or/not trees to depth 2-3, and/or/and_prefix/or_prefix x exact/list/regexp x invert) x all small events that the "
            "transcribed evaluation equals the documented value outside four named defect classes; the real code must give the documented value on "
            "all those pairs independently of event order and construction path.",
            "Trusted: Go regexp and time parsing (regexps restricted to a family with structural truth); small scope; where README/doc comments are "
            "silent the oracle accepts both outcomes; four known findings excused only under narrow signatures.", "DESIGN.md §6 C14"),
    "C15": ("TLA+ transcriptions of join.Do/flush (+ the processor's addressing of events and time-outs for a two-action chain) and of the k8s "
            "MultilineAction.Do, model-checked by TLC against a declarative Runs/Output oracle; every exported (case, time-out placement) replayed on "
            "the real join, join_template and k8s plugins; timed runs of the real pipeline (join and join_template, also with the real discard action behind them) checked per stream against the TLC table; stream-level windows of the shared core harness",
            "TLC proves for all class sequences <=5/6 x time-out placements x max_event_size x negate/templates (and all k8s fragment sequences x "
            "limits x cut-off x split) that the transcriptions output exactly Output(seq, TO) with the code's deviations as named switches; all cases "
            "are executed on the real plugins and real-pipeline runs must show the same per-stream output, no cross-stream merge, no panic and a flush "
            "within 3 s of quiet (3/3).",
            "Trusted: small scope (<=1 action besides the join, synchronous output); transcription bound to the code through the replayed cases; five "
            "genuine defects carried as known findings (D5, D12, D15, D16, D17).", "DESIGN.md §6 C15"),
    "C16": ("TLA+ transcription of inMemoryLimiter.isAllowed / getDistrData / rebuildBuckets model-checked by TLC against the declarative per-key, "
            "per-bucket, per-share budget statement (+ 8 spec mutants that must be rejected); every exported history replayed step by step on the "
            "real inMemoryLimiter and the real Plugin.Do with the statement re-evaluated on the real pass/discard history; limiter expiry (Maintain) and "
            "the concurrent getOrAdd protocol (SpecMap) and rule selection with several conditions (SpecRule) specified too; getOrAdd raced on 8 real plugin instances, rules through the real Start in several written orders",
            "TLC proves on all small-scope histories (1-2 keys, 3-5 events, buckets_count 1-4, limits 0-4, count/size kind, distribution, event times "
            "inside/outside/ahead of the window, clock jumps) that the ring/rotation/re-map/add-then-compare/steal logic never passes more than the "
            "limit or share, never rejects under the limit and decides each key from its own sub-history; all histories are executed on the real "
            "limiter and plugin and every decision must be one the statement allows.",
            "Trusted: transcription bound to the code through replayed small-scope histories; in-memory backend; limiter expiry off; decisions the "
            "statement leaves open are not constrained; non-monotone clock gives drift warnings only.", "DESIGN.md §6 C16"),
    "C17": ("functional TLA+ specification of masking over the regexp engine's own submatch table, TLC-checked on all small abstract tables "
            "together with a step transcription of maskValue; every logged execution of the real Plugin.Do validated by TLC (MaskTrace.tla) against "
            "the same predicates; MaskDoIf.tla (do_if decided on the event as it arrived) and MaskRules.tla (match rules shared by plugin instances) with stress families on shared configurations",
            "TLC shows on every abstract table (<=4 characters, <=2 matches, <=2 groups, all group lists and modes) that the transcribed loop returns "
            "only acceptable outputs and fails exactly in the named D13 situations; 6x10^4 (quick) to 5.6x10^5 (thorough) real executions must satisfy "
            "OutsideKept, SecretGone, exact rendering where ranges are disjoint and ascending, applied/metric equivalence and tree scope.",
            "Trusted: Go's regexp engine (its table is an input, checked well-formed); small alphabet and lengths; rendering of overlapping/nested/"
            "empty selections left open; do_if and non-object roots not covered; D13 and D18 carried as known findings.", "DESIGN.md §6 C17"),
    "C18": ("TLA+ transcription of ParseFieldSelector, ParseNestedFields, keep_fields.traverseFieldsTree (depth buffers) and remove_fields' "
            "Dig+Suicide loop model-checked by TLC against declarative Keep/Remove/Norm; every exported (document, selector list, expected results) "
            "case replayed on the real plugins through Start and Do (regular, child and child-parent events; wide objects up to 250 members; behind the real split plugin) and compared as an ordered token sequence",
            "TLC shows over the whole small scope (8 families; 0.49 M cases quick, 3.6 M thorough) that the transcribed algorithms equal the naive "
            "project/subtract functions exactly with an order-preserving delete and up to member order under the named deviation D_SwapDelete; both "
            "real plugins are run on every case with user-written selector strings.",
            "Trusted: small scope (<=5 members, depth <=3, five key names, <=3 selectors); replay is the only tie between transcription and code; "
            "numeric path elements, the '..' selector form, duplicate keys and >16-member objects not covered.", "DESIGN.md §6 C18"),
    "C19": ("TLA+ transcription of the elasticsearch/http out function (per-worker outBuf/begin reuse, Batch.ForEach, recursive sendSplit on 413) "
            "model-checked by TLC against Payload / FramingOK / BodyIs / SplitCovers (spec mutants, strict-versus-deviation pair for D14); every "
            "exported case replayed into the real output plugins (ES, http, splunk, loki, file, kafka, gelf) with adversarial routing values, each "
            "captured body parsed back into event ids and per-event routing (topic / index / host / fields); OutputFileSink.tla (concurrent workers and seal-up on the file sink) replayed on the real file plugin with two workers, payloads over 64 KiB and sealUp mid-flight; pipeline-side stage: recycled event objects and split, Batch.ForEach yields exactly the deliverable events",
            "TLC proves on the small-scope case space (every monotone 413 pattern over <=4 events, <=3 shrinking batches, event kinds, size classes) "
            "that the buffer/begin/split arithmetic delivers exactly the deliverable events once and in order, D14 characterised exactly; the real "
            "plugins' captured bodies must parse and carry the same ids.",
            "Trusted: transcription bound to the code through the replayed cases (<=4 events, <=3 batches, one worker); only 413 answers scripted; "
            "JSON validity is structural; clickhouse/postgres/s3/socket/stdout outputs not covered; three known findings.", "DESIGN.md §6 C19"),
    "C20": ("TLA+ transcription of checkInputBytes/In and of Antispammer.IsSpam/Maintenance model-checked by TLC against declarative admission "
            "invariants; every exported size case and every maximal arrival/maintenance history replayed on the real Pipeline.In / Antispammer "
            "step by step (ASCII, multi-byte UTF-8 and binary bytes at the cut position); pipeline-scheduled maintenance on running pipelines; CRI decoder path with the antispam on/off; exception lists as sequences; rule evaluation read-only on the record",
            "TLC proves on the small-scope space (record lengths 0..M+2 x newline x max_event_size x cut_off x mark x decodable x committed; all "
            "arrival/maintenance histories up to 8-11 steps, thresholds 1-3/disabled, unban 4 and 1, exception/rule classes) that the transcription "
            "refuses, cuts, marks, bans and unbans only as the statement allows; every case is executed on the real code and verdict, delivered bytes, "
            "mark and ban state are compared after each step.",
            "Trusted: small scope; sequential IsSpam/Maintenance (no concurrent callers of one source); one threshold per source; decoder fidelity "
            "excluded (C12); two genuine deviations carried as known findings.", "DESIGN.md §6 C20"),

    "C01": ("TLC model checking of Pipeline.tla (design model, one action per critical section) + TLC-generated schedules (spec-mutant "
            "counterexamples, simulation) replayed into the real pipeline + TLC trace validation of every run against PipelineObs monitors",
            "The commit-frontier invariant is checked exhaustively on the design model (all interleavings of reader, 2 processors, 2 workers, "
            "discards, hold/collapse runs with a selective holder, split parents and children, retries, dead queue in small scope); the same invariant is then evaluated by TLC on every step of traces recorded from the "
            "real code under schedules that TLC constructed to distinguish an implementation with each commit-ordering mechanism from one without.",
            CORE_NOTE, "DESIGN.md §6 C01"),
    "C02": ("same machinery as C01; monitors: per-stream commit order, strictly increasing offsets, no duplicate, every accepted event "
            "committed xor silently dropped at idle",
            "Order/once/accounted invariants checked exhaustively on Pipeline.tla and evaluated by TLC on every recorded step of the real pipeline "
            "under constructed and random schedules (several sources/streams, hold/collapse runs, refusals).", CORE_NOTE, "DESIGN.md §6 C02"),
    "C05": ("TLC model checking of the pool protocol specs (EventPoolStd: SingleOwner, NoNilHandout, Bounded, ZeroAtEnd; EventPoolLowMem: Bounded, CounterSound) and of Pipeline.tla's pool part; holder-counting stress and size-class sweep on the real pools; pipeline runs at capacities 1..3 (refusals, holds, splits) whose ownership and in-use samples are validated by TLC on every recorded step",
            'Slot ownership and the capacity bound are proven for both pool protocols in small scope; on the real pools the harness counts events held at one instant under 4 and 16 concurrent readers (capacity 1..3, both kinds), cycles every size-class boundary up to 2^31 (in use back to zero, no slot lost), and the observer checks owned<=capacity, single owner per object, counter in [0,capacity], zero and no waiter at idle on every pipeline trace; events still held after the quiet period of a run that never reaches idle count as never returned.',
            CORE_NOTE, "DESIGN.md §6 C05"),
    "C08": ('TLC model checking incl. liveness of BatcherProto.tla (mutex/channel/worker granularity, Stop, heartbeat; send-after-unlock kept as a spec mutant that must reach the closed-channel send) and of Pipeline.tla; the real Batcher driven directly (byte/count bounds, heartbeat-only staleness, regular/child/child-parent mixes incl. zero-size children, scripted completion orders, Stop racing with 8 adders in a child process) and inside the pipeline; traces validated by TLC (PipelineMon) and model-generated runs checked for conformance (PipelineTrace)',
            'SizeBound (count, bytes), CommitInSeqOrder, CommitOnlySent, CommitOnce, Staleness, AllCommitted and StopTerminates are proven on BatcherProto; every clause is evaluated by TLC on each step of traces of the real Batcher under schedules where later batches finish first, batches hold only split parents, a non-first batch is given up, and Stop hits concurrent Adds (300/2000 trials).',
            CORE_NOTE, "DESIGN.md §6 C08"),
    "C09": ('same machinery as C01 with failing sends, retries 0..5, with/without dead queue, split parents/children in given-up batches; monitors: attempts before give-up, lower bound retention*mult^(k-1)/2 on the k-th pause (time stamps), no commit while retrying, one Fail per event, committed by the dead queue alone / error callback once and committed by main once, payload identity of dead-queued events; plus plugin-level stages (lib/c09_outputs.py): EsSplit.tla = the elasticsearch out/send/sendSplit classification against every backend script, replayed on the real plugin behind the real RetriableBatcher; a failing-sink family for http, splunk, loki, kafka; DeadQueueScope.tla = a pipeline routes by its own configuration, pipelines built through the real fd.addPipeline / getStaticInfo in every order',
            'Retry/dead-queue routing invariants are checked on Pipeline.tla (all outcome sequences within the failure bound) and evaluated by TLC on traces of the real RetriableBatcher with scripted and random failures, several workers (shared back-off state shows as a pause below its lower bound) and the real Router.',
            CORE_NOTE, "DESIGN.md §6 C09"),
    "C10": ("TLC model checking of KafkaInput.tla (routing x completion orders; spread routing named as deviation) + traces of the real "
            "kafka Plugin.Commit / pconsumer.consume / franz-go marks in a real spread-mode pipeline validated by TLC (KafkaMon.tla) + the real "
            "Plugin.Start / Commit / Stop against an in-process Kafka broker (harness-owned, speaks the wire protocol) whose OffsetCommit requests "
            "TLC judges (BrokerCommit rule; back pressure with small fetch responses; records tracked from the hand-out; leader-epoch rewinds; split records) + packing boundary cases replayed on the real assemble/disassemble functions",
            "MarkSafe/MarkOwn/MarkMonotone are checked exhaustively on the design (all routings of <=4-5 records over 2 partitions and 2-3 "
            "processors, all completion orders); the real plugin's marks are read from a real franz-go client after every Commit and each "
            "recorded step is checked by TLC against the same clauses; spread routing violates MarkSafe by design (known finding D10).",
            "Trusted: franz-go's mark bookkeeping; the in-process broker implements only the requests file.d's consumer sends (single member group, "
            "no rebalance storms); actions/output are harness-owned; TLC integers are 32-bit so offsets above 2^31 are checked outside TLC with the spec's formulas.",
            "DESIGN.md §6 C10"),
    "C03": ("TLC model checking of FileInput.tla (every kill instant, sync/async persistence, all stream assignments; the code's resume rule as "
            "named deviation D3, residual and repaired-rule configs, mechanism switches) + TLC-generated kill/restart histories performed on the "
            "REAL file input in a child process that is really SIGKILLed and restarted, rotation by rename (also of every line, at discovery), truncation (also while down), recycled-inode, slow-writer append-storm (appends at random instants under 1 ms maintenance) and remove_after families; FileDiscovery.tla and TruncCheck.tla specify discovery under rotation and truncation detection next to a concurrent reader (old code = rejected mutants); two-run "
            "histories judged by TLC (FileInputMon.tla)",
            "AtLeastOnce is checked exhaustively on the design for every kill point at the model's granularity; the resume rule's hole (D3) is "
            "reproduced at design level and on the real input, the residual and a repaired rule are proven in small scope, and every mechanism "
            "(seek-min, commit-after-ack, skip by own stream, strict skip) has a distinguishing history that the real code must survive without "
            "losing a line.",
            "Trusted: harness-owned gate action and durable output around the real file input + pipeline; kill instants at gate/commit "
            "granularity (the save protocol itself is C07); one file plus rotated predecessors; a line counts as lost after 6 s without progress; "
            "symlinks, lz4, remove_after, offsets_op tail/reset not covered.", "DESIGN.md §6 C03"),
    "C04": ('TLC model checking incl. liveness under fairness of detailed protocol specs (EventPoolLowMem/EventPoolStd: atomics, lock, cond-var, heartbeat; StreamProto: stream/streamer at mutex granularity incl. the two-step stream.commit mutant and the lifetime of the heartbeat goroutine; ProcGrowth: processor-pool growth) and of Pipeline.tla, each mechanism shown necessary by a spec mutant; TLC-constructed windows replayed on the real code (lost wake-up through verif hook gates; put || tryUnblock on a blocked stream); attend / timeout-then-detach / progress runs of the real pipeline validated by TLC',
            'NoWedge, NoEventLost, ChargedRight and eventual completion are model-checked for both pool protocols, the stream protocol and the pipeline model under weak fairness; the windows TLC constructs are reproduced deterministically on the real pools and streams and progress must resume within a bound; real pipeline runs at capacity 1, single processor, time-out-only flushes, timer-only batch flushes (also of a batch that holds only a split parent), back-to-back charges of K streams and detach-after-time-out sequences must reach idle with every stream attended.',
            'Trusted: bounded-time is judged by generous wall-clock bounds with heartbeat intervals shortened in-package; Go scheduler fairness; the stream protocol is replayed at the granularity of Pipeline.tla plus the constructed windows, StreamProto itself is design level.', "DESIGN.md §6 C04"),
    "C06": ("TLA+ transcription of the read loop model-checked against a declarative line/offset oracle (TLC, exhaustive "
            "small scope); every TLC-exported case replayed on the real worker.work and compared, alone and in groups of 2-3 files served by one "
            "worker goroutine (WorkerTails.tla), a sample end to end through the real file plugin inside a real pipeline with the size limit, and real .lz4 files resumed from every saved line-end offset",
            "TLC proves on the whole small-scope case space (all contents over {x,\\n} up to the bound x all splits into appends x "
            "all buffer sizes x size limits x cut_off x resume offsets) that the transcribed read loop hands over exactly the "
            "expected (offset, bytes) calls; the real worker.work is then executed on real files for those cases and must produce "
            "the same calls, so an off-by-one in scanned/lastOffset/accumBuf/tail handling shows as a differing call; the start state for offsets_op tail / reset is established by the real initJobOffset.",
            "Trusted: the transcription is bound to the code only through the replayed cases (small scope: length <= 5/7, two symbols); "
            "OS file semantics; lz4 only through whole real files (no transcription of the lz4 reader).", "DESIGN.md §6 C06"),
}


# later additions per check (rounds 4-5 of the seeded changes), appended to the technique text
ADDENDA = {
    "C01": "; a stage with the REAL split plugin in front of a real Batcher (every shape of the split field) recorded in the monitor's vocabulary; lines without a stream field (the pipeline's default stream) mixed with lines that carry one, the commit notification's stream compared with the line's; a delivery function that panics (child process); the back-off policy's own Stop exit (retry-budget scenarios)",
    "C02": "; the real file input as judge of its own commit notifications: FileInput.tla histories with several streams, killed and restarted while the saved per-stream offsets differ; truncation with unacknowledged lines in the file-input stage",
    "C03": "; further families on the real input: rotation at the instant of a restart (scan vs watch), remove_after expiry, a compressed (.lz4) file killed after the first acknowledged lines, truncated while down, recycled inode, append storms, slow writers; graceful stop as an action of FileInput.tla (M_StopSaves, CleanStopSavesAll reported as drift); truncation noticed by the pass that read the old content (small pool); symbolic links with rotation behind the link (SymlinkFollow.tla); D3's attribution refined (a lost line that was read again after the restart is not D3's); default stream saved ahead of a stream without an offset; a line of exactly max_event_size",
    "C04": "; LockOrder.tla (stream.mu / blockedMu nesting, TLC deadlock check) bound by a blocked-streams flow on the real streamer (64 streams, each with a processor in blockGet); get/back cycles for every event size class on both pools; Pipeline.Stop bounded in every run (stop_never_returns); chunk runs (class U: collapsed, nothing held) ended by the stream's time-out (M_DiscardResetsBusy, TimeoutEndsTheWait)",
    "C05": "; undecodable records also as oversize records cut off by max_event_size; every refusing exit of Pipeline.In returns its pool event (7 refusals against capacity 2, both pools)",
    "C06": "; maintenance ticks between read rounds as a stuttering step (M_MaintenanceKeepsTail) with the real maintenanceJob; several files served by one worker (WorkerTails.tla); compressed (.lz4) files from every saved line-end offset, paths containing the letter w, a compressed file being written followed by another job; end to end through the real file plugin in a real pipeline; maintenance ticks in the middle of a pass (MaintainBusy, M_MaintenanceSkipsBusyJob); a compressed job's second life after maintenance re-opened it; truncation noticed by the pass that read the data (harness-level declarative oracle)",
    "C08": "; BatcherProto numbers the uses of batch objects (HandOverOnce; M_HeartbeatOneSection, M_StopLeavesPartial as mechanisms with rejected mutants); an Add queued on the real batcher mutex behind the heartbeat while the open batch has expired; Stop trials with slow sends judged for per-adder commit order and commit-after-send-return; a lonely event behind a batch sealed by size with a 1.5 s flush time-out judged on the median wait over 41 runs; flush time-out 0",
    "C09": "; scripted send failures cycle through error values (plain, context deadline, cancelled, unexpected EOF); GiveUpHandover.tla (a given-up batch object refilled while the dead queue is slow) bound by a follow-batch family on the real elasticsearch plugin; the back-off policy's Stop exit; the dead queue is fed only on give-up (M_DeadQueueOnlyOnGiveUp)",
    "C10": "; in-process Kafka broker (real Start/Stop/Commit, broker-side OffsetCommit judged by KafkaMon), records tracked from the hand-out (Fetched), epoch rewinds, back-pressure, split records; a commit for something that is not a record is a violation record; Shutdown.tla (the input makes its position durable before the output abandons what is in flight) bound by stopping a whole real pipeline (kafka plugin, in-process broker) with sends in flight; a rebalance revokes the partitions (real Lost callback) with records in flight; a dead queue behind a failing backend",
    "C11": "; the compressed size / Content-Length of a gzip request is a case dimension (gzone), real gzip requests with a Content-Length replayed at compression ratios 50..900; the pipeline's max_event_size as a case dimension (every case with a limit below, equal to and above its longest line); Content-Type, URL query and the plugin's meta option as case dimensions, a sample replayed over a real net/http server",
    "C15": "; plugin instances started from ONE shared config object on different templates (JoinInstances.tla); the text of a flushed event is fixed at the flush (outputs re-read at the end of the case, a holding output in the timed runs); indented start lines per template",
    "C16": "; key length as a dimension (SpecKey: keys that differ only beyond byte 62)",
    "C17": "; number and index of masks (MaskSet.tla, up to 70 masks); do_if decided on the event as it arrived (MaskDoIf.tla); match rules stateless across instances (MaskRules.tla); anchored expressions and top-level alternations (every engine match is replaced: M_AllMatches); all-digit path elements over objects and arrays (MaskPath.tla); event sequences through one instance (MaskSeq.tla); match-rule value lists of different lengths (MaskRuleMatch.tla)",
    "C18": "; depth buffers per plugin instance: two-instance TLC model over all interleavings of buffer operations (M_BuffersPerInstance) and N>=4 real instances from one shared Config run concurrently on distinct documents; names matter only through equality (RenameInvariant lemma, M_NamesComparedWhole): every case re-run under injective name tables of 1..1000 bytes; selector lists padded to 9..40 entries (PadIrrelevant lemma, M_RemovePerSelector)",
    "C19": "; OutputFileSink.tla (workers write whole batches under one lock, seal-up) and OutputStreamSink.tla (a connection is a byte stream cut at delimiters: FramesAreEvents) bound to the real file and gelf plugins (2 workers behind a barrier; a receiver that stalls mid-frame); pipeline-side stage (recycled event objects, split); OutputTransport.tla (endpoint lists with dead endpoints x gzip: the body that reaches a sink is the payload once) and GelfFieldName.tla (field names over ASCII and non-ASCII alphabets) on the real plugins; EsActionLine.tla: the action line of every document is built from its own event's values of all index_values fields",
    "C20": "; rule lists as sequences (M_FirstRuleWins) and the source selection of Pipeline.In (M_SourceFallsBackToInputId) through IsSpam and Pipeline.In; the Offsets argument of In (per-stream saved offsets x decoder x antispam: refused only for stated reasons); two records through one pooled event per decoder class (M_RootResetPerRecord); exceptions x global thresholds x rules (M_ExceptionsFirst)",
    "C14": "; escaped string values decoded from JSON text per evaluation, length and field leaves on one field in both operand orders; match_mode x match_invert on every do_if rule (do_if decides alone)",
    "C07": "; one writer per offsets file as a mechanism (OffsetsOwner.tla, paths compared after normalisation); order of the save steps (M_SyncBeforeRename)",
}

NOT_APPLICABLE = {
    "C12": "decoders: totality/fidelity of nine byte-level parsers has no state or transitions for a TLA+ model; "
           "the deciding technique would be fuzzing/round-trip property testing, a different family (DESIGN.md §7)",
    "C13": "action-plugin robustness over all JSON events is fuzzing territory; the one protocol-level clause (which "
           "time-out events an action can receive) is decided under C15/C04 (DESIGN.md §7)",
}

NOT_YET = {
}

ALL = ["C%02d" % i for i in range(1, 21)]


def main():
    checks = []
    for pid in ALL:
        if pid not in CHECKS:
            continue
        tech, text, note, ref = CHECKS[pid]
        checks.append({
            "property_id": pid,
            "quick_cmd": "bin/check %s --tier quick" % pid,
            "thorough_cmd": "bin/check %s --tier thorough" % pid,
            "evidence_file": "/verif/evidence/%s.json" % pid,
            "replay_cmd_template": "bin/check %s --replay {path}" % pid,
            "engine": "tlc+go-harness",
            "level_claimed": {"category": "model_checking", "text": text, "design_ref": ref},
            "level_note": note,
            "technique": tech + ADDENDA.get(pid, ""),
        })
    na = []
    for pid in ALL:
        if pid in CHECKS:
            continue
        if pid in NOT_APPLICABLE:
            na.append({"property_id": pid, "reason": NOT_APPLICABLE[pid]})
        else:
            na.append({"property_id": pid, "reason": NOT_YET.get(pid, "check not built yet (work in progress; planned per DESIGN.md §6)")})
    hooks_file = os.path.join(VERIF, "hooks.json")
    hooks = json.load(open(hooks_file)) if os.path.exists(hooks_file) else {"source_commits": []}
    m = {
        "version": 1,
        "setup_cmd": "bin/setup",
        "hooks": {
            "guard": "verif",
            "enable": "go test -tags verif -overlay <generated overlay.json> (in-package harness files live in /verif/harness/overlay and are mapped into /repo at build time; /repo is not modified)",
            "baseline_off_cmd": "cd /repo && GOFLAGS=-mod=mod GOPROXY=off go test -json -vet=off -count=1 -timeout 25m ./...",
            "source_commits": hooks.get("source_commits", []),
            "add_only": True,
        },
        "engines": [
            {"name": "tlc+go-harness", "path": "/verif/bin/check",
             "serves_properties": [c["property_id"] for c in checks],
             "kind_free_text": "explicit TLA+ specifications (specs/) checked by TLC; TLC-generated cases/behaviours replayed into the real Go code and traces of the real code validated against the specification"},
        ],
        "checks": checks,
        "not_applicable": na,
        "notes": "See DESIGN.md. Exit 0 = held (KNOWN-FINDING lines allowed), 1 = VIOLATION, 2 = infrastructure failure.",
    }
    json.dump(m, open(os.path.join(VERIF, "MANIFEST.json"), "w"), indent=1)
    print("MANIFEST.json: %d checks, %d not_applicable" % (len(checks), len(na)))


if __name__ == "__main__":
    main()
