#!/usr/bin/env python3
"""Regenerates /verif/MANIFEST.json from the table below (one source of truth for the registered checks)."""
import json
import os

VERIF = os.path.dirname(os.path.dirname(os.path.abspath(__file__)))

# id -> (technique, level text, level note, design ref)
CHECKS = {
    "C06": ("TLA+ transcription of the read loop model-checked against a declarative line/offset oracle (TLC, exhaustive "
            "small scope); every TLC-exported case replayed on the real worker.work and compared",
            "TLC proves on the whole small-scope case space (all contents over {x,\\n} up to the bound x all splits into appends x "
            "all buffer sizes x size limits x cut_off x resume offsets) that the transcribed read loop hands over exactly the "
            "expected (offset, bytes) calls; the real worker.work is then executed on real files for those cases and must produce "
            "the same calls, so an off-by-one in scanned/lastOffset/accumBuf/tail handling shows as a differing call.",
            "Trusted: the transcription is bound to the code only through the replayed cases (small scope: length <= 5/7, two symbols); "
            "OS file semantics; lz4 path not covered.", "DESIGN.md §6 C06"),
}

NOT_APPLICABLE = {
    "C12": "decoders: totality/fidelity of nine byte-level parsers has no state or transitions for a TLA+ model; "
           "the deciding technique would be fuzzing/round-trip property testing, a different family (DESIGN.md §7)",
    "C13": "action-plugin robustness over all JSON events is fuzzing territory; the one protocol-level clause (which "
           "time-out events an action can receive) is decided under C15/C04 (DESIGN.md §7)",
}

NOT_YET = {
}

ALL = ["C%02d" % i for i in range(1, 21)]


def main():
    checks = []
    for pid in ALL:
        if pid not in CHECKS:
            continue
        tech, text, note, ref = CHECKS[pid]
        checks.append({
            "property_id": pid,
            "quick_cmd": "bin/check %s --tier quick" % pid,
            "thorough_cmd": "bin/check %s --tier thorough" % pid,
            "evidence_file": "/verif/evidence/%s.json" % pid,
            "replay_cmd_template": "bin/check %s --replay {path}" % pid,
            "engine": "tlc+go-harness",
            "level_claimed": {"category": "model_checking", "text": text, "design_ref": ref},
            "level_note": note,
            "technique": tech,
        })
    na = []
    for pid in ALL:
        if pid in CHECKS:
            continue
        if pid in NOT_APPLICABLE:
            na.append({"property_id": pid, "reason": NOT_APPLICABLE[pid]})
        else:
            na.append({"property_id": pid, "reason": NOT_YET.get(pid, "check not built yet (work in progress; planned per DESIGN.md §6)")})
    hooks_file = os.path.join(VERIF, "hooks.json")
    hooks = json.load(open(hooks_file)) if os.path.exists(hooks_file) else {"source_commits": []}
    m = {
        "version": 1,
        "setup_cmd": "bin/setup",
        "hooks": {
            "guard": "verif",
            "enable": "go test -tags verif -overlay <generated overlay.json> (in-package harness files live in /verif/harness/overlay and are mapped into /repo at build time; /repo is not modified)",
            "baseline_off_cmd": "cd /repo && GOFLAGS=-mod=mod GOPROXY=off go test -vet=off -count=1 -timeout 25m ./...",
            "source_commits": hooks.get("source_commits", []),
            "add_only": True,
        },
        "engines": [
            {"name": "tlc+go-harness", "path": "/verif/bin/check",
             "serves_properties": [c["property_id"] for c in checks],
             "kind_free_text": "explicit TLA+ specifications (specs/) checked by TLC; TLC-generated cases/behaviours replayed into the real Go code and traces of the real code validated against the specification"},
        ],
        "checks": checks,
        "not_applicable": na,
        "notes": "See DESIGN.md. Exit 0 = held (KNOWN-FINDING lines allowed), 1 = VIOLATION, 2 = infrastructure failure.",
    }
    json.dump(m, open(os.path.join(VERIF, "MANIFEST.json"), "w"), indent=1)
    print("MANIFEST.json: %d checks, %d not_applicable" % (len(checks), len(na)))


if __name__ == "__main__":
    main()
