"""Shared driver of the core pipeline checks (C01, C02, C05, C08, C09): scenario generation
(random and TLC-generated schedules of specs/Pipeline.tla), execution on the real pipeline through
harness/overlay/pipeline/zz_verif_core_test.go, and trace validation by TLC (specs/PipelineMon.tla)."""
import json
import os
import re

import vlib

KINDS = {
    "C04": {"not_idle", "unaccounted", "waiters_not_zero_at_idle", "stream_unattended", "stop_never_returns"},
    "C01": {"commit_unacked", "frontier", "commit_in_foreign_stream"},
    "C02": {"commit_in_foreign_stream", "dup_commit", "order", "offset_order", "commit_of_dropped", "unaccounted", "dropped_and_committed",
            "drop_of_finished", "not_idle"},
    "C05": {"over_capacity", "double_owner", "inuse_over_capacity", "inuse_negative", "inuse_not_zero_at_idle",
            "waiters_not_zero_at_idle", "leaked", "inuse_stuck_after_quiet_period"},
    "C08": {"batch_too_big", "batch_commit_order", "commit_before_send_return", "batch_commit_twice",
            "resend_after_done", "added_not_committed_once", "batch_bytes_exceeded", "batch_stale", "parent_sent", "deliverable_event_not_sent",
            "not_idle", "unaccounted", "stop_never_returns"},       # an added event that is never committed; Stop that waits for ever
    "C15": {"unaccounted", "not_idle", "panic"},      # a line of a run that never comes out (stream-level windows under a join-like action)
    "C19": {"deliverable_event_not_sent", "parent_sent", "payload_of_other_event", "commit_before_send_return"},   # incl. a batch that never reached the send function
    "C09": {"gave_up_without_events", "payload_of_other_event", "pause_too_short", "gave_up_early", "gave_up_unlimited", "onerror_twice", "failed_twice", "fail_without_dq",
            "commit_of_dead_queued", "exhausted_not_dq_only", "exhausted_not_main_once",
            "commit_before_send_return", "not_idle", "unaccounted", "stop_never_returns"},     # an event of an exhausted batch that nobody ever commits; a give-up that leaves a worker waiting for ever
}


def base(run, **kw):
    sc = dict(name="", run=run, single=False, cap=8, pool="std", workers=2, batch=2, retry=0, dq=False,
              dqworkers=1, dqbatch=1, flush_ms=15, timeout_ms=25, lines=[], steps=[], mode="random", seed=run,
              fail_pct=0, max_fails=0, readers=1, jitter=True, retention_us=0, mult10=12, window="")
    sc.update(kw)
    return sc


def random_lines(rng, n, nsrc, streams, classes):
    """ids 1..n, grouped by source in blocks so that ids grow with read order inside a source."""
    lines = []
    srcs = sorted(rng.randrange(1, nsrc + 1) for _ in range(n))
    for i, s in enumerate(srcs):
        lines.append(dict(id=i + 1, src=s, stream=rng.choice(streams), cls=rng.choice(classes)))
    return lines


def random_scenarios(ctx, n, family, start_run=1):
    """family selects the configuration space emphasised by one property."""
    rng = ctx.rng
    out = []
    for k in range(n):
        run = start_run + k
        nev = rng.randint(3, 14)
        if family == "commit":        # C01/C02: orders of completion across workers, discards overtaking
            sc = base(run, cap=rng.choice([2, 4, 16]), pool=rng.choice(["std", "low_memory"]),
                      workers=rng.choice([1, 2, 3, 4]), batch=rng.choice([1, 2, 3]), single=rng.random() < 0.15,
                      lines=random_lines(rng, nev, rng.choice([1, 1, 2, 3]), rng.choice([["a"], ["a", "b"], ["a", "b", "c"]]),
                                         rng.choice([["P"], ["P", "D"], ["P", "D", "B"], ["P", "P", "D", "H", "C", "C"],
                                                     ["P", "D", "R", "E"], ["P", "S", "D"], ["P", "S"], ["P", "Y", "S"], ["Y", "H", "C"], ["P", "G", "C", "Q", "H"], ["G", "P", "Q"],
                                                     ["H", "N", "C"], ["P", "H", "N", "N"]])))
        elif family == "retry":       # C09: failures, with/without dead queue
            retry = rng.choice([0, 1, 2])
            sc = base(run, cap=rng.choice([4, 16]), workers=rng.choice([1, 2, 3]), batch=rng.choice([1, 2, 3]),
                      retry=retry, dq=rng.random() < 0.5, dqworkers=rng.choice([1, 2]), dqbatch=rng.choice([1, 2, 3]),
                      fail_pct=rng.choice([30, 60, 90]), max_fails=rng.choice([1, 2, 3, 4, 6, 9]),
                      lines=random_lines(rng, nev, rng.choice([1, 2]), rng.choice([["a"], ["a", "b"]]),
                                         rng.choice([["P"], ["P", "D"], ["P", "S"]])))
            if rng.random() < 0.25:    # split parents and children inside batches that are given up to the dead queue
                sc.update(dq=True, retry=rng.choice([0, 1]), batch=rng.choice([2, 3, 4]), workers=rng.choice([1, 2]), fail_pct=90,
                          max_fails=rng.choice([4, 8, 12]), lines=random_lines(rng, nev, 1, ["a"], ["S", "S", "P"]))
            elif rng.random() < 0.4:     # pauses judged: several workers, long retry sequences, growing intervals that matter
                sc.update(retry=rng.choice([3, 4, 5]), retention_us=500, mult10=20, workers=rng.choice([2, 3, 4]), batch=1,
                          fail_pct=rng.choice([60, 85]), max_fails=rng.choice([5, 6, 9, 12]), dq=rng.random() < 0.3)
        elif family == "pool":        # C05: small capacities, both pools, refusals, several readers
            sc = base(run, cap=rng.choice([1, 1, 2, 3]), pool=rng.choice(["std", "low_memory"]),
                      workers=rng.choice([1, 2]), batch=rng.choice([1, 2]), single=rng.random() < 0.2,
                      lines=random_lines(rng, nev, rng.choice([1, 2, 3, 4]), rng.choice([["a"], ["a", "b"]]),
                                         rng.choice([["P", "D"], ["P", "D", "R", "E"], ["P", "H", "C", "D"], ["P"], ["P", "S", "D"], ["P", "X", "D"], ["X", "P"]])))
        elif family == "batch":       # C08: worker counts / count limits / flush by timer
            sc = base(run, cap=32, workers=rng.choice([1, 2, 3, 4]), batch=rng.choice([1, 2, 3, 4, 5]),
                      flush_ms=rng.choice([5, 15, 40]),
                      lines=random_lines(rng, rng.randint(3, 20), rng.choice([1, 2]), ["a", "b"], ["P"]))
        else:
            raise ValueError(family)
        # the harness's batch must never need more events than the pool can hold, or nothing flushes but the timer
        sc["name"] = "%s-rnd-%d" % (family, run)
        out.append(sc)
    return out


_TUPLE = re.compile(r"<<\"(\w+)\", (\"?\w+\"?), (\d+)>>")


def parse_sched(text):
    """TLC prints sched as << <<"in", 1, 1>>, <<"do", 1, 0>>, ... >>"""
    steps = []
    for m in _TUPLE.finditer(text):
        a = m.group(2).strip('"')
        steps.append([m.group(1), int(a) if a.isdigit() else a, int(m.group(3))])
    return steps


_LINE = re.compile(r"\[([^\[\]]*\|->[^\[\]]*)\]")
_FIELD = re.compile(r"(\w+) \|-> \"?(\w+)\"?")


def parse_lines(text):
    out = []
    for m in _LINE.finditer(text):
        f = dict(_FIELD.findall(m.group(1)))
        if {"src", "stream", "cls"} <= set(f):
            out.append(dict(id=len(out) + 1, src=int(f["src"]), stream=f["stream"], cls=f["cls"]))
    return out


def budget_scenarios(ctx, start_run):
    """the back-off policy's own time budget (cenkalti/backoff: 15 minutes of elapsed time) ends the retrying: with a first pause
    that cannot fit into it the batch is given up at its first failure, through the policy's Stop -- the other exit of the retry loop.
    What happens to the batch then is the same as on exhaustion (dead queue alone / error callback and main, once)."""
    rng = ctx.rng
    out = []
    for k in range(4):
        nev = rng.randint(2, 5)
        sc = base(start_run + k, cap=8, workers=rng.choice([1, 2]), batch=rng.choice([1, 2]), retry=rng.choice([2, 5]), dq=(k % 2 == 0), dqworkers=1, dqbatch=1,
                  fail_pct=100, max_fails=1, retention_us=2000000000, lines=random_lines(rng, nev, 1, ["a"], ["P"]))
        sc["name"] = "retry-budget-%d" % (start_run + k)
        out.append(sc)
    return out


def window_scenarios(ctx, n, start_run):
    """put || tryUnblock window on a stream whose owner sleeps behind a held run (TLC: StreamProto mutant M_UnblockOnlyIfEmpty)"""
    out = []
    for k in range(n):
        run = start_run + k
        nev = ctx.rng.randint(2, 5)
        lines = [dict(id=i + 1, src=1, stream="a", cls=("H" if i == 0 else ctx.rng.choice(["C", "C", "P", "H"]))) for i in range(nev)]
        if k % 2 == 1:
            # the stream has already seen one or two time-outs earlier in its life (StreamProto: the queue length counter must not
            # be what tryUnblock looks at): H, time-out, H, [time-out, H,] then the window
            pre = ctx.rng.choice([1, 2])
            lines = [dict(id=1, src=1, stream="a", cls="H")] + [dict(id=i + 2, src=1, stream="a", cls="H", wait_ms=-1) for i in range(pre)] + \
                    [dict(id=pre + 2 + i, src=1, stream="a", cls=ctx.rng.choice(["C", "P"])) for i in range(ctx.rng.randint(1, 3))]
        out.append(base(run, name="window-unblock-%d" % run, mode="random", window="unblock", cap=8, workers=1, batch=1, timeout_ms=3,
                        lines=lines, jitter=False, single=ctx.rng.random() < 0.5))
    return out


def stopretry_scenarios(ctx, n, start_run):
    """Stop() arrives while a failing batch is between two attempts"""
    out = []
    for k in range(n):
        run = start_run + k
        nev = ctx.rng.randint(1, 4)
        retry = ctx.rng.choice([2, 3])
        lines = [dict(id=i + 1, src=1, stream="a", cls="P") for i in range(nev)]
        out.append(base(run, name="stop-mid-retry-%d" % run, mode="random", window="stopretry", cap=8, workers=ctx.rng.choice([1, 2]), batch=ctx.rng.choice([1, 2]),
                        retry=retry, retention_us=20000, mult10=15, fail_pct=100, max_fails=ctx.rng.choice([retry + 2, 1000]), dq=ctx.rng.random() < 0.4,
                        lines=lines, jitter=False))
    return out


def attend_scenarios(ctx, n, start_run):
    """K streams charged back to back while every processor that picks one stays parked in its first Do"""
    out = []
    for k in range(n):
        run = start_run + k
        K = ctx.rng.choice([2, 3, 4, 6])
        lines = [dict(id=i + 1, src=i + 1, stream="a", cls="P") for i in range(K)]
        out.append(base(run, name="attend-%d" % run, mode="random", window="attend", cap=16, workers=2, batch=1, lines=lines, jitter=False))
    return out


def growprocs_scenarios(ctx, n, start_run, procs):
    """every processor parked behind a held run (one source each, far-away stream time-out), then one more source gets an event:
    the pool must grow and attend it (ProcGrowth.tla).  procs = number of processors the harness process starts with."""
    out = []
    for k in range(n):
        run = start_run + k
        lines = [dict(id=i + 1, src=i + 1, stream="a", cls="H") for i in range(procs)] + [dict(id=procs + 1, src=procs + 1, stream="a", cls="P")]
        out.append(base(run, name="all-processors-blocked-%d" % run, mode="random", window="growprocs", cap=procs + 8, workers=2, batch=1,
                        flush_ms=10, timeout_ms=ctx.rng.choice([3000, 4000]), lines=lines, jitter=False))
    return out


def detach_scenarios(ctx, n, start_run):
    """a run flushed by a stream time-out, later an event that waits in a half-filled batch while its processor leaves the stream,
    and another event put during that detach: the stream must be re-charged when the first one is committed"""
    out = []
    for k in range(n):
        run = start_run + k
        tail = [dict(cls="P", wait_ms=ctx.rng.choice([260, 320])), dict(cls="P", wait_ms=ctx.rng.choice([3, 10, 25]))]
        if ctx.rng.random() < 0.5:
            tail.append(dict(cls=ctx.rng.choice(["P", "D"]), wait_ms=ctx.rng.choice([0, 5])))
        lines = [dict(id=1, src=1, stream="a", cls="H", wait_ms=0)] + [dict(id=i + 2, src=1, stream="a", **t) for i, t in enumerate(tail)]
        out.append(base(run, name="timeout-then-detach-%d" % run, mode="random", cap=8, workers=ctx.rng.choice([1, 2]), batch=ctx.rng.choice([2, 3]),
                        flush_ms=ctx.rng.choice([15, 40]), timeout_ms=ctx.rng.choice([5, 20]), lines=lines, jitter=False, single=ctx.rng.random() < 0.3))
    return out


def directed_scenarios(start_run):
    """fixed schedules that every check of the family runs: a batch that is NOT the first one is given up to the dead queue
    between two batches that succeed (the given-up batch object is recycled; later batches must still be committed)"""
    out = []
    for k, nev in enumerate((3, 4)):
        lines = [dict(id=i + 1, src=1, stream="a", cls="P") for i in range(nev)]
        steps = [["in", 1, i + 1] for i in range(nev)]
        for i in range(nev):
            steps += [["do", i + 1, 0], ["do", i + 1, 1]]
        steps += [["send", 1, 1], ["send", 2, 0], ["send", 2, 0]] + [["send", i + 1, 1] for i in range(2, nev)] + [["send", 2, 1]]
        out.append(scripted(start_run + k, "directed-giveup-of-second-batch-%d" % nev, lines, steps,
                            {"Capacity": 8, "NWorkers": 2, "BatchCount": 1, "Retry": 0, "HasDQ": True}))
    return out


def scripted(run, name, lines, steps, consts):
    """scenario following a TLC schedule; consts = the model constants it was generated under"""
    return base(run, name=name, mode="script", lines=lines, steps=steps, cap=consts.get("Capacity", 8),
                workers=consts.get("NWorkers", 2), batch=consts.get("BatchCount", 2), retry=consts.get("Retry", 0),
                dq=consts.get("HasDQ", False), dqworkers=consts.get("NWorkers", 2), dqbatch=consts.get("BatchCount", 2),
                jitter=False)


def run_core(ctx, scenarios, par=8, timeout=2700):
    """Executes scenarios on the real pipeline; returns (trace_path, stats)."""
    cases = os.path.join(ctx.scratch, "core_cases_%d.ndjson" % len(ctx.tlc_runs))
    with open(cases, "w") as f:
        for sc in scenarios:
            f.write(json.dumps(sc) + "\n")
    out = cases.replace("cases", "trace")
    if not hasattr(ctx, "_core_bin"):
        ctx._core_bin = ctx.go_test_build("pipeline")
    rc, txt = ctx.run_bin(ctx._core_bin, "^TestVerifCore$", env={"VERIF_CASES": cases, "VERIF_OUT": out, "VERIF_PAR": par},
                          timeout=timeout)
    stats = {"runs": len(scenarios), "diverged": 0, "crash": None}
    m = re.search(r"VERIF-CORE runs=(\d+) diverged=(\d+)", txt)
    if m:
        stats["diverged"] = int(m.group(2))
    if rc != 0 or not os.path.exists(out):
        crash = classify_crash(txt)
        if crash is None:
            raise vlib.Infra("core harness failed rc=%s:\n%s" % (rc, txt[-4000:]))
        stats["crash"] = crash
        return None, stats
    return out, stats


def classify_crash(txt):
    """A Go panic / fatal exit raised inside file.d's own code (not in harness files) while running a scenario the
    properties quantify over is a violation record; anything else is an infrastructure failure (None)."""
    m = re.search(r"^(panic: .*|fatal error: .*)$", txt, re.M)
    if not m:
        return None
    msg = m.group(1)
    tail = txt[m.start():]
    frames = re.findall(r"^\s+(/\S+\.go):(\d+)", tail, re.M)
    for path, line in frames:
        if "/zz_verif_" in path or "/go/pkg/mod/" in path or "/src/runtime/" in path or "/toolchain@" in path \
                or "golang.org" in path or "/logger/" in path or "/src/" in path and "/repo" not in path:
            continue
        if path.startswith(vlib.REPO) or "/file.d/" in path:
            return {"kind": "panic", "panic": msg[:300], "site": "%s:%s" % (os.path.relpath(path, vlib.REPO), line)}
        break
    return None


def validate(ctx, trace, maxid=40):
    """TLC evaluates the property monitors on every step of the recorded runs. Returns (violation records, lines)."""
    res = ctx.tlc("PipelineMon", "PipelineMon.cfg", workers=1, files={trace: "trace.ndjson"}, timeout=3600,
                  deadlock=False, overrides={"MaxId": str(maxid)}, name="PipelineMon/trace")
    if not res.ok:
        raise vlib.Infra("trace validation did not complete: %s\n%s" % (res.violated, res.out[-3000:]))
    rep = [p for p in res.printed if isinstance(p, dict) and "viol" in p]
    if not rep:
        raise vlib.Infra("trace validation produced no report:\n%s" % res.out[-3000:])
    return rep[-1]["viol"], rep[-1]["lines"]


def records(viol, scen_by_run, kinds):
    """monitor output -> violation records of the given kinds, enriched with the scenario"""
    recs = []
    for x in viol:
        v = x["v"]
        if v["kind"] not in kinds:
            continue
        sc = scen_by_run.get(x["run"], {})
        recs.append({"kind": v["kind"], "id": v["id"], "other": v["other"], "by": v["by"], "info": v["info"],
                     "run": x["run"], "n": x["n"], "dq": sc.get("dq"), "first_pause_exceeds_backoff_budget": sc.get("retention_us", 0) >= 1800000000,
                     "scenario": sc})
    return recs


# ----------------------------------------------------------------------------------------------
def consts_of(overrides):
    """model constants (python values) for a scripted scenario from cfg overrides"""
    d = {"Capacity": 4, "NWorkers": 2, "BatchCount": 1, "Retry": 0, "HasDQ": False}
    for k, v in (overrides or {}).items():
        if k in d:
            d[k] = (v == "TRUE") if v in ("TRUE", "FALSE") else int(v)
    return d


def mutant_schedule(ctx, switch, overrides, cfg="Pipeline_base.cfg", timeout=1800):
    """TLC on the specification with mechanism `switch` disabled: must find a property violation; returns the
    gate-level schedule (lines, steps) of the shortest counterexample."""
    ov = dict(overrides or {})
    ov[switch] = "FALSE"
    res = ctx.tlc("Pipeline", cfg, overrides=ov, timeout=timeout, deadlock=False, name="Pipeline/mutant-%s" % switch)
    if res.ok or res.kind != "invariant" or not res.trace:
        raise vlib.Infra("spec mutant %s produced no counterexample (vacuous mechanism?): %s" % (switch, res.violated))
    last = res.trace[-1][1]
    lines = parse_lines(last.get("lines", ""))
    steps = parse_sched(last.get("sched", ""))
    if not lines or not steps:
        raise vlib.Infra("could not parse the counterexample of mutant %s" % switch)
    return lines, steps, res.violated


def simulated_schedules(ctx, n, overrides, depth=300, timeout=900):
    res = ctx.tlc("Pipeline", "Pipeline_sim.cfg", overrides=overrides, workers=1, simulate="num=%d" % n, depth=depth,
                  seed=ctx.seed, timeout=timeout, deadlock=False, name="Pipeline/simulate", check=False)
    if res.rc == -9 or res.violated is not None:
        raise vlib.Infra("simulation of Pipeline.tla failed: %s\n%s" % (res.violated, res.out[-2000:]))
    out = []
    for p in res.printed:
        if isinstance(p, dict) and "sched" in p:
            lines = [dict(id=i + 1, src=l["src"], stream=l["stream"], cls=l["cls"]) for i, l in enumerate(p["lines"])]
            out.append((lines, p["sched"]))
    return out


def execute_and_validate(ctx, pid, scenarios, par=8):
    """runs scenarios on the real code, validates the traces with TLC, classifies records of property pid"""
    by_run = {sc["run"]: sc for sc in scenarios}
    trace, stats = run_core(ctx, scenarios, par=par)
    ctx.evaluations += stats["runs"]
    ctx.extra["runs_diverged_from_script"] = ctx.extra.get("runs_diverged_from_script", 0) + stats["diverged"]
    if stats["crash"]:
        rec = dict(stats["crash"])
        rec["scenarios"] = [s["name"] for s in scenarios][:20]
        ctx.classify([rec])
        return []
    maxid = max((20 + 2 * len(sc["lines"]) if any(l["cls"] in ("S", "Y") for l in sc["lines"]) else len(sc["lines"])) for sc in scenarios) + 1
    ctx._last_trace = trace
    viol, nlines = validate(ctx, trace, maxid=max(maxid, 8))
    ctx.traces_validated += stats["runs"]
    ctx.extra["trace_lines_validated"] = ctx.extra.get("trace_lines_validated", 0) + nlines
    recs = records(viol, by_run, KINDS[pid])
    slim = []
    for r in recs:
        r = dict(r)
        sc = r.pop("scenario")
        r["scenario_name"] = sc.get("name")
        r["scenario"] = sc
        slim.append(r)
    ctx.classify(slim)
    # distinct non-trivial shapes: runs in which at least two batches were in flight at once or a discard overtook
    shapes = shape_keys(trace)
    if isinstance(ctx.nontrivial, int):
        ctx.nontrivial = set()
    if isinstance(ctx.nontrivial, int):
        ctx.nontrivial += len(shapes)
    else:
        ctx.nontrivial |= shapes
    return viol


def shape_keys(trace):
    """distinct commit-order shapes: per run, the sequence of (kind of step) restricted to SendRet/Commit/DoRet-drop,
    with ids renamed by first occurrence; only runs where some later-read event finished before an earlier one."""
    runs = {}
    for line in open(trace):
        e = json.loads(line)
        runs.setdefault(e["run"], []).append(e)
    keys = set()
    for run, evs in runs.items():
        seq = []
        ren = {}
        nontrivial = False
        maxfin = 0
        for e in evs:
            if e["ev"] == "SendRet":
                for i in e["ids"]:
                    if i < maxfin:
                        nontrivial = True
                    maxfin = max(maxfin, i)
                seq.append(("s", e["b"], tuple(ren.setdefault(i, len(ren)) for i in e["ids"]), e["ok"]))
            elif e["ev"] == "Commit":
                seq.append(("c", e["by"], ren.setdefault(e["id"], len(ren))))
            elif e["ev"] == "DoRet" and e.get("res") in ("discard", "collapse", "hold") and e["id"]:
                if e["id"] < maxfin:
                    nontrivial = True
                maxfin = max(maxfin, e["id"])
                seq.append(("d", e["res"], ren.setdefault(e["id"], len(ren))))
            elif e["ev"] == "GiveUp":
                nontrivial = True
                seq.append(("g", e["b"]))
        if nontrivial:
            keys.add(hash(tuple(seq)))
    return keys


# ---------------------------------------------------------------------------------------------- conformance
SPLIT = {"Classes": '{"P", "S"}', "Strs": '{"a"}', "KidsPer": "2", "KidBase": "20", "MaxId": "24", "BatchCount": "2"}


def _split_ov(has_split, nlines):
    """model constants for the id space: the harness numbers the children of line e 20+2e-1, 20+2e"""
    if has_split:
        return {"MaxId": str(20 + 2 * nlines), "KidsPer": "2", "KidBase": "20"}
    return {"MaxId": str(nlines)}


def conformance(ctx, trace, groups):
    """groups: list of (consts dict, [run numbers]).  Validates that the recorded runs are behaviours of Pipeline.tla
    (specs/PipelineTrace.tla).  Returns (accepted, rejected list).  A rejection is a MODEL-DRIFT warning, never a verdict."""
    runs = {}
    for line in open(trace):
        e = json.loads(line)
        runs.setdefault(e["run"], []).append(line)
    accepted, rejected = 0, []

    def validate(cons, rs, tag):
        f = os.path.join(ctx.scratch, "conf_%s.ndjson" % tag)
        n = 0
        with open(f, "w") as out:
            for r in rs:
                out.writelines(runs[r])
                n += len(runs[r])
        maxid = max(len(json.loads(runs[r][0])["lines"]) for r in rs)
        ov = _split_ov(any(l["cls"] in ("S", "Y") for r in rs for l in json.loads(runs[r][0])["lines"]), maxid)
        ov.update({"NProcs": "3", "Capacity": str(cons["Capacity"]), "NWorkers": str(cons["NWorkers"]),
              "BatchCount": str(cons["BatchCount"]), "Retry": str(cons["Retry"]), "HasDQ": "TRUE" if cons["HasDQ"] else "FALSE"})
        res = ctx.tlc("PipelineTrace", "PipelineTrace.cfg", workers=1, files={f: "trace.ndjson"}, timeout=900, deadlock=False, check=False,
                      overrides=ov, jvm=["-Dtlc2.tool.queue.IStateQueue=StateDeque"], name="PipelineTrace/%s" % tag)
        rep = [p for p in res.printed if isinstance(p, dict) and "reached" in p]
        if "Parse Error" in res.out or "semantic analysis failed" in res.out or "Semantic errors" in res.out:
            raise vlib.Infra("PipelineTrace.tla does not parse:\n%s" % res.out[-1500:])
        if not rep:
            return None, n
        return rep[-1]["reached"], n

    for gi, (cons, rs) in enumerate(groups):
        rs = [r for r in rs if r in runs and json.loads(runs[r][0]).get("lines")]
        # all runs of a group must have the same number of lines (MaxId is a constant of the model)
        by_len = {}
        for r in rs:
            by_len.setdefault(len(json.loads(runs[r][0])["lines"]), []).append(r)
        for ln, rr in by_len.items():
            reached, n = validate(cons, rr, "g%d_%d" % (gi, ln))
            if reached == n:
                accepted += len(rr)
                continue
            for r in rr:            # find the run(s) the model cannot follow
                reached, n = validate(cons, [r], "g%d_%d_r%d" % (gi, ln, r))
                if reached == n:
                    accepted += 1
                else:
                    at = runs[r][reached].strip()[:200] if reached is not None and reached < len(runs[r]) else "?"
                    rejected.append({"run": r, "reached": reached, "lines": n, "next_line": at})
    return accepted, rejected


def conformance_selftest(ctx, trace, cons, run):
    """the binding is not vacuous: one recorded commit is altered and the trace must be rejected"""
    lines = [l for l in open(trace) if json.loads(l)["run"] == run]
    idx = [i for i, l in enumerate(lines) if json.loads(l)["ev"] == "BCommit"]
    if not idx:
        return None
    e = json.loads(lines[idx[0]])
    e["id"] = e["id"] % len(json.loads(lines[0])["lines"]) + 1
    lines[idx[0]] = json.dumps(e) + "\n"
    f = os.path.join(ctx.scratch, "conf_selftest.ndjson")
    open(f, "w").writelines(lines)
    ov = _split_ov(any(l["cls"] in ("S", "Y") for l in json.loads(lines[0])["lines"]), len(json.loads(lines[0])["lines"]))
    ov.update({"NProcs": "3", "Capacity": str(cons["Capacity"]), "NWorkers": str(cons["NWorkers"]),
          "BatchCount": str(cons["BatchCount"]), "Retry": str(cons["Retry"]), "HasDQ": "TRUE" if cons["HasDQ"] else "FALSE"})
    res = ctx.tlc("PipelineTrace", "PipelineTrace.cfg", workers=1, files={f: "trace.ndjson"}, timeout=600, deadlock=False, check=False,
                  overrides=ov, jvm=["-Dtlc2.tool.queue.IStateQueue=StateDeque"], name="PipelineTrace/selftest-corrupted")
    rep = [p for p in res.printed if isinstance(p, dict) and "reached" in p]
    return bool(rep) and rep[-1]["reached"] < len(lines)
