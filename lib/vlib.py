"""Shared machinery for /verif checks: TLC runner, Go harness runner (overlay + verif tag),
known-findings classification, evidence writer, exit-code protocol.

Exit codes of every check: 0 = property held on everything explored (possibly with
KNOWN-FINDING lines), 1 = VIOLATION line printed, 2 = infrastructure failure (never a verdict).
"""
import hashlib
import json
import os
import random
import re
import shutil
import subprocess
import sys
import tempfile
import time

VERIF = os.path.dirname(os.path.dirname(os.path.abspath(__file__)))
REPO = os.environ.get("VERIF_REPO", "/repo")
SPECS = os.path.join(VERIF, "specs")
OVERLAY_SRC = os.path.join(VERIF, "harness", "overlay")
TLA_CP = "/opt/veriftools/tla/tla2tools.jar:/opt/veriftools/tla/CommunityModules-deps.jar"
NCPU = os.cpu_count() or 4


class Infra(Exception):
    """Infrastructure failure: exit 2, never a violation."""


def log(*a):
    print(*a, flush=True)


class TLCResult:
    def __init__(self):
        self.rc = None
        self.out = ""
        self.generated = 0
        self.distinct = 0
        self.depth = 0
        self.ok = False            # "No error has been found"
        self.violated = None       # name of violated invariant / property / postcondition
        self.kind = None           # invariant | property | postcondition | deadlock | assert | eval
        self.trace = []            # list of (action_label, {var: text}) for counterexamples
        self.printed = []          # decoded PrintT JSON payloads
        self.coverage = {}         # action -> (distinct, total)  when -coverage was on
        self.wall = 0.0


_STATE_HDR = re.compile(r"^State (\d+): <(.*)>$")
_GEN = re.compile(r"(\d+) states generated.*?, (\d+) distinct states found")
_SIM_GEN = re.compile(r"The number of states generated: (\d+)")


def parse_tlc(out, res):
    for m in _GEN.finditer(out):
        res.generated, res.distinct = int(m.group(1)), int(m.group(2))
    m = _SIM_GEN.search(out)
    if m and not res.generated:
        res.generated = int(m.group(1))
    m = re.search(r"The depth of the complete state graph search is (\d+)", out)
    if m:
        res.depth = int(m.group(1))
    res.ok = "No error has been found" in out
    m = re.search(r"Error: Invariant (\S+) is violated", out)
    if m:
        res.violated, res.kind = m.group(1), "invariant"
    m = re.search(r"Error: Action property (\S+) is violated", out)
    if m:
        res.violated, res.kind = m.group(1), "property"
    m = re.search(r"Error: Temporal property (\S+) was violated", out)
    if m:
        res.violated, res.kind = m.group(1), "property"
    if "Temporal properties were violated" in out:
        res.violated, res.kind = res.violated or "temporal", "property"
    m = re.search(r"Error: The postcondition (\S+)? ?.*(violated|false)", out)
    if m or "postcondition" in out.lower() and "violated" in out.lower():
        res.violated, res.kind = "postcondition", "postcondition"
    if "Error: Deadlock reached" in out:
        res.violated, res.kind = "deadlock", "deadlock"
    if res.violated is None and re.search(r"^Error: ", out, re.M) and not res.ok:
        res.kind = "eval"
        res.violated = "error"
    # counterexample states
    cur = None
    for line in out.splitlines():
        h = _STATE_HDR.match(line)
        if h:
            cur = (h.group(2), {})
            res.trace.append(cur)
            continue
        if cur is not None:
            mm = re.match(r"^/\\ (\w+) = (.*)$", line)
            if mm:
                cur[1][mm.group(1)] = mm.group(2)
                cur[1]["__last"] = mm.group(1)
            elif line.strip() == "":
                cur = None
            elif "__last" in cur[1]:
                cur[1][cur[1]["__last"]] += " " + line.strip()
        if line.startswith('"{') or line.startswith('"['):
            try:
                res.printed.append(json.loads(json.loads(line)))
            except Exception:
                try:
                    # TLC escapes only \" and \\ ; undo by hand
                    s = line.strip()[1:-1].replace('\\"', '"').replace("\\\\", "\\")
                    res.printed.append(json.loads(s))
                except Exception:
                    pass
    for m in re.finditer(r"^<(\w+) line \d+, col \d+ to line \d+, col \d+ of module (\w+)>: (\d+):(\d+)", out, re.M):
        res.coverage[m.group(1)] = (int(m.group(3)), int(m.group(4)))
    return res


class Ctx:
    def __init__(self, pid, tier=None, seed=None, level="model_checking"):
        self.pid = pid
        self.tier = tier or os.environ.get("VERIF_TIER", "quick")
        if self.tier not in ("quick", "thorough"):
            self.tier = "quick"
        s = seed if seed is not None else os.environ.get("VERIF_SEED", "1")
        try:
            self.seed = int(s)
        except ValueError:
            self.seed = int(hashlib.sha1(str(s).encode()).hexdigest()[:8], 16)
        self.level = level
        self.rng = random.Random(self.seed)
        self.t0 = time.time()
        self.scratch = tempfile.mkdtemp(prefix="verif-%s-" % pid)
        self.tlc_runs = []          # dicts for evidence
        self.states = 0
        self.transitions = 0
        self.traces_validated = 0
        self.evaluations = 0
        self.nontrivial = set()
        self.samples = []
        self.violations = []        # unknown violation records
        self.known_hits = {}        # finding id -> count
        self.drift = 0
        self.assumptions = []
        self.extra = {}
        self.rule = ""
        self.exhaustive = False
        self._n = 0

    # ------------------------------------------------------------------ TLC
    def tlc(self, module, cfg, workers=None, timeout=1800, simulate=None, depth=None,
            seed=None, extra=(), files=None, heap=None, deadlock=True, coverage=False,
            jvm=(), check=True, name=None, overrides=None):
        """Run TLC on specs/<module>.tla with specs/<cfg>. Returns TLCResult.
        overrides: dict CONSTANT-name -> text appended/replaced in a copy of the cfg."""
        self._n += 1
        d = os.path.join(self.scratch, "tlc%d" % self._n)
        os.makedirs(d)
        for f in os.listdir(SPECS):
            if f.endswith(".tla"):
                shutil.copy(os.path.join(SPECS, f), d)
        cfgsrc = os.path.join(SPECS, cfg)
        cfgtxt = open(cfgsrc).read()
        if overrides:
            for k, v in overrides.items():
                pat = re.compile(r"^(\s*)%s\s*(=|<-).*$" % re.escape(k), re.M)
                if pat.search(cfgtxt):
                    cfgtxt = pat.sub(lambda m: "%s%s = %s" % (m.group(1), k, v), cfgtxt, count=1)
                else:
                    cfgtxt = cfgtxt.replace("CONSTANTS", "CONSTANTS\n  %s = %s" % (k, v), 1)
        cfgname = os.path.basename(cfg)
        open(os.path.join(d, cfgname), "w").write(cfgtxt)
        for src, dst in (files or {}).items():
            shutil.copy(src, os.path.join(d, dst))
        w = str(workers if workers else min(NCPU, 16))
        cmd = ["java", "-XX:+UseParallelGC", "-Xss64m", "-Djava.io.tmpdir=%s" % d]
        cmd += ["-Xmx%s" % (heap or ("12g" if self.tier == "thorough" else "6g"))]
        cmd += list(jvm)
        cmd += ["-cp", TLA_CP, "tlc2.TLC", "-metadir", os.path.join(d, "meta"), "-workers", w,
                "-config", cfgname, "-noGenerateSpecTE"]
        if not deadlock:
            cmd += ["-deadlock"]
        if coverage:
            cmd += ["-coverage", "1"]
        if simulate:
            cmd += ["-simulate", simulate]
            if depth:
                cmd += ["-depth", str(depth)]
        if seed is not None:
            cmd += ["-seed", str(seed)]
        cmd += list(extra)
        cmd += [module]
        t = time.time()
        res = TLCResult()
        try:
            p = subprocess.run(cmd, cwd=d, stdout=subprocess.PIPE, stderr=subprocess.STDOUT,
                               timeout=timeout, text=True, errors="replace")
            res.rc, res.out = p.returncode, p.stdout
        except subprocess.TimeoutExpired as e:
            out = e.stdout or ""
            res.rc, res.out = -9, out if isinstance(out, str) else out.decode(errors="replace")
            subprocess.run(["pkill", "-f", "metadir %s" % os.path.join(d, "meta")])
        res.wall = time.time() - t
        parse_tlc(res.out, res)
        res.dir = d
        self.tlc_runs.append({"name": name or "%s/%s" % (module, cfgname), "generated": res.generated,
                              "distinct": res.distinct, "depth": res.depth, "ok": res.ok,
                              "violated": res.violated, "wall_s": round(res.wall, 2)})
        if check:
            if res.rc == -9:
                raise Infra("TLC timeout after %ds: %s %s" % (timeout, module, cfgname))
            if "java.lang.OutOfMemoryError" in res.out or "StackOverflowError" in res.out:
                raise Infra("TLC resource failure: %s %s" % (module, cfgname))
            if not res.ok and res.violated is None:
                raise Infra("TLC failed without verdict (%s %s):\n%s" % (module, cfgname, res.out[-3000:]))
            if res.kind == "eval":
                raise Infra("TLC evaluation error (%s %s):\n%s" % (module, cfgname, res.out[-3000:]))
        return res

    def tlc_expect_ok(self, module, cfg, count=True, **kw):
        """Exhaustive design-level check that must pass; its states count as model states."""
        res = self.tlc(module, cfg, **kw)
        if not res.ok:
            raise Infra("design-level check %s/%s failed: %s (%s)\n%s" %
                        (module, cfg, res.violated, res.kind, res.out[-4000:]))
        if count:
            self.states += res.distinct
            self.transitions += res.generated
        return res

    # ------------------------------------------------------------------ Go
    def overlay_json(self):
        path = os.path.join(self.scratch, "overlay.json")
        if os.path.exists(path):
            return path
        rep = {}
        for root, _, files in os.walk(OVERLAY_SRC):
            for f in files:
                if not f.endswith(".go"):
                    continue
                src = os.path.join(root, f)
                rel = os.path.relpath(src, OVERLAY_SRC)
                rep[os.path.join(REPO, rel)] = src
        json.dump({"Replace": rep}, open(path, "w"))
        return path

    def go_env(self, extra=None):
        env = dict(os.environ)
        env["GOFLAGS"] = "-mod=mod"
        env["GOPROXY"] = "off"
        env.pop("GOTOOLCHAIN", None)
        env.pop("GOSUMDB", None)
        env["VERIF_SEED"] = str(self.seed)
        env["VERIF_TIER"] = self.tier
        env["VERIF_SCRATCH"] = self.scratch
        # temporary files of the harness binaries, of file.d's own helpers and of the Go tool go where the scratch directory goes
        tmp = os.path.join(self.scratch, "tmp")
        os.makedirs(tmp, exist_ok=True)
        env["TMPDIR"] = tmp
        if extra:
            env.update({k: str(v) for k, v in extra.items()})
        return env

    def go_test_build(self, pkg, out=None, tags="verif"):
        """Compile the test binary of /repo/<pkg> (with overlay files and the verif tag)."""
        out = out or os.path.join(self.scratch, "test_%s.bin" % pkg.replace("/", "_"))
        # a private copy of go.mod/go.sum: whatever the go command wants to note there (e.g. an indirect requirement that a
        # harness file imports directly) never touches /repo
        md = os.path.join(self.scratch, "gomod")
        if not os.path.isdir(md):
            os.makedirs(md)
            shutil.copy(os.path.join(REPO, "go.mod"), md)
            shutil.copy(os.path.join(REPO, "go.sum"), md)
        cmd = ["go", "test", "-c", "-o", out, "-vet=off", "-modfile", os.path.join(md, "go.mod"), "-overlay", self.overlay_json()]
        if tags:
            cmd += ["-tags", tags]
        cmd += ["./" + pkg]
        p = subprocess.run(cmd, cwd=REPO, env=self.go_env(), stdout=subprocess.PIPE,
                           stderr=subprocess.STDOUT, text=True, errors="replace", timeout=3600)
        if p.returncode != 0 or not os.path.exists(out):
            raise Infra("harness build failed for %s:\n%s" % (pkg, p.stdout[-4000:]))
        return out

    def run_bin(self, binary, run, env=None, timeout=1800, cwd=None, args=()):
        cmd = [binary, "-test.run", run, "-test.count=1", "-test.timeout", "%ds" % (timeout + 30),
               "-test.v"] + list(args)
        try:
            p = subprocess.run(cmd, cwd=cwd or self.scratch, env=self.go_env(env), stdout=subprocess.PIPE,
                               stderr=subprocess.STDOUT, text=True, errors="replace", timeout=timeout + 60)
            return p.returncode, p.stdout
        except subprocess.TimeoutExpired as e:
            out = e.stdout or ""
            return -9, out if isinstance(out, str) else out.decode(errors="replace")

    # ------------------------------------------------------------------ findings
    def classify(self, records):
        """records: list of dict violation records (must contain 'kind'). Splits into known
        findings (counted) and unknown (stored in self.violations)."""
        kf = load_findings(self.pid)
        for r in records:
            hit = None
            for f in kf:
                if f.get("status") != "known":
                    continue
                if match_signature(f["signature"], r):
                    hit = f
                    break
            if hit:
                self.known_hits[hit["id"]] = self.known_hits.get(hit["id"], 0) + 1
            else:
                self.violations.append(r)
        if self.violations and os.environ.get("VERIF_EXPLORE_ALL") != "1":
            # a violation observed on the real code decides the run: the remaining stages could only add more of them (on a tree
            # that wedges they would also take hours of time-outs).  VERIF_EXPLORE_ALL=1 runs everything regardless.
            raise Enough()

    # ------------------------------------------------------------------ finish
    def sample(self, s, limit=6):
        if len(self.samples) < limit:
            self.samples.append(s)

    def finish(self):
        wall = time.time() - self.t0
        kf = {f["id"]: f for f in load_findings(self.pid)}
        for fid, n in sorted(self.known_hits.items()):
            log("KNOWN-FINDING: property=%s %s [%s, reproduced %d time(s)]" % (self.pid, kf[fid]["what"], fid, n))
        replay = None
        if self.violations:
            rd = os.path.join(VERIF, "replays", self.pid)
            os.makedirs(rd, exist_ok=True)
            blob = json.dumps(self.violations[:50], indent=1, sort_keys=True, default=str)
            replay = os.path.join(rd, "viol-%s.json" % hashlib.sha1(blob.encode()).hexdigest()[:12])
            open(replay, "w").write(blob)
        cov = {
            "states": int(self.states),
            "transitions": int(self.transitions),
            "traces_validated_against_impl": int(self.traces_validated),
            "evaluations": int(self.evaluations),
            "distinct_nontrivial": len(self.nontrivial) if not isinstance(self.nontrivial, int) else self.nontrivial,
            "rule": self.rule,
            "samples": self.samples or ["(no sample recorded)"],
            "exhaustive": bool(self.exhaustive),
            "tlc_runs": self.tlc_runs,
            "known_findings_reproduced": self.known_hits,
            "model_drift_warnings": self.drift,
        }
        cov.update(self.extra)
        ev = {
            "property_id": self.pid,
            "tier": self.tier,
            "seed": self.seed,
            "level": self.level,
            "coverage": cov,
            "assumptions": self.assumptions,
            "wall_s": round(wall, 2),
            "violations": len(self.violations),
        }
        # evidence of runs against a scratch copy of the repository (development: mutation tests) never lands in /verif/evidence
        evdir = os.path.join(VERIF, "evidence") if REPO == "/repo" and not os.environ.get("VERIF_DEV_SKIP_DESIGN") \
            else os.path.join(tempfile.gettempdir(), "verif-evidence-dev")
        os.makedirs(evdir, exist_ok=True)
        tmp = os.path.join(evdir, ".%s.json.tmp" % self.pid)
        json.dump(ev, open(tmp, "w"), indent=1, default=str)
        os.replace(tmp, os.path.join(evdir, "%s.json" % self.pid))
        if not os.environ.get("VERIF_KEEP_SCRATCH"):
            shutil.rmtree(self.scratch, ignore_errors=True)
        if self.violations:
            for v in self.violations[:5]:
                log("violation record:", json.dumps(v, default=str)[:600])
            log("VIOLATION property=%s replay=%s" % (self.pid, replay))
            return 1
        log("OK property=%s tier=%s seed=%d states=%d traces=%d evals=%d wall=%.1fs" %
            (self.pid, self.tier, self.seed, self.states, self.traces_validated, self.evaluations, wall))
        return 0

    def abort(self, msg):
        log("INFRA-FAILURE property=%s: %s" % (self.pid, msg))
        if not os.environ.get("VERIF_KEEP_SCRATCH"):
            shutil.rmtree(self.scratch, ignore_errors=True)
        return 2


_FINDINGS = None


def load_findings(pid=None):
    global _FINDINGS
    if _FINDINGS is None:
        p = os.path.join(VERIF, "known_findings.json")
        _FINDINGS = json.load(open(p))["findings"] if os.path.exists(p) else []
        d = os.path.join(VERIF, "known_findings.d")      # per-property fragments while a check is being built
        if os.path.isdir(d):
            for f in sorted(os.listdir(d)):
                if f.endswith(".json"):
                    try:
                        _FINDINGS += json.load(open(os.path.join(d, f)))["findings"]
                    except Exception as e:   # a fragment being written by someone else must not break other checks
                        log("warning: skipping unreadable findings fragment %s (%s)" % (f, e))
    return [f for f in _FINDINGS if pid is None or pid in f.get("properties", [f.get("property")])]


class Enough(Exception):
    """raised by Ctx.classify once a violation that no known finding covers has been recorded"""


def match_signature(sig, rec):
    """Every key of the signature must be present in the record with an equal value; a
    signature value that is a list means 'one of'."""
    for k, v in sig.items():
        if k not in rec:
            return False
        if isinstance(v, list) and not isinstance(rec[k], list):
            if rec[k] not in v:
                return False
        elif rec[k] != v:
            return False
    return True


def main(check_fn, pid, level="model_checking"):
    """Entry point used by checks/<ID>.py: parses --tier/--replay, runs, maps exceptions to exit 2."""
    import argparse
    ap = argparse.ArgumentParser()
    ap.add_argument("--tier", default=None)
    ap.add_argument("--replay", default=None)
    ap.add_argument("--keep", action="store_true")
    a = ap.parse_args(sys.argv[2:] if len(sys.argv) > 1 and sys.argv[1] == pid else sys.argv[1:])
    ctx = Ctx(pid, a.tier, level=level)
    ctx.replay = a.replay
    try:
        try:
            check_fn(ctx)
        except Enough:
            log("stopping early: a violation has been recorded")
        rc = ctx.finish()
    except Infra as e:
        rc = ctx.abort(str(e))
    except subprocess.TimeoutExpired as e:
        rc = ctx.abort("timeout: %s" % e)
    except Exception:
        import traceback
        rc = ctx.abort("driver exception:\n" + traceback.format_exc())
    sys.exit(rc)
