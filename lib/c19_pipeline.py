"""C19, pipeline side: what an output's send function sees through Batch.ForEach is exactly the deliverable events of the batch.
Real pipeline runs (core harness, see lib/core.py) with split parents/children and small pools of both kinds, so that event
objects are recycled between lives (a split parent's object is reused by an ordinary event); TLC (PipelineMon) judges the
traces: a deliverable event the send function never saw, a split parent it did see, a dead-queued event with another event's
payload."""
import core


def scenarios(ctx, n, start):
    rng = ctx.rng
    out = []
    for k in range(n):
        run = start + k
        nev = rng.randint(4, 14)
        sc = core.base(run, cap=rng.choice([1, 2, 3, 4]), pool=rng.choice(["std", "std", "low_memory"]), workers=rng.choice([1, 2]),
                       batch=rng.choice([1, 2, 3]), flush_ms=10, single=rng.random() < 0.3, dq=rng.random() < 0.2, retry=0,
                       fail_pct=rng.choice([0, 0, 20]), max_fails=4,
                       lines=core.random_lines(rng, nev, rng.choice([1, 2]), ["a", "b"], rng.choice([["S", "P"], ["S", "P", "P", "D"], ["S", "S", "P"]])))
        sc["name"] = "c19-recycle-%d" % run
        out.append(sc)
    return out


def stage(ctx):
    if not hasattr(ctx, "_core_bin"):
        ctx._core_bin = ctx.go_test_build("pipeline")
    scen = scenarios(ctx, 160 if ctx.tier == "thorough" else 40, 70000)
    core.execute_and_validate(ctx, "C19", scen, par=8)
    ctx.extra["pipeline_runs_with_recycled_event_objects"] = len(scen)
