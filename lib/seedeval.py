#!/usr/bin/env python3
"""dev tool: seedeval.py <seedout dir> [--tier quick] [--checks C01,C02] [--skip-confirm]
Confirms a seeded change (applies in a scratch worktree, builds, demo fails with / passes without, touched packages'
tests pass), runs the registered check(s) of its property against the patched tree, and files it under /verif/seeded/<id>/."""
import json
import os
import shutil
import subprocess
import sys
import time

WT = os.environ.get("SEED_WT", "/tmp/wt-eval")
ENV = dict(os.environ, GOFLAGS="-mod=mod", GOPROXY="off")
ENV.pop("GOTOOLCHAIN", None)
ENV.pop("GOSUMDB", None)


def sh(cmd, cwd=None, timeout=3000, env=None):
    p = subprocess.run(cmd, shell=True, cwd=cwd, env=env or ENV, stdout=subprocess.PIPE, stderr=subprocess.STDOUT, text=True, timeout=timeout)
    return p.returncode, p.stdout


def main():
    d = sys.argv[1].rstrip("/")
    args = sys.argv[2:]
    tier = args[args.index("--tier") + 1] if "--tier" in args else "quick"
    meta = json.load(open(os.path.join(d, "meta.json")))
    pid = meta["property"]
    checks = args[args.index("--checks") + 1].split(",") if "--checks" in args else [pid]
    sid = os.path.basename(d)
    if not os.path.exists(WT):
        sh("git -C /repo worktree add --detach %s HEAD" % WT)
    sh("git checkout -q --detach %s && git checkout -- . && git clean -fdq" % os.environ.get("SEED_BASE", "$(git -C /repo rev-parse HEAD)"), cwd=WT)
    demos = [f for f in os.listdir(d) if f.endswith(".go")]
    for root, _, files in os.walk(d):
        for f in files:
            if f.endswith(".go") and root != d:
                demos.append(os.path.relpath(os.path.join(root, f), d))
    demo_cmd = open(os.path.join(d, "demo.txt")).read().strip().splitlines()
    demo_cmd = [l for l in demo_cmd if l.strip() and not l.strip().startswith("#")]
    import re as _re0
    demo_cmd = [_re0.sub(r"/tmp/seed\d*-%s\b" % pid, WT, l) for l in demo_cmd]      # the author's own worktree -> the evaluation worktree
    report = {"seed": sid, "property": pid}
    if "--skip-confirm" not in args:
        # place demo files: they name their own location in demo.txt / meta; try meta["demo_path"] or search for package clause
        placed = []
        for f in demos:
            src = os.path.join(d, f)
            dst_rel = None
            if os.path.dirname(f):
                dst_rel = f
            else:
                for fc in meta.get("files_changed", []):
                    cand = os.path.join(os.path.dirname(fc), f)
                    pk = open(src).read().split("package ", 1)[1].split()[0]
                    if os.path.isdir(os.path.join(WT, os.path.dirname(fc))):
                        dst_rel = cand
                        # prefer the directory whose package name matches
                        gofiles = [g for g in os.listdir(os.path.join(WT, os.path.dirname(fc))) if g.endswith(".go")]
                        if gofiles:
                            pk2 = open(os.path.join(WT, os.path.dirname(fc), gofiles[0])).read().split("package ", 1)[1].split()[0]
                            if pk.replace("_test", "") == pk2.replace("_test", ""):
                                break
            # an explicit "cp <...>/<file> <dir>/" in demo.txt wins
            import re as _re
            for m in _re.finditer(r"cp\s+(\S+)\s+(\S+)", open(os.path.join(d, "demo.txt")).read()):
                if os.path.basename(m.group(1)) == os.path.basename(f) and not m.group(2).startswith("/"):
                    dst = m.group(2)
                    dst_rel = os.path.join(dst, os.path.basename(f)) if dst.endswith("/") or os.path.isdir(os.path.join(WT, dst)) else dst
            if "demo_path" in meta:
                dst_rel = meta["demo_path"]
            if dst_rel is None:
                print("cannot place demo", f)
                continue
            os.makedirs(os.path.dirname(os.path.join(WT, dst_rel)), exist_ok=True)
            shutil.copy(src, os.path.join(WT, dst_rel))
            placed.append(dst_rel)
        report["demo_placed"] = placed
        cmd = " && ".join(demo_cmd) if demo_cmd else None
        rc0, out0 = sh(cmd, cwd=WT) if cmd else (None, "")
        report["demo_without_change_rc"] = rc0
        rc, out = sh("git apply %s" % os.path.join(d, "patch.diff"), cwd=WT)
        if rc != 0:
            print("patch does not apply:", out)
            return 2
        rcb, outb = sh("go build ./...", cwd=WT)
        report["build_with_change_rc"] = rcb
        rc1, out1 = sh(cmd, cwd=WT) if cmd else (None, "")
        report["demo_with_change_rc"] = rc1
        pkgs = sorted({"./" + os.path.dirname(f) + "/..." for f in meta.get("files_changed", [])})
        sh("git clean -fdq", cwd=WT)      # demo files out of the way (tracked modifications = the patch stay)
        rct, outt = sh("go test -vet=off -count=1 %s 2>&1 | tail -15" % " ".join(pkgs), cwd=WT, timeout=3000)
        report["existing_tests"] = outt.strip().splitlines()[-6:]
        report["existing_tests_ok"] = "FAIL" not in outt
        report["confirmed"] = (rc0 == 0 and rc1 not in (0, None) and rcb == 0 and report["existing_tests_ok"])
        if not report["confirmed"]:
            print("NOT CONFIRMED", json.dumps(report, indent=1))
            print(out0[-1500:], "\n-----\n", out1[-1500:])
    else:
        rc, out = sh("git apply %s" % os.path.join(d, "patch.diff"), cwd=WT)
        if rc != 0:
            print("patch does not apply:", out)
            return 2
    # run the checks against the patched tree, from a snapshot of /verif (so that edits made meanwhile cannot disturb the run)
    det = {}
    snap = "/tmp/verif-snap-%d" % os.getpid()
    sh("rm -rf %s && mkdir -p %s && rsync -a --exclude .git --exclude evidence --exclude replays --exclude seeded /verif/ %s/" % (snap, snap, snap))
    for c in checks:
        t = time.time()
        env = dict(os.environ, VERIF_REPO=WT)
        p = subprocess.run([snap + "/bin/check", c, "--tier", tier], env=env, stdout=subprocess.PIPE, stderr=subprocess.STDOUT, text=True)
        last = [l for l in p.stdout.splitlines() if l.startswith(("VIOLATION", "OK ", "INFRA"))]
        kinds = sorted({l.split('"kind": "')[1].split('"')[0] for l in p.stdout.splitlines() if l.startswith("violation record") and '"kind": "' in l})
        det[c] = {"rc": p.returncode, "verdict": last[-1][:200] if last else p.stdout[-400:], "kinds": kinds, "wall_s": round(time.time() - t, 1)}
    # keep the replay files of a detection next to the seed record
    sh("mkdir -p /verif/replays && cp -r %s/replays/. /verif/replays/ 2>/dev/null; rm -rf %s" % (snap, snap))
    report["checks"] = det
    report["detected"] = any(v["rc"] == 1 for v in det.values())
    sh("git checkout -- . && git clean -fdq", cwd=WT)
    print(json.dumps(report, indent=1))
    # file it
    dst = os.path.join("/verif/seeded", os.environ.get("SEED_PREFIX", "") + sid)
    os.makedirs(dst, exist_ok=True)
    for f in os.listdir(d):
        if os.path.isfile(os.path.join(d, f)):
            shutil.copy(os.path.join(d, f), dst)
        else:
            shutil.copytree(os.path.join(d, f), os.path.join(dst, f), dirs_exist_ok=True)
    prev_path = os.path.join(dst, "meta.json")
    if "--skip-confirm" in args and os.path.exists(prev_path):
        prev = json.load(open(prev_path)).get("evaluation", {})
        merged = dict(prev)
        merged.setdefault("first_pass", {"checks": prev.get("checks"), "detected": prev.get("detected")})
        merged["checks"] = dict(prev.get("checks") or {}, **det) if set(det) != set(prev.get("checks") or {}) else det
        merged["detected"] = report["detected"]
        merged["after_strengthening"] = not (merged["first_pass"].get("detected"))
        report = merged
    meta["evaluation"] = report
    json.dump(meta, open(os.path.join(dst, "meta.json"), "w"), indent=1)
    return 0


if __name__ == "__main__":
    sys.exit(main())
