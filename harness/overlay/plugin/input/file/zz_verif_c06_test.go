package file

// C06 replay harness (mapped into /repo/plugin/input/file by `go test -overlay`; /repo is not modified).
// Every case exported by TLC from specs/FileReader.tla is executed against the REAL worker.work on a
// real temporary file: the appends of the case are performed between EOF rounds, the In-calls
// (offsets.current, data) are recorded and compared, round by round, with the calls the
// specification's declarative oracle expects.

import (
	"bufio"
	"encoding/json"
	"fmt"
	"math/rand"
	"os"
	"path/filepath"
	"runtime"
	"strconv"
	"sync"
	"testing"
	"time"

	"github.com/ozontech/file.d/metric"
	"github.com/ozontech/file.d/pipeline"
	"github.com/ozontech/file.d/pipeline/metadata"
	"github.com/prometheus/client_golang/prometheus"
	"go.uber.org/atomic"
	"go.uber.org/zap"
)

type c06Line struct {
	Off  int64 `json:"off"`
	Data []int `json:"data"`
	Over bool  `json:"over"`
}

type c06Case struct {
	Segs   [][]int     `json:"segs"`
	B      int         `json:"B"`
	M      int         `json:"M"`
	Cut    bool        `json:"cut"`
	Resume int64       `json:"resume"`
	Skip   bool        `json:"skip"`
	Op     string      `json:"op"` // "direct": the start state is set as given; "tail"/"reset": established by the real initJobOffset
	Exp    [][]c06Line `json:"exp"`
}

type c06Call struct {
	Off  int64  `json:"off"`
	Data string `json:"data"`
	Src  int    `json:"src,omitempty"`
}

type c06Rec struct {
	mu    sync.Mutex
	calls []c06Call
	tick  func() // called after every read of the worker: a maintenance tick that lands in the middle of a pass
}

func (r *c06Rec) IncReadOps() {
	if r.tick != nil {
		r.tick()
	}
}
func (r *c06Rec) IncMaxEventSizeExceeded(lvs ...string) {}
func (r *c06Rec) In(src pipeline.SourceID, _ string, off pipeline.Offsets, data []byte, _ bool, _ metadata.MetaData) uint64 {
	r.mu.Lock()
	r.calls = append(r.calls, c06Call{Off: c06Current(off), Data: string(data), Src: int(src)}) // copy at call time
	r.mu.Unlock()
	return uint64(len(r.calls))
}

func c06Bytes(sym []int) []byte {
	b := make([]byte, len(sym))
	for i, s := range sym {
		switch s {
		case 0:
			b[i] = '\n'
		case 1:
			b[i] = 'x'
		default:
			b[i] = byte('a' + s)
		}
	}
	return b
}

type c06Mismatch struct {
	Kind  string      `json:"kind"`
	Case  c06Case     `json:"case"`
	Round int         `json:"round"`
	Want  []c06Call   `json:"want"`
	Got   []c06Call   `json:"got"`
	Panic string      `json:"panic,omitempty"`
	Extra interface{} `json:"extra,omitempty"`
}

func c06Run(dir string, id int, c *c06Case, jp *jobProvider, lg *zap.SugaredLogger) (mm *c06Mismatch) {
	path := filepath.Join(dir, fmt.Sprintf("f%d.log", id))
	wf, err := os.OpenFile(path, os.O_CREATE|os.O_TRUNC|os.O_WRONLY|os.O_APPEND, 0o644)
	if err != nil {
		panic(err)
	}
	defer os.Remove(path)
	defer wf.Close()
	if _, err = wf.Write(c06Bytes(c.Segs[0])); err != nil {
		panic(err)
	}
	rf, err := os.Open(path)
	if err != nil {
		panic(err)
	}
	defer rf.Close()

	job := &Job{
		file:       rf,
		filename:   path,
		sourceID:   pipeline.SourceID(id + 1),
		shouldSkip: *atomic.NewBool(c.Skip),
		mu:         &sync.Mutex{},
		isDone:     false,
	}
	if fi, err := rf.Stat(); err == nil {
		job.inode = getInode(fi)
	}
	switch c.Op {
	case "tail", "reset":
		// the REAL start-state code for this offsets_op; the specification says which state it must leave
		job.shouldSkip.Store(false)
		op := offsetsOpTail
		if c.Op == "reset" {
			op = offsetsOpReset
		}
		jp.initJobOffset(op, job)
		if job.curOffset != c.Resume || job.shouldSkip.Load() != c.Skip {
			return &c06Mismatch{Kind: "init_state_differs", Case: *c, Round: 0,
				Extra: map[string]interface{}{"offsets_op": c.Op, "offset": job.curOffset, "skip": job.shouldSkip.Load()}}
		}
	default:
		// resume: what initJobOffset does for offsets_op=continue with a saved offset
		job.seek(c.Resume, 0, "verif resume")
	}
	jp.jobsMu.Lock()
	jp.jobs[job.sourceID] = job
	jp.jobsMu.Unlock()
	defer func() {
		jp.jobsMu.Lock()
		delete(jp.jobs, job.sourceID)
		jp.jobsMu.Unlock()
		if job.isDone {
			jp.jobsDone.Dec()
		}
		// maintenance releases the descriptor and opens a new one: that one is the harness's to close
		if job.file != nil && job.file != rf {
			_ = job.file.Close()
		}
	}()

	w := &worker{maxEventSize: c.M, cutOffEventByLimit: c.Cut}
	rec := &c06Rec{}
	busyTouched := 0
	if id%2 == 1 {
		// FileReader.tla MaintainBusy: the job is in a worker's hands (not done): maintenance must leave it alone
		rec.tick = func() {
			if r := jp.maintenanceJob(job); r != maintenanceResultNotDone {
				busyTouched++
			}
		}
	}
	round := 0
	defer func() {
		if r := recover(); r != nil {
			mm = &c06Mismatch{Kind: "panic", Case: *c, Round: round, Panic: fmt.Sprint(r), Got: rec.calls}
		}
	}()
	// Truncation noticed by the pass that read the data (copy-truncate rotation): for plain cases whose first segment ends with a
	// newline, the file is truncated to nothing once the first pass has consumed all of it, i.e. before its read that returns
	// EOF; the later segments are then the file's whole content.  Expectation: the declarative line oracle applied to that
	// content, offsets counted from the start of the file.
	truncated := false
	if id%5 == 0 && c.M == 0 && !c.Skip && c.Op == "direct" && c.Resume == 0 && len(c.Segs) > 1 && len(c.Segs[0]) > 0 && c.Segs[0][len(c.Segs[0])-1] == 0 {
		size := int64(len(c.Segs[0]))
		rec.tick = func() {
			if truncated {
				return
			}
			if pos, err := rf.Seek(0, 1); err == nil && pos == size {
				if err := os.Truncate(path, 0); err == nil {
					truncated = true
				}
			}
		}
	}
	for round = 0; round < len(c.Segs); round++ {
		if round > 0 {
			maintMode := id % 3 // 0: resumed by the write notification; 1: a maintenance tick on the idle file first; 2: resumed BY maintenance
			if maintMode == 1 {
				// the idle, fully read file is looked at by maintenance (descriptor released and re-opened at the same position):
				// position, held-back tail and offsets are what they were (FileReader.tla: Maintain is a stuttering step)
				if r := jp.maintenanceJob(job); r != maintenanceResultNoop && r != maintenanceResultResumed {
					return &c06Mismatch{Kind: "maintenance_disturbed_idle_job", Case: *c, Round: round, Extra: map[string]interface{}{"result": r}}
				}
			}
			if _, err = wf.Write(c06Bytes(c.Segs[round])); err != nil {
				panic(err)
			}
			if maintMode == 2 && len(c.Segs[round]) > 0 {
				// writes are not watched (the default): the growth is noticed by maintenance, also when remove_after has long expired
				jp.config.RemoveAfter_ = time.Nanosecond
				job.eofReadInfo.setUnixNanoTimestamp(1)
				r := jp.maintenanceJob(job)
				jp.config.RemoveAfter_ = 0
				if r != maintenanceResultResumed {
					return &c06Mismatch{Kind: "maintenance_did_not_resume_grown_file", Case: *c, Round: round, Extra: map[string]interface{}{"result": r}}
				}
				<-jp.jobsChan
			} else {
				// what the watcher does on a write notification
				job.mu.Lock()
				jp.tryResumeJobAndUnlock(job, path)
				// drain: tryResume pushed the job into the shared channel; this goroutine owns its own provider
				<-jp.jobsChan
			}
		}
		rec.calls = rec.calls[:0]
		jp.jobsChan <- job
		jp.jobsChan <- nil
		w.work(rec, jp, c.B, lg)

		if truncated && round > 0 {
			// lines of the content written since the truncation that end in this round's segment
			var content []int
			for k := 1; k <= round; k++ {
				content = append(content, c.Segs[k]...)
			}
			prev := len(content) - len(c.Segs[round])
			want := []c06Call{}
			start := 0
			for i, sym := range content {
				if sym == 0 {
					if i >= prev {
						want = append(want, c06Call{Off: int64(i + 1), Data: string(c06Bytes(content[start : i+1]))})
					}
					start = i + 1
				}
			}
			got := []c06Call{}
			for _, g := range rec.calls {
				got = append(got, c06Call{Off: g.Off, Data: g.Data})
			}
			same := len(got) == len(want)
			for i := 0; same && i < len(want); i++ {
				same = got[i] == want[i]
			}
			if !same {
				return &c06Mismatch{Kind: "calls_differ_after_truncation", Case: *c, Round: round, Want: want, Got: got}
			}
			continue
		}
		want := make([]c06Call, 0, len(c.Exp[round]))
		ok := len(rec.calls) == len(c.Exp[round])
		for i, e := range c.Exp[round] {
			d := string(c06Bytes(e.Data))
			want = append(want, c06Call{Off: e.Off, Data: d})
			if !ok {
				continue
			}
			g := rec.calls[i]
			if g.Off != e.Off {
				ok = false
			} else if !e.Over {
				ok = g.Data == d
			} else {
				// over the limit with cut_off: the worker-level data agrees with the line on its first M bytes
				// and keeps its newline (the pipeline then cuts to exactly M bytes + newline, see C20)
				ok = len(g.Data) > c.M && g.Data[:c.M] == d[:c.M] && g.Data[len(g.Data)-1] == '\n'
			}
		}
		if !ok {
			got := append([]c06Call(nil), rec.calls...)
			return &c06Mismatch{Kind: "calls_differ", Case: *c, Round: round, Want: want, Got: got, Extra: map[string]interface{}{"maintenance_ticks_mid_pass": rec.tick != nil}}
		}
	}
	if busyTouched > 0 {
		return &c06Mismatch{Kind: "maintenance_handled_busy_job", Case: *c, Round: round, Extra: map[string]interface{}{"times": busyTouched}}
	}
	return nil
}

// c06Match compares the calls recorded for one job in one round with the specification's expectation
func c06Match(c *c06Case, round int, calls []c06Call) (bool, []c06Call) {
	want := make([]c06Call, 0, len(c.Exp[round]))
	ok := len(calls) == len(c.Exp[round])
	for i, e := range c.Exp[round] {
		d := string(c06Bytes(e.Data))
		want = append(want, c06Call{Off: e.Off, Data: d})
		if !ok {
			continue
		}
		g := calls[i]
		if g.Off != e.Off {
			ok = false
		} else if !e.Over {
			ok = g.Data == d
		} else {
			ok = len(g.Data) > c.M && g.Data[:c.M] == d[:c.M] && g.Data[len(g.Data)-1] == '\n'
		}
	}
	return ok, want
}

// c06RunGroup: several files served by ONE worker goroutine, as in production (workers_count is usually far below the
// number of files): in every round each file receives its append and is resumed, then one worker.work call serves all of
// them in a seeded order.  The files are independent: each must see exactly the calls the specification expects for it alone.
func c06RunGroup(dir string, id int, cs []*c06Case, order []int, jp *jobProvider, lg *zap.SugaredLogger) (mm *c06Mismatch) {
	n := len(cs)
	jobs := make([]*Job, n)
	wfs := make([]*os.File, n)
	paths := make([]string, n)
	rounds := 0
	for k, c := range cs {
		paths[k] = filepath.Join(dir, fmt.Sprintf("g%d_%d.log", id, k))
		wf, err := os.OpenFile(paths[k], os.O_CREATE|os.O_TRUNC|os.O_WRONLY|os.O_APPEND, 0o644)
		if err != nil {
			panic(err)
		}
		wfs[k] = wf
		defer os.Remove(paths[k])
		defer wf.Close()
		if _, err = wf.Write(c06Bytes(c.Segs[0])); err != nil {
			panic(err)
		}
		rf, err := os.Open(paths[k])
		if err != nil {
			panic(err)
		}
		defer rf.Close()
		job := &Job{file: rf, filename: paths[k], sourceID: pipeline.SourceID(1000000 + id*8 + k), shouldSkip: *atomic.NewBool(c.Skip), mu: &sync.Mutex{}}
		job.seek(c.Resume, 0, "verif resume")
		jp.jobsMu.Lock()
		jp.jobs[job.sourceID] = job
		jp.jobsMu.Unlock()
		jobs[k] = job
		if len(c.Segs) > rounds {
			rounds = len(c.Segs)
		}
	}
	defer func() {
		jp.jobsMu.Lock()
		for _, job := range jobs {
			delete(jp.jobs, job.sourceID)
			if job.isDone {
				jp.jobsDone.Dec()
			}
		}
		jp.jobsMu.Unlock()
	}()
	w := &worker{maxEventSize: cs[0].M, cutOffEventByLimit: cs[0].Cut}
	rec := &c06Rec{}
	round := 0
	defer func() {
		if r := recover(); r != nil {
			mm = &c06Mismatch{Kind: "panic", Case: *cs[0], Round: round, Panic: fmt.Sprint(r), Got: rec.calls, Extra: "several files on one worker"}
		}
	}()
	for round = 0; round < rounds; round++ {
		rec.calls = rec.calls[:0]
		for _, k := range order {
			if round >= len(cs[k].Segs) {
				continue
			}
			if round > 0 {
				if _, err := wfs[k].Write(c06Bytes(cs[k].Segs[round])); err != nil {
					panic(err)
				}
				jobs[k].mu.Lock()
				jp.tryResumeJobAndUnlock(jobs[k], paths[k])
				<-jp.jobsChan
			}
		}
		for _, k := range order {
			if round < len(cs[k].Segs) {
				jp.jobsChan <- jobs[k]
			}
		}
		jp.jobsChan <- nil
		w.work(rec, jp, cs[0].B, lg)
		for k, c := range cs {
			if round >= len(c.Segs) {
				continue
			}
			mine := []c06Call{}
			for _, g := range rec.calls {
				if g.Src == int(jobs[k].sourceID) {
					mine = append(mine, c06Call{Off: g.Off, Data: g.Data})
				}
			}
			if ok, want := c06Match(c, round, mine); !ok {
				others := []c06Case{}
				for j, o := range cs {
					if j != k {
						others = append(others, *o)
					}
				}
				return &c06Mismatch{Kind: "calls_differ_shared_worker", Case: *c, Round: round, Want: want, Got: mine,
					Extra: map[string]interface{}{"served_with": others, "order": order, "index": k}}
			}
		}
	}
	return nil
}

func TestVerifC06(t *testing.T) {
	in := os.Getenv("VERIF_CASES")
	out := os.Getenv("VERIF_OUT")
	if in == "" || out == "" {
		t.Skip("VERIF_CASES / VERIF_OUT not set")
	}
	f, err := os.Open(in)
	if err != nil {
		t.Fatal(err)
	}
	defer f.Close()
	var cases []*c06Case
	sc := bufio.NewScanner(f)
	sc.Buffer(make([]byte, 1<<20), 1<<24)
	for sc.Scan() {
		c := &c06Case{}
		if err := json.Unmarshal(sc.Bytes(), c); err != nil {
			t.Fatalf("bad case line: %v", err)
		}
		cases = append(cases, c)
	}
	dir, err := os.MkdirTemp(os.Getenv("VERIF_SCRATCH"), "c06-")
	if err != nil {
		t.Fatal(err)
	}
	defer os.RemoveAll(dir)

	nw := runtime.GOMAXPROCS(0)
	var wg sync.WaitGroup
	var mu sync.Mutex
	var mms []*c06Mismatch
	executed := 0
	crossing := 0
	for wi := 0; wi < nw; wi++ {
		wg.Add(1)
		go func(wi int) {
			defer wg.Done()
			ctl := metric.NewCtl(fmt.Sprintf("verif_c06_%d", wi), prometheus.NewRegistry(), 0, 0)
			metrics := newMetricCollection(
				ctl.RegisterCounter("w1", "h"), ctl.RegisterCounter("w2", "h"),
				ctl.RegisterGauge("w3", "h"), ctl.RegisterGauge("w4", "h"),
			)
			lg := zap.NewNop().Sugar()
			jp := NewJobProvider(&Config{}, metrics, lg)
			jp.jobsChan = make(chan *Job, 4)
			for i := wi; i < len(cases); i += nw {
				mm := c06Run(dir, i, cases[i], jp, lg)
				mu.Lock()
				executed++
				if c06Crossing(cases[i]) {
					crossing++
				}
				if mm != nil && len(mms) < 50 {
					mms = append(mms, mm)
				}
				mu.Unlock()
			}
		}(wi)
	}
	wg.Wait()
	// several files on one worker: cases with the same worker configuration (read buffer, limit, cut) are grouped in twos and threes
	groups := 0
	byCfg := map[string][]*c06Case{}
	keys := []string{}
	for _, c := range cases {
		k := fmt.Sprintf("%d/%d/%v", c.B, c.M, c.Cut)
		if _, ok := byCfg[k]; !ok {
			keys = append(keys, k)
		}
		byCfg[k] = append(byCfg[k], c)
	}
	type grp struct {
		cs    []*c06Case
		order []int
	}
	var gs []grp
	maxGroups, _ := strconv.Atoi(os.Getenv("VERIF_C06_GROUPS"))
	if maxGroups == 0 {
		maxGroups = 20000
	}
	seed, _ := strconv.ParseInt(os.Getenv("VERIF_SEED"), 10, 64)
	rng := rand.New(rand.NewSource(seed + 17))
	for len(gs) < maxGroups {
		k := keys[rng.Intn(len(keys))]
		l := byCfg[k]
		n := 2 + rng.Intn(2)
		g := grp{}
		for j := 0; j < n; j++ {
			g.cs = append(g.cs, l[rng.Intn(len(l))])
		}
		g.order = rng.Perm(n)
		gs = append(gs, g)
	}
	for wi := 0; wi < nw; wi++ {
		wg.Add(1)
		go func(wi int) {
			defer wg.Done()
			ctl := metric.NewCtl(fmt.Sprintf("verif_c06g_%d", wi), prometheus.NewRegistry(), 0, 0)
			metrics := newMetricCollection(
				ctl.RegisterCounter("w1", "h"), ctl.RegisterCounter("w2", "h"),
				ctl.RegisterGauge("w3", "h"), ctl.RegisterGauge("w4", "h"),
			)
			lg := zap.NewNop().Sugar()
			jp := NewJobProvider(&Config{}, metrics, lg)
			jp.jobsChan = make(chan *Job, 8)
			for i := wi; i < len(gs); i += nw {
				mm := c06RunGroup(dir, i, gs[i].cs, gs[i].order, jp, lg)
				mu.Lock()
				groups++
				if mm != nil && len(mms) < 50 {
					mms = append(mms, mm)
				}
				mu.Unlock()
			}
		}(wi)
	}
	wg.Wait()
	res := map[string]interface{}{"executed": executed, "crossing": crossing, "mismatches": mms, "groups": groups}
	b, _ := json.Marshal(res)
	if err := os.WriteFile(out, b, 0o644); err != nil {
		t.Fatal(err)
	}
}

// a case is non-trivial when at least one complete line crosses a read-buffer or an append boundary
func c06Crossing(c *c06Case) bool {
	total := 0
	for _, s := range c.Segs {
		total += len(s)
	}
	if total == 0 {
		return false
	}
	all := make([]int, 0, total)
	bounds := map[int]bool{}
	for _, s := range c.Segs {
		all = append(all, s...)
		bounds[len(all)] = true
	}
	start := 0
	for i, s := range all {
		if s == 0 {
			// line occupies (start, i]; crossing if some boundary lies strictly inside
			for b := range bounds {
				if b > start && b <= i {
					return true
				}
			}
			if (i+1-start) > c.B || (start-int(c.Resume))%c.B+(i+1-start) > c.B {
				return true
			}
			start = i + 1
		}
	}
	return false
}
