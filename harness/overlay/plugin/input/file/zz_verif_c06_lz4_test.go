package file

// C06, compressed files (mapped into /repo/plugin/input/file by `go test -overlay`): lz4 has no seek, so after a restart the worker
// SKIPS forward by reading whole buffers until it is within one buffer of the smallest saved offset, and the plugin's PassEvent
// drops what is not beyond the saved offset.  For the cases of specs/FileReader.tla (content, buffer size) and every saved
// offset at a line end, the real worker.work reads a real .lz4 file; the calls BEYOND the saved offset must be exactly the
// lines the specification expects after that offset, with their end offsets.

import (
	"bufio"
	"encoding/json"
	"fmt"
	"os"
	"path/filepath"
	"sync"
	"testing"

	"github.com/ozontech/file.d/metric"
	"github.com/ozontech/file.d/pipeline"
	"github.com/pierrec/lz4/v4"
	"github.com/prometheus/client_golang/prometheus"
	"go.uber.org/zap"
)

type c06LzMismatch struct {
	Kind  string    `json:"kind"`
	Case  c06Case   `json:"case"`
	Saved int64     `json:"saved"`
	Want  []c06Call `json:"want"`
	Got   []c06Call `json:"got"`
	Panic string    `json:"panic,omitempty"`
}

func c06LzRun(dir string, id int, c *c06Case, saved int64, jp *jobProvider, lg *zap.SugaredLogger) (mm *c06LzMismatch) {
	content := []byte{}
	for _, s := range c.Segs {
		content = append(content, c06Bytes(s)...)
	}
	sub := dir
	if id%3 == 1 {
		// the letter w in the path must not matter (file.d asks lsof whether somebody WRITES the file)
		sub = filepath.Join(dir, "www-logs")
		_ = os.MkdirAll(sub, 0o755)
	}
	path := filepath.Join(sub, fmt.Sprintf("z%d.log.lz4", id))
	f, err := os.Create(path)
	if err != nil {
		panic(err)
	}
	zw := lz4.NewWriter(f)
	if _, err = zw.Write(content); err != nil {
		panic(err)
	}
	if err = zw.Close(); err != nil {
		panic(err)
	}
	f.Close()
	defer os.Remove(path)
	rf, err := os.Open(path)
	if err != nil {
		panic(err)
	}
	defer rf.Close()
	job := &Job{file: rf, filename: path, sourceID: pipeline.SourceID(2000000 + id), mu: &sync.Mutex{},
		mimeType: "application/x-lz4", isCompressed: true}
	if saved > 0 {
		job.offsets = pipeline.SliceFromMap(map[pipeline.StreamName]int64{"a": saved})
	}
	jp.jobsMu.Lock()
	jp.jobs[job.sourceID] = job
	jp.jobsMu.Unlock()
	defer func() {
		jp.jobsMu.Lock()
		delete(jp.jobs, job.sourceID)
		jp.jobsMu.Unlock()
		if job.isDone {
			jp.jobsDone.Dec()
		}
	}()
	w := &worker{}
	rec := &c06Rec{}
	defer func() {
		if r := recover(); r != nil {
			mm = &c06LzMismatch{Kind: "panic", Case: *c, Saved: saved, Panic: fmt.Sprint(r), Got: rec.calls}
		}
	}()
	jp.jobsChan <- job
	jp.jobsChan <- nil
	w.work(rec, jp, c.B, lg)
	for len(jp.jobsChan) > 0 { // a worker that gave up early leaves the rest of the queue behind
		<-jp.jobsChan
	}
	want := []c06Call{}
	for _, round := range c.Exp {
		for _, e := range round {
			if e.Off > saved {
				want = append(want, c06Call{Off: e.Off, Data: string(c06Bytes(e.Data))})
			}
		}
	}
	got := []c06Call{}
	for _, g := range rec.calls {
		if g.Off > saved { // what the plugin's PassEvent lets through after a restart
			got = append(got, c06Call{Off: g.Off, Data: g.Data})
		}
	}
	ok := len(got) == len(want)
	for i := 0; ok && i < len(want); i++ {
		ok = got[i] == want[i]
	}
	if !ok {
		return &c06LzMismatch{Kind: "lz4_calls_differ", Case: *c, Saved: saved, Want: want, Got: got}
	}
	if id%2 == 0 && job.isDone {
		// Second life of the job in the same run: everything handed over so far is acknowledged; maintenance releases and
		// re-opens the descriptor of the fully read file (a compressed stream starts over at byte 0); something resumes the job
		// (a create/rename notification, or maintenanceSymlinks on every tick for a symlinked file).  Nothing NEW may come out:
		// whatever is handed over again carries its own offset, which the plugin's PassEvent refuses as already committed.
		last := saved
		for _, g := range rec.calls {
			if g.Off > last {
				last = g.Off
			}
		}
		if last > 0 {
			if fi, err := job.file.Stat(); err == nil {
				job.inode = getInode(fi)
			}
			job.offsets = pipeline.SliceFromMap(map[pipeline.StreamName]int64{"a": last})
			if r := jp.maintenanceJob(job); r != maintenanceResultNoop {
				return &c06LzMismatch{Kind: "lz4_maintenance_disturbed_read_file", Case: *c, Saved: saved, Panic: fmt.Sprint("result ", r)}
			}
			defer func() {
				if job.file != nil && job.file != rf {
					_ = job.file.Close()
				}
			}()
			rec.calls = rec.calls[:0]
			job.mu.Lock()
			jp.tryResumeJobAndUnlock(job, path)
			<-jp.jobsChan
			jp.jobsChan <- job
			jp.jobsChan <- nil
			w.work(rec, jp, c.B, lg)
			for len(jp.jobsChan) > 0 {
				<-jp.jobsChan
			}
			again := []c06Call{}
			for _, g := range rec.calls {
				if g.Off > last {
					again = append(again, c06Call{Off: g.Off, Data: g.Data})
				}
			}
			if len(again) > 0 {
				return &c06LzMismatch{Kind: "lz4_delivered_again_after_maintenance", Case: *c, Saved: last, Want: []c06Call{}, Got: again}
			}
		}
	}
	return nil
}

// a compressed file that IS being written (the harness holds it open for writing) is followed, on the same worker, by an
// ordinary file: whatever the worker decides about the first, the second must still be read
func c06LzBeingWritten(dir string, jp *jobProvider, lg *zap.SugaredLogger) *c06LzMismatch {
	p1 := filepath.Join(dir, "held.log.lz4")
	f, err := os.Create(p1)
	if err != nil {
		panic(err)
	}
	zw := lz4.NewWriter(f)
	_, _ = zw.Write([]byte("first\n"))
	_ = zw.Close()
	f.Close()
	held, err := os.OpenFile(p1, os.O_WRONLY|os.O_APPEND, 0o644) // a writer that has not finished
	if err != nil {
		panic(err)
	}
	defer held.Close()
	p2 := filepath.Join(dir, "plain.log")
	if err := os.WriteFile(p2, []byte("second\n"), 0o644); err != nil {
		panic(err)
	}
	r1, _ := os.Open(p1)
	r2, _ := os.Open(p2)
	defer r1.Close()
	defer r2.Close()
	j1 := &Job{file: r1, filename: p1, sourceID: pipeline.SourceID(2999001), mu: &sync.Mutex{}, mimeType: "application/x-lz4", isCompressed: true}
	j2 := &Job{file: r2, filename: p2, sourceID: pipeline.SourceID(2999002), mu: &sync.Mutex{}}
	jp.jobsMu.Lock()
	jp.jobs[j1.sourceID], jp.jobs[j2.sourceID] = j1, j2
	jp.jobsMu.Unlock()
	defer func() {
		jp.jobsMu.Lock()
		delete(jp.jobs, j1.sourceID)
		delete(jp.jobs, j2.sourceID)
		jp.jobsMu.Unlock()
		for _, j := range []*Job{j1, j2} {
			if j.isDone {
				jp.jobsDone.Dec()
			}
		}
		for len(jp.jobsChan) > 0 {
			<-jp.jobsChan
		}
	}()
	w := &worker{}
	rec := &c06Rec{}
	jp.jobsChan <- j1
	jp.jobsChan <- j2
	jp.jobsChan <- nil
	w.work(rec, jp, 64, lg)
	for _, g := range rec.calls {
		if g.Src == int(j2.sourceID) && g.Data == "second\n" {
			return nil
		}
	}
	return &c06LzMismatch{Kind: "worker_stops_at_compressed_file_being_written", Got: rec.calls,
		Want: []c06Call{{Off: 7, Data: "second\n"}}}
}

func TestVerifC06Lz4(t *testing.T) {
	in := os.Getenv("VERIF_CASES")
	out := os.Getenv("VERIF_OUT")
	if in == "" || out == "" {
		t.Skip("VERIF_CASES / VERIF_OUT not set")
	}
	f, err := os.Open(in)
	if err != nil {
		t.Fatal(err)
	}
	defer f.Close()
	var cases []*c06Case
	sc := bufio.NewScanner(f)
	sc.Buffer(make([]byte, 1<<20), 1<<24)
	for sc.Scan() {
		c := &c06Case{}
		if err := json.Unmarshal(sc.Bytes(), c); err != nil {
			t.Fatalf("bad case line: %v", err)
		}
		cases = append(cases, c)
	}
	// the worker asks lsof whether somebody writes the file and takes ANY line of its output containing the letter w for a yes:
	// keep that letter out of the path
	dir, err := os.MkdirTemp("", "c06lz-")
	if err != nil {
		t.Fatal(err)
	}
	defer os.RemoveAll(dir)
	const par = 8
	var wg sync.WaitGroup
	var mu sync.Mutex
	mms := []*c06LzMismatch{}
	executed, resumed := 0, 0
	for wi := 0; wi < par; wi++ {
		wg.Add(1)
		go func(wi int) {
			defer wg.Done()
			ctl := metric.NewCtl(fmt.Sprintf("verif_c06lz_%d", wi), prometheus.NewRegistry(), 0, 0)
			metrics := newMetricCollection(
				ctl.RegisterCounter("w1", "h"), ctl.RegisterCounter("w2", "h"),
				ctl.RegisterGauge("w3", "h"), ctl.RegisterGauge("w4", "h"),
			)
			lg := zap.NewNop().Sugar()
			jp := NewJobProvider(&Config{}, metrics, lg)
			jp.jobsChan = make(chan *Job, 4)
			for i := wi; i < len(cases); i += par {
				c := cases[i]
				saveds := []int64{0}
				for _, round := range c.Exp {
					for _, e := range round {
						saveds = append(saveds, e.Off)
					}
				}
				for k, s := range saveds {
					mm := c06LzRun(dir, i*64+k, c, s, jp, lg)
					mu.Lock()
					executed++
					if s > 0 {
						resumed++
					}
					if mm != nil && len(mms) < 50 {
						mms = append(mms, mm)
					}
					mu.Unlock()
				}
			}
		}(wi)
	}
	wg.Wait()
	{
		ctl := metric.NewCtl("verif_c06lz_held", prometheus.NewRegistry(), 0, 0)
		metrics := newMetricCollection(
			ctl.RegisterCounter("w1", "h"), ctl.RegisterCounter("w2", "h"),
			ctl.RegisterGauge("w3", "h"), ctl.RegisterGauge("w4", "h"),
		)
		lg := zap.NewNop().Sugar()
		jp := NewJobProvider(&Config{}, metrics, lg)
		jp.jobsChan = make(chan *Job, 4)
		if mm := c06LzBeingWritten(dir, jp, lg); mm != nil {
			mms = append(mms, mm)
		}
		executed++
	}
	b, _ := json.Marshal(map[string]interface{}{"executed": executed, "resumed": resumed, "mismatches": mms})
	if err := os.WriteFile(out, b, 0o644); err != nil {
		t.Fatal(err)
	}
}
