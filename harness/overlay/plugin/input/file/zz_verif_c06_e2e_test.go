package file

// C06 end to end (mapped into /repo/plugin/input/file by `go test -overlay`): cases exported by TLC from specs/FileReader.tla are
// read by the REAL file input plugin inside a REAL pipeline (raw decoder, size limit and cut-off configured in the pipeline
// settings as file.d does), and what reaches the output -- (message, offset) in order -- is compared with the lines the
// specification expects: every complete line once, in order, with the offset just after its newline; a line over the limit
// absent (skip) or cut to the limit (cut_off); its neighbours and later offsets unchanged.

import (
	"bufio"
	"encoding/json"
	"fmt"
	"os"
	"path/filepath"
	"strings"
	"sync"
	"testing"
	"time"

	"github.com/ozontech/file.d/pipeline"
	"github.com/ozontech/file.d/plugin/output/devnull"
	"github.com/ozontech/file.d/test"
	"github.com/prometheus/client_golang/prometheus"
	"go.uber.org/zap"
)

type c06E2ERec struct {
	Msg string `json:"msg"`
	Off int64  `json:"off"`
}

type c06E2EMismatch struct {
	Kind string      `json:"kind"`
	Case c06Case     `json:"case"`
	Want []c06E2ERec `json:"want"`
	Got  []c06E2ERec `json:"got"`
}

func c06E2EWant(c *c06Case) []c06E2ERec {
	want := []c06E2ERec{}
	for _, round := range c.Exp {
		for _, e := range round {
			d := string(c06Bytes(e.Data))
			if d == "\n" {
				continue // an empty line is not an event (Pipeline.In ignores it)
			}
			msg := strings.TrimSuffix(d, "\n")
			if e.Over {
				msg = d[:c.M]
			}
			want = append(want, c06E2ERec{Msg: msg, Off: e.Off})
		}
	}
	return want
}

var c06E2EStartMu sync.Mutex

func c06E2ERun(base string, id int, c *c06Case) *c06E2EMismatch {
	dir, err := os.MkdirTemp(base, fmt.Sprintf("e2e-%d-", id))
	if err != nil {
		panic(err)
	}
	defer os.RemoveAll(dir)
	files := filepath.Join(dir, "files")
	_ = os.MkdirAll(files, 0o755)
	content := []byte{}
	for _, s := range c.Segs {
		content = append(content, c06Bytes(s)...)
	}
	if err := os.WriteFile(filepath.Join(files, "app.log"), content, 0o644); err != nil {
		panic(err)
	}
	settings := &pipeline.Settings{
		Capacity: 64, MaintenanceInterval: time.Hour, EventTimeout: time.Minute,
		Antispam:     pipeline.AntispamSettings{Threshold: -1, MaintenanceInterval: time.Hour},
		AvgEventSize: 64, StreamField: "stream", Decoder: "raw", Pool: pipeline.PoolTypeStd,
		MaxEventSize: c.M, CutOffEventByLimit: c.Cut,
		Metric: &pipeline.MetricSettings{HoldDuration: time.Hour},
	}
	p := pipeline.New(fmt.Sprintf("verif_c06e2e_%d", id), settings, prometheus.NewRegistry(), zap.NewNop())
	p.DisableParallelism()
	config := &Config{
		WatchingDir: files, OffsetsFile: filepath.Join(dir, "offsets.yaml"), PersistenceMode: "async", OffsetsOp: "reset",
		MaintenanceInterval: "5s", RemoveAfter: "0", ReadBufferSize: c.B, WorkersCount: "1",
	}
	test.NewConfig(config, map[string]int{"gomaxprocs": 1})
	input, _ := Factory()
	p.SetInput(&pipeline.InputPluginInfo{
		PluginStaticInfo:  &pipeline.PluginStaticInfo{Type: "file", Config: config},
		PluginRuntimeInfo: &pipeline.PluginRuntimeInfo{Plugin: input, ID: "file"},
	})
	anyPlugin, outCfg := devnull.Factory()
	output := anyPlugin.(*devnull.Plugin)
	p.SetOutput(&pipeline.OutputPluginInfo{
		PluginStaticInfo:  &pipeline.PluginStaticInfo{Type: "devnull", Config: outCfg},
		PluginRuntimeInfo: &pipeline.PluginRuntimeInfo{Plugin: output, ID: "devnull"},
	})
	var mu sync.Mutex
	got := []c06E2ERec{}
	output.SetOutFn(func(e *pipeline.Event) {
		mu.Lock()
		got = append(got, c06E2ERec{Msg: strings.Clone(e.Root.Dig("message").AsString()), Off: e.Offset})
		mu.Unlock()
	})
	want := c06E2EWant(c)
	c06E2EStartMu.Lock() // file.d starts its pipelines one after another (Plugin.Start writes a package-level map)
	p.Start()
	c06E2EStartMu.Unlock()
	deadline := time.Now().Add(3 * time.Second)
	for time.Now().Before(deadline) {
		mu.Lock()
		n := len(got)
		mu.Unlock()
		if n >= len(want) {
			break
		}
		time.Sleep(2 * time.Millisecond)
	}
	time.Sleep(30 * time.Millisecond) // extra events, if any
	p.Stop()
	mu.Lock()
	defer mu.Unlock()
	ok := len(got) == len(want)
	for i := 0; ok && i < len(want); i++ {
		ok = got[i] == want[i]
	}
	if ok {
		return nil
	}
	return &c06E2EMismatch{Kind: "delivered_differ", Case: *c, Want: want, Got: append([]c06E2ERec(nil), got...)}
}

func TestVerifC06E2E(t *testing.T) {
	in := os.Getenv("VERIF_CASES")
	out := os.Getenv("VERIF_OUT")
	if in == "" || out == "" {
		t.Skip("VERIF_CASES / VERIF_OUT not set")
	}
	f, err := os.Open(in)
	if err != nil {
		t.Fatal(err)
	}
	defer f.Close()
	var cases []*c06Case
	sc := bufio.NewScanner(f)
	sc.Buffer(make([]byte, 1<<20), 1<<24)
	for sc.Scan() {
		c := &c06Case{}
		if err := json.Unmarshal(sc.Bytes(), c); err != nil {
			t.Fatalf("bad case line: %v", err)
		}
		cases = append(cases, c)
	}
	base, err := os.MkdirTemp(os.Getenv("VERIF_SCRATCH"), "c06e2e-")
	if err != nil {
		t.Fatal(err)
	}
	defer os.RemoveAll(base)
	const par = 12
	var wg sync.WaitGroup
	var mu sync.Mutex
	mms := []*c06E2EMismatch{}
	executed, atLimit := 0, 0
	for wi := 0; wi < par; wi++ {
		wg.Add(1)
		go func(wi int) {
			defer wg.Done()
			for i := wi; i < len(cases); i += par {
				mm := c06E2ERun(base, i, cases[i])
				mu.Lock()
				executed++
				if c06HasLineOfLen(cases[i], cases[i].M) {
					atLimit++
				}
				if mm != nil && len(mms) < 50 {
					mms = append(mms, mm)
				}
				mu.Unlock()
			}
		}(wi)
	}
	wg.Wait()
	b, _ := json.Marshal(map[string]interface{}{"executed": executed, "at_limit": atLimit, "mismatches": mms})
	if err := os.WriteFile(out, b, 0o644); err != nil {
		t.Fatal(err)
	}
}

// some complete line is exactly n bytes long, newline included
func c06HasLineOfLen(c *c06Case, n int) bool {
	if n == 0 {
		return false
	}
	l := 0
	for _, s := range c.Segs {
		for _, x := range s {
			l++
			if x == 0 {
				if l == n {
					return true
				}
				l = 0
			}
		}
	}
	return false
}
