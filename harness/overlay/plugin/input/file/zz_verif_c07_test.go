package file

// C07 harness (mapped into /repo/plugin/input/file by `go test -overlay`; /repo is not modified).
//
//   TestVerifC07Proto      one scripted scenario of real jobProvider.commit / offsetDB.save calls, meant to
//                          run under `strace` (optionally with `-e inject=...`).  The scenario runs on one
//                          locked OS thread and writes ordering markers to a marker file, so that the
//                          system-call trace contains both the markers and the save protocol in order.
//   TestVerifC07Load       runs the real offsetDB.load() of a fresh offsetDB on materialised disk states.
//   TestVerifC07RoundTrip  job tables exported by TLC (specs/OffsetsFormat.tla) written by the real save and
//                          read back by the real load in a fresh offsetDB.
//   TestVerifC07Seq        scripted sequences of real truncateJob / commit / save calls (no strace), each save
//                          followed by the real load() of a fresh offsetDB: the offset-0 family (a truncated
//                          job holds 0 for every stream; 0 next to non-zero after one stream commits).
//   TestVerifC07Owner      two real file plugins (Plugin.Start) whose offsets_file is spelled in different ways:
//                          is the second one refused; if both start, what does the first one load back.
//   TestVerifC07Conc       saves running concurrently with real jobProvider.commit calls while a reader
//                          keeps loading the offsets file.
//
// The harness only reports observations (loaded tables, errors, panics); every comparison with the
// specification's expectation is made by checks/C07.py.

import (
	"bufio"
	"encoding/hex"
	"encoding/json"
	"fmt"
	"os"
	"path/filepath"
	"reflect"
	"runtime"
	"sort"
	"strconv"
	"sync"
	"sync/atomic"
	"testing"
	"time"
	"unsafe"

	"github.com/ozontech/file.d/metric"
	"github.com/ozontech/file.d/pipeline"
	"github.com/ozontech/file.d/test"
	"github.com/prometheus/client_golang/prometheus"
	uatomic "go.uber.org/atomic"
	"go.uber.org/zap"
	"go.uber.org/zap/zapcore"
)

// ---------------------------------------------------------------------------------------------
// shared pieces

type c07KV struct {
	Name string `json:"name"` // hex of the stream name bytes
	Off  int64  `json:"off"`
}

type c07Job struct {
	Src     uint64  `json:"src"`
	Inode   uint64  `json:"inode"`
	File    string  `json:"file"` // hex of the file name bytes
	Ts      int64   `json:"ts"`
	Streams []c07KV `json:"streams"`
}

type c07Loaded struct {
	Src     uint64  `json:"src"`
	File    string  `json:"file"`
	Streams []c07KV `json:"streams"`
}

type c07LoadResult struct {
	ID    int         `json:"id"`
	Err   string      `json:"err,omitempty"`
	Panic string      `json:"panic,omitempty"`
	Table []c07Loaded `json:"table"`
}

func c07Unhex(s string) string {
	b, err := hex.DecodeString(s)
	if err != nil {
		panic("c07: bad hex " + s)
	}
	return string(b)
}

func c07MakeJob(j *c07Job) *Job {
	job := &Job{
		inode:      inodeID(j.Inode),
		sourceID:   pipeline.SourceID(j.Src),
		filename:   c07Unhex(j.File),
		shouldSkip: *uatomic.NewBool(false),
		mu:         &sync.Mutex{},
	}
	job.eofReadInfo.setUnixNanoTimestamp(j.Ts)
	for _, kv := range j.Streams {
		job.offsets.Set(pipeline.StreamName(c07Unhex(kv.Name)), kv.Off)
	}
	return job
}

func c07Provider(name, offsetsFile string, sync bool) *jobProvider {
	ctl := metric.NewCtl(name, prometheus.NewRegistry(), 0, 0)
	metrics := newMetricCollection(
		ctl.RegisterCounter("w1", "h"), ctl.RegisterCounter("w2", "h"),
		ctl.RegisterGauge("w3", "h"), ctl.RegisterGauge("w4", "h"),
	)
	cfg := &Config{OffsetsFile: offsetsFile, OffsetsFileTmp: offsetsFile + ".atomic", MaxFiles: 64}
	cfg.PersistenceMode_ = persistenceModeAsync
	if sync {
		cfg.PersistenceMode_ = persistenceModeSync
	}
	// a non-empty include list keeps NewJobProvider from deriving one from the working directory
	cfg.Paths.Include = []string{filepath.Join(filepath.Dir(offsetsFile), "nothing", "*")}
	return NewJobProvider(cfg, metrics, zap.NewNop().Sugar())
}

// c07Event builds the event a pipeline would hand to Commit: regular kind, the given source, stream
// name and offset.  streamName is an unexported field of pipeline.Event; it is set through reflection
// (harness-only, the event is owned by the harness).
func c07Event(src uint64, stream string, off int64, seq uint64) *pipeline.Event {
	ev := &pipeline.Event{SeqID: seq, Offset: off, SourceID: pipeline.SourceID(src), SourceName: "c07"}
	f := reflect.ValueOf(ev).Elem().FieldByName("streamName")
	reflect.NewAt(f.Type(), unsafe.Pointer(f.UnsafeAddr())).Elem().SetString(stream)
	return ev
}

// c07RemoveJob: the watched file is gone; the real deleteJobAndUnlock takes the job out of jp.jobs
// (it wants the job done and locked, and the done-counter to cover it).
func c07RemoveJob(jp *jobProvider, src uint64) {
	job, has := jp.jobs[pipeline.SourceID(src)]
	if !has {
		return
	}
	job.mu.Lock()
	job.isDone = true
	jp.jobsDone.Inc()
	jp.deleteJobAndUnlock(job)
}

// c07Load runs the real load() of a fresh offsetDB on path and projects the result.
func c07Load(id int, path string) (res c07LoadResult) {
	res.ID = id
	res.Table = []c07Loaded{}
	defer func() {
		if r := recover(); r != nil {
			res.Panic = fmt.Sprint(r)
		}
	}()
	db := newOffsetDB(path, path+".atomic")
	offs, err := db.load()
	if err != nil {
		res.Err = err.Error()
		return res
	}
	for src, io := range offs {
		l := c07Loaded{Src: uint64(src), File: hex.EncodeToString([]byte(io.filename)), Streams: []c07KV{}}
		for st, off := range io.streams {
			l.Streams = append(l.Streams, c07KV{Name: hex.EncodeToString([]byte(st)), Off: off})
		}
		sort.Slice(l.Streams, func(a, b int) bool { return l.Streams[a].Name < l.Streams[b].Name })
		res.Table = append(res.Table, l)
	}
	sort.Slice(res.Table, func(a, b int) bool { return res.Table[a].Src < res.Table[b].Src })
	return res
}

func c07ReadNDJSON(t *testing.T, path string, each func([]byte)) {
	f, err := os.Open(path)
	if err != nil {
		t.Fatal(err)
	}
	defer f.Close()
	sc := bufio.NewScanner(f)
	sc.Buffer(make([]byte, 1<<20), 1<<26)
	for sc.Scan() {
		if len(sc.Bytes()) > 0 {
			each(sc.Bytes())
		}
	}
}

func c07WriteJSON(t *testing.T, path string, v interface{}) {
	b, err := json.Marshal(v)
	if err != nil {
		t.Fatal(err)
	}
	if err = os.WriteFile(path, b, 0o644); err != nil {
		t.Fatal(err)
	}
}

// ---------------------------------------------------------------------------------------------
// (T) scripted protocol scenario, to be run under strace

type c07Step struct {
	Op     string `json:"op"` // commit | truncate | remove | save
	Src    uint64 `json:"src"`
	Stream string `json:"stream"` // hex
	Off    int64  `json:"off"`
}

type c07Script struct {
	Dir   string    `json:"dir"`
	Sync  bool      `json:"sync"` // persistence_mode=sync: every commit saves
	Jobs  []c07Job  `json:"jobs"`
	Steps []c07Step `json:"steps"`
}

func TestVerifC07Proto(t *testing.T) {
	in := os.Getenv("VERIF_C07_SCRIPT")
	if in == "" {
		t.Skip("VERIF_C07_SCRIPT not set")
	}
	raw, err := os.ReadFile(in)
	if err != nil {
		t.Fatal(err)
	}
	var sc c07Script
	if err = json.Unmarshal(raw, &sc); err != nil {
		t.Fatal(err)
	}
	runtime.LockOSThread()
	defer runtime.UnlockOSThread()

	cur := filepath.Join(sc.Dir, "offsets.yaml")
	jp := c07Provider("verif_c07_proto", cur, sc.Sync)
	for i := range sc.Jobs {
		j := c07MakeJob(&sc.Jobs[i])
		if f, err := os.Open(os.DevNull); err == nil { // truncateJob seeks the job's file
			defer f.Close()
			j.file = f
		}
		jp.jobs[j.sourceID] = j
	}
	// set-up: the offsets file that a previous run left behind (written by the real save, before the
	// observed part of the scenario starts)
	jp.offsetDB.save(jp.jobs, jp.jobsMu)
	init, err := os.ReadFile(cur)
	if err != nil {
		t.Fatal(err)
	}

	mk, err := os.OpenFile(filepath.Join(sc.Dir, "c07.marker"), os.O_WRONLY|os.O_CREATE|os.O_APPEND, 0o600)
	if err != nil {
		t.Fatal(err)
	}
	defer mk.Close()
	mark := func(s string) { _, _ = mk.Write([]byte(s + "\n")) }

	mark("init " + hex.EncodeToString(init))
	seq := uint64(0)
	for i, st := range sc.Steps {
		switch st.Op {
		case "commit":
			seq++
			mark(fmt.Sprintf("commit_begin %d %d %s %d", i, st.Src, st.Stream, st.Off))
			func() {
				defer func() {
					if r := recover(); r != nil {
						mark(fmt.Sprintf("panic %d %s", i, hex.EncodeToString([]byte(fmt.Sprint(r)))))
					}
				}()
				jp.commit(c07Event(st.Src, c07Unhex(st.Stream), st.Off, seq))
			}()
			mark(fmt.Sprintf("commit_end %d", i))
		case "truncate":
			mark(fmt.Sprintf("truncate_begin %d %d", i, st.Src))
			func() {
				defer func() {
					if r := recover(); r != nil {
						mark(fmt.Sprintf("panic %d %s", i, hex.EncodeToString([]byte(fmt.Sprint(r)))))
					}
				}()
				jp.truncateJob(jp.jobs[pipeline.SourceID(st.Src)]) // what the watcher path does when the file shrank
			}()
			mark(fmt.Sprintf("truncate_end %d", i))
		case "remove":
			mark(fmt.Sprintf("remove_begin %d %d", i, st.Src))
			c07RemoveJob(jp, st.Src)
			mark(fmt.Sprintf("remove_end %d", i))
		case "save":
			mark(fmt.Sprintf("save_begin %d", i))
			func() {
				defer func() {
					if r := recover(); r != nil {
						mark(fmt.Sprintf("panic %d %s", i, hex.EncodeToString([]byte(fmt.Sprint(r)))))
					}
				}()
				jp.offsetDB.save(jp.jobs, jp.jobsMu)
			}()
			mark(fmt.Sprintf("save_end %d", i))
		default:
			t.Fatalf("unknown op %q", st.Op)
		}
	}
	mark("done")
}

// ---------------------------------------------------------------------------------------------
// (R) real load() on materialised disk states

type c07Disk struct {
	ID      int    `json:"id"`
	Absent  bool   `json:"absent"`
	Content string `json:"content"` // hex
}

func TestVerifC07Load(t *testing.T) {
	in, out := os.Getenv("VERIF_CASES"), os.Getenv("VERIF_OUT")
	if in == "" || out == "" {
		t.Skip("VERIF_CASES / VERIF_OUT not set")
	}
	dir, err := os.MkdirTemp(os.Getenv("VERIF_SCRATCH"), "c07-load-")
	if err != nil {
		t.Fatal(err)
	}
	defer os.RemoveAll(dir)
	results := []c07LoadResult{}
	n := 0
	c07ReadNDJSON(t, in, func(line []byte) {
		var d c07Disk
		if err := json.Unmarshal(line, &d); err != nil {
			t.Fatalf("bad disk line: %v", err)
		}
		n++
		path := filepath.Join(dir, "offsets-"+strconv.Itoa(n)+".yaml")
		if !d.Absent {
			b, err := hex.DecodeString(d.Content)
			if err != nil {
				t.Fatal(err)
			}
			if err = os.WriteFile(path, b, 0o600); err != nil {
				t.Fatal(err)
			}
		}
		results = append(results, c07Load(d.ID, path))
		_ = os.Remove(path)
	})
	c07WriteJSON(t, out, map[string]interface{}{"executed": n, "results": results})
}

// ---------------------------------------------------------------------------------------------
// (R) round trip of the textual format

type c07Table struct {
	ID   int      `json:"id"`
	Jobs []c07Job `json:"jobs"`
}

func TestVerifC07RoundTrip(t *testing.T) {
	in, out := os.Getenv("VERIF_CASES"), os.Getenv("VERIF_OUT")
	if in == "" || out == "" {
		t.Skip("VERIF_CASES / VERIF_OUT not set")
	}
	var tables []*c07Table
	c07ReadNDJSON(t, in, func(line []byte) {
		tb := &c07Table{}
		if err := json.Unmarshal(line, tb); err != nil {
			t.Fatalf("bad table line: %v", err)
		}
		tables = append(tables, tb)
	})
	dir, err := os.MkdirTemp(os.Getenv("VERIF_SCRATCH"), "c07-rt-")
	if err != nil {
		t.Fatal(err)
	}
	defer os.RemoveAll(dir)

	nw := runtime.GOMAXPROCS(0)
	results := make([]c07LoadResult, len(tables))
	written := make([]string, len(tables))
	var wg sync.WaitGroup
	for wi := 0; wi < nw; wi++ {
		wg.Add(1)
		go func(wi int) {
			defer wg.Done()
			for i := wi; i < len(tables); i += nw {
				tb := tables[i]
				path := filepath.Join(dir, fmt.Sprintf("rt-%d.yaml", i))
				jobs := make(map[pipeline.SourceID]*Job)
				for k := range tb.Jobs {
					j := c07MakeJob(&tb.Jobs[k])
					jobs[j.sourceID] = j
				}
				func() {
					defer func() {
						if r := recover(); r != nil {
							results[i] = c07LoadResult{ID: tb.ID, Panic: "save: " + fmt.Sprint(r), Table: []c07Loaded{}}
						}
					}()
					newOffsetDB(path, path+".atomic").save(jobs, &sync.RWMutex{})
					results[i] = c07Load(tb.ID, path)
					if results[i].Err != "" || results[i].Panic != "" {
						b, _ := os.ReadFile(path)
						written[i] = hex.EncodeToString(b)
					}
				}()
				_ = os.Remove(path)
			}
		}(wi)
	}
	wg.Wait()
	c07WriteJSON(t, out, map[string]interface{}{"executed": len(tables), "results": results, "written": written})
}

// ---------------------------------------------------------------------------------------------
// (R) sequences with truncation: real truncateJob + real commit + real save + real load of a fresh offsetDB

type c07SeqCase struct {
	ID    int       `json:"id"`
	Sync  bool      `json:"sync"`
	Jobs  []c07Job  `json:"jobs"`
	Steps []c07Step `json:"steps"`
}

type c07SeqLoad struct {
	Step int           `json:"step"`
	Res  c07LoadResult `json:"res"`
}

type c07SeqResult struct {
	ID    int          `json:"id"`
	Panic string       `json:"panic,omitempty"`
	Loads []c07SeqLoad `json:"loads"`
}

func c07RunSeq(dir string, c *c07SeqCase) (res c07SeqResult) {
	res.ID = c.ID
	res.Loads = []c07SeqLoad{}
	defer func() {
		if r := recover(); r != nil {
			res.Panic = fmt.Sprint(r)
		}
	}()
	cur := filepath.Join(dir, fmt.Sprintf("seq-%d.yaml", c.ID))
	defer os.Remove(cur)
	logPath := filepath.Join(dir, fmt.Sprintf("seq-%d.log", c.ID))
	if err := os.WriteFile(logPath, make([]byte, 256), 0o600); err != nil {
		panic(err)
	}
	defer os.Remove(logPath)
	jp := c07Provider(fmt.Sprintf("verif_c07_seq_%d", c.ID), cur, c.Sync)
	for i := range c.Jobs {
		j := c07MakeJob(&c.Jobs[i])
		f, err := os.Open(logPath) // truncateJob seeks the job's file back to 0
		if err != nil {
			panic(err)
		}
		defer f.Close()
		j.file = f
		jp.jobs[j.sourceID] = j
	}
	jp.offsetDB.save(jp.jobs, jp.jobsMu) // the file a previous run left behind
	seq := uint64(0)
	for i, st := range c.Steps {
		switch st.Op {
		case "commit":
			seq++
			jp.commit(c07Event(st.Src, c07Unhex(st.Stream), st.Off, seq))
			if c.Sync {
				res.Loads = append(res.Loads, c07SeqLoad{Step: i, Res: c07Load(c.ID, cur)})
			}
		case "truncate":
			jp.truncateJob(jp.jobs[pipeline.SourceID(st.Src)])
		case "remove":
			c07RemoveJob(jp, st.Src)
		case "save":
			jp.offsetDB.save(jp.jobs, jp.jobsMu)
			res.Loads = append(res.Loads, c07SeqLoad{Step: i, Res: c07Load(c.ID, cur)})
		}
	}
	return res
}

func TestVerifC07Seq(t *testing.T) {
	in, out := os.Getenv("VERIF_CASES"), os.Getenv("VERIF_OUT")
	if in == "" || out == "" {
		t.Skip("VERIF_CASES / VERIF_OUT not set")
	}
	var cases []*c07SeqCase
	c07ReadNDJSON(t, in, func(line []byte) {
		c := &c07SeqCase{}
		if err := json.Unmarshal(line, c); err != nil {
			t.Fatalf("bad case line: %v", err)
		}
		cases = append(cases, c)
	})
	dir, err := os.MkdirTemp("/dev/shm", "c07-seq-") // durability is not the subject of this family
	if err != nil {
		dir, err = os.MkdirTemp(os.Getenv("VERIF_SCRATCH"), "c07-seq-")
	}
	if err != nil {
		t.Fatal(err)
	}
	defer os.RemoveAll(dir)
	nw := runtime.GOMAXPROCS(0)
	results := make([]c07SeqResult, len(cases))
	var wg sync.WaitGroup
	for wi := 0; wi < nw; wi++ {
		wg.Add(1)
		go func(wi int) {
			defer wg.Done()
			for i := wi; i < len(cases); i += nw {
				results[i] = c07RunSeq(dir, cases[i])
			}
		}(wi)
	}
	wg.Wait()
	c07WriteJSON(t, out, map[string]interface{}{"executed": len(cases), "results": results})
}

// ---------------------------------------------------------------------------------------------
// one writer per offsets file: the start-up guard of Plugin.Start

type c07OwnerCase struct {
	ID  int    `json:"id"`
	Sp1 string `json:"sp1"` // plain | dot | slashes | updown | other | symlink
	Sp2 string `json:"sp2"`
}

type c07OwnerResult struct {
	ID            int         `json:"id"`
	FirstRefused  string      `json:"first_refused,omitempty"`
	SecondRefused string      `json:"second_refused,omitempty"`
	BothStarted   bool        `json:"both_started"`
	Path1         string      `json:"path1"`
	Path2         string      `json:"path2"`
	Loaded        []c07Loaded `json:"loaded"` // what pipeline 1 loads back after both saved (both started only)
	LoadErr       string      `json:"load_err,omitempty"`
	Panic         string      `json:"panic,omitempty"`
}

func c07Spell(dir, sp string) string {
	sep := string(filepath.Separator)
	switch sp {
	case "plain":
		return dir + sep + "offsets.yaml"
	case "dot":
		return dir + sep + "." + sep + "offsets.yaml"
	case "slashes":
		return dir + sep + sep + "offsets.yaml"
	case "updown":
		return dir + sep + "x" + sep + ".." + sep + "offsets.yaml"
	case "symlink":
		return dir + "-link" + sep + "offsets.yaml"
	default: // another file
		return dir + sep + "other.yaml"
	}
}

// c07StartPlugin runs the real Plugin.Start; a Fatal log entry (the refusal) panics and is recovered.
func c07StartPlugin(name, watchDir, offsetsFile string) (p *Plugin, refused string) {
	cfg := &Config{WatchingDir: watchDir, OffsetsFile: offsetsFile, PersistenceMode: "async", MaintenanceInterval: "5s", RemoveAfter: "0"}
	test.NewConfig(cfg, map[string]int{"gomaxprocs": 1})
	lg := zap.New(zapcore.NewNopCore(), zap.WithFatalHook(zapcore.WriteThenPanic))
	params := &pipeline.InputPluginParams{
		PluginDefaultParams: pipeline.PluginDefaultParams{
			PipelineName:     name,
			PipelineSettings: &pipeline.Settings{},
			MetricCtl:        metric.NewCtl("c07_"+name, prometheus.NewRegistry(), time.Minute, 0),
		},
		Logger: lg.Sugar(),
	}
	p = &Plugin{}
	defer func() {
		if r := recover(); r != nil {
			refused = fmt.Sprint(r)
			if refused == "" {
				refused = "fatal"
			}
		}
	}()
	p.Start(cfg, params)
	return p, ""
}

func c07OwnerRun(root string, c *c07OwnerCase) (res c07OwnerResult) {
	res.ID = c.ID
	res.Loaded = []c07Loaded{}
	defer func() {
		if r := recover(); r != nil {
			res.Panic = fmt.Sprint(r)
		}
	}()
	saved := offsetFiles // the package-level registry is reset per case, as the repository's tests do
	offsetFiles = make(map[string]string)
	defer func() { offsetFiles = saved }()

	dir := filepath.Join(root, fmt.Sprintf("own%d", c.ID))
	for _, d := range []string{dir, filepath.Join(dir, "x"), filepath.Join(dir, "wa"), filepath.Join(dir, "wb")} {
		if err := os.MkdirAll(d, 0o700); err != nil {
			panic(err)
		}
	}
	_ = os.Symlink(dir, dir+"-link")
	res.Path1, res.Path2 = c07Spell(dir, c.Sp1), c07Spell(dir, c.Sp2)

	a, refused := c07StartPlugin(fmt.Sprintf("a%d", c.ID), filepath.Join(dir, "wa"), res.Path1)
	if refused != "" {
		res.FirstRefused = refused
		return res
	}
	defer a.Stop()
	b, refused := c07StartPlugin(fmt.Sprintf("b%d", c.ID), filepath.Join(dir, "wb"), res.Path2)
	if refused != "" {
		res.SecondRefused = refused
		return res
	}
	defer b.Stop()
	res.BothStarted = true

	put := func(jp *jobProvider, src uint64, file string, off int64) {
		job := &Job{filename: file, inode: inodeID(src), sourceID: pipeline.SourceID(src), shouldSkip: *uatomic.NewBool(false), mu: &sync.Mutex{}}
		job.offsets.Set("stdout", off)
		jp.jobsMu.Lock()
		jp.jobs[job.sourceID] = job
		jp.jobsMu.Unlock()
	}
	put(a.jobProvider, 1001, filepath.Join(dir, "wa", "a.log"), 500)
	a.jobProvider.offsetDB.save(a.jobProvider.jobs, a.jobProvider.jobsMu)
	put(b.jobProvider, 2002, filepath.Join(dir, "wb", "b.log"), 7)
	b.jobProvider.offsetDB.save(b.jobProvider.jobs, b.jobProvider.jobsMu)
	// pipeline a restarts: what does ITS offsets file load back to
	lr := c07Load(c.ID, res.Path1)
	res.Loaded, res.LoadErr = lr.Table, lr.Err+lr.Panic
	return res
}

func TestVerifC07Owner(t *testing.T) {
	in, out := os.Getenv("VERIF_CASES"), os.Getenv("VERIF_OUT")
	if in == "" || out == "" {
		t.Skip("VERIF_CASES / VERIF_OUT not set")
	}
	root, err := os.MkdirTemp(os.Getenv("VERIF_SCRATCH"), "c07-own-")
	if err != nil {
		t.Fatal(err)
	}
	defer os.RemoveAll(root)
	results := []c07OwnerResult{}
	c07ReadNDJSON(t, in, func(line []byte) {
		c := &c07OwnerCase{}
		if err := json.Unmarshal(line, c); err != nil {
			t.Fatalf("bad case line: %v", err)
		}
		results = append(results, c07OwnerRun(root, c)) // sequential: the registry is a package-level variable
	})
	c07WriteJSON(t, out, map[string]interface{}{"executed": len(results), "results": results})
}

// ---------------------------------------------------------------------------------------------
// concurrency: saves concurrent with real commits, while a reader keeps loading the file

type c07ConcViolation struct {
	Kind   string  `json:"kind"`
	Src    uint64  `json:"src"`
	Detail string  `json:"detail"`
	Vector []int64 `json:"vector,omitempty"`
	N      int64   `json:"n"`
	Began  int64   `json:"began"`
}

// The committer of a job commits round-robin over its S streams, offsets growing by one: after n
// commits the job holds  v[i] = base + n/S + (i < n%S ? 1 : 0).  These "staircase" vectors are the only
// ones the job ever holds, so a loaded vector is legal iff it is the staircase of some n that is not
// larger than the number of commit calls that had begun when the load finished.
func TestVerifC07Conc(t *testing.T) {
	out := os.Getenv("VERIF_OUT")
	if out == "" {
		t.Skip("VERIF_OUT not set")
	}
	millis, _ := strconv.Atoi(os.Getenv("VERIF_C07_MILLIS"))
	if millis <= 0 {
		millis = 3000
	}
	syncMode := os.Getenv("VERIF_C07_SYNC") == "1"
	const nJobs, nStreams, base = 3, 24, 5
	// this clause is about atomicity, not durability: a memory file system (cheap fsync) gives many more saves
	dir, err := os.MkdirTemp("/dev/shm", "c07-conc-")
	if err != nil {
		dir, err = os.MkdirTemp(os.Getenv("VERIF_SCRATCH"), "c07-conc-")
	}
	if err != nil {
		t.Fatal(err)
	}
	defer os.RemoveAll(dir)
	cur := filepath.Join(dir, "offsets.yaml")
	jp := c07Provider("verif_c07_conc", cur, syncMode)

	names := make([]string, nStreams)
	for i := range names {
		// long names widen the window in which an unlocked snapshot would be torn
		names[i] = fmt.Sprintf("stream-%02d-", i)
		for len(names[i]) < 96 {
			names[i] += "x"
		}
	}
	for j := 0; j < nJobs; j++ {
		job := &Job{inode: inodeID(100 + j), sourceID: pipeline.SourceID(j + 1), filename: fmt.Sprintf("/var/log/c07-%d.log", j),
			shouldSkip: *uatomic.NewBool(false), mu: &sync.Mutex{}}
		for i := 0; i < nStreams; i++ {
			job.offsets.Set(pipeline.StreamName(names[i]), base)
		}
		jp.jobs[job.sourceID] = job
	}
	// the file a previous run left behind
	jp.offsetDB.save(jp.jobs, jp.jobsMu)

	var began [nJobs]atomic.Int64
	var stop atomic.Bool
	var wg sync.WaitGroup
	var vmu sync.Mutex
	var viol []c07ConcViolation
	addV := func(v c07ConcViolation) {
		vmu.Lock()
		if len(viol) < 20 {
			viol = append(viol, v)
		}
		vmu.Unlock()
	}
	var commits, saves, loads, distinct atomic.Int64

	for j := 0; j < nJobs; j++ {
		wg.Add(1)
		go func(j int) {
			defer wg.Done()
			defer func() {
				if r := recover(); r != nil {
					addV(c07ConcViolation{Kind: "commit_panic", Src: uint64(j + 1), Detail: fmt.Sprint(r)})
				}
			}()
			seq := uint64(0)
			for n := int64(0); !stop.Load(); n++ {
				began[j].Store(n + 1)
				seq++
				jp.commit(c07Event(uint64(j+1), names[n%nStreams], base+n/nStreams+1, seq))
				commits.Add(1)
				if n%64 == 63 {
					runtime.Gosched()
				}
			}
		}(j)
	}
	// explicit savers: what saveOffsetsCyclic and stop() do (they may overlap each other)
	for s := 0; s < 2; s++ {
		wg.Add(1)
		go func() {
			defer wg.Done()
			defer func() {
				if r := recover(); r != nil {
					addV(c07ConcViolation{Kind: "save_panic", Detail: fmt.Sprint(r)})
				}
			}()
			for !stop.Load() {
				jp.offsetDB.save(jp.jobs, jp.jobsMu)
				saves.Add(1)
			}
		}()
	}
	// readers: the real load() of a fresh offsetDB at arbitrary instants
	for r := 0; r < 2; r++ {
		wg.Add(1)
		go func() {
			defer wg.Done()
			last := [nJobs]int64{}
			for !stop.Load() {
				res := c07Load(0, cur)
				var snap [nJobs]int64
				for j := range snap {
					snap[j] = began[j].Load()
				}
				loads.Add(1)
				if res.Err != "" || res.Panic != "" {
					addV(c07ConcViolation{Kind: "load_error_mid_save", Detail: res.Err + res.Panic})
					continue
				}
				seen := map[uint64]bool{}
				for _, l := range res.Table {
					seen[l.Src] = true
					j := int(l.Src) - 1
					if j < 0 || j >= nJobs {
						addV(c07ConcViolation{Kind: "unknown_source", Src: l.Src})
						continue
					}
					vec := make([]int64, nStreams)
					ok := len(l.Streams) == nStreams
					byName := map[string]int64{}
					for _, kv := range l.Streams {
						byName[c07Unhex(kv.Name)] = kv.Off
					}
					n := int64(0)
					for i := range vec {
						v, has := byName[names[i]]
						ok = ok && has
						vec[i] = v
						n += v - base
					}
					for i := range vec {
						want := int64(base) + n/nStreams
						if int64(i) < n%nStreams {
							want++
						}
						ok = ok && n >= 0 && vec[i] == want
					}
					if !ok {
						addV(c07ConcViolation{Kind: "vector_never_held", Src: l.Src, Vector: vec, N: n, Began: snap[j]})
					} else if n > snap[j] {
						addV(c07ConcViolation{Kind: "ahead_of_commits", Src: l.Src, Vector: vec, N: n, Began: snap[j]})
					} else if n != last[j] {
						last[j] = n
						distinct.Add(1)
					}
				}
				for j := 0; j < nJobs; j++ {
					if !seen[uint64(j+1)] {
						addV(c07ConcViolation{Kind: "vector_never_held", Src: uint64(j + 1), Detail: "job missing from the loaded file"})
					}
				}
			}
		}()
	}
	// run for the requested time, and longer (up to 8x) on a loaded machine until enough saves and loads happened
	start := time.Now()
	for {
		time.Sleep(50 * time.Millisecond)
		el := time.Since(start)
		if el >= time.Duration(millis)*time.Millisecond && ((saves.Load() >= 150 && loads.Load() >= 300 && commits.Load() >= 150) || el >= 8*time.Duration(millis)*time.Millisecond) {
			break
		}
	}
	stop.Store(true)
	wg.Wait()
	c07WriteJSON(t, out, map[string]interface{}{
		"commits": commits.Load(), "saves": saves.Load(), "loads": loads.Load(), "distinct_loaded_vectors": distinct.Load(),
		"violations": viol, "sync": syncMode,
	})
}
