package file

import (
	"reflect"

	"github.com/ozontech/file.d/pipeline"
)

// c06Current reads the unexported `current` field of pipeline.Offsets (read-only reflection).
func c06Current(o pipeline.Offsets) int64 {
	return reflect.ValueOf(o).FieldByName("current").Int()
}
