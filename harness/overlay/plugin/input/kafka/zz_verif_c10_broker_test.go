package kafka

// C10 harness, broker part (mapped into /repo/plugin/input/kafka by `go test -overlay`): a tiny in-process Kafka broker (single node,
// single group member) speaking just enough of the wire protocol for a franz-go group consumer, so that the REAL Plugin.Start
// (client creation, ping, group join, PollRecords loop, partition assignment) and the REAL Plugin.Stop (CommitMarkedOffsets)
// run offline.  It remembers every OffsetCommit it receives.


import (
	"bufio"
	"context"
	"encoding/binary"
	"encoding/json"
	"fmt"
	"hash/crc32"
	"io"
	"net"
	"os"
	"reflect"
	"strconv"
	"sync"
	"testing"
	"time"

	"github.com/ozontech/file.d/cfg"
	"github.com/ozontech/file.d/decoder"
	"github.com/ozontech/file.d/metric"
	"github.com/ozontech/file.d/pipeline"
	"github.com/ozontech/file.d/pipeline/metadata"
	"github.com/ozontech/file.d/test"
	"github.com/prometheus/client_golang/prometheus"
	"github.com/twmb/franz-go/pkg/kmsg"
	"go.uber.org/zap"
)

// ---------------------------------------------------------------------------------
// fake broker
// ---------------------------------------------------------------------------------

type c10bRecord struct {
	epoch int32
	value []byte
}

type c10bCommit struct {
	topic     string
	partition int32
	offset    int64
	epoch     int32
}

type c10bBroker struct {
	perFetch int
	ln   net.Listener
	host string
	port int32

	mu        sync.Mutex
	conns     []net.Conn
	logs      map[string]map[int32][]c10bRecord // topic -> partition -> log (offset == index)
	committed map[string]map[int32]int64
	commits   []c10bCommit // every partition of every OffsetCommit request, in arrival order
	gen       int32
	closed    bool
}

func c10bNewBroker() *c10bBroker {
	ln, err := net.Listen("tcp", "127.0.0.1:0")
	if err != nil {
		panic(fmt.Sprintf("listen: %v", err))
	}
	addr := ln.Addr().(*net.TCPAddr)
	b := &c10bBroker{
		ln:        ln,
		host:      "127.0.0.1",
		port:      int32(addr.Port),
		logs:      map[string]map[int32][]c10bRecord{},
		committed: map[string]map[int32]int64{},
	}
	go b.acceptLoop()
	return b
}

func (b *c10bBroker) addr() string { return net.JoinHostPort(b.host, strconv.Itoa(int(b.port))) }

func (b *c10bBroker) close() {
	b.mu.Lock()
	b.closed = true
	conns := b.conns
	b.conns = nil
	b.mu.Unlock()
	_ = b.ln.Close()
	for _, c := range conns {
		_ = c.Close()
	}
}

func (b *c10bBroker) createPartition(topic string, partition int32) {
	b.mu.Lock()
	defer b.mu.Unlock()
	if b.logs[topic] == nil {
		b.logs[topic] = map[int32][]c10bRecord{}
	}
	if _, ok := b.logs[topic][partition]; !ok {
		b.logs[topic][partition] = []c10bRecord{}
	}
}

func (b *c10bBroker) produce(topic string, partition int32, epoch int32, value string) {
	b.mu.Lock()
	defer b.mu.Unlock()
	b.logs[topic][partition] = append(b.logs[topic][partition], c10bRecord{epoch: epoch, value: []byte(value)})
}

func (b *c10bBroker) committedOffset(topic string, partition int32) (int64, bool) {
	b.mu.Lock()
	defer b.mu.Unlock()
	o, ok := b.committed[topic][partition]
	return o, ok
}

func (b *c10bBroker) allCommits() []c10bCommit {
	b.mu.Lock()
	defer b.mu.Unlock()
	return append([]c10bCommit(nil), b.commits...)
}

func (b *c10bBroker) acceptLoop() {
	for {
		c, err := b.ln.Accept()
		if err != nil {
			return
		}
		b.mu.Lock()
		if b.closed {
			b.mu.Unlock()
			_ = c.Close()
			return
		}
		b.conns = append(b.conns, c)
		b.mu.Unlock()
		go b.serve(c)
	}
}

func (b *c10bBroker) serve(c net.Conn) {
	defer c.Close()
	for {
		var sizeBuf [4]byte
		if _, err := io.ReadFull(c, sizeBuf[:]); err != nil {
			return
		}
		size := binary.BigEndian.Uint32(sizeBuf[:])
		buf := make([]byte, size)
		if _, err := io.ReadFull(c, buf); err != nil {
			return
		}
		if len(buf) < 10 {
			return
		}
		key := int16(binary.BigEndian.Uint16(buf[0:2]))
		version := int16(binary.BigEndian.Uint16(buf[2:4]))
		corr := buf[4:8]
		clientIDLen := int16(binary.BigEndian.Uint16(buf[8:10]))
		body := buf[10:]
		if clientIDLen > 0 {
			body = body[clientIDLen:]
		}

		req := kmsg.RequestForKey(key)
		if req == nil {
			return
		}
		req.SetVersion(version)
		if req.IsFlexible() {
			// request header v2: tagged fields (always empty here)
			body = body[1:]
		}
		if err := req.ReadFrom(body); err != nil {
			_ = err
			return
		}

		resp := b.handle(req)
		if resp == nil {

			return
		}
		resp.SetVersion(version)

		out := make([]byte, 4, 256)
		out = append(out, corr...)
		if resp.IsFlexible() && key != 18 {
			out = append(out, 0) // response header v1: empty tagged fields
		}
		out = resp.AppendTo(out)
		binary.BigEndian.PutUint32(out[0:4], uint32(len(out)-4))
		if _, err := c.Write(out); err != nil {
			return
		}
	}
}

var c10bSupported = map[int16]int16{
	1:  11, // Fetch (topic names, not flexible)
	2:  4,  // ListOffsets
	3:  8,  // Metadata (no topic ids)
	8:  7,  // OffsetCommit
	9:  5,  // OffsetFetch
	10: 2,  // FindCoordinator
	11: 5,  // JoinGroup
	12: 3,  // Heartbeat
	13: 2,  // LeaveGroup
	14: 3,  // SyncGroup
	18: 3,  // ApiVersions
}

func (b *c10bBroker) handle(req kmsg.Request) kmsg.Response {
	switch r := req.(type) {
	case *kmsg.ApiVersionsRequest:
		resp := kmsg.NewPtrApiVersionsResponse()
		for k, v := range c10bSupported {
			ak := kmsg.NewApiVersionsResponseApiKey()
			ak.ApiKey = k
			ak.MinVersion = 0
			ak.MaxVersion = v
			resp.ApiKeys = append(resp.ApiKeys, ak)
		}
		return resp

	case *kmsg.MetadataRequest:
		resp := kmsg.NewPtrMetadataResponse()
		br := kmsg.NewMetadataResponseBroker()
		br.NodeID = 0
		br.Host = b.host
		br.Port = b.port
		resp.Brokers = append(resp.Brokers, br)
		clusterID := "zz-seed"
		resp.ClusterID = &clusterID
		resp.ControllerID = 0

		b.mu.Lock()
		var names []string
		if r.Topics == nil {
			for name := range b.logs {
				names = append(names, name)
			}
		} else {
			for _, t := range r.Topics {
				if t.Topic != nil {
					names = append(names, *t.Topic)
				}
			}
		}
		for _, name := range names {
			name := name
			mt := kmsg.NewMetadataResponseTopic()
			mt.Topic = &name
			parts, ok := b.logs[name]
			if !ok {
				mt.ErrorCode = 3 // UNKNOWN_TOPIC_OR_PARTITION
			}
			for p := range parts {
				mp := kmsg.NewMetadataResponseTopicPartition()
				mp.Partition = p
				mp.Leader = 0
				mp.LeaderEpoch = int32(3)
				mp.Replicas = []int32{0}
				mp.ISR = []int32{0}
				mt.Partitions = append(mt.Partitions, mp)
			}
			resp.Topics = append(resp.Topics, mt)
		}
		b.mu.Unlock()
		return resp

	case *kmsg.FindCoordinatorRequest:
		resp := kmsg.NewPtrFindCoordinatorResponse()
		resp.NodeID = 0
		resp.Host = b.host
		resp.Port = b.port
		return resp

	case *kmsg.JoinGroupRequest:
		resp := kmsg.NewPtrJoinGroupResponse()
		b.mu.Lock()
		b.gen++
		resp.Generation = b.gen
		b.mu.Unlock()
		member := r.MemberID
		if member == "" {
			member = "zz-member-1"
		}
		if len(r.Protocols) == 0 {
			resp.ErrorCode = 23 // INCONSISTENT_GROUP_PROTOCOL
			return resp
		}
		proto := r.Protocols[0].Name
		resp.Protocol = &proto
		resp.LeaderID = member
		resp.MemberID = member
		m := kmsg.NewJoinGroupResponseMember()
		m.MemberID = member
		m.ProtocolMetadata = r.Protocols[0].Metadata
		resp.Members = append(resp.Members, m)
		return resp

	case *kmsg.SyncGroupRequest:
		resp := kmsg.NewPtrSyncGroupResponse()
		for _, a := range r.GroupAssignment {
			if a.MemberID == r.MemberID {
				resp.MemberAssignment = a.MemberAssignment
			}
		}
		return resp

	case *kmsg.HeartbeatRequest:
		return kmsg.NewPtrHeartbeatResponse()

	case *kmsg.LeaveGroupRequest:
		return kmsg.NewPtrLeaveGroupResponse()

	case *kmsg.OffsetFetchRequest:
		resp := kmsg.NewPtrOffsetFetchResponse()
		b.mu.Lock()
		for _, t := range r.Topics {
			rt := kmsg.NewOffsetFetchResponseTopic()
			rt.Topic = t.Topic
			for _, p := range t.Partitions {
				rp := kmsg.NewOffsetFetchResponseTopicPartition()
				rp.Partition = p
				rp.Offset = -1
				rp.LeaderEpoch = -1
				if o, ok := b.committed[t.Topic][p]; ok {
					rp.Offset = o
				}
				rt.Partitions = append(rt.Partitions, rp)
			}
			resp.Topics = append(resp.Topics, rt)
		}
		b.mu.Unlock()
		return resp

	case *kmsg.OffsetCommitRequest:
		resp := kmsg.NewPtrOffsetCommitResponse()
		b.mu.Lock()
		for _, t := range r.Topics {
			rt := kmsg.NewOffsetCommitResponseTopic()
			rt.Topic = t.Topic
			for _, p := range t.Partitions {
				if b.committed[t.Topic] == nil {
					b.committed[t.Topic] = map[int32]int64{}
				}
				b.committed[t.Topic][p.Partition] = p.Offset
				b.commits = append(b.commits, c10bCommit{topic: t.Topic, partition: p.Partition, offset: p.Offset, epoch: p.LeaderEpoch})
				rp := kmsg.NewOffsetCommitResponseTopicPartition()
				rp.Partition = p.Partition
				rt.Partitions = append(rt.Partitions, rp)
			}
			resp.Topics = append(resp.Topics, rt)
		}
		b.mu.Unlock()
		return resp

	case *kmsg.ListOffsetsRequest:
		resp := kmsg.NewPtrListOffsetsResponse()
		b.mu.Lock()
		for _, t := range r.Topics {
			rt := kmsg.NewListOffsetsResponseTopic()
			rt.Topic = t.Topic
			for _, p := range t.Partitions {
				rp := kmsg.NewListOffsetsResponseTopicPartition()
				rp.Partition = p.Partition
				rp.Timestamp = -1
				rp.LeaderEpoch = -1
				log, ok := b.logs[t.Topic][p.Partition]
				switch {
				case !ok:
					rp.ErrorCode = 3
				case p.Timestamp == -2:
					rp.Offset = 0
				default:
					rp.Offset = int64(len(log))
				}
				rt.Partitions = append(rt.Partitions, rp)
			}
			resp.Topics = append(resp.Topics, rt)
		}
		b.mu.Unlock()
		return resp

	case *kmsg.FetchRequest:
		deadline := time.Now().Add(50 * time.Millisecond)
		for {
			resp, hasData := b.fetchOnce(r)
			if hasData || time.Now().After(deadline) {
				return resp
			}
			time.Sleep(5 * time.Millisecond)
		}
	}
	return nil
}

func (b *c10bBroker) fetchOnce(r *kmsg.FetchRequest) (*kmsg.FetchResponse, bool) {
	resp := kmsg.NewPtrFetchResponse()
	hasData := false
	b.mu.Lock()
	defer b.mu.Unlock()
	for _, t := range r.Topics {
		rt := kmsg.NewFetchResponseTopic()
		rt.Topic = t.Topic
		for _, p := range t.Partitions {
			rp := kmsg.NewFetchResponseTopicPartition()
			rp.Partition = p.Partition
			log, ok := b.logs[t.Topic][p.Partition]
			if !ok {
				rp.ErrorCode = 3
				rt.Partitions = append(rt.Partitions, rp)
				continue
			}
			rp.HighWatermark = int64(len(log))
			rp.LastStableOffset = int64(len(log))
			rp.LogStartOffset = 0
			for o := p.FetchOffset; o >= 0 && o < int64(len(log)); o++ {
				if b.perFetch > 0 && o >= p.FetchOffset+int64(b.perFetch) {
					break // small fetch responses: the client has to poll again for the rest
				}
				rp.RecordBatches = append(rp.RecordBatches, c10bEncodeBatch(o, log[o])...)
				hasData = true
			}
			rt.Partitions = append(rt.Partitions, rp)
		}
		resp.Topics = append(resp.Topics, rt)
	}
	return resp, hasData
}

// c10bEncodeBatch encodes one record as a v2 record batch.
func c10bEncodeBatch(offset int64, rec c10bRecord) []byte {
	var tmp [binary.MaxVarintLen64]byte
	varint := func(dst []byte, v int64) []byte {
		n := binary.PutVarint(tmp[:], v)
		return append(dst, tmp[:n]...)
	}

	// record
	var body []byte
	body = append(body, 0)                     // attributes
	body = varint(body, 0)                     // timestamp delta
	body = varint(body, 0)                     // offset delta
	body = varint(body, -1)                    // key: null
	body = varint(body, int64(len(rec.value))) // value
	body = append(body, rec.value...)
	body = varint(body, 0) // headers
	var record []byte
	record = varint(record, int64(len(body)))
	record = append(record, body...)

	// part of the batch that is covered by the crc
	var crcPart []byte
	crcPart = binary.BigEndian.AppendUint16(crcPart, 0)                          // attributes
	crcPart = binary.BigEndian.AppendUint32(crcPart, 0)                          // last offset delta
	crcPart = binary.BigEndian.AppendUint64(crcPart, 0)                          // first timestamp
	crcPart = binary.BigEndian.AppendUint64(crcPart, 0)                          // max timestamp
	crcPart = binary.BigEndian.AppendUint64(crcPart, uint64(0xFFFFFFFFFFFFFFFF)) // producer id -1
	crcPart = binary.BigEndian.AppendUint16(crcPart, 0xFFFF)                     // producer epoch -1
	crcPart = binary.BigEndian.AppendUint32(crcPart, 0xFFFFFFFF)                 // base sequence -1
	crcPart = binary.BigEndian.AppendUint32(crcPart, 1)                          // number of records
	crcPart = append(crcPart, record...)

	crc := crc32.Checksum(crcPart, crc32.MakeTable(crc32.Castagnoli))

	var out []byte
	out = binary.BigEndian.AppendUint64(out, uint64(offset))             // base offset
	out = binary.BigEndian.AppendUint32(out, uint32(4+1+4+len(crcPart))) // batch length
	out = binary.BigEndian.AppendUint32(out, uint32(rec.epoch))          // partition leader epoch
	out = append(out, 2)                                                 // magic
	out = binary.BigEndian.AppendUint32(out, crc)
	out = append(out, crcPart...)
	return out
}


// ---------------------------------------------------------------------------------
// broker family: REAL Plugin.Start / Commit / Stop against the in-process broker
// ---------------------------------------------------------------------------------

type c10bIn struct {
	sourceID pipeline.SourceID
	offset   int64
	data     string
}

type c10bController struct {
	mu      sync.Mutex
	ins     []c10bIn
	stall   time.Duration // the pipeline is slow to take the FIRST record (back pressure): In blocks that long once
	stalled bool
}

func (c *c10bController) In(sourceID pipeline.SourceID, _ string, offsets pipeline.Offsets, data []byte, _ bool, _ metadata.MetaData) uint64 {
	c.mu.Lock()
	if c.stall > 0 && !c.stalled {
		c.stalled = true
		c.mu.Unlock()
		time.Sleep(c.stall)
		c.mu.Lock()
	}
	defer c.mu.Unlock()
	c.ins = append(c.ins, c10bIn{sourceID: sourceID, offset: reflect.ValueOf(offsets).FieldByName("current").Int(), data: string(data)})
	return uint64(len(c.ins))
}
func (c *c10bController) UseSpread()                        {}
func (c *c10bController) DisableStreams()                   {}
func (c *c10bController) SuggestDecoder(_ decoder.Type)     {}
func (c *c10bController) IncReadOps()                       {}
func (c *c10bController) IncMaxEventSizeExceeded(...string) {}
func (c *c10bController) snapshot() []c10bIn {
	c.mu.Lock()
	defer c.mu.Unlock()
	return append([]c10bIn(nil), c.ins...)
}

type c10bScenario struct {
	Run    int      `json:"run"`
	Name   string   `json:"name"`
	Topics []string `json:"topics"` // the config's topics list (may name a topic twice)
	PerFetch     int `json:"per_fetch"`     // >0: the broker hands out at most that many records of a partition per fetch response
	StallMs      int `json:"stall_ms"`      // >0: In blocks that long for the first record
	MaxConsumers int `json:"max_consumers"` // max_concurrent_consumers (capacity of a partition consumer's fetch queue); 0 = default
	Lifecycle    int `json:"lifecycle"`     // >0: the plugin is the input of a REAL pipeline whose output delivers only the first Lifecycle records; then Pipeline.Stop
	Recs   []struct {
		ID    int    `json:"id"`
		Topic string `json:"topic"`
		Part  int32  `json:"part"`
		Epoch int32  `json:"epoch"`
		Ack   bool   `json:"ack"` // acknowledged by the output (Commit is called) before Stop
	} `json:"recs"`
}

// ---------------------------------------------------------------------------------
// shutdown of a whole pipeline (specs/Shutdown.tla): the kafka plugin is the input of a real pipeline; its output delivers the
// first records and hangs on the rest (backend down); Pipeline.Stop; what did the broker get?
// ---------------------------------------------------------------------------------
type c10bLifeOut struct {
	mu        sync.Mutex
	deliver   int // records with id <= deliver are delivered, the others hang until the output is stopped
	delivered []int
	batcher   *pipeline.RetriableBatcher
	ctx       context.Context
	cancel    context.CancelFunc
	log       func(ev string, kv ...interface{})
}

func c10bID(e *pipeline.Event) int {
	n := e.Root.Dig("id")
	if n == nil {
		return 0
	}
	return n.AsInt()
}

func (o *c10bLifeOut) Start(_ pipeline.AnyConfig, p *pipeline.OutputPluginParams) {
	opts := &pipeline.BatcherOptions{PipelineName: p.PipelineName, OutputType: "verif_c10b", Controller: p.Controller, Workers: 2,
		BatchSizeCount: 1, FlushTimeout: 10 * time.Millisecond, MetricCtl: p.MetricCtl}
	// no dead queue, not fatal: a batch whose retries are exhausted is given up and committed (file.d's documented behaviour)
	o.batcher = pipeline.NewRetriableBatcher(opts, o.send, pipeline.BackoffOpts{MinRetention: time.Millisecond, Multiplier: 1.5, AttemptNum: 1},
		func(error, []*pipeline.Event) {})
	o.ctx, o.cancel = context.WithCancel(context.Background())
	o.batcher.Start(context.Background())
}

// the way clickhouse / postgres outputs stop: pending requests are cancelled, then the batcher is stopped
func (o *c10bLifeOut) Stop()                 { o.cancel(); o.batcher.Stop() }
func (o *c10bLifeOut) Out(e *pipeline.Event) { o.batcher.Add(e) }
func (o *c10bLifeOut) send(_ *pipeline.WorkerData, b *pipeline.Batch) error {
	ids := []int{}
	hang := false
	b.ForEach(func(e *pipeline.Event) {
		id := c10bID(e)
		ids = append(ids, id)
		if id > o.deliver {
			hang = true
		}
	})
	if hang {
		<-o.ctx.Done() // the backend does not answer; the request ends when the output is stopped
		return o.ctx.Err()
	}
	o.mu.Lock()
	o.delivered = append(o.delivered, ids...)
	o.log("SendRet", "ids", ids, "ok", true)
	o.mu.Unlock()
	return nil
}

func c10bRunLifecycle(sc *c10bScenario) []map[string]interface{} {
	var evs []map[string]interface{}
	var lmu sync.Mutex
	n := 0
	log := func(ev string, kv ...interface{}) {
		lmu.Lock()
		defer lmu.Unlock()
		n++
		e := map[string]interface{}{"n": n, "ev": ev, "run": sc.Run}
		for i := 0; i+1 < len(kv); i += 2 {
			e[kv[i].(string)] = kv[i+1]
		}
		evs = append(evs, e)
	}
	log("Reset", "name", sc.Name)
	b := c10bNewBroker()
	defer b.close()
	b.createPartition("va", 0)
	for i, r := range sc.Recs {
		b.produce("va", 0, r.Epoch, fmt.Sprintf(`{"id":%d}`, r.ID))
		log("Fetched", "id", r.ID, "topic", 0, "part", 0, "off", int64(i), "epoch", int(r.Epoch))
	}
	rawCfg := &Config{Brokers: []string{b.addr()}, Topics: []string{"va"}, ConsumerGroup: "verif-group", Offset: "oldest",
		AutoCommitInterval: cfg.Duration("1h"), ConsumerMaxWaitTime: cfg.Duration("50ms")}
	config := test.NewConfig(rawCfg, nil).(*Config)
	settings := &pipeline.Settings{Decoder: "auto", Capacity: 64, MaintenanceInterval: time.Hour, EventTimeout: time.Second,
		Antispam: pipeline.AntispamSettings{Threshold: -1, MaintenanceInterval: time.Hour}, AvgEventSize: 128,
		StreamField: "stream", Pool: pipeline.PoolTypeStd, Metric: &pipeline.MetricSettings{HoldDuration: time.Hour}}
	p := pipeline.New(fmt.Sprintf("verif_c10l_%d", sc.Run), settings, prometheus.NewRegistry(), zap.NewNop())
	p.SetInput(&pipeline.InputPluginInfo{
		PluginStaticInfo:  &pipeline.PluginStaticInfo{Type: "kafka", Config: config},
		PluginRuntimeInfo: &pipeline.PluginRuntimeInfo{Plugin: &Plugin{}, ID: "kafka"},
	})
	out := &c10bLifeOut{deliver: sc.Lifecycle, log: log}
	p.SetOutput(&pipeline.OutputPluginInfo{
		PluginStaticInfo:  &pipeline.PluginStaticInfo{Type: "verif_out"},
		PluginRuntimeInfo: &pipeline.PluginRuntimeInfo{Plugin: out, ID: "verif_out"},
	})
	p.Start()
	// the deliverable records are delivered and committed; the others are in flight in the output
	deadline := time.Now().Add(20 * time.Second)
	ok := false
	for time.Now().Before(deadline) {
		out.mu.Lock()
		d := len(out.delivered)
		out.mu.Unlock()
		if d >= sc.Lifecycle {
			ok = true
			break
		}
		time.Sleep(5 * time.Millisecond)
	}
	time.Sleep(150 * time.Millisecond) // commits of the delivered ones reach the input; the rest sits in the hanging sends
	stopped := make(chan struct{})
	go func() { p.Stop(); close(stopped) }()
	select {
	case <-stopped:
	case <-time.After(30 * time.Second):
		ok = false
	}
	for _, c := range b.allCommits() {
		log("BrokerCommit", "topic", 0, "part", int(c.partition), "offset", c.offset, "epoch", int(c.epoch))
	}
	log("End", "idle", ok)
	return evs
}

// c10bRun performs one scenario and returns trace lines in the vocabulary of specs/KafkaMon.tla
func c10bRun(sc *c10bScenario) []map[string]interface{} {
	if sc.Lifecycle > 0 {
		return c10bRunLifecycle(sc)
	}
	var evs []map[string]interface{}
	n := 0
	log := func(ev string, kv ...interface{}) {
		n++
		e := map[string]interface{}{"n": n, "ev": ev, "run": sc.Run}
		for i := 0; i+1 < len(kv); i += 2 {
			e[kv[i].(string)] = kv[i+1]
		}
		evs = append(evs, e)
	}
	log("Reset", "name", sc.Name)
	b := c10bNewBroker()
	b.perFetch = sc.PerFetch
	defer b.close()
	// distinct topic names get a stable index for the trace (NOT the plugin's own numbering)
	tix := map[string]int{}
	for _, r := range sc.Recs {
		if _, ok := tix[r.Topic]; !ok {
			tix[r.Topic] = len(tix)
		}
	}
	offs := map[string]int64{}
	fetchedOff := map[string]int64{}
	byKey := map[string]int{} // "topic/part/offset" -> id
	created := map[string]bool{}
	for _, r := range sc.Recs {
		k := fmt.Sprintf("%s/%d", r.Topic, r.Part)
		if !created[k] {
			b.createPartition(r.Topic, r.Part)
			created[k] = true
		}
		b.produce(r.Topic, r.Part, r.Epoch, fmt.Sprintf(`{"id":%d}`, r.ID))
		byKey[fmt.Sprintf("%s/%d", k, offs[k])] = r.ID
		offs[k]++
	}
	ctl := &c10bController{stall: time.Duration(sc.StallMs) * time.Millisecond}
	for _, r := range sc.Recs { // everything produced will be handed out by the broker: it must all enter the pipeline
		k := fmt.Sprintf("%s/%d", r.Topic, r.Part)
		log("Fetched", "id", r.ID, "topic", tix[r.Topic], "part", int(r.Part), "off", fetchedOff[k], "epoch", int(r.Epoch))
		fetchedOff[k]++
	}
	rawCfg := &Config{
		Brokers:             []string{b.addr()},
		Topics:              sc.Topics,
		ConsumerGroup:       "verif-group",
		Offset:              "oldest",
		AutoCommitInterval:  cfg.Duration("1h"), // only explicit commits (Stop) reach the broker
		ConsumerMaxWaitTime: cfg.Duration("50ms"),
	}
	if sc.MaxConsumers > 0 {
		rawCfg.MaxConcurrentConsumers = sc.MaxConsumers
	}
	config := test.NewConfig(rawCfg, nil).(*Config)
	p := &Plugin{}
	p.Start(config, &pipeline.InputPluginParams{
		PluginDefaultParams: pipeline.PluginDefaultParams{PipelineName: fmt.Sprintf("verif_c10b_%d", sc.Run), PipelineSettings: &pipeline.Settings{},
			MetricCtl: metric.NewCtl(fmt.Sprintf("verif_c10b_%d", sc.Run), prometheus.NewRegistry(), time.Minute, 0)},
		Controller: ctl,
		Logger:     zap.NewNop().Sugar(),
	})
	deadline := time.Now().Add(20 * time.Second)
	for time.Now().Before(deadline) && len(ctl.snapshot()) < len(sc.Recs) {
		time.Sleep(5 * time.Millisecond)
	}
	ins := ctl.snapshot()
	// every record handed over: which one it is follows from its payload; its partition order from the broker's log
	recOf := map[int]int{}
	for i, r := range sc.Recs {
		recOf[r.ID] = i
	}
	seen := map[string]int64{}
	idOfIn := make([]int, len(ins))
	for i, in := range ins {
		var id int
		fmt.Sscanf(in.data, `{"id":%d}`, &id)
		idOfIn[i] = id
		r := sc.Recs[recOf[id]]
		k := fmt.Sprintf("%s/%d", r.Topic, r.Part)
		log("InCall", "id", id, "topic", tix[r.Topic], "part", int(r.Part), "off", seen[k], "epoch", int(r.Epoch), "src", int(in.sourceID))
		log("InRet", "id", id, "ok", true)
		seen[k]++
	}
	heads := func() []map[string]interface{} {
		out := []map[string]interface{}{}
		for t, ps := range p.client.MarkedOffsets() {
			ti, ok := tix[t]
			if !ok {
				ti = -1
			}
			for part, eo := range ps {
				out = append(out, map[string]interface{}{"topic": ti, "part": int(part), "head": eo.Offset, "epoch": int(eo.Epoch)})
			}
		}
		return out
	}
	// the output acknowledges the chosen records, in the order they were handed over
	for i, in := range ins {
		id := idOfIn[i]
		if !sc.Recs[recOf[id]].Ack {
			continue
		}
		log("SendRet", "ids", []int{id}, "ok", true)
		log("CommitCall", "id", id)
		p.Commit(&pipeline.Event{SourceID: in.sourceID, Offset: in.offset})
		log("Commit", "id", id, "marks", heads())
	}
	p.Stop()
	for _, c := range b.allCommits() {
		ti, ok := tix[c.topic]
		if !ok {
			ti = -1
		}
		log("BrokerCommit", "topic", ti, "part", int(c.partition), "offset", c.offset, "epoch", int(c.epoch))
	}
	log("End", "idle", len(ins) == len(sc.Recs))
	return evs
}

func TestVerifC10Broker(t *testing.T) {
	in, out := os.Getenv("VERIF_CASES"), os.Getenv("VERIF_OUT")
	if in == "" || out == "" {
		t.Skip("VERIF_CASES / VERIF_OUT not set")
	}
	b, err := os.ReadFile(in)
	if err != nil {
		t.Fatal(err)
	}
	var scs []*c10bScenario
	if err := json.Unmarshal(b, &scs); err != nil {
		t.Fatal(err)
	}
	w, _ := os.Create(out)
	bw := bufio.NewWriter(w)
	for _, sc := range scs { // sequential: each scenario owns a broker and a consumer group
		for _, e := range c10bRun(sc) {
			x, _ := json.Marshal(e)
			bw.Write(x)
			bw.WriteByte('\n')
		}
	}
	bw.Flush()
	w.Close()
}
