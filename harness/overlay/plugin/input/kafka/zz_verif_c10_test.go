package kafka

// C10 harness (mapped into /repo/plugin/input/kafka by `go test -overlay`; /repo is not modified).
// The REAL kafka Plugin (Commit / PassEvent, packing functions) and the REAL pconsumer.consume loop feed
// a REAL pipeline in spread mode; the franz-go client is a real kgo.Client that never connects
// (MarkCommitOffsets / MarkedOffsets are in-memory).  Actions and the batched output are harness-owned
// (scripted delays, discards, real pipeline.RetriableBatcher).  Every observable step goes to an ndjson
// trace that TLC validates against specs/KafkaMon.tla.

import (
	"errors"
	"bufio"
	"context"
	"encoding/json"
	"fmt"
	"math/rand"
	"os"
	"regexp"
	"sync"
	"testing"
	"time"

	"github.com/ozontech/file.d/decoder"
	"github.com/ozontech/file.d/pipeline"
	"github.com/ozontech/file.d/pipeline/metadata"
	"github.com/prometheus/client_golang/prometheus"
	"github.com/twmb/franz-go/pkg/kgo"
	"go.uber.org/zap"
)

type c10Rec struct {
	ID      int    `json:"id"`
	Topic   int    `json:"topic"`
	Part    int32  `json:"part"`
	Off     int64  `json:"off"`
	Epoch   int32  `json:"epoch"`
	Cls     string `json:"cls"`      // P pass, D discard
	DelayUs int    `json:"delay_us"` // time the action keeps the record
}

type c10Scenario struct {
	Run     int      `json:"run"`
	Name    string   `json:"name"`
	Workers int      `json:"workers"`
	Batch   int      `json:"batch"`
	Cap     int      `json:"cap"`
	Single  bool     `json:"single"`
	Seed    int64    `json:"seed"`
	Recs    []c10Rec `json:"recs"`
	DQ      bool     `json:"dq"`     // a dead queue is configured; records of class F fail in the main output until they are given up
	Revoke  bool     `json:"revoke"` // a rebalance takes the partitions away (splitConsume.Lost) while the records handed over sit in the output
}

var c10IDRe = regexp.MustCompile(`"id":(\d+)`)

type c10Run struct {
	sc   *c10Scenario
	mu   sync.Mutex
	n    int
	evs  []map[string]interface{}
	recs map[int]c10Rec
	done map[int]bool
	acc  map[int]bool
	cond *sync.Cond
}

func (r *c10Run) log(ev string, kv ...interface{}) {
	r.mu.Lock()
	r.n++
	e := map[string]interface{}{"n": r.n, "ev": ev, "run": r.sc.Run}
	for i := 0; i+1 < len(kv); i += 2 {
		e[kv[i].(string)] = kv[i+1]
	}
	r.evs = append(r.evs, e)
	r.mu.Unlock()
}

func c10ID(e *pipeline.Event) int {
	if e.Root == nil {
		return 0
	}
	n := e.Root.Dig("id")
	if n == nil {
		return -1
	}
	return n.AsInt()
}

// ---- input wrapper: delegates to the real plugin and observes the marks after every Commit
type c10Input struct {
	r      *c10Run
	real   *Plugin
	topics []string
}

func (i *c10Input) Start(_ pipeline.AnyConfig, p *pipeline.InputPluginParams) {
	// what Plugin.Start does with the controller (the rest of Start needs a reachable broker)
	i.real.controller = p.Controller
	p.Controller.UseSpread()
	p.Controller.DisableStreams()
	p.Controller.SuggestDecoder(decoder.JSON)
}
func (i *c10Input) Stop()                             {}
func (i *c10Input) PassEvent(e *pipeline.Event) bool { return i.real.PassEvent(e) }
func c10Heads(client *kgo.Client, topics []string) []map[string]interface{} {
	heads := []map[string]interface{}{}
	for t, ps := range client.MarkedOffsets() {
		ti := -1
		for k, name := range topics {
			if name == t {
				ti = k
			}
		}
		for p, eo := range ps {
			heads = append(heads, map[string]interface{}{"topic": ti, "part": int(p), "head": eo.Offset, "epoch": int(eo.Epoch)})
		}
	}
	return heads
}

func (i *c10Input) Commit(e *pipeline.Event) {
	id := c10ID(e)
	i.r.log("CommitCall", "id", id)
	i.real.Commit(e)
	i.r.log("Commit", "id", id, "marks", c10Heads(i.real.client, i.topics))
	i.r.mu.Lock()
	i.r.done[id] = true
	i.r.cond.Broadcast()
	i.r.mu.Unlock()
}

// ---- controller wrapper seen by the real pconsumer: logs In calls around the real Pipeline.In
type c10Ctl struct {
	r      *c10Run
	p      *pipeline.Pipeline
	client *kgo.Client
	topics []string
}

func (c *c10Ctl) In(sid pipeline.SourceID, name string, off pipeline.Offsets, data []byte, isNew bool, meta metadata.MetaData) uint64 {
	var v struct{ ID int }
	if m := c10IDRe.FindSubmatch(data); m != nil { // also readable in records the pipeline's decoder refuses
		fmt.Sscan(string(m[1]), &v.ID)
	}
	rec := c.r.recs[v.ID]
	c.r.log("InCall", "id", v.ID, "topic", rec.Topic, "part", int(rec.Part), "off", rec.Off, "epoch", int(rec.Epoch), "src", int(sid))
	seq := c.p.In(sid, name, off, data, isNew, meta)
	c.r.log("InRet", "id", v.ID, "ok", seq != 0)
	// whatever is marked right after the consumer handed the record over (the consumer may mark on its own)
	c.r.log("Marks", "id", v.ID, "marks", c10Heads(c.client, c.topics))
	c.r.mu.Lock()
	if seq != 0 {
		c.r.acc[v.ID] = true
	}
	c.r.cond.Broadcast()
	c.r.mu.Unlock()
	return seq
}
func (c *c10Ctl) UseSpread()                            {}
func (c *c10Ctl) DisableStreams()                       {}
func (c *c10Ctl) SuggestDecoder(t decoder.Type)         {}
func (c *c10Ctl) IncReadOps()                           {}
func (c *c10Ctl) IncMaxEventSizeExceeded(lvs ...string) {}

// ---- scripted action and output
type c10Action struct {
	r   *c10Run
	ctl pipeline.ActionPluginController
}

func (a *c10Action) Start(_ pipeline.AnyConfig, p *pipeline.ActionPluginParams) { a.ctl = p.Controller }
func (a *c10Action) Stop()                                                      {}
func (a *c10Action) Do(e *pipeline.Event) pipeline.ActionResult {
	id := c10ID(e)
	if id >= c10KidBase { // a child of a split record: passes
		return pipeline.ActionPass
	}
	rec := a.r.recs[id]
	if rec.Cls == "S" && !e.IsChildKind() {
		// split: the record's Commit (the one that marks the kafka offset) follows its children through the output
		if kids := e.Root.Dig("kids"); kids != nil && kids.IsArray() {
			a.r.log("DoRet", "id", id, "res", "pass")
			a.ctl.Spawn(e, kids.AsArray())
			return pipeline.ActionBreak
		}
	}
	if rec.DelayUs > 0 {
		time.Sleep(time.Duration(rec.DelayUs) * time.Microsecond)
	}
	if rec.Cls == "D" {
		a.r.log("DoRet", "id", id, "res", "discard")
		a.r.mu.Lock()
		a.r.done[id] = true
		a.r.cond.Broadcast()
		a.r.mu.Unlock()
		return pipeline.ActionDiscard
	}
	a.r.log("DoRet", "id", id, "res", "pass")
	return pipeline.ActionPass
}

type c10Output struct {
	hold    chan struct{} // non-nil: sends wait until it is closed
	r       *c10Run
	batcher *pipeline.RetriableBatcher
	cancel  context.CancelFunc
	rng     *rand.Rand
	rmu     sync.Mutex
	kidsAcked map[int]int
}

const c10KidBase = 100000 // children of split record i carry the ids c10KidBase+2i, c10KidBase+2i+1

func (o *c10Output) Start(_ pipeline.AnyConfig, p *pipeline.OutputPluginParams) {
	opts := &pipeline.BatcherOptions{
		PipelineName: p.PipelineName, OutputType: "verif_c10", Controller: p.Controller, Workers: o.r.sc.Workers,
		BatchSizeCount: o.r.sc.Batch, FlushTimeout: 10 * time.Millisecond, MetricCtl: p.MetricCtl,
	}
	router := p.Router
	o.batcher = pipeline.NewRetriableBatcher(opts, o.send, pipeline.BackoffOpts{MinRetention: time.Millisecond, Multiplier: 1.5, AttemptNum: 1,
		IsDeadQueueAvailable: o.r.sc.DQ},
		func(err error, events []*pipeline.Event) {
			// what the real outputs do on give-up: the events go to the dead queue (if there is one)
			if o.r.sc.DQ {
				for _, e := range events {
					router.Fail(e)
				}
			}
		})
	ctx, cancel := context.WithCancel(context.Background())
	o.cancel = cancel
	o.batcher.Start(ctx)
}
func (o *c10Output) Stop()                 { o.batcher.Stop(); o.cancel() }
func (o *c10Output) Out(e *pipeline.Event) { o.batcher.Add(e) }
// the dead queue: a slow sink of its own; a record that ends there is finished when IT has acknowledged it
type c10DeadQueue struct {
	r       *c10Run
	batcher *pipeline.Batcher
}

func (d *c10DeadQueue) Start(_ pipeline.AnyConfig, p *pipeline.OutputPluginParams) {
	d.batcher = pipeline.NewBatcher(pipeline.BatcherOptions{PipelineName: p.PipelineName, OutputType: "verif_c10_dq", Controller: p.Controller,
		Workers: 1, BatchSizeCount: 1, FlushTimeout: 10 * time.Millisecond, MetricCtl: p.MetricCtl,
		OutFn: func(_ *pipeline.WorkerData, b *pipeline.Batch) {
			ids := []int{}
			b.ForEach(func(e *pipeline.Event) { ids = append(ids, c10ID(e)) })
			time.Sleep(40 * time.Millisecond)
			d.r.log("SendRet", "ids", ids, "ok", true)
		}})
	d.batcher.Start(context.Background())
}
func (d *c10DeadQueue) Stop()                 { d.batcher.Stop() }
func (d *c10DeadQueue) Out(e *pipeline.Event) { d.batcher.Add(e) }

func (o *c10Output) send(_ *pipeline.WorkerData, b *pipeline.Batch) error {
	if o.hold != nil {
		<-o.hold
	}
	if o.r.sc.DQ {
		fail := false
		b.ForEach(func(e *pipeline.Event) {
			if rec, ok := o.r.recs[c10ID(e)]; ok && rec.Cls == "F" {
				fail = true
			}
		})
		if fail {
			return errors.New("verif: the backend refuses this batch")
		}
	}
	ids := []int{}
	b.ForEach(func(e *pipeline.Event) {
		id := c10ID(e)
		if id >= c10KidBase {
			// a split record is finished through its children: acknowledged once both are
			parent := (id - c10KidBase) / 2
			o.rmu.Lock()
			o.kidsAcked[parent]++
			full := o.kidsAcked[parent] == 2
			o.rmu.Unlock()
			if full {
				ids = append(ids, parent)
			}
			return
		}
		ids = append(ids, id)
	})
	o.rmu.Lock()
	d := o.rng.Intn(400)
	o.rmu.Unlock()
	time.Sleep(time.Duration(d) * time.Microsecond)
	o.r.log("SendRet", "ids", ids, "ok", true)
	return nil
}

func c10RunScenario(sc *c10Scenario) *c10Run {
	r := &c10Run{sc: sc, recs: map[int]c10Rec{}, done: map[int]bool{}, acc: map[int]bool{}}
	r.cond = sync.NewCond(&r.mu)
	topics := []string{"t0", "t1", "t2", "t3"}
	for _, rec := range sc.Recs {
		r.recs[rec.ID] = rec
	}
	client, err := kgo.NewClient(kgo.SeedBrokers("127.0.0.1:1"), kgo.ConsumerGroup("verif"), kgo.ConsumeTopics(topics...),
		kgo.AutoCommitMarks(), kgo.AutoCommitInterval(time.Hour), kgo.RetryBackoffFn(func(int) time.Duration { return time.Hour }))
	if err != nil {
		panic(err)
	}
	defer client.Close()
	real := &Plugin{config: &Config{Topics: topics}, client: client, logger: zap.NewNop().Sugar()}
	settings := &pipeline.Settings{
		Decoder: "auto", Capacity: sc.Cap, MaintenanceInterval: time.Hour, EventTimeout: time.Second,
		Antispam: pipeline.AntispamSettings{Threshold: -1, MaintenanceInterval: time.Hour}, AvgEventSize: 128,
		StreamField: "stream", Pool: pipeline.PoolTypeStd, Metric: &pipeline.MetricSettings{HoldDuration: time.Hour},
	}
	p := pipeline.New(fmt.Sprintf("verif_c10_%d", sc.Run), settings, prometheus.NewRegistry(), zap.NewNop())
	if sc.Single {
		p.DisableParallelism()
	}
	in := &c10Input{r: r, real: real, topics: topics}
	p.SetInput(&pipeline.InputPluginInfo{
		PluginStaticInfo:  &pipeline.PluginStaticInfo{Type: "kafka"},
		PluginRuntimeInfo: &pipeline.PluginRuntimeInfo{Plugin: in, ID: "kafka"},
	})
	p.AddAction(&pipeline.ActionPluginStaticInfo{
		PluginStaticInfo: &pipeline.PluginStaticInfo{Type: "verif_act", Factory: func() (pipeline.AnyPlugin, pipeline.AnyConfig) { return &c10Action{r: r}, nil }},
		MatchMode:        pipeline.MatchModeAnd,
	})
	outp := &c10Output{r: r, rng: rand.New(rand.NewSource(sc.Seed)), kidsAcked: map[int]int{}}
	if sc.Revoke {
		outp.hold = make(chan struct{})
	}
	p.SetOutput(&pipeline.OutputPluginInfo{
		PluginStaticInfo:  &pipeline.PluginStaticInfo{Type: "verif_out"},
		PluginRuntimeInfo: &pipeline.PluginRuntimeInfo{Plugin: outp, ID: "verif_out"},
	})
	if sc.DQ {
		p.SetDeadQueueOutput(&pipeline.OutputPluginInfo{
			PluginStaticInfo:  &pipeline.PluginStaticInfo{Type: "verif_dq"},
			PluginRuntimeInfo: &pipeline.PluginRuntimeInfo{Plugin: &c10DeadQueue{r: r}, ID: "verif_dq"},
		})
	}
	r.log("Reset", "name", sc.Name)
	p.Start()

	// one real pconsumer per (topic, partition), fed with fetches in offset order
	ctl := &c10Ctl{r: r, p: p, client: client, topics: topics}
	type key struct {
		t int
		p int32
	}
	cons := map[key]*pconsumer{}
	order := []key{}
	byKey := map[key][]*kgo.Record{}
	assigned := map[string][]int32{}
	for _, rec := range sc.Recs {
		k := key{rec.Topic, rec.Part}
		if _, ok := byKey[k]; !ok {
			order = append(order, k)
			assigned[topics[rec.Topic]] = append(assigned[topics[rec.Topic]], rec.Part)
		}
		val := []byte(fmt.Sprintf(`{"id":%d,"cls":"%s"}`, rec.ID, rec.Cls))
		if rec.Cls == "S" {
			val = []byte(fmt.Sprintf(`{"id":%d,"cls":"S","kids":[{"id":%d},{"id":%d}]}`, rec.ID, c10KidBase+2*rec.ID, c10KidBase+2*rec.ID+1))
		}
		if rec.Cls == "R" { // refused by the pipeline: not decodable
			val = []byte(fmt.Sprintf(`{"id":%d,"cls":"R" BROKEN`, rec.ID))
		}
		byKey[k] = append(byKey[k], &kgo.Record{Topic: topics[rec.Topic], Partition: rec.Part, Offset: rec.Off, LeaderEpoch: rec.Epoch, Value: val})
	}
	// the REAL assignment path creates and starts the per-partition consumers
	idByTopic := map[string]int{}
	for i, t := range topics {
		idByTopic[t] = i
	}
	sp := &splitConsume{consumers: make(map[tp]*pconsumer), bufferSize: 16, maxConcurrentConsumers: 16, idByTopic: idByTopic,
		controller: ctl, logger: zap.NewNop()}
	sp.Assigned(context.Background(), client, assigned)
	for _, k := range order {
		cons[k] = sp.consumers[tp{topics[k.t], k.p}]
	}
	rng := rand.New(rand.NewSource(sc.Seed + 7))
	for _, rec := range sc.Recs { // what the broker handed to the consumer: every one of these must enter the pipeline
		r.log("Fetched", "id", rec.ID, "topic", rec.Topic, "part", int(rec.Part), "off", rec.Off, "epoch", int(rec.Epoch))
	}
	for _, k := range order {
		recs := byKey[k]
		for len(recs) > 0 { // split into fetches of random size
			n := 1 + rng.Intn(len(recs))
			cons[k].fetches <- kgo.FetchTopicPartition{Topic: topics[k.t], FetchPartition: kgo.FetchPartition{Partition: k.p, Records: recs[:n]}}
			recs = recs[n:]
		}
	}
	revoked := false
	if sc.Revoke {
		// every record has been handed over (or sits in a consumer's queue); nothing is acknowledged: the output is held.  The
		// group rebalances: the REAL revoke callback.  Whatever is marked when it returns is committed by franz-go right after it.
		rd := time.Now().Add(10 * time.Second)
		for time.Now().Before(rd) {
			r.mu.Lock()
			reads := 0
			for _, e := range r.evs {
				if e["ev"] == "InRet" {
					reads++
				}
			}
			r.mu.Unlock()
			if reads == len(sc.Recs) {
				break
			}
			time.Sleep(time.Millisecond)
		}
		sp.Lost(context.Background(), client, assigned)
		r.log("Marks", "id", 0, "marks", c10Heads(client, topics))
		revoked = true
		close(outp.hold)
	}
	// wait until every record was read and every accepted one is finished
	deadline := time.Now().Add(20 * time.Second)
	idle := false
	for time.Now().Before(deadline) {
		r.mu.Lock()
		reads := 0
		for _, e := range r.evs {
			if e["ev"] == "InRet" {
				reads++
			}
		}
		ok := reads == len(sc.Recs)
		for id := range r.acc {
			if !r.done[id] {
				ok = false
			}
		}
		r.mu.Unlock()
		if ok {
			idle = true
			break
		}
		time.Sleep(500 * time.Microsecond)
	}
	r.log("End", "idle", idle)
	if !revoked {
		for _, pc := range cons {
			close(pc.quit)
		}
	}
	if idle {
		// Plugin.Stop needs a broker (CommitMarkedOffsets); stop the rest of the pipeline pieces the harness owns
		p.GetOutput().Stop()
	}
	return r
}

type c10Pack struct {
	Idx   int   `json:"idx"`
	Part  int32 `json:"part"`
	Off   int64 `json:"off"`
	Epoch int32 `json:"epoch"`
	Src   int64 `json:"src"`
	Pack  int64 `json:"packed"`
	Mark  int64 `json:"mark"`
}

func TestVerifC10(t *testing.T) {
	in, out := os.Getenv("VERIF_CASES"), os.Getenv("VERIF_OUT")
	if in == "" || out == "" {
		t.Skip("VERIF_CASES / VERIF_OUT not set")
	}
	var input struct {
		Scenarios []*c10Scenario `json:"scenarios"`
		Pack      []c10Pack      `json:"pack"`
	}
	b, err := os.ReadFile(in)
	if err != nil {
		t.Fatal(err)
	}
	if err := json.Unmarshal(b, &input); err != nil {
		t.Fatal(err)
	}
	// packing: the real functions against the specification's formulas
	packBad := []map[string]interface{}{}
	for _, c := range input.Pack {
		src := assembleSourceID(c.Idx, c.Part)
		i2, p2 := disassembleSourceID(src)
		packed := assembleOffset(&kgo.Record{Offset: c.Off, LeaderEpoch: c.Epoch})
		eo := disassembleOffset(packed)
		if int64(src) != c.Src || i2 != c.Idx || p2 != c.Part || packed != c.Pack || eo.Offset != c.Mark || eo.Epoch != c.Epoch {
			packBad = append(packBad, map[string]interface{}{"case": c, "src": int64(src), "idx": i2, "part": p2, "packed": packed, "mark": eo.Offset, "epoch": eo.Epoch})
		}
	}
	results := make([]*c10Run, len(input.Scenarios))
	var wg sync.WaitGroup
	sem := make(chan struct{}, 6)
	for i := range input.Scenarios {
		wg.Add(1)
		sem <- struct{}{}
		go func(i int) {
			defer wg.Done()
			defer func() { <-sem }()
			results[i] = c10RunScenario(input.Scenarios[i])
		}(i)
	}
	wg.Wait()
	w, err := os.Create(out)
	if err != nil {
		t.Fatal(err)
	}
	bw := bufio.NewWriter(w)
	for _, r := range results {
		for _, e := range r.evs {
			x, _ := json.Marshal(e)
			bw.Write(x)
			bw.WriteByte('\n')
		}
	}
	bw.Flush()
	w.Close()
	pb, _ := json.Marshal(map[string]interface{}{"pack_checked": len(input.Pack), "pack_bad": packBad})
	_ = os.WriteFile(out+".pack", pb, 0o644)
}
