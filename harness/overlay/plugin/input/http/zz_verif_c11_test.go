package http

// C11 replay harness (mapped into /repo/plugin/input/http by `go test -overlay`; /repo is not modified).
//
// Every case exported by TLC from specs/HttpChunk.tla is executed against the REAL plugin: real Start
// (address "off": no listener), real ServeHTTP -> serveBulk -> processBulk -> processChunk, with
//   * a body (io.ReadCloser) that returns exactly the prescribed read sizes and end-of-stream flavour
//     ((n,EOF) / (n,nil)+(0,EOF) / (0,err), optional (0,nil) reads), plain and gzip,
//   * a recording InputPluginController whose In copies data at call time and returns non-zero,
//   * a ResponseWriter that records the status together with the number of In calls made before it.
// The observed In-calls are compared with the lines the specification's DECLARATIVE oracle expects
// (Expected(body) = SplitOnNL(body)), the status position with OKOnlyAfterAllLines, and, for requests
// served concurrently on one plugin over disjoint alphabets, with NoMixing.
//
// Families: "serial" (1-2 successive requests on one plugin: pooled buffers re-used), "long" (the same
// cases with every symbol blown up to a run of bytes so that lines cross the real 16 KiB read buffer),
// "conc" (G goroutines x M requests in parallel on one plugin, optionally rendezvous inside Read).

import (
	"bufio"
	"bytes"
	"encoding/json"
	"errors"
	"fmt"
	"io"
	"net/http"
	"net/http/httptest"
	"net/url"
	"os"
	"runtime"
	"runtime/debug"
	"strings"
	"sync"
	"sync/atomic"
	"testing"
	"time"

	kgzip "github.com/klauspost/compress/gzip"
	"github.com/ozontech/file.d/cfg"
	"github.com/ozontech/file.d/decoder"
	"github.com/ozontech/file.d/metric"
	"github.com/ozontech/file.d/pipeline"
	"github.com/ozontech/file.d/pipeline/metadata"
	"github.com/prometheus/client_golang/prometheus"
	"go.uber.org/zap"
)

// ---------------------------------------------------------------------------------- case format

type c11Req struct {
	Body    []int   `json:"body"`
	Sizes   []int   `json:"sizes"`
	End     string  `json:"end"` // with | after | err
	Zr      bool    `json:"zr"`
	Exp     [][]int `json:"exp"`
	MCalls  [][]int `json:"mcalls"`
	MStatus int     `json:"mstatus"`
}

type c11Case struct {
	Fam     string     `json:"fam"` // serial | long | conc
	ID      int        `json:"id"`
	Reqs    []c11Req   `json:"reqs,omitempty"`
	Scale   int        `json:"scale,omitempty"`   // long/conc: bytes per non-newline symbol (0,1 = one byte)
	Unlim   bool       `json:"unlim,omitempty"`   // long: the reader fills whatever buffer it is offered (reads = real buffer size)
	Gz      int        `json:"gz,omitempty"`      // long/conc: 0 plain, 1 gzip
	Barrier bool       `json:"barrier,omitempty"` // conc: rendezvous of all requests inside their 2nd Read (after the copy)
	G       [][]c11Req `json:"g,omitempty"`       // conc: per goroutine its successive requests
	Ctype   int        `json:"ctype,omitempty"`   // long / srv: 0 = plugin without meta, no Content-Type; 1..5 = plugin WITH meta, c11CTypes[ctype-1]
	Mes     int        `json:"mes,omitempty"`     // long: max_event_size of the pipeline: 1 longest line - 1, 2 half of it, 3 the read-buffer size (if below), 4 the longest line
	Size    int        `json:"size,omitempty"`    // ratio: decompressed size aimed at (every terminated line is repeated to get there)
	Ratio   int        `json:"ratio,omitempty"`   // ratio: decompressed size / compressed size aimed at (0: as compressible as it gets)
	Trunc   bool       `json:"trunc,omitempty"`   // long + gz: the gzip payload is cut short
	GzSeq   bool       `json:"gzseq,omitempty"`   // conc + gate: first a good gzip request, then one with a bad gzip header, then g[0] (blocked in In) and g[1], all gzip
	GzMode  int        `json:"gzmode,omitempty"`  // conc: 1..3 = how g[0]'s body is compressed (3: one gzip member per read chunk)
	GateK   int        `json:"gate_k,omitempty"`  // conc: In blocks at the k-th call of g[0]'s request (-1: its last call); g[1..] are served meanwhile
	Only    string     `json:"only,omitempty"`    // replay: restrict serial variants ("plain"/"gzip")
}

type c11Mismatch struct {
	Kind      string   `json:"kind"`
	Fam       string   `json:"fam"`
	Variant   string   `json:"variant"`
	Cfg       int      `json:"cfg"`
	Req       int      `json:"req"`
	Goroutine int      `json:"goroutine"`
	End       string   `json:"end"`
	Status    int      `json:"status"`
	StatusAt  int      `json:"status_at"`
	NCalls    int      `json:"ncalls"`
	Want      []string `json:"want,omitempty"`
	Got       []string `json:"got,omitempty"`
	Detail    string   `json:"detail,omitempty"`
	Panic     string   `json:"panic,omitempty"`
	FreshRepr *bool    `json:"repro_on_fresh_plugin,omitempty"`
	Mes       int      `json:"max_event_size"`
	Case      *c11Case `json:"case"`
}

// ---------------------------------------------------------------------------------- recorder

type c11Call struct {
	sid     pipeline.SourceID
	data    string // the bytes the pipeline gets: copied at call time, or (lateCopy) when In stops blocking
	entry   string // lateCopy and different: what the slice held when In was called
	changed bool
}

// Recording controller.  Pipeline.In may block (back pressure: no free event in the pool) BEFORE it copies the
// bytes it was given; the gate reproduces that: the gateAt-th call since arming parks in gateFn, and with lateCopy
// the bytes that count are the ones the slice holds when the call stops blocking.
type c11Rec struct {
	mu             sync.Mutex
	log            []c11Call
	streamsOff     bool
	maxSizeExceeds int
	lateCopy       bool
	gateAt, seen   int
	gateFn         func()
}

func (r *c11Rec) arm(k int, fn func()) {
	r.mu.Lock()
	r.lateCopy, r.gateAt, r.seen, r.gateFn = true, k, 0, fn
	r.mu.Unlock()
}

func (r *c11Rec) disarm() {
	r.mu.Lock()
	r.lateCopy, r.gateAt, r.seen, r.gateFn = false, 0, 0, nil
	r.mu.Unlock()
}

func (r *c11Rec) In(sourceID pipeline.SourceID, _ string, _ pipeline.Offsets, data []byte, _ bool, _ metadata.MetaData) uint64 {
	r.mu.Lock()
	idx := len(r.log)
	r.log = append(r.log, c11Call{sid: sourceID, data: string(data)}) // copy at call time
	n := len(r.log)
	late := r.lateCopy
	var fn func()
	if r.gateAt > 0 {
		r.seen++
		if r.seen == r.gateAt {
			fn = r.gateFn
		}
	}
	r.mu.Unlock()
	if fn != nil {
		fn() // In blocks here; other requests are served meanwhile
	}
	if late {
		now := string(data) // what the pipeline copies when it finally takes the event
		r.mu.Lock()
		if idx < len(r.log) && r.log[idx].data != now {
			c := &r.log[idx]
			c.entry, c.changed, c.data = c.data, true, now
		}
		r.mu.Unlock()
	}
	return uint64(n) // non-zero: accepted
}
func (r *c11Rec) UseSpread()                        {}
func (r *c11Rec) DisableStreams()                   { r.streamsOff = true }
func (r *c11Rec) SuggestDecoder(_ decoder.Type)     {}
func (r *c11Rec) IncReadOps()                       {}
func (r *c11Rec) IncMaxEventSizeExceeded(...string) { r.maxSizeExceeds++ }
func (r *c11Rec) length() int {
	r.mu.Lock()
	n := len(r.log)
	r.mu.Unlock()
	return n
}
func (r *c11Rec) slice(a, b int) []c11Call {
	r.mu.Lock()
	out := append([]c11Call(nil), r.log[a:b]...)
	r.mu.Unlock()
	return out
}
func (r *c11Rec) reset() {
	r.mu.Lock()
	r.log = r.log[:0]
	r.mu.Unlock()
}

// ResponseWriter that notes how many In calls had been made when the status went out.
type c11Writer struct {
	rec      *c11Rec
	hdr      http.Header
	status   int
	statusAt int
	wrote    bool
}

func (w *c11Writer) Header() http.Header { return w.hdr }
func (w *c11Writer) WriteHeader(code int) {
	if !w.wrote {
		w.wrote, w.status, w.statusAt = true, code, w.rec.length()
	}
}
func (w *c11Writer) Write(b []byte) (int, error) {
	w.WriteHeader(http.StatusOK)
	return len(b), nil
}

// ---------------------------------------------------------------------------------- body reader

var c11ErrTransport = errors.New("verif: transport error")

const (
	c11Nil = iota
	c11EOF
	c11Err
	c11UEOF // io.ErrUnexpectedEOF: what net/http reports for a body shorter than its Content-Length
)

// the body was not delivered completely (only io.EOF ends a body cleanly)
func c11ErrEnd(end string) bool { return end == "err" || end == "ueof" || end == "ueofd" }

type c11Read struct {
	n   int
	err int
}

type c11Body struct {
	data   []byte
	off    int
	script []c11Read
	k      int
	final  error
	reads  int
	hook   func(readIdx, phase int) // phase 0: on entry, 1: after the bytes were copied into p
}

func c11ErrOf(k int) error {
	switch k {
	case c11EOF:
		return io.EOF
	case c11Err:
		return c11ErrTransport
	case c11UEOF:
		return io.ErrUnexpectedEOF
	}
	return nil
}

func (b *c11Body) Read(p []byte) (int, error) {
	idx := b.reads
	b.reads++
	if b.hook != nil {
		b.hook(idx, 0)
	}
	if b.k >= len(b.script) {
		return 0, b.final
	}
	s := &b.script[b.k]
	if s.n == 0 {
		b.k++
		return 0, c11ErrOf(s.err)
	}
	if len(p) == 0 {
		return 0, nil
	}
	n := s.n
	if n > len(p) {
		n = len(p)
	}
	copy(p, b.data[b.off:b.off+n])
	b.off += n
	if b.hook != nil {
		b.hook(idx, 1)
	}
	if n < s.n { // the offered buffer is smaller than the prescribed read: the rest comes with the next read
		s.n -= n
		return n, nil
	}
	b.k++
	return n, c11ErrOf(s.err)
}
func (b *c11Body) Close() error { return nil }

// script for delivering `sizes` (byte counts) with the given end flavour
func c11Script(sizes []int, end string, zr bool) ([]c11Read, error) {
	var s []c11Read
	for i, n := range sizes {
		if zr {
			s = append(s, c11Read{0, c11Nil})
		}
		e := c11Nil
		if i == len(sizes)-1 && end == "with" {
			e = c11EOF
		}
		if i == len(sizes)-1 && end == "ueofd" {
			e = c11UEOF
		}
		s = append(s, c11Read{n, e})
	}
	if zr && end != "with" && end != "ueofd" {
		s = append(s, c11Read{0, c11Nil})
	}
	if end == "err" {
		s = append(s, c11Read{0, c11Err})
		return s, c11ErrTransport
	}
	if end == "ueof" || end == "ueofd" {
		s = append(s, c11Read{0, c11UEOF})
		return s, io.ErrUnexpectedEOF
	}
	s = append(s, c11Read{0, c11EOF})
	return s, io.EOF
}

// ---------------------------------------------------------------------------------- symbols -> bytes

type c11Alpha struct {
	base [3]byte // index = symbol (1, 2)
	span int     // number of distinct bytes used for the run of one symbol when scale > 1
}

var c11Small = c11Alpha{base: [3]byte{0, 'a', '\r'}, span: 1}
var c11Long = c11Alpha{base: [3]byte{0, 'a', 'n'}, span: 13}

// goroutine g of a concurrent round: symbols 1,2 -> two disjoint byte ranges of 3 bytes each
func c11ConcAlpha(g int) c11Alpha {
	b := byte(0x30 + 6*g)
	return c11Alpha{base: [3]byte{0, b, b + 3}, span: 3}
}
func (a c11Alpha) owns(c byte) bool {
	for s := 1; s <= 2; s++ {
		if c >= a.base[s] && int(c) < int(a.base[s])+a.span {
			return true
		}
	}
	return false
}

func c11Expand(dst []byte, sym, scale int, a c11Alpha) []byte {
	if sym == 0 {
		return append(dst, '\n')
	}
	if scale <= 1 {
		return append(dst, a.base[sym])
	}
	for i := 0; i < scale; i++ {
		dst = append(dst, a.base[sym]+byte((i*7+i/13)%a.span))
	}
	return dst
}

func c11Bytes(syms []int, scale int, a c11Alpha) []byte {
	var out []byte
	for _, s := range syms {
		out = c11Expand(out, s, scale, a)
	}
	return out
}

func c11SymLen(sym, scale int) int {
	if sym == 0 || scale <= 1 {
		return 1
	}
	return scale
}

// byte sizes of the prescribed reads
func c11ByteSizes(r *c11Req, scale int) []int {
	out := make([]int, 0, len(r.Sizes))
	pos := 0
	for _, s := range r.Sizes {
		n := 0
		for j := 0; j < s; j++ {
			n += c11SymLen(r.Body[pos+j], scale)
		}
		pos += s
		out = append(out, n)
	}
	return out
}

func c11Lines(exp [][]int, scale int, a c11Alpha) []string {
	out := make([]string, 0, len(exp))
	for _, l := range exp {
		out = append(out, string(c11Bytes(l, scale, a)))
	}
	return out
}

// ---------------------------------------------------------------------------------- gzip

type c11Gz struct {
	buf    bytes.Buffer
	w      *kgzip.Writer
	bounds []int // offsets at which a gzip member ends and the next begins (a prefix cut there is a VALID shorter stream)
}

// compress body; chunk boundaries (decompressed) are flush points (mode 0), ignored (mode 1), or member
// boundaries of a multi-member stream (mode 2)
func (g *c11Gz) compress(body []byte, sizes []int, mode int) []byte {
	g.buf.Reset()
	g.bounds = g.bounds[:0]
	if g.w == nil {
		g.w, _ = kgzip.NewWriterLevel(&g.buf, kgzip.BestSpeed)
	} else {
		g.w.Reset(&g.buf)
	}
	pos := 0
	for i, n := range sizes {
		_, _ = g.w.Write(body[pos : pos+n])
		pos += n
		if i == len(sizes)-1 {
			break
		}
		switch mode {
		case 0:
			_ = g.w.Flush()
		case 2:
			_ = g.w.Close()
			g.bounds = append(g.bounds, g.buf.Len())
			g.w.Reset(&g.buf)
		}
	}
	_, _ = g.w.Write(body[pos:])
	_ = g.w.Close()
	return append([]byte(nil), g.buf.Bytes()...)
}

// where to cut a gzip stream: class 0 inside the 10-byte header, 1 inside the deflate data, 2 inside the 8-byte trailer
func c11GzCut(n, class, salt int) (cut, cls int) {
	if class == 1 && n <= 18 {
		class = 2
	}
	switch class {
	case 0:
		return salt % 10, 0
	case 1:
		return 10 + (salt*7)%(n-18), 1
	}
	return n - 8 + salt%8, 2
}

// transport sizes for a compressed stream of length n, derived from the case's own split
func c11GzSizes(n int, sizes []int, style int) []int {
	switch {
	case n == 0:
		return nil
	case style == 0 || len(sizes) == 0:
		return []int{n}
	case style == 1:
		out := make([]int, n)
		for i := range out {
			out[i] = 1
		}
		return out
	}
	var out []int
	for i := 0; n > 0; i++ {
		s := sizes[i%len(sizes)] + 2*(i%3)
		if s > n {
			s = n
		}
		out = append(out, s)
		n -= s
	}
	return out
}

// ---------------------------------------------------------------------------------- plugin under test

type c11Plug struct {
	p    *Plugin
	rec  *c11Rec
	path string
	cfg  int
	ctype string // Content-Type of the next requests ("" = none)
	query string // raw URL query of the next requests
	mes  int // the pipeline's max_event_size the plugin was started with (0 = unlimited)
}

var c11CTypes = [...]string{"", "application/json", "text/plain", "application/x-www-form-urlencoded", "multipart/form-data; boundary=verifboundary"}

var c11PlugSeq int64

var c11Probe sync.Pool // harness-owned: does a Put made inside the blocked In reach the Get of the request started there?

// cfg: bit 0 = avg_event_size 1 instead of 4096 (fresh carry-over buffer re-allocates), bit 1 = emulate_mode elasticsearch (/_bulk)
func c11NewPlug(cfgIdx int) *c11Plug { return c11NewPlugM(cfgIdx, 0) }

// mes: PipelineSettings.MaxEventSize.  The limit is Pipeline.In's business (it drops or cuts over-long events and
// counts them); whatever it is, the input must hand over the lines of the body.
func c11NewPlugM(cfgIdx, mes int) *c11Plug {
	config := &Config{Address: "off"}
	path := "/"
	if cfgIdx&2 != 0 {
		config.EmulateMode = "elasticsearch"
		path = "/_bulk"
	}
	if cfgIdx&4 != 0 { // the `meta` option: templates over the request's params, headers, method, remote address, login
		config.Meta = cfg.MetaTemplates{
			"remote_addr": "{{ .remote_addr }}",
			"method":      "{{ .request.Method }}",
			"login":       "{{ .login }}",
			"params":      "{{ .params }}",
			"ctype":       `{{ .request.Header.Get "Content-Type" }}`,
		}
	}
	if err := cfg.SetDefaultValues(config); err != nil {
		panic(err)
	}
	if err := cfg.Parse(config, map[string]int{"gomaxprocs": runtime.GOMAXPROCS(0)}); err != nil {
		panic(err)
	}
	if (cfgIdx&2 != 0) != (config.EmulateMode_ == EmulateModeElasticSearch) {
		panic("verif: emulate_mode not parsed")
	}
	avg := 4096
	if cfgIdx&1 != 0 {
		avg = 1
	}
	rec := &c11Rec{}
	plug, _ := Factory()
	p := plug.(*Plugin)
	name := fmt.Sprintf("verif_c11_%d", atomic.AddInt64(&c11PlugSeq, 1))
	p.Start(config, &pipeline.InputPluginParams{
		PluginDefaultParams: pipeline.PluginDefaultParams{
			PipelineName: name,
			PipelineSettings: &pipeline.Settings{
				AvgEventSize:  avg,
				MaxEventSize:  mes,
				MetaCacheSize: pipeline.DefaultMetaCacheSize,
			},
			MetricCtl: metric.NewCtl(name, prometheus.NewRegistry(), 0, 0),
		},
		Controller: rec,
		Logger:     zap.NewNop().Sugar(),
	})
	return &c11Plug{p: p, rec: rec, path: path, cfg: cfgIdx, mes: mes}
}

type c11Result struct {
	start, end int // log positions before / after ServeHTTP
	status     int
	statusAt   int
	implicit   bool
	panicMsg   string
}

func (pl *c11Plug) serve(body *c11Body, gz bool) (res c11Result) {
	return pl.serveCL(body, gz, -1)
}

// contentLength: what the client announced (-1: nothing, as with chunked transfer)
func (pl *c11Plug) serveCL(body *c11Body, gz bool, contentLength int64) (res c11Result) {
	req := &http.Request{
		Method:     http.MethodPost,
		URL:        &url.URL{Path: pl.path, RawQuery: pl.query},
		Proto:      "HTTP/1.1",
		ProtoMajor: 1,
		ProtoMinor: 1,
		Header:     http.Header{},
		Body:       body,
		Host:       "verif",
		RemoteAddr: "192.0.2.1:1234",
	}
	req.ContentLength = contentLength
	if contentLength >= 0 {
		req.Header.Set("Content-Length", fmt.Sprint(contentLength))
	}
	if gz {
		req.Header.Set("Content-Encoding", "gzip")
	}
	if pl.ctype != "" {
		req.Header.Set("Content-Type", pl.ctype)
	}
	w := &c11Writer{rec: pl.rec, hdr: http.Header{}}
	res.start = pl.rec.length()
	func() {
		defer func() {
			if r := recover(); r != nil {
				res.panicMsg = fmt.Sprint(r)
			}
		}()
		pl.p.ServeHTTP(w, req)
	}()
	res.end = pl.rec.length()
	if !w.wrote { // net/http sends an implicit 200 when the handler returns without writing
		w.status, w.statusAt, res.implicit = http.StatusOK, res.end, true
	}
	res.status, res.statusAt = w.status, w.statusAt
	return res
}

// ---------------------------------------------------------------------------------- statistics

type c11Stats struct {
	Requests      int `json:"requests"`
	Cases         int `json:"cases"`
	SerialCases   int `json:"serial_cases"`
	LongCases     int `json:"long_cases"`
	ConcCases     int `json:"conc_cases"`
	GzipRequests  int `json:"gzip_requests"`
	Crossing      int `json:"cases_line_crossing_read_boundary"`
	BoundaryAtNL  int `json:"cases_read_boundary_right_after_newline"`
	Unterminated  int `json:"cases_final_unterminated_line"`
	TrailingNL    int `json:"cases_trailing_newline"`
	SecondReqs    int `json:"second_requests"`
	PoolReused    int `json:"second_requests_started_with_pooled_carry_buffer"`
	AfterErr      int `json:"second_requests_after_failed_first"`
	LongCrossing  int `json:"requests_with_line_longer_than_read_buffer"`
	OK200         int `json:"status_200"`
	Non200        int `json:"status_other"`
	Non200Clean   int `json:"non_200_on_clean_body"`
	ErrRequests   int `json:"requests_with_reader_error"`
	ModelDrift    int `json:"model_drift_calls_on_error_requests"`
	ConcRequests  int `json:"conc_requests"`
	OverlapPairs  int `json:"conc_request_pairs_with_interleaved_in_calls"`
	BarrierRounds int `json:"conc_barrier_rounds_met"`
	BarrierMiss   int `json:"conc_barrier_timeouts"`
	DistinctSids  int `json:"conc_max_distinct_source_ids_in_round"`
	SidReuse      int `json:"conc_source_id_reused_by_later_request"`
	UeofRequests     int    `json:"requests_ending_with_io_ErrUnexpectedEOF"`
	TruncRequests    int    `json:"requests_with_truncated_gzip_payload_and_clean_eof"`
	Trunc200AllLines int    `json:"truncated_gzip_acknowledged_with_all_lines_handed_over"`
	GzCutHeader      int    `json:"gzip_payload_cut_inside_header"`
	GzCutData        int    `json:"gzip_payload_cut_inside_deflate_data"`
	GzCutTrailer     int    `json:"gzip_payload_cut_inside_trailer"`
	MetaRequests     int    `json:"requests_through_plugin_with_meta_option"`
	MetaFormRequests int    `json:"requests_with_meta_and_urlencoded_content_type"`
	SrvRequests      int    `json:"requests_through_real_http_server"`
	SrvFormRequests  int    `json:"requests_through_real_http_server_urlencoded"`
	MesRequests      int    `json:"requests_with_max_event_size_set"`
	MesBelow         int    `json:"requests_with_max_event_size_below_their_longest_line"`
	MesBelowCross    int    `json:"requests_with_over_limit_line_crossing_a_read_boundary"`
	MesEqual         int    `json:"requests_with_max_event_size_equal_to_their_longest_line"`
	MesAbove         int    `json:"requests_with_max_event_size_above_their_longest_line"`
	RatioRequests    int    `json:"ratio_requests_with_content_length"`
	RatioOver100     int    `json:"ratio_requests_inflating_more_than_100_times"`
	RatioOver300     int    `json:"ratio_requests_inflating_more_than_300_times"`
	RatioUnder100    int    `json:"ratio_requests_inflating_at_most_100_times"`
	RatioMax         int    `json:"ratio_max"`
	RatioBodyMax     int    `json:"ratio_decompressed_bytes_max"`
	RatioMulti       int    `json:"ratio_requests_multi_member"`
	GzSeqRuns        int    `json:"gzseq_runs"`
	GzSeqWarmOK      int    `json:"gzseq_good_request_200"`
	GzSeqBad400      int    `json:"gzseq_bad_header_request_not_200"`
	GzSeqPooled      int    `json:"gzseq_pool_held_a_reader_after_bad_header"`
	GateCases     int `json:"gate_cases"`
	GateRuns      int `json:"gate_runs"`
	GateFired     int `json:"gate_in_blocked_while_other_request_served"`
	GateLastLine  int `json:"gate_blocked_in_was_unterminated_last_line"`
	GateNotFired  int `json:"gate_not_reached"`
	GateStuck     int `json:"gate_other_request_did_not_finish_while_in_blocked"`
	GateProbeHits int `json:"gate_pool_handover_probe_hits"`
	GateProcs1    int `json:"gate_runs_with_gomaxprocs_1"`
}

func (s *c11Stats) add(o *c11Stats) {
	a, _ := json.Marshal(o)
	var m map[string]int
	_ = json.Unmarshal(a, &m)
	b, _ := json.Marshal(s)
	var n map[string]int
	_ = json.Unmarshal(b, &n)
	for k, v := range m {
		if k == "conc_max_distinct_source_ids_in_round" || strings.HasSuffix(k, "_max") {
			if v > n[k] {
				n[k] = v
			}
			continue
		}
		n[k] += v
	}
	c, _ := json.Marshal(n)
	_ = json.Unmarshal(c, s)
}

func c11Shape(r *c11Req, st *c11Stats) {
	pos, cross, atNL := 0, false, false
	for i, s := range r.Sizes {
		pos += s
		if i == len(r.Sizes)-1 {
			break
		}
		if r.Body[pos-1] == 0 {
			atNL = true
		} else {
			cross = true
		}
	}
	if cross {
		st.Crossing++
	}
	if atNL {
		st.BoundaryAtNL++
	}
	if n := len(r.Body); n > 0 {
		if r.Body[n-1] == 0 {
			st.TrailingNL++
		} else {
			st.Unterminated++
		}
	}
}

// ---------------------------------------------------------------------------------- serial / long

type c11Worker struct {
	plugs [4]*c11Plug
	srv     *httptest.Server // a real net/http server in front of srvPlug (family "srv")
	srvPlug *c11Plug
	extra map[[2]int]*c11Plug // plugins started with a max_event_size, by (configuration, limit)
	gz    c11Gz
	st    c11Stats
	mms   []*c11Mismatch
}

func c11Trim(ls []string) []string {
	out := make([]string, 0, len(ls))
	for i, l := range ls {
		if i >= 12 {
			out = append(out, fmt.Sprintf("... %d more", len(ls)-i))
			break
		}
		if len(l) > 48 {
			l = fmt.Sprintf("%s...(%d bytes, fnv %08x)...%s", l[:16], len(l), c11Hash(l), l[len(l)-16:])
		}
		out = append(out, l)
	}
	return out
}

func c11Hash(s string) uint32 {
	h := uint32(2166136261)
	for i := 0; i < len(s); i++ {
		h = (h ^ uint32(s[i])) * 16777619
	}
	return h
}

func c11Equal(calls []c11Call, want []string) bool {
	if len(calls) != len(want) {
		return false
	}
	for i := range calls {
		if calls[i].data != want[i] {
			return false
		}
	}
	return true
}

func c11Datas(calls []c11Call) []string {
	out := make([]string, len(calls))
	for i, c := range calls {
		out[i] = c.data
	}
	return out
}

// how the observed calls differ from the expected lines (pins the class of the failing input)
func c11Diff(got, want []string) string {
	switch {
	case len(got) == len(want)+1 && got[len(got)-1] == "" && c11EqS(got[:len(want)], want):
		return "spurious_empty_last_event"
	case len(got)+1 == len(want) && c11EqS(got, want[:len(got)]):
		return "last_line_missing"
	case len(got) < len(want):
		return "fewer_events"
	case len(got) > len(want):
		return "more_events"
	}
	return "event_bytes_differ"
}

func c11NonEmpty(a []string) []string {
	out := make([]string, 0, len(a))
	for _, x := range a {
		if x != "" {
			out = append(out, x)
		}
	}
	return out
}

func c11EqS(a, b []string) bool {
	if len(a) != len(b) {
		return false
	}
	for i := range a {
		if a[i] != b[i] {
			return false
		}
	}
	return true
}

type c11Variant struct {
	name  string
	gz    bool
	scale int
	unlim bool
	alpha c11Alpha
	meta  bool // the plugin is started with the `meta` option
	ctype int  // index into c11CTypes
	mes   int  // max_event_size of the pipeline the plugin is started with (0 = unlimited)
	trunc bool // gzip only: the payload is cut short (header / deflate data / trailer) although the transport ends with a clean io.EOF
}

// run the successive requests of one case on one plugin; returns the mismatches
func (w *c11Worker) runSeq(pl *c11Plug, c *c11Case, v c11Variant, count bool) (mms []*c11Mismatch) {
	prevFailed := false
	for ri := range c.Reqs {
		r := &c.Reqs[ri]
		body := c11Bytes(r.Body, v.scale, v.alpha)
		sizes := c11ByteSizes(r, v.scale)
		want := c11Lines(r.Exp, v.scale, v.alpha)
		wire := body
		if v.unlim && len(body) > 0 {
			sizes = []int{len(body)}
		}
		wireSizes := sizes
		truncated, cutClass := false, -1
		if v.gz {
			wire = w.gz.compress(body, sizes, (c.ID+ri)%3)
			switch {
			case r.End == "err" && len(wire) > 4:
				wire = wire[:len(wire)-4] // the error hits before the stream is complete
			case r.End == "ueof" || r.End == "ueofd" || v.trunc && !c11ErrEnd(r.End):
				// a real truncated gzip payload; with v.trunc the transport even ends cleanly (a well-formed HTTP request)
				var cut int
				cut, cutClass = c11GzCut(len(wire), (c.ID/2+ri)%3, c.ID+ri)
				for _, b := range w.gz.bounds {
					if cut == b { // exactly between two members: not a truncation; cut into the next member's header instead
						cut++
					}
				}
				wire = wire[:cut]
				truncated = !c11ErrEnd(r.End)
			}
			wireSizes = c11GzSizes(len(wire), sizes, (c.ID/3+ri)%3)
		}
		script, final := c11Script(wireSizes, r.End, r.Zr)
		b := &c11Body{data: wire, script: script, final: final}

		if count {
			w.st.Requests++
			if v.gz {
				w.st.GzipRequests++
			}
			if pl.mes > 0 {
				w.st.MesRequests++
				longest := 0
				for _, l := range want {
					if len(l) > longest {
						longest = len(l)
					}
				}
				switch {
				case pl.mes < longest:
					w.st.MesBelow++
					// does a line longer than the limit have a read boundary inside (its head sits in the carry-over)?
					pos, lineStart, bounds := 0, 0, map[int]bool{}
					for _, n := range sizes {
						pos += n
						bounds[pos] = true
					}
					cross := false
					for i := 0; i <= len(body); i++ {
						if i == len(body) || body[i] == '\n' {
							if i-lineStart > pl.mes {
								for b := lineStart + 1; b < i; b++ {
									if bounds[b] {
										cross = true
									}
								}
							}
							lineStart = i + 1
						}
					}
					if cross && !v.gz && !v.unlim {
						w.st.MesBelowCross++
					}
				case pl.mes == longest:
					w.st.MesEqual++
				default:
					w.st.MesAbove++
				}
			}
			if ri > 0 {
				w.st.SecondReqs++
				if prevFailed {
					w.st.AfterErr++
				}
				// was the pooled carry-over buffer really handed to this request? (peek, put back)
				if x := pl.p.eventBuffs.Get(); x != nil {
					w.st.PoolReused++
					pl.p.eventBuffs.Put(x)
				}
			}
			for _, l := range want {
				if len(l) > readBufDefaultLen {
					w.st.LongCrossing++
					break
				}
			}
		}
		res := pl.serve(b, v.gz)
		calls := pl.rec.slice(res.start, res.end)
		prevFailed = c11ErrEnd(r.End) || truncated
		if count {
			switch cutClass {
			case 0:
				w.st.GzCutHeader++
			case 1:
				w.st.GzCutData++
			case 2:
				w.st.GzCutTrailer++
			}
			if r.End == "ueof" || r.End == "ueofd" {
				w.st.UeofRequests++
			}
			if res.status == http.StatusOK {
				w.st.OK200++
			} else {
				w.st.Non200++
			}
		}
		mk := func(kind, detail string) *c11Mismatch {
			return &c11Mismatch{Kind: kind, Fam: c.Fam, Variant: v.name, Cfg: pl.cfg, Mes: pl.mes, Req: ri, End: r.End, Status: res.status,
				StatusAt: res.statusAt - res.start, NCalls: len(calls), Want: c11Trim(want), Got: c11Trim(c11Datas(calls)),
				Detail: detail, Panic: res.panicMsg, Case: c}
		}
		if res.panicMsg != "" {
			mms = append(mms, mk("panic", ""))
			continue
		}
		if truncated {
			// the gzip payload is cut short: there is no complete decompressed body.  A 200 is a violation unless every
			// line of the body was nevertheless handed over (possible when only the trailer is damaged)
			if count {
				w.st.TruncRequests++
			}
			if res.status == http.StatusOK {
				if c11Equal(calls, want) {
					if count {
						w.st.Trunc200AllLines++
					}
				} else {
					mms = append(mms, mk("ok_on_truncated_gzip", fmt.Sprintf("payload cut inside the %s", [...]string{"header", "deflate data", "trailer"}[cutClass])))
				}
			}
			continue
		}
		if c11ErrEnd(r.End) {
			// the transport failed before the end of the body: the request must not be acknowledged
			if count {
				w.st.ErrRequests++
				// (only where the real reads are the prescribed ones: with blown-up symbols the 16 KiB buffer splits them)
				if !v.gz && v.scale <= 1 && !c11Equal(calls, c11Lines(r.MCalls, v.scale, v.alpha)) {
					w.st.ModelDrift++
				}
			}
			if res.status == http.StatusOK {
				mms = append(mms, mk("ok_on_reader_error", ""))
			}
			continue
		}
		if !c11Equal(calls, want) {
			kind := "lines_differ"
			if c11EqS(c11NonEmpty(c11Datas(calls)), c11NonEmpty(want)) {
				kind = "empty_lines_differ" // only the empty events differ (the pipeline's admission refuses empty events anyway)
			}
			mms = append(mms, mk(kind, c11Diff(c11Datas(calls), want)))
			continue
		}
		if res.status == http.StatusOK && res.statusAt < res.end {
			mms = append(mms, mk("ok_before_all_lines", fmt.Sprintf("%d of %d lines handed over when 200 was written", res.statusAt-res.start, len(want))))
			continue
		}
		if count && res.status != http.StatusOK {
			w.st.Non200Clean++
		}
	}
	pl.rec.reset()
	return mms
}

func (w *c11Worker) run(c *c11Case) {
	w.st.Cases++
	var variants []c11Variant
	switch c.Fam {
	case "serial":
		w.st.SerialCases++
		for i := range c.Reqs {
			c11Shape(&c.Reqs[i], &w.st)
		}
		if c.Only != "gzip" {
			variants = append(variants, c11Variant{name: "plain", scale: 1, alpha: c11Small})
		}
		if c.Only != "plain" {
			variants = append(variants, c11Variant{name: "gzip", gz: true, scale: 1, alpha: c11Small})
			variants = append(variants, c11Variant{name: "gzip-truncated", gz: true, scale: 1, alpha: c11Small, trunc: true})
		}
		// the same replay through a plugin WITH the meta option, with a Content-Type and a URL query: what is handed over
		// depends on the body bytes alone
		{
			ct := (c.ID / 2) % len(c11CTypes)
			v := c11Variant{name: "plain meta content-type=" + c11CTypes[ct], scale: 1, alpha: c11Small, meta: true, ctype: ct}
			if c.ID%2 == 1 && c.Only != "plain" || c.Only == "gzip" {
				v.name, v.gz = "gzip meta content-type="+c11CTypes[ct], true
			}
			variants = append(variants, v)
		}
		// the same replay under a pipeline with max_event_size below / equal to / above the longest line of the case
		longest := 0
		for i := range c.Reqs {
			for _, l := range c.Reqs[i].Exp {
				if len(l) > longest {
					longest = len(l)
				}
			}
		}
		if longest > 0 {
			rel := [3]string{"below", "equal to", "above"}[(c.ID/4)%3]
			m := longest + (c.ID/4)%3 - 1
			if m < 1 {
				m, rel = longest, "equal to"
			}
			tag := " max_event_size " + rel + " the longest line"
			if c.Only != "gzip" {
				variants = append(variants, c11Variant{name: "plain" + tag, scale: 1, alpha: c11Small, mes: m})
			}
			if c.Only != "plain" {
				variants = append(variants, c11Variant{name: "gzip" + tag, gz: true, scale: 1, alpha: c11Small, mes: m})
			}
		}
	case "long":
		w.st.LongCases++
		name := "long-plain"
		if c.Gz == 1 {
			name = "long-gzip"
		}
		if c.Trunc && c.Gz == 1 {
			name = "long-gzip-truncated"
		}
		mes := 0
		if c.Mes > 0 { // a limit below (1..3) or equal to (4) the longest line of the blown-up body
			longest := 0
			for i := range c.Reqs {
				for _, l := range c.Reqs[i].Exp {
					n := 0
					for _, sym := range l {
						n += c11SymLen(sym, c.Scale)
					}
					if n > longest {
						longest = n
					}
				}
			}
			switch c.Mes {
			case 1:
				mes = longest - 1
			case 2:
				mes = longest / 2
			case 3:
				mes = readBufDefaultLen
				if mes >= longest {
					mes = longest - 1
				}
			default:
				mes = longest
			}
			if mes > 0 {
				name += " max_event_size=" + [5]string{"", "longest-1", "longest/2", "read buffer", "longest"}[c.Mes]
			} else {
				mes = 0
			}
		}
		lv := c11Variant{name: name, gz: c.Gz == 1, scale: c.Scale, unlim: c.Unlim, alpha: c11Long, trunc: c.Trunc && c.Gz == 1, mes: mes}
		if c.Ctype > 0 {
			lv.meta, lv.ctype = true, (c.Ctype-1)%len(c11CTypes)
			lv.name += " meta content-type=" + c11CTypes[lv.ctype]
		}
		variants = append(variants, lv)
	}
	if c.Fam == "ratio" {
		w.runRatio(w.plugs[c.ID%4], c)
		return
	}
	if c.Fam == "srv" {
		w.runSrv(c)
		return
	}
	for _, v := range variants {
		pl := w.plugs[c.ID%4]
		pcfg := c.ID % 4
		if v.meta {
			pcfg |= 4
		}
		if v.mes > 0 || v.meta {
			if c.Fam == "long" && v.mes > 0 { // limits of all sizes: a plugin of its own
				pl = c11NewPlugM(pcfg, v.mes)
			} else {
				key := [2]int{pcfg, v.mes}
				if w.extra == nil {
					w.extra = map[[2]int]*c11Plug{}
				}
				if w.extra[key] == nil {
					w.extra[key] = c11NewPlugM(key[0], key[1])
				}
				pl = w.extra[key]
			}
		}
		pl.ctype, pl.query = "", ""
		if v.meta {
			pl.ctype, pl.query = c11CTypes[v.ctype], "q=1&b=x%3Dy&b=z"
			w.st.MetaRequests += len(c.Reqs)
			if v.ctype == 3 {
				w.st.MetaFormRequests += len(c.Reqs)
			}
		}
		mms := w.runSeq(pl, c, v, true)
		if v.mes > 0 && c.Fam == "long" {
			pl.p.Stop()
		}
		for _, m := range mms {
			// does it need the state left behind by earlier cases? re-run on a fresh plugin of the same configuration
			fresh := c11NewPlugM(pl.cfg, pl.mes)
			fresh.ctype, fresh.query = pl.ctype, pl.query
			again := w.runSeq(fresh, c, v, false)
			fresh.p.Stop()
			ok := false
			for _, a := range again {
				if a.Kind == m.Kind && a.Req == m.Req {
					ok = true
				}
			}
			m.FreshRepr = &ok
			w.mms = append(w.mms, m)
		}
	}
}

// A gzip request WITH a Content-Length whose body is highly repetitive: every terminated line of the case's body is
// repeated until the decompressed body has c.Size bytes (the expected events are the case's expected lines repeated
// the same way), compressed as hard as possible, and the compressed payload is padded (gzip header extra field) so that
// decompressed/compressed is just at the ratio aimed at.  Whatever the ratio, every line must be handed over before 200.
func (w *c11Worker) runRatio(pl *c11Plug, c *c11Case) {
	r := &c.Reqs[0]
	lines := c11Lines(r.Exp, c.Scale, c11Long)
	endsNL := len(r.Body) > 0 && r.Body[len(r.Body)-1] == 0
	per := 0
	for _, l := range lines {
		per += len(l) + 1
	}
	if per == 0 || len(r.Sizes) == 0 {
		return
	}
	m := c.Size / per
	if m < 1 {
		m = 1
	}
	var body []byte
	var want []string
	for i, l := range lines {
		term := i < len(lines)-1 || endsNL
		n := 1
		if term {
			n = m
		}
		for j := 0; j < n; j++ {
			body = append(body, l...)
			if term {
				body = append(body, '\n')
			}
			want = append(want, l)
		}
	}
	// the split of the case, stretched to the new length (member / flush boundaries of the gzip stream)
	total := 0
	for _, s := range r.Sizes {
		total += s
	}
	sizes := make([]int, len(r.Sizes))
	used := 0
	for i, s := range r.Sizes {
		sizes[i] = len(body) * s / total
		if sizes[i] < 1 {
			sizes[i] = 1
		}
		if i == len(r.Sizes)-1 || used+sizes[i] > len(body) {
			sizes[i] = len(body) - used
		}
		used += sizes[i]
	}
	mode := 1
	if c.GzMode > 0 {
		mode = c.GzMode - 1
	}
	pack := func(comment int) []byte {
		var buf bytes.Buffer
		zw, _ := kgzip.NewWriterLevel(&buf, kgzip.BestCompression)
		if comment > 0 {
			zw.Extra = bytes.Repeat([]byte{'x'}, comment) // the header's extra field (up to 64 KiB) pads the payload
		}
		pos := 0
		for i, n := range sizes {
			_, _ = zw.Write(body[pos : pos+n])
			pos += n
			if i == len(sizes)-1 {
				break
			}
			switch mode {
			case 0:
				_ = zw.Flush()
			case 2:
				_ = zw.Close()
				zw.Reset(&buf)
			}
		}
		_ = zw.Close()
		return buf.Bytes()
	}
	wire := pack(0)
	if c.Ratio > 0 {
		aim := (len(body) + c.Ratio - 1) / c.Ratio // ratio just below or at the aim ...
		if c.Ratio%2 == 1 {
			aim = len(body) / c.Ratio // ... odd aims (99, 101): just at or above
		}
		if pad := aim - len(wire) - 2; pad > 0 {
			if pad > 65000 {
				pad = 65000
			}
			wire = pack(pad)
		}
	}
	ratio := len(body) / len(wire)
	w.st.Requests++
	w.st.GzipRequests++
	w.st.RatioRequests++
	switch {
	case len(body) > 300*len(wire):
		w.st.RatioOver300++
		w.st.RatioOver100++
	case len(body) > 100*len(wire):
		w.st.RatioOver100++
	default:
		w.st.RatioUnder100++
	}
	if ratio > w.st.RatioMax {
		w.st.RatioMax = ratio
	}
	if len(body) > w.st.RatioBodyMax {
		w.st.RatioBodyMax = len(body)
	}
	if mode == 2 {
		w.st.RatioMulti++
	}
	script, final := c11Script(c11GzSizes(len(wire), []int{len(wire)/3 + 1, 7, 64}, c.ID%3), r.End, false)
	res := pl.serveCL(&c11Body{data: wire, script: script, final: final}, true, int64(len(wire)))
	calls := pl.rec.slice(res.start, res.end)
	pl.rec.reset()
	if res.status == http.StatusOK {
		w.st.OK200++
	} else {
		w.st.Non200++
		w.st.Non200Clean++
	}
	mk := func(kind, detail string) *c11Mismatch {
		detail += fmt.Sprintf(" [Content-Length %d, decompressed %d bytes]", len(wire), len(body))
		return &c11Mismatch{Kind: kind, Fam: c.Fam, Variant: map[bool]string{false: "gzip+content-length one member", true: "gzip+content-length multi-member"}[mode == 2],
			Cfg: pl.cfg, End: r.End, Status: res.status, StatusAt: res.statusAt - res.start, NCalls: len(calls),
			Want: c11Trim(want[len(want)-c11MinInt(len(want), 3):]), Got: c11Trim(c11Datas(calls[len(calls)-c11MinInt(len(calls), 3):])),
			Detail: detail, Panic: res.panicMsg, Case: c}
	}
	switch {
	case res.panicMsg != "":
		w.mms = append(w.mms, mk("panic", ""))
	case !c11Equal(calls, want):
		w.mms = append(w.mms, mk("lines_differ", fmt.Sprintf("%s: %d events handed over, the body has %d lines; the body inflates %d times (last events shown)",
			c11Diff(c11Datas(calls), want), len(calls), len(want), ratio)))
	case res.status == http.StatusOK && res.statusAt < res.end:
		w.mms = append(w.mms, mk("ok_before_all_lines", ""))
	}
}

// The request goes over a real TCP connection to a real net/http server in front of the plugin (started with the meta
// option): net/http's own handling of the body, of Content-Length / chunked transfer and of the headers applies.
func (w *c11Worker) runSrv(c *c11Case) {
	if w.srv == nil {
		w.srvPlug = c11NewPlugM(4, 0)
		w.srv = httptest.NewServer(w.srvPlug.p)
	}
	pl := w.srvPlug
	r := &c.Reqs[0]
	scale := c.Scale
	if scale < 1 {
		scale = 1
	}
	alpha := c11Small
	if scale > 1 {
		alpha = c11Long
	}
	body := c11Bytes(r.Body, scale, alpha)
	want := c11Lines(r.Exp, scale, alpha)
	wire := body
	if c.Gz == 1 {
		wire = w.gz.compress(body, c11ByteSizes(r, scale), c.ID%3)
	}
	var rd io.Reader = bytes.NewReader(wire) // Content-Length
	if c.ID%2 == 1 {
		rd = io.MultiReader(bytes.NewReader(wire)) // length unknown: chunked transfer
	}
	ct := 0
	if c.Ctype > 0 {
		ct = (c.Ctype - 1) % len(c11CTypes)
	}
	req, err := http.NewRequest(http.MethodPost, w.srv.URL+"/?q=1&b=x%3Dy", rd)
	if err != nil {
		panic(err)
	}
	if c11CTypes[ct] != "" {
		req.Header.Set("Content-Type", c11CTypes[ct])
	}
	if c.Gz == 1 {
		req.Header.Set("Content-Encoding", "gzip")
	}
	w.st.Requests++
	w.st.SrvRequests++
	if ct == 3 {
		w.st.SrvFormRequests++
	}
	pl.rec.reset()
	resp, err := w.srv.Client().Do(req)
	status := 0
	if err == nil {
		_, _ = io.Copy(io.Discard, resp.Body)
		_ = resp.Body.Close()
		status = resp.StatusCode
	}
	calls := pl.rec.slice(0, pl.rec.length()) // the response was received: the handler is past its In calls
	pl.rec.reset()
	if status == http.StatusOK {
		w.st.OK200++
	} else {
		w.st.Non200++
		w.st.Non200Clean++
	}
	if !c11Equal(calls, want) {
		detail := c11Diff(c11Datas(calls), want)
		if err != nil {
			detail += " [client error: " + err.Error() + "]"
		}
		w.mms = append(w.mms, &c11Mismatch{Kind: "lines_differ", Fam: c.Fam, Variant: "http server meta content-type=" + c11CTypes[ct],
			Cfg: pl.cfg, End: r.End, Status: status, NCalls: len(calls), Want: c11Trim(want), Got: c11Trim(c11Datas(calls)),
			Detail: detail, Case: c})
	}
}

func c11MinInt(a, b int) int {
	if a < b {
		return a
	}
	return b
}

// ---------------------------------------------------------------------------------- concurrent

type c11ConcReq struct {
	g, j       int
	r          *c11Req
	want       []string
	res        c11Result
	alpha      c11Alpha
	gz         bool
	nonEmpty   []string
	emptyLines int
}

func c11RunConc(pl *c11Plug, c *c11Case, st *c11Stats, barrierOff *int32) (mms []*c11Mismatch) {
	G := len(c.G)
	reqs := make([][]*c11ConcReq, G)
	scale := c.Scale
	var arrived int32
	gate := make(chan struct{})
	var missed int32
	useBarrier := c.Barrier && atomic.LoadInt32(barrierOff) == 0
	var wg sync.WaitGroup
	var gzs = make([]c11Gz, G)
	for g := 0; g < G; g++ {
		alpha := c11ConcAlpha(g)
		for j := range c.G[g] {
			r := &c.G[g][j]
			cr := &c11ConcReq{g: g, j: j, r: r, alpha: alpha, want: c11Lines(r.Exp, scale, alpha), gz: c.GzSeq || c.Gz == 1 && (g+j)%2 == 0 && !useBarrier}
			for _, l := range cr.want {
				if l == "" {
					cr.emptyLines++
				} else {
					cr.nonEmpty = append(cr.nonEmpty, l)
				}
			}
			reqs[g] = append(reqs[g], cr)
		}
	}
	pl.rec.reset()
	var serveAll func(g int)
	var armGate, gateFn, prepare func()
	gated := c.GateK != 0
	othersDone := make(chan struct{})
	var fired, stuck, probeHit int32
	if gated {
		k := c.GateK
		if k < 0 {
			k = len(reqs[0][0].want)
		}
		st.GateRuns++
		if runtime.GOMAXPROCS(0) == 1 {
			st.GateProcs1++
		}
		armGate = func() {
			pl.rec.arm(k, gateFn)
		}
		gateFn = func() {
			// the In call of g[0]'s request is blocked (the pipeline has not copied the bytes yet).
			// The other requests are started from here so that they most likely run on the same P (sync.Pool
			// hands a buffer over through the P-local slot); the probe pool measures whether that worked.
			atomic.StoreInt32(&fired, 1)
			token := new(int)
			c11Probe.Put(token)
			go func() {
				defer close(othersDone)
				if x := c11Probe.Get(); x != nil {
					if x.(*int) == token {
						atomic.StoreInt32(&probeHit, 1)
					}
				}
				for g := 1; g < G; g++ {
					serveAll(g)
				}
			}()
			select {
			case <-othersDone:
			case <-time.After(10 * time.Second): // e.g. requests serialised by a lock held across In: no window, no verdict
				atomic.StoreInt32(&stuck, 1)
			}
		}
	}
	var preMM []*c11Mismatch
	if gated && c.GzSeq {
		// sync.Pool drops its items on GC: keep the collector out of the sequence
		defer debug.SetGCPercent(debug.SetGCPercent(-1))
		st.GzSeqRuns++
		prepare = func() { preMM = c11GzSeqPrepare(pl, c, st) }
	}
	serveAll = func(g int) {
		func() {
			for _, cr := range reqs[g] {
				body := c11Bytes(cr.r.Body, scale, cr.alpha)
				sizes := c11ByteSizes(cr.r, scale)
				wire, wireSizes := body, sizes
				if cr.gz {
					mode := (c.ID + cr.j) % 3
					if g == 0 && c.GzMode > 0 {
						mode = c.GzMode - 1
					}
					wire = gzs[g].compress(body, sizes, mode)
					wireSizes = c11GzSizes(len(wire), sizes, (c.ID/3+cr.j)%3)
				}
				script, final := c11Script(wireSizes, cr.r.End, cr.r.Zr)
				b := &c11Body{data: wire, script: script, final: final}
				if useBarrier {
					b.hook = func(idx, phase int) {
						if idx != 1 || phase != 1 {
							return
						}
						// all requests of the round have filled their read buffer for the 2nd time and hold a carry-over
						if int(atomic.AddInt32(&arrived, 1)) == G {
							close(gate)
						}
						select {
						case <-gate:
						case <-time.After(10 * time.Second):
							atomic.StoreInt32(&missed, 1)
						}
					}
				}
				cr.res = pl.serve(b, cr.gz)
			}
		}()
	}
	for g := 0; g < G; g++ {
		if gated && g > 0 {
			break // served from inside the blocked In call
		}
		wg.Add(1)
		go func(g int) {
			defer wg.Done()
			if g == 0 && gated {
				if prepare != nil {
					prepare() // on this goroutine: what it puts into a sync.Pool is found by its next Get
				}
				armGate()
			}
			serveAll(g)
		}(g)
	}
	wg.Wait()
	mms = append(mms, preMM...)
	if gated {
		if fired != 0 {
			select {
			case <-othersDone:
			case <-time.After(60 * time.Second):
				panic("verif: requests started inside the blocked In call never finished")
			}
			if stuck != 0 {
				st.GateStuck++
			} else {
				st.GateFired++
				if b := reqs[0][0].r.Body; c.GateK < 0 && len(b) > 0 && b[len(b)-1] != 0 {
					st.GateLastLine++
				}
			}
			if probeHit != 0 {
				st.GateProbeHits++
			}
		} else { // the request made fewer In calls than expected: no window; serve the others now
			st.GateNotFired++
			for g := 1; g < G; g++ {
				serveAll(g)
			}
		}
		pl.rec.disarm()
	}
	if useBarrier {
		if missed != 0 {
			st.BarrierMiss++
			atomic.StoreInt32(barrierOff, 1) // do not pay the timeout again
		} else {
			st.BarrierRounds++
		}
	}
	log := pl.rec.slice(0, pl.rec.length())
	pl.rec.reset()

	mk := func(kind, detail string, cr *c11ConcReq, got []string) *c11Mismatch {
		variant := fmt.Sprintf("G=%d barrier=%v", G, useBarrier)
		if gated {
			variant = fmt.Sprintf("gate k=%d procs=%d", c.GateK, runtime.GOMAXPROCS(0))
			if c.GzSeq {
				variant = "gzseq " + variant
			}
			for _, cl := range log {
				if cl.changed {
					detail += " [the bytes of an event changed while its In call was blocked: " + c11Trim([]string{cl.entry})[0] + " -> " + c11Trim([]string{cl.data})[0] + "]"
					break
				}
			}
		}
		m := &c11Mismatch{Kind: kind, Fam: "conc", Variant: variant, Cfg: pl.cfg, Detail: detail, Case: c}
		if cr != nil {
			m.Goroutine, m.Req, m.End, m.Status = cr.g, cr.j, cr.r.End, cr.res.status
			m.StatusAt, m.NCalls = cr.res.statusAt, len(got)
			m.Want, m.Got, m.Panic = c11Trim(cr.nonEmpty), c11Trim(got), cr.res.panicMsg
		}
		return m
	}

	// attribute every non-empty call to the goroutine whose alphabet its bytes belong to
	owner := make([]int, len(log)) // -1 empty, -2 mixed/foreign
	empties := 0
	for i, cl := range log {
		if cl.data == "" {
			owner[i] = -1
			empties++
			continue
		}
		o := -2
		for g := 0; g < G; g++ {
			if c11ConcAlpha(g).owns(cl.data[0]) {
				o = g
				break
			}
		}
		if o >= 0 {
			a := c11ConcAlpha(o)
			for k := 0; k < len(cl.data); k++ {
				if !a.owns(cl.data[k]) {
					o = -2
					break
				}
			}
		}
		owner[i] = o
		if o == -2 && len(mms) < 3 {
			m := mk("mixed_bytes", fmt.Sprintf("In call %d carries bytes of more than one body (or of none)", i), nil, nil)
			m.Got = c11Trim([]string{cl.data})
			mms = append(mms, m)
		}
	}
	// per request: its calls are the attributed calls made while it was being served
	type span struct{ first, last int }
	spans := map[*c11ConcReq]span{}
	wantEmpties := 0
	for g := 0; g < G; g++ {
		for _, cr := range reqs[g] {
			st.ConcRequests++
			if cr.gz {
				st.GzipRequests++
			}
			wantEmpties += cr.emptyLines
			var got []string
			sp := span{-1, -1}
			for i := cr.res.start; i < cr.res.end && i < len(log); i++ {
				if owner[i] == g {
					got = append(got, log[i].data)
					if sp.first < 0 {
						sp.first = i
					}
					sp.last = i
				}
			}
			spans[cr] = sp
			if cr.res.panicMsg != "" {
				mms = append(mms, mk("panic", "", cr, got))
				continue
			}
			if cr.res.status == http.StatusOK {
				st.OK200++
			} else {
				st.Non200++
				st.Non200Clean++
			}
			if !c11EqS(got, cr.nonEmpty) {
				mms = append(mms, mk("lines_differ", "concurrent: "+c11Diff(got, cr.nonEmpty), cr, got))
				continue
			}
			if cr.res.status == http.StatusOK && sp.last >= cr.res.statusAt {
				mms = append(mms, mk("ok_before_all_lines", "concurrent", cr, got))
			}
		}
	}
	for g := 0; g < G; g++ { // no event of a body outside the time its request was being served
		n, inside := 0, 0
		for i := range log {
			if owner[i] == g {
				n++
				for _, cr := range reqs[g] {
					if i >= cr.res.start && i < cr.res.end {
						inside++
						break
					}
				}
			}
		}
		if n != inside {
			mms = append(mms, mk("lines_differ", fmt.Sprintf("concurrent: %d events of goroutine %d's bodies handed over outside its requests", n-inside, g), nil, nil))
		}
	}
	if empties != wantEmpties {
		mms = append(mms, mk("empty_lines_differ", fmt.Sprintf("concurrent: %d empty events handed over, %d empty lines in the bodies", empties, wantEmpties), nil, nil))
	}
	// NoMixing: under one source id, the calls of two requests never interleave (A .. B .. A)
	type key struct{ g, j int }
	reqAt := func(i int) key { // which request of goroutine owner[i] was being served at log position i
		for _, cr := range reqs[owner[i]] {
			if i >= cr.res.start && i < cr.res.end {
				return key{cr.g, cr.j}
			}
		}
		return key{owner[i], -1}
	}
	cur := map[pipeline.SourceID]key{}
	closed := map[pipeline.SourceID]map[key]bool{}
	sids := map[pipeline.SourceID]bool{}
	shared := false
	for i, cl := range log {
		if owner[i] < 0 {
			continue
		}
		sids[cl.sid] = true
		k := reqAt(i)
		if prev, ok := cur[cl.sid]; ok && prev != k {
			if closed[cl.sid] == nil {
				closed[cl.sid] = map[key]bool{}
			}
			closed[cl.sid][prev] = true
			st.SidReuse++
		}
		if closed[cl.sid][k] && !shared {
			shared = true
			m := mk("source_id_shared", fmt.Sprintf("source id %d: events of request g%d/%d resume at call %d after events of another request", cl.sid, k.g, k.j, i), nil, nil)
			mms = append(mms, m)
		}
		cur[cl.sid] = k
	}
	if len(sids) > st.DistinctSids {
		st.DistinctSids = len(sids)
	}
	// evidence: how many pairs of requests really had interleaved In calls
	var all []*c11ConcReq
	for g := 0; g < G; g++ {
		all = append(all, reqs[g]...)
	}
	for a := 0; a < len(all); a++ {
		for b := a + 1; b < len(all); b++ {
			sa, sb := spans[all[a]], spans[all[b]]
			if sa.first >= 0 && sb.first >= 0 && sa.first < sb.last && sb.first < sa.last {
				st.OverlapPairs++
			}
		}
	}
	return mms
}

// Steps 1 and 2 of the gzip sequence, and the white-box look into the gzip reader pool.
//  1. a good gzip request: afterwards the pool holds a reader;
//  2. a request that says Content-Encoding: gzip but whose body has no gzip header: Reset of the pooled reader fails;
//  3. (the caller) two overlapping gzip requests.
// Between 2 and 3 the harness itself acts as two concurrent holders: it takes readers out of the pool without putting
// any back; the pool must not hand out the same *gzip.Reader twice.  Everything taken is put back in reverse order.
func c11GzSeqPrepare(pl *c11Plug, c *c11Case, st *c11Stats) (mms []*c11Mismatch) {
	var gz c11Gz
	alpha := c11ConcAlpha(7)
	warm := c11Bytes([]int{1, 2, 0, 2, 1, 0}, 1, alpha)
	wire := gz.compress(warm, []int{len(warm)}, 1)
	script, final := c11Script([]int{len(wire)}, "after", false)
	res := pl.serve(&c11Body{data: wire, script: script, final: final}, true)
	if res.status == http.StatusOK {
		st.GzSeqWarmOK++
	}
	bad := []byte("this body is not gzipped at all\n")
	script, final = c11Script([]int{len(bad)}, "after", false)
	res = pl.serve(&c11Body{data: bad, script: script, final: final}, true)
	if res.status != http.StatusOK {
		st.GzSeqBad400++
	}
	var held []any
	for i := 0; i < 8; i++ {
		x := pl.p.gzipReaderPool.Get()
		if x == nil {
			break
		}
		held = append(held, x)
	}
	if len(held) > 0 {
		st.GzSeqPooled++
	}
	dup := false
	for i := range held {
		for j := i + 1; j < len(held); j++ {
			if held[i] == held[j] {
				dup = true
			}
		}
	}
	for i := len(held) - 1; i >= 0; i-- {
		pl.p.gzipReaderPool.Put(held[i])
	}
	if dup {
		mms = append(mms, &c11Mismatch{Kind: "gzip_reader_pooled_twice", Fam: "conc",
			Variant: fmt.Sprintf("gzseq gate k=%d procs=%d", c.GateK, runtime.GOMAXPROCS(0)), Cfg: pl.cfg,
			Detail: fmt.Sprintf("after a good gzip request and one with a bad gzip header the pool handed the same *gzip.Reader to two holders (%d objects taken without a Put in between)", len(held)),
			Case:   c})
	}
	pl.rec.reset()
	return mms
}

// ---------------------------------------------------------------------------------- driver

func TestVerifC11(t *testing.T) {
	in := os.Getenv("VERIF_CASES")
	out := os.Getenv("VERIF_OUT")
	if in == "" || out == "" {
		t.Skip("VERIF_CASES / VERIF_OUT not set")
	}
	f, err := os.Open(in)
	if err != nil {
		t.Fatal(err)
	}
	defer f.Close()
	var seq, conc []*c11Case
	sc := bufio.NewScanner(f)
	sc.Buffer(make([]byte, 1<<20), 1<<26)
	for sc.Scan() {
		c := &c11Case{}
		if err := json.Unmarshal(sc.Bytes(), c); err != nil {
			t.Fatalf("bad case line: %v", err)
		}
		switch c.Fam {
		case "serial", "long", "ratio", "srv":
			seq = append(seq, c)
		case "conc":
			conc = append(conc, c)
		default:
			t.Fatalf("unknown family %q", c.Fam)
		}
	}
	if err := sc.Err(); err != nil {
		t.Fatal(err)
	}

	nw := runtime.GOMAXPROCS(0)
	if nw > 16 {
		nw = 16
	}
	var wg sync.WaitGroup
	workers := make([]*c11Worker, nw)
	for wi := 0; wi < nw; wi++ {
		w := &c11Worker{}
		for i := range w.plugs {
			w.plugs[i] = c11NewPlug(i)
			if !w.plugs[i].rec.streamsOff {
				t.Fatal("Start did not run (DisableStreams not called)")
			}
		}
		workers[wi] = w
		wg.Add(1)
		go func(wi int) {
			defer wg.Done()
			for i := wi; i < len(seq); i += nw {
				w.run(seq[i])
			}
		}(wi)
	}
	wg.Wait()
	total := c11Stats{}
	var mms []*c11Mismatch
	nmm := 0
	byClass := map[string]int{}
	for _, w := range workers {
		for _, pl := range w.plugs {
			pl.p.Stop()
		}
		for _, pl := range w.extra {
			pl.p.Stop()
		}
		if w.srv != nil {
			w.srv.Close()
			w.srvPlug.p.Stop()
		}
		total.add(&w.st)
		nmm += len(w.mms)
		kept := map[string]int{}
		for _, m := range w.mms {
			cls := m.Kind + " / " + m.Fam + " / " + m.Variant + " / end=" + m.End
			byClass[cls]++
			kept[cls]++
			if len(mms) < 60 && kept[cls] <= 3 { // a few of every class rather than 60 of the first one
				mms = append(mms, m)
			}
		}
	}

	// concurrent rounds: one shared plugin per configuration, rounds one after the other
	var barrierOff int32
	var shared [4]*c11Plug
	for i := range shared {
		shared[i] = c11NewPlug(i)
	}
	keep := func(cm []*c11Mismatch) {
		nmm += len(cm)
		for _, m := range cm {
			cls := m.Kind + " / " + m.Fam
			if i := strings.Index(m.Variant, "procs="); i >= 0 {
				cls += " / blocked-In " + m.Variant[i:]
			}
			byClass[cls]++
			if len(mms) < 60 {
				mms = append(mms, m)
			}
		}
	}
	var gated []*c11Case
	for _, c := range conc {
		total.Cases++
		if c.GateK != 0 {
			total.GateCases++
			gated = append(gated, c)
			continue
		}
		total.ConcCases++
		keep(c11RunConc(shared[c.ID%4], c, &total, &barrierOff))
	}
	// blocked-In windows: once with a single P (sync.Pool hands a buffer put by one goroutine to the next Get for
	// sure), once with the default number of Ps
	if len(gated) > 0 {
		prev := runtime.GOMAXPROCS(1)
		for _, c := range gated {
			keep(c11RunConc(shared[c.ID%4], c, &total, &barrierOff))
		}
		runtime.GOMAXPROCS(prev)
		for _, c := range gated {
			keep(c11RunConc(shared[c.ID%4], c, &total, &barrierOff))
		}
	}
	for _, pl := range shared {
		pl.p.Stop()
	}
	total.Requests += total.ConcRequests

	res := map[string]interface{}{"executed": total.Cases, "stats": total, "mismatches": mms, "mismatch_count": nmm, "mismatch_classes": byClass,
		"read_buf_len": readBufDefaultLen, "gomaxprocs": runtime.GOMAXPROCS(0)}
	b, _ := json.Marshal(res)
	if err := os.WriteFile(out, b, 0o644); err != nil {
		t.Fatal(err)
	}
}
