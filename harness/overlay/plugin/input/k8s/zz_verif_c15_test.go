package k8s

// C15 plugin-level replay harness for the k8s multi-line action (mapped into /repo/plugin/input/k8s
// by `go test -overlay`; /repo is not modified).
// Every (case, time-out placement) exported by TLC from specs/K8sMultiline.tla is executed against the
// REAL MultilineAction, started through the real Start: the fragments of the case are handed to Do
// one by one as events with a "log" field (and the k8s_* fields the action requires), time-out events
// are delivered at the positions of the case. The events that were passed on (ActionPass) and their
// log field are compared with the DECLARATIVE expectation of the specification (runs of partial
// chunks closed by the final chunk or by a time-out; concatenation in order; max_event_size /
// split_event_size leniency exactly as in RunOK of the specification).

import (
	"bufio"
	"encoding/json"
	"fmt"
	"os"
	"runtime"
	"runtime/debug"
	"strings"
	"sync"
	"testing"
	"time"

	"github.com/ozontech/file.d/pipeline"
	"github.com/ozontech/file.d/plugin/input/k8s/meta"
	"github.com/ozontech/file.d/test"
	insaneJSON "github.com/ozontech/insane-json"
	"go.uber.org/zap"
	corev1 "k8s.io/api/core/v1"
)

type c15Frag struct {
	K string `json:"k"` // e | o | l
	F bool   `json:"f"` // final chunk (ends with newline)
}

type c15Run struct {
	A  int    `json:"a"`
	B  int    `json:"b"`
	By string `json:"by"` // fin | to | pending
}

type c15ModelItem struct {
	C     int      `json:"c"`
	Parts [][2]int `json:"parts"`
}

type c15Case struct {
	Seq    []c15Frag      `json:"seq"`
	L      int            `json:"L"`
	Cut    bool           `json:"cut"`
	SP     int            `json:"SP"`
	TO     []int          `json:"to"`
	Dev    []string       `json:"dev"`
	Panics bool           `json:"panics"`
	At     int            `json:"at"`
	Exp    []c15Run       `json:"exp"`
	Model  []c15ModelItem `json:"model"`
}

type c15Obs struct {
	C   int    `json:"c"`   // carrier: position of the event that was passed on
	Log string `json:"log"` // its log field, escaped as the action handles it (newline = `\n`)
}

// raw (DECODED) content of fragment id (1-based), first char unique per position:
// "" | one char | four chars | char + literal backslash | char + literal backslash + letter n | char + quote;
// a final chunk additionally ends with a real newline
func c15Content(f c15Frag, id int) string {
	s := ""
	switch f.K {
	case "o":
		s = string(rune('a' + id))
	case "l":
		s = string(rune('A'+id)) + "xyz"
	case "b":
		s = string(rune('G'+id)) + `\`
	case "n":
		s = string(rune('M'+id)) + `\n`
	case "q":
		s = string(rune('S'+id)) + `"`
	}
	if f.F {
		s += "\n"
	}
	return s
}

// the escaped form the action works on (what the container runtime wrote between the quotes)
func c15Esc(s string) string {
	var b strings.Builder
	for i := 0; i < len(s); i++ {
		switch s[i] {
		case '\n':
			b.WriteString(`\n`)
		case '\\':
			b.WriteString(`\\`)
		case '"':
			b.WriteString(`\"`)
		default:
			b.WriteByte(s[i])
		}
	}
	return b.String()
}

func c15Has(xs []string, x string) bool {
	for _, y := range xs {
		if y == x {
			return true
		}
	}
	return false
}

// RunOK of specs/K8sMultiline.tla on strings (escaped form, lengths as the code counts them)
func c15RunOK(c *c15Case, esc []string, r c15Run, outs []c15Obs, relaxTO bool) bool {
	full := ""
	for id := r.A; id <= r.B; id++ {
		full += esc[id-1]
	}
	all := ""
	for _, o := range outs {
		all += o.Log
	}
	if c.SP != 0 {
		// a line may be cut into several events: whole fragments, in order, each cut justified by the sizes
		pos := r.A
		for n, o := range outs {
			// o.Log must be the concatenation of the fragments pos..e for some e <= carrier (largest e)
			acc, e, ok := "", pos-1, o.Log == ""
			best := -1
			if ok {
				best = pos - 1
			}
			for id := pos; id <= o.C; id++ {
				acc += esc[id-1]
				if acc == o.Log {
					best = id
				}
			}
			if best < 0 {
				return false
			}
			e = best
			lo := r.A
			if n > 0 {
				lo = outs[n-1].C + 1
			}
			if n < len(outs)-1 || r.By == "pending" {
				size := 0
				for id := lo; id <= o.C; id++ {
					size += len(esc[id-1]) + 1
				}
				if size <= c.SP {
					return false
				}
			}
			pos = e + 1
		}
		if r.By == "fin" || (r.By == "to" && !relaxTO) {
			return all == full
		}
		return strings.HasPrefix(full, all)
	}
	if r.By == "pending" {
		return len(outs) == 0
	}
	if c.L == 0 || 3+len(full) < c.L {
		if len(outs) == 1 && all == full {
			return true
		}
		return r.By == "to" && (relaxTO || full == "") && len(outs) == 0
	}
	if len(outs) == 0 {
		return !c.Cut || (r.By == "to" && relaxTO)
	}
	if len(outs) != 1 {
		return false
	}
	if all == full {
		return true
	}
	body := strings.TrimSuffix(all, `\n`)
	for _, b := range []string{all, body} {
		if strings.HasPrefix(full, b) && len(b) >= c.L-5 {
			return true
		}
	}
	return false
}

func c15AllRunsOK(c *c15Case, esc []string, obs []c15Obs, relaxTO bool) bool {
	for i := 1; i < len(obs); i++ {
		if obs[i-1].C >= obs[i].C {
			return false
		}
	}
	covered := 0
	for _, r := range c.Exp {
		var outs []c15Obs
		for _, o := range obs {
			if r.A <= o.C && o.C <= r.B {
				outs = append(outs, o)
			}
		}
		covered += len(outs)
		if !c15RunOK(c, esc, r, outs, relaxTO) {
			return false
		}
	}
	return covered == len(obs)
}

func c15AsModelled(c *c15Case, esc []string, obs []c15Obs) bool {
	if len(obs) != len(c.Model) {
		return false
	}
	for i, m := range c.Model {
		s := ""
		for _, p := range m.Parts {
			if p[0] == 0 {
				s += `\n`
			} else {
				s += esc[p[0]-1][:p[1]]
			}
		}
		if obs[i].C != m.C || obs[i].Log != s {
			return false
		}
	}
	return true
}

type c15Mismatch struct {
	Kind         string   `json:"kind"`
	Plugin       string   `json:"plugin"`
	Case         *c15Case `json:"case"`
	Got          []c15Obs `json:"got"`
	AsModelled   bool     `json:"as_modelled"`
	EmptyLog     bool     `json:"empty_log"`
	PanicClass   string   `json:"panic_class,omitempty"`
	Panic        string   `json:"panic,omitempty"`
	At           int      `json:"at"`
	TOWhileSkip  bool     `json:"timeout_while_skipping"`
	BackslashN   bool     `json:"backslash_n_partial"` // the case has a partial chunk ending in backslash + 'n' (D20)
	ModelPanics  bool     `json:"model_panics"`
	RealPanicked bool     `json:"real_panicked"`
}

type c15Ctl struct{}

func (c *c15Ctl) Propagate(_ *pipeline.Event)                   {}
func (c *c15Ctl) Spawn(_ *pipeline.Event, _ []*insaneJSON.Node) {}
func (c *c15Ctl) IncMaxEventSizeExceeded(_ ...string)           {}

var c15Item = &meta.MetaItem{
	Namespace:     "sre",
	PodName:       "c15-pod-1111111111-trtrq",
	ContainerName: "c15",
	ContainerID:   "4e0301b633eaa2bfdcafdeba59ba0c72a3815911a6a820bf273534b0f32d98e0",
}

func c15RunCase(c *c15Case) (mm *c15Mismatch, nontrivial bool) {
	n := len(c.Seq)
	plugin := &MultilineAction{}
	split := predictionLookahead * 1024 // never reached
	if c.SP != 0 {
		split = predictionLookahead + c.SP
	}
	params := test.NewEmptyActionPluginParams()
	params.PipelineSettings = &pipeline.Settings{MaxEventSize: c.L, CutOffEventByLimit: c.Cut}
	params.Controller = &c15Ctl{}
	params.Logger = zap.NewNop().Sugar()
	plugin.Start(&Config{SplitEventSize: split}, params)

	raw := make([]string, n)
	esc := make([]string, n)
	for k := 0; k < n; k++ {
		raw[k] = c15Content(c.Seq[k], k+1)
		esc[k] = c15Esc(raw[k])
	}
	for _, r := range c.Exp {
		if r.B > r.A && r.By != "pending" {
			nontrivial = true
		}
	}
	toSet := map[int]bool{}
	for _, p := range c.TO {
		toSet[p] = true
	}
	var obs []c15Obs
	var kept []*insaneJSON.Root // the passed EVENTS are kept: their text is looked at once more at the end of the case
	var keptRoots []*insaneJSON.Root
	defer func() {
		for _, r := range keptRoots {
			insaneJSON.Release(r)
		}
	}()
	at := 0
	emptyLog := false
	panicked := false
	func() {
		defer func() {
			if r := recover(); r != nil {
				panicked = true
				txt := fmt.Sprint(r)
				class := "other"
				if strings.Contains(txt, "slice bounds out of range") {
					class = "slice bounds"
				} else {
					txt += "\n" + string(debug.Stack())
				}
				mm = &c15Mismatch{Kind: "panic", Plugin: "k8s_multiline", Case: c, Got: obs, Panic: txt, PanicClass: class,
					At: at, EmptyLog: emptyLog, ModelPanics: c.Panics, RealPanicked: true,
					AsModelled: c.Panics && at == c.At && c15AsModelled(c, esc, obs)}
			}
		}()
		for k := 0; k <= n; k++ {
			if toSet[k] {
				ev := &pipeline.Event{SourceName: "timeout"}
				ev.SetTimeoutKind()
				plugin.Do(ev)
			}
			if k == n {
				break
			}
			at = k + 1
			emptyLog = raw[k] == ""
			root := insaneJSON.Spawn()
			q, _ := json.Marshal(raw[k])
			doc := fmt.Sprintf(`{"log":%s,"k8s_pod":"%s","k8s_namespace":"%s","k8s_container":"%s","k8s_container_id":"%s"}`,
				string(q), c15Item.PodName, c15Item.Namespace, c15Item.ContainerName, c15Item.ContainerID)
			if err := root.DecodeString(doc); err != nil {
				panic("c15 harness: " + err.Error())
			}
			ev := &pipeline.Event{Root: root, SourceName: "c15.log", Size: len(esc[k]) + 1}
			res := plugin.Do(ev)
			if res == pipeline.ActionPass {
				node := root.Dig("log")
				if node == nil {
					obs = append(obs, c15Obs{C: k + 1, Log: "<no log field>"})
				} else {
					obs = append(obs, c15Obs{C: k + 1, Log: c15Esc(strings.Clone(node.AsString()))})
				}
				kept = append(kept, root)
			}
			keptRoots = append(keptRoots, root)
		}
	}()
	if panicked {
		return mm, nontrivial
	}
	// an output that keeps events for a while must still see the text the event had when it was passed on
	for i, root := range kept {
		late := "<no log field>"
		if node := root.Dig("log"); node != nil {
			late = c15Esc(node.AsString())
		}
		if late != obs[i].Log {
			return &c15Mismatch{Kind: "flushed_text_changed", Plugin: "k8s_multiline", Case: c, Got: obs, At: obs[i].C,
				Panic: "text at the end of the case: " + late}, nontrivial
		}
	}
	if c15AllRunsOK(c, esc, obs, false) {
		return nil, nontrivial
	}
	kind := "output_differs"
	if c15AllRunsOK(c, esc, obs, true) {
		kind = "run_lost_on_timeout" // everything is as demanded except that runs closed by a time-out are missing
	}
	return &c15Mismatch{Kind: kind, Plugin: "k8s_multiline", Case: c, Got: obs, AsModelled: !c.Panics && c15AsModelled(c, esc, obs),
		TOWhileSkip: c15Has(c.Dev, "D17"), BackslashN: c15Has(c.Dev, "D20"), ModelPanics: c.Panics}, nontrivial
}

func TestVerifC15K8s(t *testing.T) {
	in, out := os.Getenv("VERIF_CASES"), os.Getenv("VERIF_OUT")
	if in == "" || out == "" {
		t.Skip("VERIF_CASES / VERIF_OUT not set")
	}
	f, err := os.Open(in)
	if err != nil {
		t.Fatal(err)
	}
	defer f.Close()
	var cases []*c15Case
	sc := bufio.NewScanner(f)
	sc.Buffer(make([]byte, 1<<20), 1<<24)
	for sc.Scan() {
		c := &c15Case{}
		if err := json.Unmarshal(sc.Bytes(), c); err != nil {
			t.Fatalf("bad case line: %v", err)
		}
		cases = append(cases, c)
	}

	pod := &corev1.Pod{}
	pod.Namespace = string(c15Item.Namespace)
	pod.Name = string(c15Item.PodName)
	pod.Status.ContainerStatuses = make([]corev1.ContainerStatus, 1)
	pod.Status.ContainerStatuses[0].Name = string(c15Item.ContainerName)
	pod.Status.ContainerStatuses[0].ContainerID = "containerd://" + string(c15Item.ContainerID)
	pod.Labels = map[string]string{"allowed_label": "allowed_value"}
	meta.DisableMetaUpdates = true // no API server here
	meta.MetaExpireDuration = time.Hour
	meta.MaintenanceInterval = time.Hour
	meta.EnableGatherer(zap.NewNop().Sugar()) // (its maintenance goroutine just sleeps; never stopped)
	meta.PutMeta(pod)
	meta.SelfNodeName = "node_1"

	nw := runtime.GOMAXPROCS(0)
	var wg sync.WaitGroup
	var mu sync.Mutex
	var mms []*c15Mismatch
	counts := map[string]int{}
	executed, nontrivial := 0, 0
	for wi := 0; wi < nw; wi++ {
		wg.Add(1)
		go func(wi int) {
			defer wg.Done()
			for i := wi; i < len(cases); i += nw {
				mm, nt := c15RunCase(cases[i])
				mu.Lock()
				executed++
				if nt {
					nontrivial++
				}
				if mm != nil {
					key := fmt.Sprintf("%s|as_modelled=%v|empty_log=%v|class=%s|skip=%v|bsn=%v", mm.Kind, mm.AsModelled, mm.EmptyLog, mm.PanicClass, mm.TOWhileSkip, mm.BackslashN)
					counts[key]++
					if counts[key] <= 25 {
						mms = append(mms, mm)
					}
				}
				mu.Unlock()
			}
		}(wi)
	}
	wg.Wait()
	res := map[string]interface{}{"executed": executed, "nontrivial": nontrivial, "mismatch_counts": counts, "mismatches": mms}
	b, _ := json.Marshal(res)
	if err := os.WriteFile(out, b, 0o644); err != nil {
		t.Fatal(err)
	}
}
