package split

// C01 with the REAL split action (mapped into /repo/plugin/action/split by `go test -overlay`): a real pipeline -- fake input,
// the real split plugin, a batched output built on pipeline.Batcher whose send function sees what Batch.ForEach yields -- is fed
// records whose split field has every shape (array of objects, of strings, of numbers, mixed, empty, not an array, absent) and
// is recorded in the vocabulary of specs/PipelineMon.tla: a record whose field holds at least one object is delivered through
// its children (the documented behaviour), every other record passes unchanged; when the input is told that a record is
// committed, the output has delivered it (or its children).

import (
	"bufio"
	"context"
	"encoding/json"
	"fmt"
	"os"
	"sort"
	"sync"
	"testing"
	"time"

	"github.com/ozontech/file.d/pipeline"
	"github.com/ozontech/file.d/plugin/input/fake"
	"github.com/ozontech/file.d/test"
)

type c01sLine struct {
	ID    int    `json:"id"`
	Shape string `json:"shape"` // objects | strings | numbers | mixed | empty | scalar | absent
	N     int    `json:"n"`     // number of elements
}

type c01sScenario struct {
	Run     int        `json:"run"`
	Name    string     `json:"name"`
	Batch   int        `json:"batch"`
	Workers int        `json:"workers"`
	FlushMs int        `json:"flush_ms"`
	Lines   []c01sLine `json:"lines"`
}

type c01sRun struct {
	mu  sync.Mutex
	n   int
	run int
	evs []map[string]interface{}
}

func (r *c01sRun) log(ev string, kv ...interface{}) {
	r.mu.Lock()
	r.n++
	e := map[string]interface{}{"ev": ev, "run": r.run, "n": r.n, "iu": 0}
	for i := 0; i+1 < len(kv); i += 2 {
		e[kv[i].(string)] = kv[i+1]
	}
	r.evs = append(r.evs, e)
	r.mu.Unlock()
}

type c01sOutput struct {
	r       *c01sRun
	sc      *c01sScenario
	batcher *pipeline.Batcher
	cancel  context.CancelFunc
}

func c01sID(e *pipeline.Event) int {
	if e.Root == nil {
		return 0
	}
	if n := e.Root.Dig("id"); n != nil {
		return n.AsInt()
	}
	return -1
}

func (o *c01sOutput) Start(_ pipeline.AnyConfig, params *pipeline.OutputPluginParams) {
	seq := 0
	var smu sync.Mutex
	o.batcher = pipeline.NewBatcher(pipeline.BatcherOptions{
		PipelineName: params.PipelineName, OutputType: "verif_c01s", Controller: params.Controller,
		Workers: o.sc.Workers, BatchSizeCount: o.sc.Batch, FlushTimeout: time.Duration(o.sc.FlushMs) * time.Millisecond, MetricCtl: params.MetricCtl,
		OutFn: func(_ *pipeline.WorkerData, b *pipeline.Batch) {
			ids := []int{}
			b.ForEach(func(e *pipeline.Event) { ids = append(ids, c01sID(e)) })
			if len(ids) == 0 {
				return
			}
			smu.Lock()
			seq++
			s := seq
			smu.Unlock()
			// the batch's own sequence number is not visible from here: number the sends (gaps: true in the Reset line)
			o.r.log("SendCall", "b", "main", "seq", 1000+s, "ids", ids, "t", 0)
			o.r.log("SendRet", "b", "main", "ids", ids, "ok", true, "t", 0)
		},
	})
	ctx, cancel := context.WithCancel(context.Background())
	o.cancel = cancel
	o.batcher.Start(ctx)
}
func (o *c01sOutput) Stop()                 { o.cancel(); o.batcher.Stop() }
func (o *c01sOutput) Out(e *pipeline.Event) { o.batcher.Add(e) }

func c01sRecord(l c01sLine) (string, []int) {
	kids := []int{}
	elems := ""
	if l.Shape == "empty" {
		l.N = 0
	}
	for i := 0; i < l.N; i++ {
		if i > 0 {
			elems += ","
		}
		obj := l.Shape == "objects" || (l.Shape == "mixed" && i%2 == 0)
		switch {
		case obj:
			k := 20 + 4*l.ID + len(kids)
			kids = append(kids, k)
			elems += fmt.Sprintf(`{"id":%d}`, k)
		case l.Shape == "numbers":
			elems += fmt.Sprint(i)
		default:
			elems += fmt.Sprintf(`"s%d"`, i)
		}
	}
	switch l.Shape {
	case "absent":
		return fmt.Sprintf(`{"id":%d}`, l.ID), nil
	case "scalar":
		return fmt.Sprintf(`{"id":%d,"data":"x"}`, l.ID), nil
	}
	return fmt.Sprintf(`{"id":%d,"data":[%s]}`, l.ID, elems), kids
}

func c01sRunScenario(sc *c01sScenario) []map[string]interface{} {
	r := &c01sRun{run: sc.Run}
	r.log("Reset", "cap", 256, "batch", sc.Batch, "dqbatch", 0, "retry", 0, "dq", false, "gaps", true, "retention", 0, "mult10", 10, "name", sc.Name)
	config := test.NewConfig(&Config{Field: "data"}, nil)
	p := test.NewPipeline(test.NewActionPluginStaticInfo(factory, config, pipeline.MatchModeAnd, nil, false), "passive")
	inAny, _ := fake.Factory()
	input := inAny.(*fake.Plugin)
	p.SetInput(&pipeline.InputPluginInfo{
		PluginStaticInfo:  &pipeline.PluginStaticInfo{Type: "fake"},
		PluginRuntimeInfo: &pipeline.PluginRuntimeInfo{Plugin: input},
	})
	p.SetOutput(&pipeline.OutputPluginInfo{
		PluginStaticInfo:  &pipeline.PluginStaticInfo{Type: "verif_c01s"},
		PluginRuntimeInfo: &pipeline.PluginRuntimeInfo{Plugin: &c01sOutput{r: r, sc: sc}},
	})
	committed := map[int]bool{}
	var cmu sync.Mutex
	input.SetCommitFn(func(e *pipeline.Event) {
		id := c01sID(e)
		r.log("Commit", "id", id, "by", "main", "src", 1, "stream", "not_set", "off", e.Offset)
		cmu.Lock()
		committed[id] = true
		cmu.Unlock()
	})
	p.Start()
	for i, l := range sc.Lines {
		rec, kids := c01sRecord(l)
		r.log("InCall", "id", l.ID, "src", 1, "stream", "not_set", "off", l.ID*10, "idx", i+1)
		if len(kids) > 0 {
			r.log("Spawn", "id", l.ID, "kids", kids) // the documented outcome for this shape: delivered through these children
		}
		input.In(1, "c01s.log", test.NewOffset(int64(l.ID*10)), []byte(rec))
		r.log("InRet", "id", l.ID, "ok", true)
	}
	deadline := time.Now().Add(10 * time.Second)
	idle := false
	for time.Now().Before(deadline) {
		cmu.Lock()
		n := len(committed)
		cmu.Unlock()
		if n >= len(sc.Lines) {
			idle = true
			break
		}
		time.Sleep(2 * time.Millisecond)
	}
	p.Stop()
	r.log("End", "idle", idle, "inuse", 0, "waiters", 0)
	return r.evs
}

func TestVerifC01Split(t *testing.T) {
	in := os.Getenv("VERIF_CASES")
	out := os.Getenv("VERIF_OUT")
	if in == "" || out == "" {
		t.Skip("VERIF_CASES / VERIF_OUT not set")
	}
	f, err := os.Open(in)
	if err != nil {
		t.Fatal(err)
	}
	defer f.Close()
	var scs []*c01sScenario
	s := bufio.NewScanner(f)
	s.Buffer(make([]byte, 1<<20), 1<<24)
	for s.Scan() {
		sc := &c01sScenario{}
		if err := json.Unmarshal(s.Bytes(), sc); err != nil {
			t.Fatal(err)
		}
		scs = append(scs, sc)
	}
	results := make([][]map[string]interface{}, len(scs))
	var wg sync.WaitGroup
	sem := make(chan struct{}, 8)
	for i := range scs {
		wg.Add(1)
		sem <- struct{}{}
		go func(i int) {
			defer wg.Done()
			defer func() { <-sem }()
			results[i] = c01sRunScenario(scs[i])
		}(i)
	}
	wg.Wait()
	w, err := os.Create(out)
	if err != nil {
		t.Fatal(err)
	}
	defer w.Close()
	bw := bufio.NewWriter(w)
	for _, evs := range results {
		sort.SliceStable(evs, func(a, b int) bool { return evs[a]["n"].(int) < evs[b]["n"].(int) })
		for _, e := range evs {
			b, _ := json.Marshal(e)
			bw.Write(b)
			bw.WriteByte('\n')
		}
	}
	bw.Flush()
}
