package throttle

// C16 replay harness (mapped into /repo/plugin/action/throttle by `go test -overlay`; /repo is not modified).
//
// Every history exported by TLC from specs/Throttle.tla is replayed, event by event, against
//   (i)  the REAL inMemoryLimiter (one per throttle key, built with newInMemoryLimiter, clock injected
//        through nowFn) and
//   (ii) the REAL Plugin (real Start path, real rules / limitersMap / time_field parsing, clock injected
//        with limitersMap.setNowFn, limiter expiry switched off by a long limiter_expiration).
// After every event the pass/discard decision is compared with what the property statement demands,
// evaluated HERE on the real history (arrived / passed per key, charged bucket and distribution value),
// and cross-checked with the expectation the specification exported.  Where the statement leaves the
// decision open (c16Open) both answers are accepted.  For histories with two keys every key's events
// are additionally re-run alone on a fresh instance: the decisions must be the same (keys never share
// a budget).

import (
	"bufio"
	"encoding/json"
	"fmt"
	"math/rand"
	"os"
	"runtime"
	"strconv"
	"sync"
	"testing"
	"time"

	"github.com/ozontech/file.d/cfg"
	"github.com/ozontech/file.d/metric"
	"github.com/ozontech/file.d/pipeline"
	"github.com/ozontech/file.d/test"
	insaneJSON "github.com/ozontech/insane-json"
	"github.com/prometheus/client_golang/prometheus"
	"go.uber.org/zap"
)

const (
	c16Pass   = 1
	c16Reject = 0
	c16Open   = 2
)

// one exported history; event row = [key, clock, event time, size, distribution value, ok, must, charged bucket]
type c16Case struct {
	S string  `json:"s"`
	C int     `json:"C"`
	K int     `json:"k"` // 0 count, 1 size
	D int     `json:"d"` // 0 no distribution, 1 ratios 0.5 / 0.25 + default share
	L []int64 `json:"l"` // limit per key
	E [][]int `json:"e"`
}

type c16Rec struct {
	Kind    string   `json:"kind"` // early_reject | over_limit | keys_dependent | panic
	Path    string   `json:"path"` // limiter | plugin
	Slice   string   `json:"slice"`
	LKind   string   `json:"limit_kind"`
	Dist    bool     `json:"distribution"`
	Buckets int      `json:"buckets_count"`
	Step    int      `json:"step"` // 0-based index of the failing event
	Must    int      `json:"must"`
	Got     []int    `json:"got"` // decisions of the real code up to the failing step
	Detail  string   `json:"detail"`
	Variant string   `json:"variant"`
	Case    *c16Case `json:"case"`
}

type c16Stats struct {
	Steps, Passes, Rejects, Remapped, Rotations, Steals, Open, NonTrivial, Projections int
	Drift, OracleMismatch                                                              int
	OracleDetail                                                                       string
}

func (s *c16Stats) add(o *c16Stats) {
	s.Steps += o.Steps
	s.Passes += o.Passes
	s.Rejects += o.Rejects
	s.Remapped += o.Remapped
	s.Rotations += o.Rotations
	s.Steals += o.Steals
	s.Open += o.Open
	s.NonTrivial += o.NonTrivial
	s.Projections += o.Projections
	s.Drift += o.Drift
	s.OracleMismatch += o.OracleMismatch
	if s.OracleDetail == "" {
		s.OracleDetail = o.OracleDetail
	}
}

// ---------------------------------------------------------------------------------------------
// the statement, evaluated on a real history

var c16Pct = []int64{25, 50, 25} // share 0 = default (1 - 0.5 - 0.25), 1 = 0.5, 2 = 0.25

func c16ShareLimit(l int64, dist, sh int) int64 {
	if dist == 0 {
		return l
	}
	return (2*c16Pct[sh]*l + 100) / 200 // round half up
}

func c16SumLimit(l int64, dist int) int64 {
	if dist == 0 {
		return l
	}
	return c16ShareLimit(l, dist, 0) + c16ShareLimit(l, dist, 1) + c16ShareLimit(l, dist, 2)
}

type c16Oracle struct {
	c        *c16Case
	hi       map[int]int
	arr, pas map[[3]int]int64 // (key, charged bucket, distribution value) -> weight
}

func c16NewOracle(c *c16Case) *c16Oracle {
	return &c16Oracle{c: c, hi: map[int]int{}, arr: map[[3]int]int64{}, pas: map[[3]int]int64{}}
}

// bucket the event is charged to: its own inside the retained window (the buckets_count newest
// intervals up to the newest clock reading seen for the key), else the newest. Returns (bucket, remapped, rotated).
func (o *c16Oracle) charge(k, now, ts int) (int, bool, bool) {
	hi, seen := o.hi[k]
	rot := seen && now > hi
	if !seen || now > hi {
		hi = now
		o.hi[k] = hi
	}
	if ts >= hi-o.c.C+1 && ts <= hi {
		return ts, false, rot
	}
	return hi, true, rot
}

func (o *c16Oracle) must(k, b int, w int64, v int) (int, string) {
	l, d := o.c.L[k-1], o.c.D
	a := func(x int) int64 { return o.arr[[3]int{k, b, x}] }
	p := func(x int) int64 { return o.pas[[3]int{k, b, x}] }
	if d == 0 {
		if a(0)+w <= l {
			return c16Pass, "arrived+size within the limit"
		}
		if p(0)+w > l {
			return c16Reject, "passed+size over the limit"
		}
		return c16Open, ""
	}
	total := p(0) + p(1) + p(2)
	if v > 0 {
		if a(v)+p(0)+w <= c16ShareLimit(l, d, v) {
			return c16Pass, "listed value's share has room"
		}
		if p(v)+w > c16ShareLimit(l, d, v) {
			return c16Reject, "listed value's passed+size over its share"
		}
	} else {
		if a(0)+w <= c16ShareLimit(l, d, 0) {
			return c16Pass, "default share has room"
		}
		for j := 1; j <= 2; j++ {
			if a(j)+p(0)+w <= c16ShareLimit(l, d, j) {
				return c16Pass, "a listed share has room for an unlisted value"
			}
		}
	}
	if total+w > c16SumLimit(l, d) {
		return c16Reject, "total passed+size over the sum of the shares"
	}
	return c16Open, ""
}

func (o *c16Oracle) isSteal(k, b int, w int64, v int) bool {
	return o.c.D != 0 && v == 0 && o.arr[[3]int{k, b, 0}]+w > c16ShareLimit(o.c.L[k-1], o.c.D, 0)
}

func (o *c16Oracle) record(k, b int, w int64, v int, ok bool) {
	o.arr[[3]int{k, b, v}] += w
	if ok {
		o.pas[[3]int{k, b, v}] += w
	}
}

// ---------------------------------------------------------------------------------------------
// real time and event rendering of a case (seeded)

type c16Render struct {
	interval    time.Duration
	intervalStr string
	phaseNow    []time.Duration
	phaseTs     []time.Duration
	level       []string // "\x00" = field absent
	useRules    bool
	samePod     bool
	expiration  string // limiter_expiration; "" = switched off (100000h)
}

var c16Base = time.Date(2024, 1, 1, 0, 0, 0, 0, time.UTC)

func c16MakeRender(c *c16Case, rng *rand.Rand) *c16Render {
	ivs := []time.Duration{100 * time.Millisecond, time.Second, time.Minute}
	names := []string{"100ms", "1s", "1m"}
	i := rng.Intn(len(ivs))
	r := &c16Render{interval: ivs[i], intervalStr: names[i]}
	phases := []time.Duration{0, 1, r.interval / 2, r.interval - 1}
	for _, e := range c.E {
		r.phaseNow = append(r.phaseNow, phases[rng.Intn(len(phases))])
		r.phaseTs = append(r.phaseTs, phases[rng.Intn(len(phases))])
		var lv string
		switch {
		case c.D != 0 && e[4] == 1:
			lv = []string{"error", "fatal"}[rng.Intn(2)]
		case c.D != 0 && e[4] == 2:
			lv = "warn"
		default:
			lv = []string{"debug", "", "\x00", "info"}[rng.Intn(4)]
		}
		r.level = append(r.level, lv)
	}
	r.useRules = rng.Intn(2) == 0
	if len(c.L) == 2 && c.L[0] != c.L[1] {
		r.useRules = true
	}
	r.samePod = rng.Intn(2) == 0
	return r
}

func (r *c16Render) expirationOrOff() string {
	if r.expiration == "" {
		return "100000h"
	}
	return r.expiration
}

func (r *c16Render) variant() string {
	return fmt.Sprintf("interval=%s rules=%v same_pod=%v", r.intervalStr, r.useRules, r.samePod)
}

func (r *c16Render) at(i, bucket int, phase time.Duration) time.Time {
	return c16Base.Add(time.Duration(bucket)*r.interval + phase)
}

func (r *c16Render) podGrp(k int) (string, string) {
	if !r.useRules {
		return "k" + strconv.Itoa(k), "g0"
	}
	pod := "k" + strconv.Itoa(k)
	if r.samePod {
		pod = "p"
	}
	return pod, "g" + strconv.Itoa(k)
}

func (r *c16Render) event(i, k int, ts time.Time, w int) *pipeline.Event {
	pod, grp := r.podGrp(k)
	js := `{"time":"` + ts.UTC().Format(time.RFC3339Nano) + `","k8s_pod":"` + pod + `","grp":"` + grp + `","extra":"y"`
	if r.level[i] != "\x00" {
		js += `,"level":"` + r.level[i] + `"`
	}
	js += "}"
	root, err := insaneJSON.DecodeString(js)
	if err != nil {
		panic(err)
	}
	return &pipeline.Event{Root: root, Size: w}
}

func c16KindStr(k int) string {
	if k == 1 {
		return limitKindSize
	}
	return limitKindCount
}

func c16DistCfg(d int) LimitDistributionConfig {
	if d == 0 {
		return LimitDistributionConfig{}
	}
	return LimitDistributionConfig{
		Field: "level",
		Ratios: []ComplexRatio{
			{Ratio: 0.5, Values: []string{"error", "fatal"}},
			{Ratio: 0.25, Values: []string{"warn"}},
		},
	}
}

// ---------------------------------------------------------------------------------------------
// targets

type c16Env struct {
	name  string
	ctl   *metric.Ctl
	distM *limitDistributionMetrics
	lg    *zap.SugaredLogger
}

type c16Target interface {
	decide(k int, ev *pipeline.Event, now, ts time.Time) bool
	close()
}

// (i) the real inMemoryLimiter, one per key
type c16LimTarget struct {
	lims map[int]*inMemoryLimiter
	cur  time.Time
}

func c16NewLimTarget(env *c16Env, c *c16Case, r *c16Render) *c16LimTarget {
	t := &c16LimTarget{lims: map[int]*inMemoryLimiter{}}
	for k := 1; k <= len(c.L); k++ {
		ld, err := parseLimitDistribution(c16DistCfg(c.D).toInternal(), c.L[k-1])
		if err != nil {
			panic(err)
		}
		t.lims[k] = newInMemoryLimiter(
			&limiterConfig{bucketsCount: c.C, bucketInterval: r.interval},
			&complexLimit{value: c.L[k-1], kind: c16KindStr(c.K), distributions: ld},
			env.distM,
			func() time.Time { return t.cur },
		)
	}
	return t
}

func (t *c16LimTarget) decide(k int, ev *pipeline.Event, now, ts time.Time) bool {
	t.cur = now
	return t.lims[k].isAllowed(ev, ts)
}

func (t *c16LimTarget) close() {}

// (ii) the real Plugin through Start
type c16PlugTarget struct {
	p   *Plugin
	env *c16Env
	cur time.Time
}

func c16NewPlugTarget(env *c16Env, c *c16Case, r *c16Render) *c16PlugTarget {
	return c16StartPlugin(env, c, r, true)
}

// fresh=false: a further processor's instance of the same pipeline; it shares the pipeline's limiters map
func c16StartPlugin(env *c16Env, c *c16Case, r *c16Render, fresh bool) *c16PlugTarget {
	kind := c16KindStr(c.K)
	conf := &Config{
		ThrottleField:     "k8s_pod",
		TimeField:         "time",
		LimitKind:         kind,
		BucketsCount:      c.C,
		BucketInterval:    cfg.Duration(r.intervalStr),
		LimiterExpiration: cfg.Duration(r.expirationOrOff()),
		LimitDistribution: c16DistCfg(c.D),
	}
	if !r.useRules {
		conf.DefaultLimit = c.L[0]
	} else {
		conf.Rules = []RuleConfig{
			// decoy: both conditions must hold (events carry extra=y), so it never matches
			{Limit: c.L[0] + 3, LimitKind: kind, Conditions: map[string]string{"grp": "g1", "extra": "x"}, LimitDistribution: c16DistCfg(c.D)},
			{Limit: c.L[0], LimitKind: kind, Conditions: map[string]string{"grp": "g1"}, LimitDistribution: c16DistCfg(c.D)},
		}
		if len(c.L) == 2 {
			conf.DefaultLimit = c.L[1]
		} else {
			conf.DefaultLimit = c.L[0] + 5
		}
	}
	test.NewConfig(conf, nil)
	// plugins of one pipeline share their limiters map; make sure this instance starts from an empty one
	if fresh {
		limitersMu.Lock()
		delete(limiters, env.name)
		limitersMu.Unlock()
	}
	p := &Plugin{}
	p.Start(conf, &pipeline.ActionPluginParams{
		PluginDefaultParams: pipeline.PluginDefaultParams{
			PipelineName:     env.name,
			PipelineSettings: &pipeline.Settings{},
			MetricCtl:        env.ctl,
		},
		Logger: env.lg,
	})
	t := &c16PlugTarget{p: p, env: env}
	p.limitersMap.setNowFn(func() time.Time { return t.cur }, true)
	return t
}

func (t *c16PlugTarget) decide(k int, ev *pipeline.Event, now, ts time.Time) bool {
	t.cur = now
	return t.p.Do(ev) == pipeline.ActionPass
}

func (t *c16PlugTarget) close() {
	t.p.Stop()
	limitersMu.Lock()
	delete(limiters, t.env.name)
	limitersMu.Unlock()
}

// ---------------------------------------------------------------------------------------------
// replay of one case on one path

func c16NewTarget(path string, env *c16Env, c *c16Case, r *c16Render) c16Target {
	if path == "limiter" {
		return c16NewLimTarget(env, c, r)
	}
	return c16NewPlugTarget(env, c, r)
}

func c16Replay(path string, env *c16Env, c *c16Case, r *c16Render, st *c16Stats) (rec *c16Rec) {
	mk := func(kind string, step, must int, got []int, detail string) *c16Rec {
		return &c16Rec{Kind: kind, Path: path, Slice: c.S, LKind: c16KindStr(c.K), Dist: c.D != 0, Buckets: c.C,
			Step: step, Must: must, Got: append([]int(nil), got...), Detail: detail, Variant: r.variant(), Case: c}
	}
	got := make([]int, 0, len(c.E))
	step := 0
	defer func() {
		if x := recover(); x != nil {
			rec = mk("panic", step, -1, got, fmt.Sprint(x))
		}
	}()

	tgt := c16NewTarget(path, env, c, r)
	closed := false
	defer func() {
		if !closed {
			tgt.close()
		}
	}()
	or := c16NewOracle(c)
	same := true // the real decisions so far equal the specification's
	sawReject, sawTime := false, false
	for step = 0; step < len(c.E); step++ {
		e := c.E[step]
		k, nowI, tsI, w, v := e[0], e[1], e[2], int64(e[3]), e[4]
		b, remapped, rotated := or.charge(k, nowI, tsI)
		must, why := or.must(k, b, w, v)
		if same && (b != e[7] || must != e[6]) {
			st.OracleMismatch++
			if st.OracleDetail == "" {
				cj, _ := json.Marshal(c)
				st.OracleDetail = fmt.Sprintf("step %d: harness (bucket %d, must %d) vs specification (bucket %d, must %d) on %s", step, b, must, e[7], e[6], cj)
			}
		}
		steal := or.isSteal(k, b, w, v)
		ev := r.event(step, k, r.at(step, tsI, r.phaseTs[step]), int(w))
		ok := tgt.decide(k, ev, r.at(step, nowI, r.phaseNow[step]), r.at(step, tsI, r.phaseTs[step]))
		insaneJSON.Release(ev.Root)

		st.Steps++
		g := 0
		if ok {
			g = 1
			st.Passes++
			if steal {
				st.Steals++
			}
		} else {
			st.Rejects++
			sawReject = true
		}
		got = append(got, g)
		if remapped {
			st.Remapped++
			sawTime = true
		}
		if rotated {
			st.Rotations++
			sawTime = true
		}
		switch {
		case must == c16Pass && !ok:
			return mk("early_reject", step, must, got, why)
		case must == c16Reject && ok:
			return mk("over_limit", step, must, got, why)
		case must == c16Open:
			st.Open++
			if same && g != e[5] {
				st.Drift++ // allowed by the statement, not explained by the specification
				same = false
			}
		}
		or.record(k, b, w, v, ok)
	}
	if sawReject && sawTime {
		st.NonTrivial++
	}

	// keys never share a budget: every key's events alone, on a fresh instance, get the same decisions
	// (the first instance is closed before: plugins of one pipeline share their limiters map by design)
	tgt.close()
	closed = true
	if len(c.L) > 1 {
		for k := 1; k <= len(c.L); k++ {
			alone := c16NewTarget(path, env, c, r)
			for step = 0; step < len(c.E); step++ {
				e := c.E[step]
				if e[0] != k {
					continue
				}
				ev := r.event(step, k, r.at(step, e[2], r.phaseTs[step]), e[3])
				ok := alone.decide(k, ev, r.at(step, e[1], r.phaseNow[step]), r.at(step, e[2], r.phaseTs[step]))
				insaneJSON.Release(ev.Root)
				if (got[step] == 1) != ok {
					alone.close()
					return mk("keys_dependent", step, -1, got, fmt.Sprintf("key %d alone: pass=%v, interleaved with the other key: pass=%v", k, ok, got[step] == 1))
				}
			}
			alone.close()
			st.Projections++
		}
	}
	return nil
}

func TestVerifC16(t *testing.T) {
	in := os.Getenv("VERIF_CASES")
	out := os.Getenv("VERIF_OUT")
	if in == "" || out == "" {
		t.Skip("VERIF_CASES / VERIF_OUT not set")
	}
	seed, _ := strconv.ParseInt(os.Getenv("VERIF_SEED"), 10, 64)
	f, err := os.Open(in)
	if err != nil {
		t.Fatal(err)
	}
	defer f.Close()
	var cases []*c16Case
	sc := bufio.NewScanner(f)
	sc.Buffer(make([]byte, 1<<20), 1<<24)
	for sc.Scan() {
		c := &c16Case{}
		if err := json.Unmarshal(sc.Bytes(), c); err != nil {
			t.Fatalf("bad case line: %v", err)
		}
		if c.C < 1 || len(c.L) < 1 || len(c.E) == 0 {
			t.Fatalf("malformed case: %s", sc.Text())
		}
		cases = append(cases, c)
	}

	nw := runtime.GOMAXPROCS(0)
	var wg sync.WaitGroup
	var mu sync.Mutex
	var recs []*c16Rec
	total := &c16Stats{}
	byKind := map[string]int{}
	executed := 0
	for wi := 0; wi < nw; wi++ {
		wg.Add(1)
		go func(wi int) {
			defer wg.Done()
			env := &c16Env{
				name: fmt.Sprintf("verif_c16_%d", wi),
				ctl:  metric.NewCtl(fmt.Sprintf("verif_c16_%d", wi), prometheus.NewRegistry(), 0, 0),
				lg:   zap.NewNop().Sugar(),
			}
			mp := &Plugin{}
			mp.registerMetrics(env.ctl, nil)
			env.distM = mp.limitDistrMetrics
			st := &c16Stats{}
			var mine []*c16Rec
			n := 0
			for i := wi; i < len(cases); i += nw {
				c := cases[i]
				rng := rand.New(rand.NewSource(seed*1000003 + int64(i)))
				r := c16MakeRender(c, rng)
				for _, path := range []string{"limiter", "plugin"} {
					if rec := c16Replay(path, env, c, r, st); rec != nil {
						mine = append(mine, rec)
					}
				}
				n++
			}
			mu.Lock()
			executed += n
			total.add(st)
			for _, r := range mine {
				byKind[r.Kind+"/"+r.Path]++
				if len(recs) < 60 {
					recs = append(recs, r)
				}
			}
			mu.Unlock()
		}(wi)
	}
	wg.Wait()
	res := map[string]interface{}{"executed": executed, "stats": total, "mismatches": recs, "by_kind": byKind}
	b, _ := json.Marshal(res)
	if err := os.WriteFile(out, b, 0o644); err != nil {
		t.Fatal(err)
	}
}

// ---------------------------------------------------------------------------------------------
// expiry family: the REAL limiters map maintenance (wall clock, every maintenanceInterval) with a short
// limiter_expiration.  Two keys (one through a rule, one through the default rule) are hit continuously
// for longer than limiter_expiration + one maintenance interval with the bucket clock frozen, so every
// event is timed in one bucket: a key that keeps arriving must stay within its limit in that bucket.
// A third key is left idle in between: it must be forgotten (shows that expiry really is on; allowed).
//
// No timing assumption decides the verdict: the harness reads the map generation (curGen) before every
// hit.  The unchanged code forgets a limiter only if the generation it was stamped with at its last use
// is limiter_expiration behind, i.e. only if two successively observed generations are that far apart
// (maintenance stalled / the hitter starved: the key WAS idle from the code's point of view).  Such a
// run is reported as inconclusive and repeated by the driver, never as a violation.

type c16ExpiryOut struct {
	ExpirationMs int64     `json:"expiration_ms"`
	DurationMs   int64     `json:"duration_ms"`
	Hits         int       `json:"hits"`
	Generations  int       `json:"generations"`
	MaxGenGapMs  int64     `json:"max_gen_gap_ms"`
	SpanMs       int64     `json:"span_ms"`
	Replaced     int       `json:"limiters_replaced"`
	IdleEvicted  bool      `json:"idle_evicted"`
	Passed       []int64   `json:"passed"`
	Limits       []int64   `json:"limits"`
	Conclusive   bool      `json:"conclusive"`
	Why          string    `json:"why"`
	Violations   []*c16Rec `json:"violations"`
	StallMs      int64     `json:"sampler_max_stall_ms"`
	IdleFirst    *c16IdleFirstOut `json:"idle_first"`
}

// second scenario of the expiry family: the map stays EMPTY for longer than limiter_expiration (no traffic
// since Start), then two keys start arriving continuously.  The map generation has to follow the wall clock
// while the map is empty; otherwise the first limiters are stamped with a stale generation and forgotten at the
// next maintenance round although they are in use.
type c16IdleFirstOut struct {
	ExpirationMs   int64     `json:"expiration_ms"`
	IdleMs         int64     `json:"idle_ms"`
	BusyMs         int64     `json:"busy_ms"`
	Hits           int       `json:"hits"`
	MaxGenGapMs    int64     `json:"max_gen_gap_ms"`
	GensWhileBusy  int       `json:"generation_changes_while_busy"`
	BusyAfterGenMs int64     `json:"busy_after_last_generation_change_ms"`
	StallMs        int64     `json:"sampler_max_stall_ms"`
	Passed         []int64   `json:"passed"`
	Violations     []*c16Rec `json:"violations"`
}

func c16ExpiryIdleFirst() *c16IdleFirstOut {
	const expiration = 4 * time.Second
	idleFor := expiration + maintenanceInterval + 200*time.Millisecond
	busyFor := 2*maintenanceInterval + 400*time.Millisecond
	c := &c16Case{S: "expiry", C: 2, K: 0, D: 0, L: []int64{2, 3}}
	r := &c16Render{interval: time.Minute, intervalStr: "1m", level: []string{"info"}, useRules: true,
		expiration: "4s", phaseNow: []time.Duration{30 * time.Second}, phaseTs: []time.Duration{30 * time.Second}}
	env := &c16Env{
		name: fmt.Sprintf("verif_c16_idlefirst_%d", time.Now().UnixNano()),
		ctl:  metric.NewCtl("verif_c16_idlefirst", prometheus.NewRegistry(), 0, 0),
		lg:   zap.NewNop().Sugar(),
	}
	tgt := c16NewPlugTarget(env, c, r)
	defer tgt.close()
	lm := tgt.p.limitersMap
	t0 := r.at(0, 0, r.phaseNow[0])
	res := &c16IdleFirstOut{ExpirationMs: expiration.Milliseconds(), Passed: make([]int64, 2)}
	or := c16NewOracle(c)
	got := map[int][]int{}
	failed := map[int]bool{}

	lm.mu.RLock()
	lastGen := lm.curGen
	lm.mu.RUnlock()
	start := time.Now()
	lastLoop := start
	var busyStart, lastChange time.Time
	for {
		nowT := time.Now()
		if st := nowT.Sub(lastLoop).Milliseconds(); st > res.StallMs {
			res.StallMs = st
		}
		lastLoop = nowT
		busy := nowT.Sub(start) >= idleFor
		if busy && busyStart.IsZero() {
			busyStart = nowT
		}
		if busy && nowT.Sub(busyStart) >= busyFor {
			break
		}
		lm.mu.RLock()
		g := lm.curGen
		lm.mu.RUnlock()
		if g != lastGen {
			if gap := (g - lastGen) / 1000; gap > res.MaxGenGapMs {
				res.MaxGenGapMs = gap
			}
			lastGen = g
			if busy && res.Hits > 0 {
				res.GensWhileBusy++
				lastChange = nowT
			}
		}
		if busy {
			for k := 1; k <= 2; k++ {
				b, _, _ := or.charge(k, 0, 0)
				must, why := or.must(k, b, 1, 0)
				ev := r.event(0, k, t0, 1)
				ok := tgt.decide(k, ev, t0, t0)
				insaneJSON.Release(ev.Root)
				res.Hits++
				g01 := 0
				if ok {
					g01 = 1
					res.Passed[k-1]++
				}
				if len(got[k]) < 40 {
					got[k] = append(got[k], g01)
				}
				if !failed[k] && ((must == c16Reject && ok) || (must == c16Pass && !ok)) {
					failed[k] = true
					kind := "over_limit"
					if !ok {
						kind = "early_reject"
					}
					res.Violations = append(res.Violations, &c16Rec{Kind: kind, Path: "plugin_expiry_idle_first", Slice: "expiry", LKind: limitKindCount,
						Buckets: c.C, Step: res.Hits - 1, Must: must, Got: got[k],
						Detail: fmt.Sprintf("limiters map empty for %d ms (limiter_expiration=%s), then key %d hit every ~5ms, all events timed in one bucket: %s; %d ms after its first event",
							idleFor.Milliseconds(), expiration, k, why, nowT.Sub(busyStart).Milliseconds()),
						Variant: r.variant(), Case: c})
				}
				or.record(k, b, 1, 0, ok)
			}
		}
		time.Sleep(5 * time.Millisecond)
	}
	res.IdleMs = idleFor.Milliseconds()
	res.BusyMs = time.Since(busyStart).Milliseconds()
	if !lastChange.IsZero() {
		res.BusyAfterGenMs = time.Since(lastChange).Milliseconds()
	}
	return res
}

func TestVerifC16Expiry(t *testing.T) {
	out := os.Getenv("VERIF_EXPIRY_OUT")
	if out == "" {
		t.Skip("VERIF_EXPIRY_OUT not set")
	}
	const expiration = 2500 * time.Millisecond
	runFor := expiration + 2*maintenanceInterval + 300*time.Millisecond

	c := &c16Case{S: "expiry", C: 2, K: 0, D: 0, L: []int64{2, 3}}
	r := &c16Render{interval: time.Minute, intervalStr: "1m", level: []string{"info"}, useRules: true,
		expiration: "2500ms", phaseNow: []time.Duration{30 * time.Second}, phaseTs: []time.Duration{30 * time.Second}}
	env := &c16Env{
		name: fmt.Sprintf("verif_c16_expiry_%d", time.Now().UnixNano()),
		ctl:  metric.NewCtl("verif_c16_expiry", prometheus.NewRegistry(), 0, 0),
		lg:   zap.NewNop().Sugar(),
	}
	tgt := c16NewPlugTarget(env, c, r)
	defer tgt.close()
	lm := tgt.p.limitersMap
	t0 := r.at(0, 0, r.phaseNow[0])

	res := &c16ExpiryOut{ExpirationMs: expiration.Milliseconds(), Limits: c.L, Passed: make([]int64, len(c.L))}
	or := c16NewOracle(c)
	got := map[int][]int{}
	failed := map[int]bool{}
	hit := func(k int) bool {
		ev := r.event(0, k, t0, 1)
		ok := tgt.decide(k, ev, t0, t0)
		insaneJSON.Release(ev.Root)
		return ok
	}

	// the idle key (default rule, limit 3): fill its bucket now, look again at the end
	idleFilled := 0
	for i := 0; i < 4; i++ {
		ev := r.event(0, 3, t0, 1) // key 3 -> grp g3 -> default rule, pod k3 (or p): its own limiter
		if tgt.decide(3, ev, t0, t0) {
			idleFilled++
		}
		insaneJSON.Release(ev.Root)
	}

	idleFirstCh := make(chan *c16IdleFirstOut, 1)
	go func() { idleFirstCh <- c16ExpiryIdleFirst() }()
	var idleFirst *c16IdleFirstOut

	var lastGen, firstGen int64
	prev := map[string]*limiterWithGen{}
	start := time.Now()
	lastLoop := start
	// the busy keys of this map are hit until the idle-first scenario is over too: this map is never empty, so
	// its generations tell whether maintenance goroutines were scheduled in time during that scenario
	for time.Since(start) < runFor || idleFirst == nil {
		if idleFirst == nil {
			select {
			case idleFirst = <-idleFirstCh:
			default:
			}
		}
		if st := time.Since(lastLoop).Milliseconds(); st > res.StallMs {
			res.StallMs = st
		}
		lastLoop = time.Now()
		lm.mu.RLock()
		g := lm.curGen
		for name, l := range lm.lims {
			if p, has := prev[name]; has && p != l {
				res.Replaced++
			}
			prev[name] = l
		}
		lm.mu.RUnlock()
		if res.Generations == 0 {
			firstGen, lastGen, res.Generations = g, g, 1
		} else if g != lastGen {
			if gap := (g - lastGen) / 1000; gap > res.MaxGenGapMs {
				res.MaxGenGapMs = gap
			}
			lastGen = g
			res.Generations++
		}
		for k := 1; k <= 2; k++ {
			b, _, _ := or.charge(k, 0, 0)
			must, why := or.must(k, b, 1, 0)
			ok := hit(k)
			res.Hits++
			g01 := 0
			if ok {
				g01 = 1
				res.Passed[k-1]++
			}
			if len(got[k]) < 40 {
				got[k] = append(got[k], g01)
			}
			if !failed[k] && ((must == c16Reject && ok) || (must == c16Pass && !ok)) {
				failed[k] = true
				kind := "over_limit"
				if !ok {
					kind = "early_reject"
				}
				res.Violations = append(res.Violations, &c16Rec{Kind: kind, Path: "plugin_expiry", Slice: "expiry", LKind: limitKindCount,
					Buckets: c.C, Step: res.Hits - 1, Must: must, Got: got[k],
					Detail: fmt.Sprintf("key %d hit every ~5ms with limiter_expiration=%s, all events timed in one bucket: %s; %d ms after start, map generation gaps <= %d ms",
						k, expiration, why, time.Since(start).Milliseconds(), res.MaxGenGapMs),
					Variant: r.variant(), Case: c})
			}
			or.record(k, b, 1, 0, ok)
		}
		time.Sleep(5 * time.Millisecond)
	}
	res.DurationMs = time.Since(start).Milliseconds()
	res.SpanMs = (lastGen - firstGen) / 1000
	ev := r.event(0, 3, t0, 1)
	res.IdleEvicted = idleFilled == 3 && tgt.decide(3, ev, t0, t0)
	insaneJSON.Release(ev.Root)

	res.IdleFirst = idleFirst
	stall := res.StallMs
	if idleFirst.StallMs > stall {
		stall = idleFirst.StallMs
	}
	// idle-first verdicts count only if its own generations advanced in time (exact guard, as above), or -- when they
	// did not -- if that cannot be blamed on scheduling: the never-empty map's maintenance ran on time (gaps < 2 s
	// against a 4 s expiration) and neither sampler was starved
	idleFirstSound := idleFirst.MaxGenGapMs < idleFirst.ExpirationMs || (res.MaxGenGapMs < 2000 && stall < 500)
	switch {
	case !idleFirstSound:
		res.Why = "idle-first scenario: map generation stalled and scheduling delays cannot be excluded"
	case idleFirst.GensWhileBusy < 1 || idleFirst.BusyAfterGenMs < 200:
		res.Why = "idle-first scenario: no maintenance round observed while the keys were busy"
	case res.MaxGenGapMs >= expiration.Milliseconds():
		res.Why = "maintenance stalled for a whole limiter_expiration: the keys were idle from the code's point of view"
	case res.SpanMs < (expiration + maintenanceInterval/2).Milliseconds():
		res.Why = "the observed map generations do not span limiter_expiration plus a maintenance interval"
	case !res.IdleEvicted && len(res.Violations) == 0:
		res.Why = "the idle key was not forgotten: expiry was not exercised"
	default:
		res.Conclusive = true
		res.Violations = append(res.Violations, idleFirst.Violations...)
	}
	b, _ := json.Marshal(res)
	if err := os.WriteFile(out, b, 0o644); err != nil {
		t.Fatal(err)
	}
}

// ---------------------------------------------------------------------------------------------
// concurrency family: the processors of one pipeline each own a Plugin instance and share the pipeline's
// limiters map (Start: limiters[p.pipeline]).  c16ConcProcs real instances of one pipeline meet at
// BRAND-NEW keys at the same instant, bucket clock frozen, so all events of a key are timed in one bucket:
// whatever the interleaving inside limitersMap.getOrAdd, a key has ONE budget -- per key exactly
// min(limit, arrivals) events pass (count kind; order-independent, evaluated on the merged real history).
//   forced keys : the harness holds the map's write lock while every instance queues on the read lock of
//                 getOrAdd's fast path, then releases them together: all miss, all go on to the write-locked
//                 re-check (the interleaving is constructed; the goroutines reaching the lock in time is not
//                 guaranteed, only very likely, and is not needed for soundness)
//   natural keys: the instances then run through further fresh keys in the same order with no help
//                 (probabilistic).
// Correct code has one limiter per key, so this family cannot fail on it.

const c16ConcProcs = 8

type c16ConcOut struct {
	Procs       int       `json:"processors"`
	Rounds      int       `json:"rounds"`
	Keys        int       `json:"keys"`
	ForcedKeys  int       `json:"forced_keys"`
	Hits        int       `json:"hits"`
	QueuedMin   int       `json:"queued_at_release_min"`
	OverLimit   int       `json:"keys_over_limit"`
	EarlyReject int       `json:"keys_early_reject"`
	Violations  []*c16Rec `json:"violations"`
}

func TestVerifC16Concurrent(t *testing.T) {
	out := os.Getenv("VERIF_CONC_OUT")
	if out == "" {
		t.Skip("VERIF_CONC_OUT not set")
	}
	seed, _ := strconv.ParseInt(os.Getenv("VERIF_SEED"), 10, 64)
	rng := rand.New(rand.NewSource(seed))
	const rounds, keysPerRound, seqExtra = 30, 4, 2

	c := &c16Case{S: "concurrent", C: 2, K: 0, D: 0, L: []int64{1, 3}} // rule (grp g1): limit 1, default rule: limit 3
	r := &c16Render{interval: time.Hour, intervalStr: "1h", level: []string{"info"}, useRules: true,
		phaseNow: []time.Duration{30 * time.Minute}, phaseTs: []time.Duration{30 * time.Minute}}
	env := &c16Env{
		name: fmt.Sprintf("verif_c16_conc_%d", time.Now().UnixNano()),
		ctl:  metric.NewCtl("verif_c16_conc", prometheus.NewRegistry(), 0, 0),
		lg:   zap.NewNop().Sugar(),
	}
	t0 := r.at(0, 0, r.phaseNow[0])
	tsStr := t0.UTC().Format(time.RFC3339Nano)
	tgts := make([]*c16PlugTarget, c16ConcProcs)
	for i := range tgts {
		tgts[i] = c16StartPlugin(env, c, r, i == 0)
	}
	defer func() {
		for _, x := range tgts[1:] {
			x.p.Stop()
		}
		tgts[0].close()
	}()
	lm := tgts[0].p.limitersMap
	for _, x := range tgts {
		if x.p.limitersMap != lm {
			t.Fatal("instances of one pipeline do not share the limiters map: the family's premise is gone")
		}
	}
	lm.setNowFn(func() time.Time { return t0 }, true)

	res := &c16ConcOut{Procs: c16ConcProcs, Rounds: rounds, QueuedMin: c16ConcProcs}
	do := func(p *Plugin, pod string, class int) bool {
		js := `{"time":"` + tsStr + `","k8s_pod":"` + pod + `","grp":"g` + strconv.Itoa(class) + `","extra":"y","level":"info"}`
		root, err := insaneJSON.DecodeString(js)
		if err != nil {
			panic(err)
		}
		ok := p.Do(&pipeline.Event{Root: root, Size: 1}) == pipeline.ActionPass
		insaneJSON.Release(root)
		return ok
	}

	for round := 0; round < rounds; round++ {
		pods := make([]string, keysPerRound)
		class := make([]int, keysPerRound)
		for j := range pods {
			pods[j] = fmt.Sprintf("r%d_k%d", round, j)
			class[j] = 1 + rng.Intn(2)
		}
		passed := make([][]int32, c16ConcProcs) // per processor, per key
		var entering int32
		var mu sync.Mutex
		var wg sync.WaitGroup

		lm.mu.Lock() // line the processors up in front of the map
		for i := 0; i < c16ConcProcs; i++ {
			passed[i] = make([]int32, keysPerRound)
			wg.Add(1)
			go func(i int) {
				defer wg.Done()
				mu.Lock()
				entering++
				mu.Unlock()
				for j := 0; j < keysPerRound; j++ { // key 0 is the forced one, the others are natural races
					if do(tgts[i].p, pods[j], class[j]) {
						passed[i][j]++
					}
				}
			}(i)
		}
		deadline := time.Now().Add(200 * time.Millisecond)
		for time.Now().Before(deadline) {
			mu.Lock()
			n := entering
			mu.Unlock()
			if n == c16ConcProcs {
				break
			}
			time.Sleep(200 * time.Microsecond)
		}
		time.Sleep(2 * time.Millisecond) // let them reach the read lock
		mu.Lock()
		if int(entering) < res.QueuedMin {
			res.QueuedMin = int(entering)
		}
		mu.Unlock()
		lm.mu.Unlock()
		wg.Wait()

		// a few more events per key, sequentially, same bucket
		extra := make([]int, keysPerRound)
		for j := 0; j < keysPerRound; j++ {
			for x := 0; x < seqExtra; x++ {
				if do(tgts[rng.Intn(c16ConcProcs)].p, pods[j], class[j]) {
					extra[j]++
				}
			}
		}
		for j := 0; j < keysPerRound; j++ {
			total := extra[j]
			for i := 0; i < c16ConcProcs; i++ {
				total += int(passed[i][j])
			}
			arrivals := c16ConcProcs + seqExtra
			limit := int(c.L[class[j]-1])
			want := limit
			if arrivals < want {
				want = arrivals
			}
			res.Keys++
			res.Hits += arrivals
			if j == 0 {
				res.ForcedKeys++
			}
			kind := ""
			switch {
			case total > limit:
				kind = "over_limit"
				res.OverLimit++
			case total < want:
				kind = "early_reject"
				res.EarlyReject++
			}
			if kind != "" && len(res.Violations) < 10 {
				phase := "natural"
				if j == 0 {
					phase = "forced"
				}
				res.Violations = append(res.Violations, &c16Rec{Kind: kind, Path: "plugin_concurrent", Slice: "concurrent",
					LKind: limitKindCount, Buckets: c.C, Step: round, Must: -1,
					Detail: fmt.Sprintf("brand-new key %q (limit %d, %s first touch) hit by %d plugin instances of one pipeline at once, all events in one bucket: %d of %d events passed, want %d",
						pods[j], limit, phase, c16ConcProcs, total, arrivals, want),
					Variant: r.variant(), Case: c})
			}
		}
	}
	b, _ := json.Marshal(res)
	if err := os.WriteFile(out, b, 0o644); err != nil {
		t.Fatal(err)
	}
}

// ---------------------------------------------------------------------------------------------
// rules family: "the limit selected by the first matching rule".  Every case exported by TLC from SpecRule
// (two rules with 0..3 conditions over three fields, an event with each field absent / value 1 / value 2, and the
// index of the rule that must govern it) is replayed through the real Plugin.Start with the rules in the config.
// Go iterates the conditions map in random order, so every rule list is started c16RuleInstances times (fresh
// instance, conditions inserted in a different order each time).  Rule 1 has limit 1, rule 2 limit 2, the default
// rule limit 3; c16RuleSends identical events of a fresh throttle key in one frozen bucket are sent: the number
// that passes IS the limit that governed them.

const (
	c16RuleInstances = 8
	c16RuleSends     = 4
)

type c16RuleCase struct {
	R    [][]int `json:"r"` // per rule, per field: 0 no condition, 1 / 2 required value
	E    []int   `json:"e"` // per field: 0 absent, 1 / 2 value
	Want int     `json:"want"`
}

type c16RulesOut struct {
	Cases      int       `json:"cases"`
	RuleLists  int       `json:"rule_lists"`
	Instances  int       `json:"instances"`
	Decisions  int       `json:"decisions"`
	MultiCond  int       `json:"cases_governed_by_rule_with_2plus_conditions"`
	Wrong      int       `json:"wrong"`
	Violations []*c16Rec `json:"violations"`
}

var c16RuleFields = []string{"fa", "fb", "fc"} // index order = sorted order

func TestVerifC16Rules(t *testing.T) {
	in, out := os.Getenv("VERIF_RULES_CASES"), os.Getenv("VERIF_RULES_OUT")
	if in == "" || out == "" {
		t.Skip("VERIF_RULES_CASES / VERIF_RULES_OUT not set")
	}
	f, err := os.Open(in)
	if err != nil {
		t.Fatal(err)
	}
	defer f.Close()
	groups := map[string][]*c16RuleCase{}
	var order []string
	res := &c16RulesOut{}
	sc := bufio.NewScanner(f)
	for sc.Scan() {
		c := &c16RuleCase{}
		if err := json.Unmarshal(sc.Bytes(), c); err != nil || len(c.R) != 2 || len(c.E) != 3 || c.Want < 1 || c.Want > 3 {
			t.Fatalf("bad rule case %q: %v", sc.Text(), err)
		}
		k := fmt.Sprint(c.R)
		if _, has := groups[k]; !has {
			order = append(order, k)
		}
		groups[k] = append(groups[k], c)
		res.Cases++
	}
	res.RuleLists = len(order)
	t0 := c16Base.Add(30 * time.Minute)
	tsStr := t0.UTC().Format(time.RFC3339Nano)
	limits := []int64{1, 2, 3}

	nw := runtime.GOMAXPROCS(0)
	var wg sync.WaitGroup
	var mu sync.Mutex
	for wi := 0; wi < nw; wi++ {
		wg.Add(1)
		go func(wi int) {
			defer wg.Done()
			env := &c16Env{
				name: fmt.Sprintf("verif_c16_rules_%d", wi),
				ctl:  metric.NewCtl(fmt.Sprintf("verif_c16_rules_%d", wi), prometheus.NewRegistry(), 0, 0),
				lg:   zap.NewNop().Sugar(),
			}
			var mine []*c16Rec
			instances, decisions, multi, wrong := 0, 0, 0, 0
			for gi := wi; gi < len(order); gi += nw {
				cases := groups[order[gi]]
				for inst := 0; inst < c16RuleInstances; inst++ {
					conf := &Config{ThrottleField: "k8s_pod", TimeField: "time", DefaultLimit: limits[2], BucketsCount: 1,
						BucketInterval: "1h", LimiterExpiration: "100000h"}
					for ri := 0; ri < 2; ri++ {
						m := map[string]string{}
						for x := 0; x < 3; x++ { // written order differs per instance
							fi := (x*(1+inst%2) + inst) % 3
							if v := cases[0].R[ri][fi]; v != 0 {
								m[c16RuleFields[fi]] = "v" + strconv.Itoa(v)
							}
						}
						conf.Rules = append(conf.Rules, RuleConfig{Limit: limits[ri], LimitKind: limitKindCount, Conditions: m})
					}
					test.NewConfig(conf, nil)
					limitersMu.Lock()
					delete(limiters, env.name)
					limitersMu.Unlock()
					p := &Plugin{}
					p.Start(conf, &pipeline.ActionPluginParams{
						PluginDefaultParams: pipeline.PluginDefaultParams{PipelineName: env.name, PipelineSettings: &pipeline.Settings{}, MetricCtl: env.ctl},
						Logger:              env.lg,
					})
					p.limitersMap.setNowFn(func() time.Time { return t0 }, true)
					instances++
					for ci, c := range cases {
						js := `{"time":"` + tsStr + `","k8s_pod":"e` + strconv.Itoa(ci) + `"`
						for fi, v := range c.E {
							if v != 0 {
								js += `,"` + c16RuleFields[fi] + `":"v` + strconv.Itoa(v) + `"`
							}
						}
						js += "}"
						passed := 0
						for n := 0; n < c16RuleSends; n++ {
							root, err := insaneJSON.DecodeString(js)
							if err != nil {
								panic(err)
							}
							if p.Do(&pipeline.Event{Root: root, Size: 1}) == pipeline.ActionPass {
								passed++
							}
							insaneJSON.Release(root)
							decisions++
						}
						nc := 0
						if c.Want <= 2 {
							for _, v := range c.R[c.Want-1] {
								if v != 0 {
									nc++
								}
							}
						}
						if nc >= 2 && inst == 0 {
							multi++
						}
						if want := int(limits[c.Want-1]); passed != want {
							wrong++
							if len(mine) < 5 {
								kind := "over_limit"
								if passed < want {
									kind = "early_reject"
								}
								cj, _ := json.Marshal(c)
								mine = append(mine, &c16Rec{Kind: kind, Path: "plugin_rules", Slice: "rules", LKind: limitKindCount, Buckets: 1,
									Step: inst, Must: -1,
									Detail: fmt.Sprintf("rules/event %s: the first matching rule is #%d (limit %d), but %d of %d identical events of one key in one bucket passed (instance %d of %d of this config)",
										cj, c.Want, want, passed, c16RuleSends, inst+1, c16RuleInstances),
									Case: &c16Case{S: "rules"}})
							}
						}
					}
					p.Stop()
				}
			}
			limitersMu.Lock()
			delete(limiters, env.name)
			limitersMu.Unlock()
			mu.Lock()
			res.Instances += instances
			res.Decisions += decisions
			res.MultiCond += multi
			res.Wrong += wrong
			for _, r := range mine {
				if len(res.Violations) < 12 {
					res.Violations = append(res.Violations, r)
				}
			}
			mu.Unlock()
		}(wi)
	}
	wg.Wait()
	b, _ := json.Marshal(res)
	if err := os.WriteFile(out, b, 0o644); err != nil {
		t.Fatal(err)
	}
}

// ---------------------------------------------------------------------------------------------
// key family: the limiter of an event is determined by (rule, ALL bytes of the throttle key).  Groups of 2-3
// distinct keys of byte lengths around typical buffer sizes that share all but their last byte(s) -- ASCII and
// multi-byte, equal length and one a prefix of the other -- are sent through the real Plugin.Start / Do under each
// of three rules (limits 2, 3 and the default rule's 1), interleaved, in one frozen bucket, limit+2 events per
// key: every key must get exactly its own full budget.

type c16KeysOut struct {
	Groups     int       `json:"groups"`
	Keys       int       `json:"keys"`
	Decisions  int       `json:"decisions"`
	Lengths    []int     `json:"lengths"`
	Wrong      int       `json:"wrong"`
	Violations []*c16Rec `json:"violations"`
}

var c16KeyLens = []int{1, 2, 8, 30, 31, 32, 33, 62, 63, 64, 65, 66, 126, 127, 128, 129, 130, 255, 256, 257, 258, 511, 512, 513, 1024, 1025, 4096, 4097}

// n bytes of filler made of repetitions of unit (cut at a unit boundary, padded with '-')
func c16Fill(unit string, n int) string {
	if n <= 0 {
		return ""
	}
	b := make([]byte, 0, n)
	for len(b)+len(unit) <= n {
		b = append(b, unit...)
	}
	for len(b) < n {
		b = append(b, '-')
	}
	return string(b)
}

// groups of distinct keys whose byte length is n (or n, n+1 for the prefix shape)
func c16KeyGroups(n int) [][]string {
	var gs [][]string
	ascii := c16Fill("pod-0123456789abcdef", n-1)
	gs = append(gs, []string{ascii + "a", ascii + "b", ascii + "c"}) // differ in the last byte
	gs = append(gs, []string{ascii + "a", ascii + "a" + "x"})         // one is a prefix of the other
	if n >= 2 {
		a2 := c16Fill("pod-0123456789abcdef", n-2)
		gs = append(gs, []string{a2 + "ab", a2 + "ba", a2 + "bb"}) // differ in the last two bytes
		gs = append(gs, []string{"a" + ascii[1:] + "z", "b" + ascii[1:] + "z"}) // differ in the FIRST byte only
	}
	if n >= 3 {
		m2 := c16Fill("\u00e9\u044f", n-2)                                 // 2-byte runes
		gs = append(gs, []string{m2 + "\u00e9", m2 + "\u00e8", m2 + "\u00ea"}) // last rune differs in its last byte only
		gs = append(gs, []string{m2 + "\u00e9", m2 + "\u0439"})              // last rune differs in its first byte too
	}
	if n >= 4 {
		m3 := c16Fill("\u65e5\u672c", n-3) // 3-byte runes
		gs = append(gs, []string{m3 + "\u65e5", m3 + "\u65e6"})
	}
	return gs
}

func TestVerifC16Keys(t *testing.T) {
	out := os.Getenv("VERIF_KEYS_OUT")
	if out == "" {
		t.Skip("VERIF_KEYS_OUT not set")
	}
	t0 := c16Base.Add(30 * time.Minute)
	tsStr := t0.UTC().Format(time.RFC3339Nano)
	env := &c16Env{
		name: fmt.Sprintf("verif_c16_keys_%d", time.Now().UnixNano()),
		ctl:  metric.NewCtl("verif_c16_keys", prometheus.NewRegistry(), 0, 0),
		lg:   zap.NewNop().Sugar(),
	}
	limits := map[string]int{"g1": 2, "g2": 3, "g0": 1} // rule a (grp g1), rule b (grp g2), default rule c
	res := &c16KeysOut{Lengths: c16KeyLens}
	for _, n := range c16KeyLens {
		for gi, g := range c16KeyGroups(n) {
			conf := &Config{ThrottleField: "k8s_pod", TimeField: "time", DefaultLimit: int64(limits["g0"]), BucketsCount: 2,
				BucketInterval: "1h", LimiterExpiration: "100000h",
				Rules: []RuleConfig{
					{Limit: int64(limits["g1"]), LimitKind: limitKindCount, Conditions: map[string]string{"grp": "g1"}},
					{Limit: int64(limits["g2"]), LimitKind: limitKindCount, Conditions: map[string]string{"grp": "g2"}},
				}}
			test.NewConfig(conf, nil)
			limitersMu.Lock()
			delete(limiters, env.name)
			limitersMu.Unlock()
			p := &Plugin{}
			p.Start(conf, &pipeline.ActionPluginParams{
				PluginDefaultParams: pipeline.PluginDefaultParams{PipelineName: env.name, PipelineSettings: &pipeline.Settings{}, MetricCtl: env.ctl},
				Logger:              env.lg,
			})
			p.limitersMap.setNowFn(func() time.Time { return t0 }, true)
			res.Groups++
			type id struct{ grp, key string }
			var ids []id
			for _, grp := range []string{"g1", "g2", "g0"} {
				for _, k := range g {
					ids = append(ids, id{grp, k})
				}
			}
			passed := make([]int, len(ids))
			sent := make([]int, len(ids))
			for round := 0; round < 5; round++ { // interleaved: every identity once per round
				for i, x := range ids {
					if round >= limits[x.grp]+2 {
						continue
					}
					root, err := insaneJSON.DecodeString(`{"time":"` + tsStr + `","k8s_pod":"` + x.key + `","grp":"` + x.grp + `"}`)
					if err != nil {
						panic(err)
					}
					if p.Do(&pipeline.Event{Root: root, Size: 1}) == pipeline.ActionPass {
						passed[i]++
					}
					insaneJSON.Release(root)
					sent[i]++
					res.Decisions++
				}
			}
			p.Stop()
			for i, x := range ids {
				res.Keys++
				want := limits[x.grp]
				if passed[i] == want {
					continue
				}
				res.Wrong++
				if len(res.Violations) < 12 {
					kind := "over_limit"
					if passed[i] < want {
						kind = "early_reject"
					}
					show := x.key
					if len(show) > 24 {
						show = "..." + show[len(show)-24:]
					}
					res.Violations = append(res.Violations, &c16Rec{Kind: kind, Path: "plugin_keys", Slice: "keys", LKind: limitKindCount, Buckets: 2,
						Step: gi, Must: -1,
						Detail: fmt.Sprintf("key of %d bytes %q (group %d of length %d: %d keys sharing all but their last byte(s)), rule for grp=%s with limit %d: %d of %d events passed in one bucket, every key must get exactly its own budget",
							len(x.key), show, gi, n, len(g), x.grp, want, passed[i], sent[i]),
						Case: &c16Case{S: "keys"}})
				}
			}
		}
	}
	limitersMu.Lock()
	delete(limiters, env.name)
	limitersMu.Unlock()
	b, _ := json.Marshal(res)
	if err := os.WriteFile(out, b, 0o644); err != nil {
		t.Fatal(err)
	}
}
