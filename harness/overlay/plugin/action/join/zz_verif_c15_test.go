package join

// C15 plugin-level replay harness for the join action (mapped into /repo/plugin/action/join by
// `go test -overlay`; /repo is not modified).
// Every (case, time-out placement) exported by TLC from specs/Join.tla (one template, chain "none")
// is executed against the REAL join.Plugin, started through the real Start with real regexps
// ("^S" = start class, "^C" = continue class): the events of the case are handed to Do one by one,
// time-out events are delivered at the positions of the case, Propagate calls are recorded by a small
// ActionPluginController. The sequence of events that left the action (flushed or passed) and the
// joined field are compared with the DECLARATIVE expectation of the specification (Output(seq, TO)),
// not with the transcription; agreement with the transcription is reported separately (as_modelled).

import (
	"bufio"
	"encoding/json"
	"fmt"
	"os"
	"runtime"
	"strings"
	"sync"
	"testing"

	"github.com/ozontech/file.d/cfg"
	"github.com/ozontech/file.d/pipeline"
	"github.com/ozontech/file.d/test"
	insaneJSON "github.com/ozontech/insane-json"
)

const c15W = 6 // every value is c15W bytes long; max_event_size M (in values) is scaled to bytes

type c15Case struct {
	NT    int             `json:"nt"`
	Neg   []bool          `json:"neg"`
	M     int             `json:"M"`
	Pre   string          `json:"pre"`
	Seq   []string        `json:"seq"`
	TO    []int           `json:"to"`
	Dev   []string        `json:"dev"`
	Exp   json.RawMessage `json:"exp"`
	Alt   json.RawMessage `json:"alt"`
	Model json.RawMessage `json:"model"`
	Held  bool            `json:"held"`
}

// one expected output event: a passed event (its id) or a joined event (the ids of its run)
type c15Item struct {
	Pass bool
	IDs  []int
}

func c15Items(raw json.RawMessage) ([]c15Item, bool) {
	s := strings.TrimSpace(string(raw))
	if s == "" || s == "0" || s == "null" {
		return nil, false
	}
	var arr []json.RawMessage
	if err := json.Unmarshal(raw, &arr); err != nil {
		panic(fmt.Sprintf("c15: bad item list %s: %v", s, err))
	}
	items := make([]c15Item, 0, len(arr))
	for _, r := range arr {
		var one int
		if err := json.Unmarshal(r, &one); err == nil {
			items = append(items, c15Item{Pass: true, IDs: []int{one}})
			continue
		}
		var ids []int
		if err := json.Unmarshal(r, &ids); err != nil {
			panic(fmt.Sprintf("c15: bad item %s", string(r)))
		}
		items = append(items, c15Item{IDs: ids})
	}
	return items, true
}

// what left the action
type c15Obs struct {
	ID     int             `json:"id"`
	HasLog bool            `json:"has_log"`
	IsStr  bool            `json:"is_str"`
	Log    string          `json:"log"`
	Doc    string          `json:"doc"`
	ev     *pipeline.Event // the output EVENT itself: its text is looked at once more at the end of the case
}

// an output that keeps events for a while (every batching output) must still see the text the event had when it was
// flushed: the joined text is a value fixed at the flush, not a view of the plugin's run buffer
func c15LateChange(outs []c15Obs) (int, string) {
	for i, o := range outs {
		if !o.HasLog || o.ev == nil {
			continue
		}
		if n := o.ev.Root.Dig("log"); n == nil || n.AsString() != o.Log {
			late := "<no field>"
			if n != nil {
				late = n.AsString()
			}
			return i, late
		}
	}
	return -1, ""
}

type c15Ctl struct {
	ids  map[*pipeline.Event]int
	outs []c15Obs
}

func (c *c15Ctl) record(e *pipeline.Event) {
	o := c15Obs{ID: c.ids[e], Doc: e.Root.EncodeToString(), ev: e}
	if n := e.Root.Dig("log"); n != nil {
		o.HasLog = true
		o.IsStr = n.IsString()
		o.Log = strings.Clone(n.AsString())
	}
	c.outs = append(c.outs, o)
}
func (c *c15Ctl) Propagate(e *pipeline.Event)                   { c.record(e) }
func (c *c15Ctl) Spawn(_ *pipeline.Event, _ []*insaneJSON.Node) {}
func (c *c15Ctl) IncMaxEventSizeExceeded(_ ...string)           {}

// value (exactly c15W bytes) and JSON document of the event of class cl at position id (1-based)
func c15Doc(cl string, id int) (val string, doc string) {
	switch cl {
	case "S1", "C1", "O":
		val = fmt.Sprintf("%s%d:::\n", cl[:1], id)
		return val, fmt.Sprintf(`{"log":"%s%d:::\n","id":%d}`, cl[:1], id, id)
	case "NS":
		val = fmt.Sprintf("7%d0000", id)
		return val, fmt.Sprintf(`{"log":%s,"id":%d}`, val, id)
	case "NF":
		return "", fmt.Sprintf(`{"msg":"x","id":%d}`, id)
	}
	panic("c15: unexpected class " + cl)
}

// bytes limit realising the model's M (values): any L with (M-1)*W < L <= M*W behaves the same
func c15Limit(m int, salt int) int {
	if m == 0 {
		return 0
	}
	return m*c15W - salt%c15W
}

// does the observed sequence satisfy the declarative expectation?
//
//	passed event: same event, document unchanged
//	joined event: carried by an event of the run; field = prefix of the in-order concatenation of the run,
//	              complete if it fits max_event_size, otherwise nothing below the limit is lost
func c15Match(obs []c15Obs, exp []c15Item, vals, docs []string, limit int) bool {
	if len(obs) != len(exp) {
		return false
	}
	for i, e := range exp {
		o := obs[i]
		if e.Pass {
			if o.ID != e.IDs[0] || o.Doc != docs[o.ID-1] {
				return false
			}
			continue
		}
		full := ""
		member := false
		for _, id := range e.IDs {
			full += vals[id-1]
			member = member || id == o.ID
		}
		if !member || !o.HasLog || !o.IsStr || !strings.HasPrefix(full, o.Log) || o.Log == "" {
			return false
		}
		if limit == 0 || len(full) <= limit {
			if o.Log != full {
				return false
			}
		} else if len(o.Log) < limit {
			return false
		}
		// the rest of the carrying document is unchanged
		if o.Doc != strings.Replace(docs[o.ID-1], c15Quote(vals[o.ID-1]), c15Quote(o.Log), 1) {
			return false
		}
	}
	return true
}

func c15Quote(s string) string { return `"` + strings.ReplaceAll(s, "\n", `\n`) + `"` }

// exact agreement with the transcription's output
func c15AsModelled(obs []c15Obs, model []c15Item, vals []string) bool {
	if len(obs) != len(model) {
		return false
	}
	for i, m := range model {
		o := obs[i]
		if o.ID != m.IDs[0] {
			return false
		}
		if m.Pass {
			continue
		}
		full := ""
		for _, id := range m.IDs {
			full += vals[id-1]
		}
		if o.Log != full {
			return false
		}
	}
	return true
}

type c15Mismatch struct {
	Kind       string   `json:"kind"`
	Plugin     string   `json:"plugin"`
	Case       *c15Case `json:"case"`
	Limit      int      `json:"limit"`
	Got        []c15Obs `json:"got"`
	AsModelled bool     `json:"as_modelled"`
	Panic      string   `json:"panic,omitempty"`
	At         int      `json:"at"`
}

type c15Stats struct {
	executed, nontrivial, timeouts, limited int
}

func c15RunJoinCase(c *c15Case, salt int, newPlugin func(salt int) (pipeline.ActionPlugin, pipeline.AnyConfig, string, int),
	docOf func(cl string, id int) (string, string)) (mm *c15Mismatch, st c15Stats) {
	n := len(c.Seq)
	plugin, config, name, limit := newPlugin(salt)
	ctl := &c15Ctl{ids: map[*pipeline.Event]int{}}
	params := test.NewEmptyActionPluginParams()
	params.Controller = ctl
	params.PipelineSettings = &pipeline.Settings{AvgEventSize: 4096} // the run buffer never has to grow
	plugin.Start(config, params)

	vals := make([]string, n)
	docs := make([]string, n)
	events := make([]*pipeline.Event, n)
	roots := make([]*insaneJSON.Root, n)
	defer func() {
		for _, r := range roots {
			if r != nil {
				insaneJSON.Release(r)
			}
		}
	}()
	for k := 0; k < n; k++ {
		vals[k], docs[k] = docOf(c.Seq[k], k+1)
		roots[k] = insaneJSON.Spawn()
		if err := roots[k].DecodeString(docs[k]); err != nil {
			panic(err)
		}
		docs[k] = roots[k].EncodeToString()
		events[k] = &pipeline.Event{Root: roots[k], SourceName: "c15", Size: len(docs[k])}
		ctl.ids[events[k]] = k + 1
	}
	toSet := map[int]bool{}
	for _, p := range c.TO {
		toSet[p] = true
	}
	exp, _ := c15Items(c.Exp)
	alt, hasAlt := c15Items(c.Alt)
	model, hasModel := c15Items(c.Model)
	if !hasModel {
		model = exp
	}
	st.executed = 1
	for _, e := range exp {
		if !e.Pass && len(e.IDs) >= 2 {
			st.nontrivial = 1
		}
		if !e.Pass && limit != 0 && len(e.IDs)*c15W > limit {
			st.limited = 1
		}
	}
	if len(c.TO) > 0 {
		st.timeouts = 1
	}

	at := 0
	defer func() {
		if r := recover(); r != nil {
			mm = &c15Mismatch{Kind: "panic", Plugin: name, Case: c, Limit: limit, Got: ctl.outs, Panic: fmt.Sprint(r), At: at}
		}
	}()
	for k := 0; k <= n; k++ {
		at = k
		if toSet[k] {
			ev := &pipeline.Event{SourceName: "timeout"}
			ev.SetTimeoutKind()
			plugin.Do(ev)
		}
		if k == n {
			break
		}
		if plugin.Do(events[k]) == pipeline.ActionPass {
			ctl.record(events[k])
		}
	}
	if i, late := c15LateChange(ctl.outs); i >= 0 {
		return &c15Mismatch{Kind: "flushed_text_changed", Plugin: name, Case: c, Limit: limit, Got: ctl.outs, At: i, Panic: "text at the end of the case: " + late}, st
	}
	ok := c15Match(ctl.outs, exp, vals, docs, limit)
	if !ok && hasAlt {
		ok = c15Match(ctl.outs, alt, vals, docs, limit)
	}
	if !ok {
		return &c15Mismatch{Kind: "output_differs", Plugin: name, Case: c, Limit: limit, Got: ctl.outs,
			AsModelled: c15AsModelled(ctl.outs, model, vals)}, st
	}
	return nil, st
}

func c15LoadCases(t *testing.T) []*c15Case {
	in := os.Getenv("VERIF_CASES")
	f, err := os.Open(in)
	if err != nil {
		t.Fatal(err)
	}
	defer f.Close()
	var cases []*c15Case
	sc := bufio.NewScanner(f)
	sc.Buffer(make([]byte, 1<<20), 1<<24)
	for sc.Scan() {
		c := &c15Case{}
		if err := json.Unmarshal(sc.Bytes(), c); err != nil {
			t.Fatalf("bad case line: %v", err)
		}
		cases = append(cases, c)
	}
	return cases
}

func TestVerifC15Join(t *testing.T) {
	if os.Getenv("VERIF_CASES") == "" || os.Getenv("VERIF_OUT") == "" {
		t.Skip("VERIF_CASES / VERIF_OUT not set")
	}
	cases := c15LoadCases(t)
	nw := runtime.GOMAXPROCS(0)
	var wg sync.WaitGroup
	var mu sync.Mutex
	var mms []*c15Mismatch
	var total c15Stats
	nmm := 0
	for wi := 0; wi < nw; wi++ {
		wg.Add(1)
		go func(wi int) {
			defer wg.Done()
			cfgs := map[string]pipeline.AnyConfig{}
			for i := wi; i < len(cases); i += nw {
				c := cases[i]
				if c.NT != 1 || c.Pre != "none" {
					panic("c15: the join replay takes one-template cases of chain none only")
				}
				mk := func(salt int) (pipeline.ActionPlugin, pipeline.AnyConfig, string, int) {
					limit := c15Limit(c.M, salt)
					key := fmt.Sprintf("%d/%v", limit, c.Neg[0])
					conf, ok := cfgs[key]
					if !ok {
						conf = test.NewConfig(&Config{
							Field:        "log",
							Start:        cfg.Regexp("/^S/"),
							Continue:     cfg.Regexp("/^C/"),
							MaxEventSize: limit,
							Negate:       c.Neg[0],
						}, nil)
						cfgs[key] = conf
					}
					p, _ := factory()
					return p.(pipeline.ActionPlugin), conf, "join", limit
				}
				mm, st := c15RunJoinCase(c, i, mk, c15Doc)
				mu.Lock()
				total.executed += st.executed
				total.nontrivial += st.nontrivial
				total.timeouts += st.timeouts
				total.limited += st.limited
				if mm != nil {
					nmm++
					if len(mms) < 100 {
						mms = append(mms, mm)
					}
				}
				mu.Unlock()
			}
		}(wi)
	}
	wg.Wait()
	res := map[string]interface{}{"executed": total.executed, "nontrivial": total.nontrivial,
		"with_timeouts": total.timeouts, "over_limit": total.limited, "mismatch_count": nmm, "mismatches": mms}
	b, _ := json.Marshal(res)
	if err := os.WriteFile(os.Getenv("VERIF_OUT"), b, 0o644); err != nil {
		t.Fatal(err)
	}
}

// ---------------------------------------------------------------------------------------------------------------
// Two plugin instances started from ONE shared config object, the way the pipeline does it for its processors
// (pipeline.newProc: one plugin per processor from info.Factory(); processor.start: action.Start(info.Config, ...)),
// each serving its own stream; the two streams are interleaved step by step in a given order. The state of the action
// is per instance: each stream's output must be its own Output(seq, TO), whatever the other instance is doing
// (specs/JoinInstances.tla).

type c15Pair struct {
	A     *c15Case `json:"a"`
	B     *c15Case `json:"b"`
	Order []int    `json:"order"` // which stream makes the next step (0 | 1); one step = due time-out + next event
}

type c15PairMismatch struct {
	Kind   string      `json:"kind"`
	Plugin string      `json:"plugin"`
	Shared bool        `json:"shared_config"`
	Pair   *c15Pair    `json:"pair"`
	Stream int         `json:"stream"`
	Got    [2][]c15Obs `json:"got"`
	Panic  string      `json:"panic,omitempty"`
}

func c15RunPair(pr *c15Pair, salt int, newConfig func(salt int) (pipeline.AnyConfig, string, int),
	newPlugin func() pipeline.ActionPlugin, docOf func(cl string, id int) (string, string)) (mm *c15PairMismatch) {
	config, name, limit := newConfig(salt) // ONE config object for both instances
	cases := [2]*c15Case{pr.A, pr.B}
	var plugins [2]pipeline.ActionPlugin
	var ctls [2]*c15Ctl
	var vals, docs [2][]string
	var events [2][]*pipeline.Event
	var roots []*insaneJSON.Root
	defer func() {
		for _, r := range roots {
			insaneJSON.Release(r)
		}
	}()
	for s := 0; s < 2; s++ {
		ctls[s] = &c15Ctl{ids: map[*pipeline.Event]int{}}
		params := test.NewEmptyActionPluginParams()
		params.Controller = ctls[s]
		params.PipelineSettings = &pipeline.Settings{AvgEventSize: 4096} // the run buffer never has to grow
		plugins[s] = newPlugin()
		plugins[s].Start(config, params)
		n := len(cases[s].Seq)
		vals[s], docs[s], events[s] = make([]string, n), make([]string, n), make([]*pipeline.Event, n)
		for k := 0; k < n; k++ {
			vals[s][k], docs[s][k] = docOf(cases[s].Seq[k], k+1)
			root := insaneJSON.Spawn()
			roots = append(roots, root)
			if err := root.DecodeString(docs[s][k]); err != nil {
				panic(err)
			}
			docs[s][k] = root.EncodeToString()
			events[s][k] = &pipeline.Event{Root: root, SourceName: fmt.Sprintf("c15-%d", s), Size: len(docs[s][k])}
			ctls[s].ids[events[s][k]] = k + 1
		}
	}
	got := func() [2][]c15Obs { return [2][]c15Obs{ctls[0].outs, ctls[1].outs} }
	cur := -1
	defer func() {
		if r := recover(); r != nil {
			mm = &c15PairMismatch{Kind: "panic", Plugin: name, Shared: true, Pair: pr, Stream: cur, Got: got(), Panic: fmt.Sprint(r)}
		}
	}()
	var pos [2]int
	timeout := func(s int) {
		for _, p := range cases[s].TO {
			if p == pos[s] {
				ev := &pipeline.Event{SourceName: "timeout"}
				ev.SetTimeoutKind()
				plugins[s].Do(ev)
			}
		}
	}
	step := func(s int) {
		cur = s
		if pos[s] >= len(cases[s].Seq) {
			return
		}
		timeout(s)
		ev := events[s][pos[s]]
		pos[s]++
		if plugins[s].Do(ev) == pipeline.ActionPass {
			ctls[s].record(ev)
		}
	}
	for _, s := range pr.Order {
		step(s)
	}
	for s := 0; s < 2; s++ { // whatever the order left over, then the final time-outs
		for pos[s] < len(cases[s].Seq) {
			step(s)
		}
		cur = s
		timeout(s)
	}
	for s := 0; s < 2; s++ {
		if i, late := c15LateChange(ctls[s].outs); i >= 0 {
			return &c15PairMismatch{Kind: "flushed_text_changed", Plugin: name, Shared: true, Pair: pr, Stream: s, Got: got(), Panic: fmt.Sprintf("output %d at the end: %s", i, late)}
		}
		exp, _ := c15Items(cases[s].Exp)
		alt, hasAlt := c15Items(cases[s].Alt)
		ok := c15Match(ctls[s].outs, exp, vals[s], docs[s], limit)
		if !ok && hasAlt {
			ok = c15Match(ctls[s].outs, alt, vals[s], docs[s], limit)
		}
		if !ok {
			return &c15PairMismatch{Kind: "output_differs", Plugin: name, Shared: true, Pair: pr, Stream: s, Got: got()}
		}
	}
	return nil
}

func c15RunPairs(t *testing.T, run func(pr *c15Pair, i int) *c15PairMismatch) {
	f, err := os.Open(os.Getenv("VERIF_CASES"))
	if err != nil {
		t.Fatal(err)
	}
	defer f.Close()
	var pairs []*c15Pair
	sc := bufio.NewScanner(f)
	sc.Buffer(make([]byte, 1<<20), 1<<24)
	for sc.Scan() {
		pr := &c15Pair{}
		if err := json.Unmarshal(sc.Bytes(), pr); err != nil {
			t.Fatalf("bad pair line: %v", err)
		}
		pairs = append(pairs, pr)
	}
	nw := runtime.GOMAXPROCS(0)
	var wg sync.WaitGroup
	var mu sync.Mutex
	var mms []*c15PairMismatch
	executed, nmm := 0, 0
	for wi := 0; wi < nw; wi++ {
		wg.Add(1)
		go func(wi int) {
			defer wg.Done()
			for i := wi; i < len(pairs); i += nw {
				mm := run(pairs[i], i)
				mu.Lock()
				executed++
				if mm != nil {
					nmm++
					if len(mms) < 50 {
						mms = append(mms, mm)
					}
				}
				mu.Unlock()
			}
		}(wi)
	}
	wg.Wait()
	res := map[string]interface{}{"executed": executed, "mismatch_count": nmm, "mismatches": mms}
	b, _ := json.Marshal(res)
	if err := os.WriteFile(os.Getenv("VERIF_OUT"), b, 0o644); err != nil {
		t.Fatal(err)
	}
}

func TestVerifC15JoinShared(t *testing.T) {
	if os.Getenv("VERIF_CASES") == "" || os.Getenv("VERIF_OUT") == "" {
		t.Skip("VERIF_CASES / VERIF_OUT not set")
	}
	c15RunPairs(t, func(pr *c15Pair, i int) *c15PairMismatch {
		mk := func(salt int) (pipeline.AnyConfig, string, int) {
			limit := c15Limit(pr.A.M, salt)
			return test.NewConfig(&Config{
				Field:        "log",
				Start:        cfg.Regexp("/^S/"),
				Continue:     cfg.Regexp("/^C/"),
				MaxEventSize: limit,
				Negate:       pr.A.Neg[0],
			}, nil), "join", limit
		}
		return c15RunPair(pr, i, mk, func() pipeline.ActionPlugin { p, _ := factory(); return p.(pipeline.ActionPlugin) }, c15Doc)
	})
}
