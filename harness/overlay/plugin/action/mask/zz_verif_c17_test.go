package mask

// C17 trace driver (mapped into /repo/plugin/action/mask by `go test -overlay`; /repo is not modified).
//
// Direction T (code -> spec): the driver only ENUMERATES inputs and LOGS what the real plugin did; it
// contains no expectation. Every record is judged by TLC against specs/Mask.tla (specs/MaskTrace.tla).
//
//   "L" records (one leaf):  curated regexp family x group selections (every non-empty subset and
//       order, [0], and lists containing 0) x all strings over {a,b,é} up to a length bound x modes
//       {asterisks max_count 0/1/2, replace word, cut} x {string, number} leaf.  The event
//       {"k": <value>} goes through the REAL Plugin.Do of a plugin started by the REAL Start
//       (compileMasks / VerifyGroupNumbers in the loop; a config Start rejects is skipped).
//       Logged: value bytes, character widths, T = Re_.FindAllSubmatchIndex(value) of the plugin's own
//       compiled regexp, configured and effective groups, mode, result bytes | panic message, kind of
//       the leaf afterwards, root keys afterwards, metric deltas.
//   "E" records (small trees): nested objects / arrays / non-string leaves x masks with global and
//       per-mask process/ignore lists and match rules; logged: flattened leaves before and after, the
//       lists, per leaf and mask the table T on the leaf (and on the intermediate value for the
//       second mask of a chain).
//
// A recovered panic of Do is logged as res="panic" (a violation record for the oracle).

import (
	"bufio"
	"crypto/md5"
	"encoding/json"
	"fmt"
	"math/rand"
	"os"
	"regexp"
	"runtime"
	"sort"
	"strconv"
	"strings"
	"sync"
	"sync/atomic"
	"testing"
	"time"
	"unicode/utf8"

	"github.com/ozontech/file.d/cfg/matchrule"
	"github.com/ozontech/file.d/pipeline"
	"github.com/ozontech/file.d/test"
	insaneJSON "github.com/ozontech/insane-json"
	"go.uber.org/zap"
	"go.uber.org/zap/zapcore"
)

// ---------------------------------------------------------------- records

type c17Leaf struct {
	K    string   `json:"k"`    // "L"
	GC   []int    `json:"gc"`   // groups as configured
	G    []int    `json:"G"`    // groups after Start (VerifyGroupNumbers)
	Mode string   `json:"mode"` // mask | replace | cut
	MC   int      `json:"mc"`
	Word []int    `json:"word"`
	LK   string   `json:"lk"` // s | n  (kind of the leaf before)
	Val  []int    `json:"val"`
	CW   []int    `json:"cw"`
	T    [][]int  `json:"T"`
	Res  string   `json:"res"` // ok | panic
	PC   string   `json:"pc"`  // panic class (message without the numbers), "" if none
	PB   []int    `json:"pb"`  // the numbers of a slice-bounds / index panic message
	Out  []int    `json:"out"`
	OK   string   `json:"ok"`   // kind of the leaf afterwards
	Keys []string `json:"keys"` // root keys afterwards
	Met  int      `json:"met"`  // delta of the plugin metric
	MMet int      `json:"mmet"` // delta of the mask metric
}

// c17Info goes to the side file (never seen by TLC): what a human needs to re-run a record
type c17Info struct {
	ID   int    `json:"id"`
	Key  string `json:"key"` // origin of the record in the enumeration (for --replay)
	Re   string `json:"re,omitempty"`
	Fam  string `json:"fam,omitempty"`
	Val  string `json:"val,omitempty"`
	Pmsg string `json:"pmsg,omitempty"`
	Src  string `json:"src,omitempty"`
	Conf string `json:"conf,omitempty"`
}

type c17FLeaf struct {
	P  []string `json:"p"`
	T  string   `json:"t"` // s | n | o
	V  []int    `json:"v"`
	CW []int    `json:"cw"`
	MI []c17MI  `json:"mi"` // per mask (before-leaves of kind s/n only)
}

type c17MI struct {
	Tb  [][]int `json:"Tb"`  // table of this mask's regexp on the leaf value
	Mid []int   `json:"mid"` // (2nd mask only) the real result of the first mask alone on the leaf value
	CWm []int   `json:"cwm"`
	Tm  [][]int `json:"Tm"` // (2nd mask only) table on mid
}

type c17Rule struct {
	CI   bool    `json:"ci"`
	Mode string  `json:"mode"`
	Vals [][]int `json:"vals"`
	Inv  bool    `json:"inv"`
}

type c17RuleSet struct {
	Cond  string    `json:"cond"`
	Rules []c17Rule `json:"rules"`
}

type c17MaskDesc struct {
	HasRe bool         `json:"hasRe"`
	G     []int        `json:"G"`
	Mode  string       `json:"mode"`
	MC    int          `json:"mc"`
	Word  []int        `json:"word"`
	Proc  [][]string   `json:"proc"`
	Ign   [][]string   `json:"ign"`
	Rules []c17RuleSet `json:"rules"`
	AF    string       `json:"af"`   // applied_field of the mask
	HM    bool         `json:"hm"`   // the mask has a metric_name
	DoIf  []c17Cond    `json:"doif"` // empty = no do_if; else one condition tree
}

// c17Cond describes a do_if condition (the subset used here: field equal / not / or / and)
type c17Cond struct {
	Op    string    `json:"op"`
	Field []string  `json:"field"`
	Vals  [][]int   `json:"vals"`
	Args  []c17Cond `json:"args"`
}

type c17Event struct {
	K      string        `json:"k"` // "E"
	GProc  [][]string    `json:"gproc"`
	GIgn   [][]string    `json:"gign"`
	Masks  []c17MaskDesc `json:"masks"`
	AF     string        `json:"af"`
	Before []c17FLeaf    `json:"before"`
	After  []c17FLeaf    `json:"after"`
	Res    string        `json:"res"`
	PC     string        `json:"pc"`
	PB     []int         `json:"pb"`
	Met    int           `json:"met"`
	MMet   []int         `json:"mmet"`
	IM     []int         `json:"im"` // positions (1-based) of the masks that may match; the others never match anything
}

type c17Summary struct {
	Leaf              int            `json:"leaf"`
	DoIfOrder         int            `json:"doif_order_runs"`        // executions of the family "do_if reads a field the plugin rewrites"
	ManyMasks         int            `json:"many_masks_runs"`        // executions of the family "the matching mask sits behind K silent masks"
	NumKeys           int            `json:"numeric_key_runs"`       // executions of the family "all-digit path elements over arrays / objects / nothing"
	SeqRuns           int            `json:"sequence_runs"`          // executions inside 2-3 event sequences through one instance
	RuleValRuns       int            `json:"rule_value_runs"`        // executions of the family "rule value lists of different lengths"
	Stress            int            `json:"stress_runs"`            // executions of Do in the concurrent family
	RuleStress        int            `json:"rule_stress_runs"`       // of them: masks with match_rules, every instance fed its own values
	RuleStressOverlap int            `json:"rule_stress_overlapped"` // of them: Do started while another instance was inside Do
	RuleStressMs      int            `json:"rule_stress_ms_per_config"`
	StressOut         int            `json:"stress_outcomes"` // distinct (config, event, outcome) records of them
	StressMs          int            `json:"stress_ms_per_config"`
	StressDrop        int            `json:"stress_runs_not_recorded"` // executions beyond 40 distinct outcomes of one event (0 on correct code)
	StressAlt         int            `json:"stress_alternations"`      // consecutive Do calls (any instance) with different do_if outcomes
	Unique            int            `json:"unique_records"`
	Files             []string       `json:"files"`
	Events            int            `json:"events"`
	Skipped           int            `json:"skipped_configs"`
	SkipWhy           map[string]int `json:"skipped_why"`
	Configs           int            `json:"configs"`
	Panics            int            `json:"panics"`
	Matched           int            `json:"matched"`
	ByFam             map[string]int `json:"by_family"`
	ExtraKept         int            `json:"extended_kept"`
	ExtraAll          int            `json:"extended_total"`
}

// ---------------------------------------------------------------- helpers

func c17Ints(b []byte) []int {
	r := make([]int, len(b))
	for i, x := range b {
		r[i] = int(x)
	}
	return r
}

func c17Widths(b []byte) []int {
	r := make([]int, 0, len(b))
	for len(b) > 0 {
		_, n := utf8.DecodeRune(b)
		r = append(r, n)
		b = b[n:]
	}
	return r
}

func c17Table(re *regexp.Regexp, v []byte) [][]int {
	t := re.FindAllSubmatchIndex(v, -1)
	if t == nil {
		return [][]int{}
	}
	return t
}

type c17Mode struct {
	name string
	mc   int
	word string
	cut  bool
}

func (m c17Mode) tag() string {
	switch {
	case m.cut:
		return "cut"
	case m.word != "":
		return "replace"
	}
	return "mask"
}

func c17Logger() *zap.SugaredLogger {
	return zap.NewNop().WithOptions(zap.WithFatalHook(zapcore.WriteThenPanic)).Sugar()
}

// c17Start runs the REAL Start; a Fatal of the plugin's own validation surfaces as a panic => rejected.
func c17Start(conf *Config) (p *Plugin, rejected string) {
	defer func() {
		if r := recover(); r != nil {
			p, rejected = nil, fmt.Sprint(r)
		}
	}()
	c := test.NewConfig(conf, nil).(*Config)
	params := test.NewEmptyActionPluginParams()
	params.Logger = c17Logger()
	pl := &Plugin{}
	pl.Start(c, params)
	return pl, ""
}

func c17Do(p *Plugin, ev *pipeline.Event) (pmsg string, panicked bool) {
	defer func() {
		if r := recover(); r != nil {
			pmsg, panicked = fmt.Sprint(r), true
		}
	}()
	p.Do(ev)
	return "", false
}

func c17Met(p *Plugin) int {
	if p.maskAppliedMetric == nil {
		return 0
	}
	return int(p.maskAppliedMetric.WithLabelValues().ToFloat64())
}

func c17MaskMet(p *Plugin, i int) int {
	m := p.config.Masks[i].appliedMetric
	if m == nil {
		return 0
	}
	return int(m.WithLabelValues().ToFloat64())
}

func c17Kind(n *insaneJSON.Node) string {
	switch {
	case n.IsString():
		return "s"
	case n.IsNumber():
		return "n"
	}
	return "o"
}

func c17Flatten(n *insaneJSON.Node, path []string, out []c17FLeaf) []c17FLeaf {
	switch {
	case n.IsObject() && len(n.AsFields()) > 0:
		for _, f := range n.AsFields() {
			out = c17Flatten(f.AsFieldValue(), append(append([]string{}, path...), strings.Clone(f.AsString())), out)
		}
	case n.IsArray() && len(n.AsArray()) > 0:
		for i, e := range n.AsArray() {
			out = c17Flatten(e, append(append([]string{}, path...), strconv.Itoa(i)), out)
		}
	case n.IsString():
		b := []byte(n.AsString())
		out = append(out, c17FLeaf{P: path, T: "s", V: c17Ints(b), CW: c17Widths(b)})
	case n.IsNumber():
		b := append([]byte{}, n.AsBytes()...)
		out = append(out, c17FLeaf{P: path, T: "n", V: c17Ints(b), CW: c17Widths(b)})
	default:
		b := n.EncodeToByte()
		out = append(out, c17FLeaf{P: path, T: "o", V: c17Ints(b), CW: c17Widths(b)})
	}
	return out
}

// c17Writer writes the TLC-facing records (ndjson, rotated into files of at most perFile records so that
// one TLC run stays small) and the side file with the human-readable origin of every record. Records with an
// identical TLC-facing body (same value, table, groups, mode, result ...; typically produced by different
// regexps) are written once; the multiplicity is kept in the side file's summary.
type c17Writer struct {
	dir     string
	perFile int
	cur     *os.File
	bw      *bufio.Writer
	inFile  int
	files   []string
	info    *bufio.Writer
	id      int
	seen    map[[16]byte]struct{}
	unique  int
}

func (w *c17Writer) rotate() {
	w.closeCur()
	name := fmt.Sprintf("%s/c17_rec_%03d.ndjson", w.dir, len(w.files))
	f, err := os.Create(name)
	if err != nil {
		panic(err)
	}
	w.cur, w.bw, w.inFile = f, bufio.NewWriterSize(f, 1<<20), 0
	w.files = append(w.files, name)
}

func (w *c17Writer) closeCur() {
	if w.cur != nil {
		if err := w.bw.Flush(); err != nil {
			panic(err)
		}
		w.cur.Close()
		w.cur = nil
	}
}

// put returns false when an identical body has been written before
func (w *c17Writer) put(v any, info c17Info) bool {
	body, err := json.Marshal(v)
	if err != nil {
		panic(err)
	}
	h := md5.Sum(body)
	if _, dup := w.seen[h]; dup {
		return false
	}
	w.seen[h] = struct{}{}
	if w.cur == nil || w.inFile >= w.perFile {
		w.rotate()
	}
	w.id++
	w.unique++
	w.inFile++
	fmt.Fprintf(w.bw, `{"id":%d,`, w.id)
	w.bw.Write(body[1:])
	w.bw.WriteByte('\n')
	info.ID = w.id
	ib, _ := json.Marshal(info)
	w.info.Write(ib)
	w.info.WriteByte('\n')
	return true
}

var c17NumRe = regexp.MustCompile(`-?\d+`)

// c17PanicClass splits a panic message into its text (numbers removed) and its numbers
func c17PanicClass(msg string) (string, []int) {
	nums := []int{}
	for _, x := range c17NumRe.FindAllString(msg, -1) {
		n, _ := strconv.Atoi(x)
		nums = append(nums, n)
	}
	cls := strings.TrimSpace(c17NumRe.ReplaceAllString(msg, "#"))
	if i := strings.Index(cls, " ["); i >= 0 {
		cls = cls[:i]
	}
	cls = strings.TrimPrefix(cls, "runtime error: ")
	return cls, nums
}

// all strings over alphabet with length in [lo, hi]
func c17Strings(alpha []string, lo, hi int) []string {
	var res []string
	cur := []string{""}
	for l := 0; l <= hi; l++ {
		if l >= lo {
			res = append(res, cur...)
		}
		var next []string
		for _, s := range cur {
			for _, a := range alpha {
				next = append(next, s+a)
			}
		}
		cur = next
	}
	return res
}

// every non-empty subset of 1..ng in every order, [0], and lists that contain 0 next to a group
func c17Selections(ng int) [][]int {
	res := [][]int{{0}}
	var rec func(cur []int, used int)
	rec = func(cur []int, used int) {
		if len(cur) > 0 {
			res = append(res, append([]int{}, cur...))
		}
		for g := 1; g <= ng; g++ {
			if used&(1<<g) == 0 {
				rec(append(cur, g), used|1<<g)
			}
		}
	}
	rec(nil, 0)
	if ng >= 1 {
		res = append(res, []int{0, 1}, []int{1, 0})
	}
	return res
}

// c17Seq = [1 .. n]
func c17Seq(n int) []int {
	r := make([]int, n)
	for i := range r {
		r[i] = i + 1
	}
	return r
}

func c17PathStrs(ps [][]string) []string {
	var r []string
	for _, p := range ps {
		r = append(r, strings.Join(p, "."))
	}
	return r
}

// ---------------------------------------------------------------- leaf family

type c17Family struct {
	tag    string
	res    []string
	sels   func(ng int) [][]int
	values []string
	number bool
	extra  bool
	modes  []c17Mode // nil = all of c17Modes
}

var c17Modes = []c17Mode{
	{name: "mask0"},
	{name: "mask1", mc: 1},
	{name: "mask2", mc: 2},
	{name: "replace", word: "XY"},
	{name: "cut", cut: true},
}

const (
	c17CardRe  = `\b(\d{1,4})\D?(\d{1,4})\D?(\d{1,4})\D?(\d{1,4})\b`
	c17Card2Re = `\b(\d{4})\s?\-?(\d{4})\s?\-?(\d{4})\s?\-?(\d{4})\b`
	c17IDRe    = `[А-Я][а-я]{1,64}(\-[А-Я][а-я]{1,64})?\s+[А-Я][а-я]{1,64}(\.)?\s+[А-Я][а-я]{1,64}`
	c17MailRe  = `([a-z0-9]+@[a-z0-9]+\.[a-z]+)`
	c17PhoneRe = `(\+?\d)[ -]?\(?(\d{3})\)?[ -]?(\d{3})-?(\d{2})-?(\d{2})`
)

func c17Families(thorough bool) []c17Family {
	abc := []string{"a", "b", "é"}
	core := []string{`(a)(b)`, `((a)b)`, `(a)|(b)`, `a(b)?`, `(a*)`, `(é)`, `()`, `(?:(a)|(b))*`, `(a(b*))`,
		`(.)(.)`, `(a|é)+`, `a`, `(b)?(a)`, `(a)(é)?`}
	three := []string{`(a)(b)?(é)`, `((a)(b))`, `(a)|(b)|(é)`, `(?:(a)|(b)|(é))*`, `((a)|(b))+`}
	num := []string{`(1)(2)`, `((1)2)`, `(1)|(2)`, `1(2)?`, `(1*)`, `()`, `(?:(1)|(2))*`, `(\d)\.(\d)`, `(-)?(1)`}
	numVals := append(c17Strings([]string{"1", "2"}, 1, 4), "1.2", "2.1", "12.1", "1.21", "-1", "-12", "-2.1", "1e2", "0", "0.1")
	shapeVals := []string{
		"5408-7430-0756-2004", "1234", "card 1234 5678 9012 3456 end", "12 34", "5408743007562004",
		"4445-2222-3333-4444 и 5408-7430-0756-2004", "Иванов 1234-5678", "no digits here", "1-2-3",
		"Иванов Иван Иванович", "Иванов-Петров И. Иванович c картой 4445-2222-3333-4444", "user@example.com и é",
		"+7 (999) 123-45-67", "89991234567 звонить после 18",
	}
	shapeSel := func(ng int) [][]int {
		r := [][]int{{0}}
		for g := 1; g <= ng; g++ {
			r = append(r, []int{g})
		}
		if ng >= 2 {
			r = append(r, []int{1, 2}, []int{2, 1})
		}
		if ng >= 4 {
			r = append(r, []int{1, 2, 3}, []int{1, 2, 3, 4}, []int{4, 3, 2, 1}, []int{1, 3}, []int{2, 4, 3})
		}
		if ng >= 5 {
			r = append(r, []int{1, 2, 3, 4, 5}, []int{2, 3})
		}
		return r
	}
	fams := []c17Family{
		{tag: "core<=4", res: core, sels: c17Selections, values: c17Strings(abc, 0, 4)},
		{tag: "number", res: num, sels: c17Selections, values: numVals, number: true},
		{tag: "shapes", res: []string{c17CardRe, c17Card2Re, c17IDRe, c17MailRe, c17PhoneRe}, sels: shapeSel, values: shapeVals},
		// anchors and top-level alternation: a leading ^ or \A (binding to the first branch only), a trailing $,
		// (?m)^ where every line start matches -- how often such an expression matches is the engine's business
		{tag: "anchors", res: []string{`^(a)`, `\A(a)`, `^(a)|(b)`, `\A(a)|é(b)`, `^(a)$|b(a)`, `(a)$`, `^(a)$`, `^(a)?(b)`, `^(?:(a)|(b))`},
			sels: c17Selections, values: c17Strings(abc, 0, 4), modes: []c17Mode{{name: "mask0"}, {name: "replace", word: "XY"}}},
		{tag: "anchors-multiline", res: []string{`(?m)^(a)`, `(?m)^(a)|(b)$`, `(?m)(a)$`, `^(a)|\n(b)`},
			sels: c17Selections, values: c17Strings([]string{"a", "b", "\n"}, 0, 4), modes: []c17Mode{{name: "mask1", mc: 1}, {name: "cut", cut: true}}},
		{tag: "three<=4", res: three, sels: c17Selections, values: c17Strings(abc, 0, 4), extra: true},
		{tag: "core5", res: core, sels: c17Selections, values: c17Strings(abc, 5, 5), extra: true},
	}
	if thorough {
		fams = append(fams,
			c17Family{tag: "core6", res: core, sels: c17Selections, values: c17Strings(abc, 6, 6), extra: true},
			c17Family{tag: "three5", res: three, sels: c17Selections, values: c17Strings(abc, 5, 5), extra: true},
		)
	}
	return fams
}

// ---------------------------------------------------------------- the test

func TestVerifC17(t *testing.T) {
	outPath := os.Getenv("VERIF_OUT")
	if outPath == "" {
		t.Skip("VERIF_OUT not set")
	}
	thorough := os.Getenv("VERIF_TIER") == "thorough"
	// --replay: execute only the records whose origin key is listed (all families enabled)
	var replay map[string]bool
	if rp := os.Getenv("VERIF_C17_REPLAY"); rp != "" {
		b, err := os.ReadFile(rp)
		if err != nil {
			t.Fatal(err)
		}
		var keys []string
		if err := json.Unmarshal(b, &keys); err != nil {
			t.Fatal(err)
		}
		replay = map[string]bool{}
		for _, k := range keys {
			replay[k] = true
		}
		thorough = true
	}
	seed, _ := strconv.ParseInt(os.Getenv("VERIF_SEED"), 10, 64)
	rng := rand.New(rand.NewSource(seed*7919 + 17))
	// fraction of the extended family executed in the quick tier (seeded sample)
	extraFrac := 1.0
	if !thorough {
		extraFrac = 0.04
	}
	if s := os.Getenv("VERIF_C17_EXTRA_FRAC"); s != "" {
		extraFrac, _ = strconv.ParseFloat(s, 64)
	}

	if err := os.MkdirAll(outPath, 0o755); err != nil {
		t.Fatal(err)
	}
	fi, err := os.Create(outPath + "/c17_info.ndjson")
	if err != nil {
		t.Fatal(err)
	}
	perFile := 60000
	if s := os.Getenv("VERIF_C17_PER_FILE"); s != "" {
		perFile, _ = strconv.Atoi(s)
	}
	w := &c17Writer{dir: outPath, perFile: perFile, info: bufio.NewWriterSize(fi, 1<<20), seen: map[[16]byte]struct{}{}}
	sum := &c17Summary{SkipWhy: map[string]int{}, ByFam: map[string]int{}}

	c17RunLeaves(w, sum, rng, thorough, extraFrac, replay)
	c17RunEvents(w, sum, rng, thorough, replay)
	c17RunDoIfOrder(w, sum, replay)
	c17RunManyMasks(w, sum, replay)
	c17RunNumericKeys(w, sum, replay)
	c17RunSequences(w, sum, replay)
	c17RunRuleValues(w, sum, replay)
	c17RunStress(w, sum, rng, thorough, replay)

	w.closeCur()
	if err := w.info.Flush(); err != nil {
		t.Fatal(err)
	}
	fi.Close()
	sum.Unique, sum.Files = w.unique, w.files
	if sp := os.Getenv("VERIF_SUMMARY"); sp != "" {
		b, _ := json.Marshal(sum)
		if err := os.WriteFile(sp, b, 0o644); err != nil {
			t.Fatal(err)
		}
	}
}

func c17RunLeaves(w *c17Writer, sum *c17Summary, rng *rand.Rand, thorough bool, extraFrac float64, replay map[string]bool) {
	root := insaneJSON.Spawn()
	defer insaneJSON.Release(root)
	for _, fam := range c17Families(thorough) {
		for _, reStr := range fam.res {
			re0, err := regexp.Compile(reStr)
			if err != nil {
				panic(err)
			}
			for _, sel := range fam.sels(re0.NumSubexp()) {
				modes := c17Modes
				if fam.modes != nil {
					modes = fam.modes
				}
				for _, md := range modes {
					conf := &Config{
						MaskAppliedField: "ap",
						MaskAppliedValue: "1",
						Masks: []Mask{{
							Re: reStr, Groups: append([]int{}, sel...), MaxCount: md.mc, ReplaceWord: md.word, CutValues: md.cut,
							AppliedField: "am", AppliedValue: "1", MetricName: "c17_mask_metric",
						}},
					}
					sum.Configs++
					p, rej := c17Start(conf)
					if p == nil {
						sum.Skipped++
						sum.SkipWhy[rej]++
						continue
					}
					for _, val := range fam.values {
						key := fmt.Sprintf("L|%s|%s|%v|%s|%s", fam.tag, reStr, sel, md.name, val)
						if replay != nil {
							if !replay[key] {
								continue
							}
						} else if fam.extra {
							sum.ExtraAll++
							if extraFrac < 1 && rng.Float64() >= extraFrac {
								continue
							}
							sum.ExtraKept++
						}
						var doc string
						if fam.number {
							doc = `{"k":` + val + `}`
						} else {
							doc = `{"k":"` + strings.ReplaceAll(val, "\n", `\n`) + `"}`
						}
						if err := root.DecodeString(doc); err != nil {
							sum.SkipWhy["undecodable value "+val]++
							continue
						}
						leaf := root.Dig("k")
						if (fam.number && !leaf.IsNumber()) || (!fam.number && !leaf.IsString()) {
							sum.SkipWhy["value not of the intended kind "+val]++
							continue
						}
						vb := append([]byte{}, leaf.AsBytes()...)
						rec := c17Leaf{
							K: "L", GC: sel, G: append([]int{}, p.config.Masks[0].Groups...),
							Mode: md.tag(), MC: md.mc, Word: c17Ints([]byte(md.word)), LK: c17Kind(leaf),
							Val: c17Ints(vb), CW: c17Widths(vb), T: c17Table(p.config.Masks[0].Re_, vb),
							Out: []int{}, Keys: []string{}, PB: []int{},
						}
						info := c17Info{Key: key, Re: reStr, Fam: fam.tag, Val: val}
						m0, mm0 := c17Met(p), c17MaskMet(p, 0)
						ev := &pipeline.Event{Root: root}
						pmsg, panicked := c17Do(p, ev)
						if panicked {
							rec.Res, info.Pmsg = "panic", pmsg
							rec.PC, rec.PB = c17PanicClass(pmsg)
							sum.Panics++
							// the plugin's buffers may be inconsistent after a panic: take a fresh one
							p, _ = c17Start(conf)
						} else {
							rec.Res = "ok"
							after := root.Dig("k")
							if after == nil {
								rec.OK = "missing"
							} else {
								rec.OK = c17Kind(after)
								if rec.OK == "o" {
									rec.Out = c17Ints(after.EncodeToByte())
								} else {
									rec.Out = c17Ints(append([]byte{}, after.AsBytes()...))
								}
							}
							for _, fn := range root.AsFields() {
								rec.Keys = append(rec.Keys, fn.AsString())
							}
							rec.Met, rec.MMet = c17Met(p)-m0, c17MaskMet(p, 0)-mm0
						}
						if len(rec.T) > 0 {
							sum.Matched++
						}
						sum.Leaf++
						sum.ByFam[fam.tag]++
						w.put(&rec, info)
					}
				}
			}
		}
	}
}

// ---------------------------------------------------------------- events (trees)

type c17MaskT struct {
	re    string
	g     []int
	md    c17Mode
	rules matchrule.RuleSets
}

func c17RuleDesc(rs matchrule.RuleSets) []c17RuleSet {
	out := []c17RuleSet{}
	for _, s := range rs {
		d := c17RuleSet{Cond: "and", Rules: []c17Rule{}}
		if s.Cond == matchrule.CondOr {
			d.Cond = "or"
		}
		for _, r := range s.Rules {
			rd := c17Rule{Inv: r.Invert, CI: r.CaseInsensitive, Vals: [][]int{}}
			switch r.Mode {
			case matchrule.ModePrefix:
				rd.Mode = "prefix"
			case matchrule.ModeSuffix:
				rd.Mode = "suffix"
			default:
				rd.Mode = "contains"
			}
			for _, v := range r.Values {
				rd.Vals = append(rd.Vals, c17Ints([]byte(v)))
			}
			d.Rules = append(d.Rules, rd)
		}
		out = append(out, d)
	}
	return out
}

func c17CopyRules(rs matchrule.RuleSets) matchrule.RuleSets {
	var out matchrule.RuleSets
	for _, s := range rs {
		c := matchrule.RuleSet{Name: s.Name, Cond: s.Cond}
		for _, r := range s.Rules {
			c.Rules = append(c.Rules, matchrule.Rule{Values: append([]string{}, r.Values...), Mode: r.Mode, Invert: r.Invert,
				CaseInsensitive: r.CaseInsensitive})
		}
		out = append(out, c)
	}
	return out
}

type c17ListChoice struct {
	kind  string // "", "proc", "ign"
	paths [][]string
}

func (m c17MaskT) toMask(i int, lc c17ListChoice) Mask {
	mk := Mask{
		Re: m.re, Groups: append([]int{}, m.g...), MaxCount: m.md.mc, ReplaceWord: m.md.word, CutValues: m.md.cut,
		MatchRules: c17CopyRules(m.rules), AppliedField: "am" + strconv.Itoa(i), AppliedValue: "1",
		MetricName: "c17_mask_metric_" + strconv.Itoa(i),
	}
	switch lc.kind {
	case "proc":
		mk.ProcessFields = c17PathStrs(lc.paths)
	case "ign":
		mk.IgnoreFields = c17PathStrs(lc.paths)
	}
	return mk
}

// midCache: the real result of one mask alone (no lists, no rules) on one leaf value
type c17MidKey struct {
	mask int
	kind string
	val  string
}

func c17RunEvents(w *c17Writer, sum *c17Summary, rng *rand.Rand, thorough bool, replay map[string]bool) {
	mAst := c17Mode{name: "mask0"}
	mAst1 := c17Mode{name: "mask1", mc: 1}
	mRep := c17Mode{name: "replace", word: "XY"}
	mCut := c17Mode{name: "cut", cut: true}
	pool := []c17MaskT{
		{re: `(a)`, g: []int{1}, md: mAst},       // 0
		{re: `(b)`, g: []int{1}, md: mRep},       // 1
		{re: `a(b)`, g: []int{1}, md: mCut},      // 2
		{re: `(1)`, g: []int{1}, md: mAst1},      // 3
		{re: `(a)(b)`, g: []int{1, 2}, md: mAst}, // 4
		{re: `(é+)`, g: []int{0}, md: mAst1},     // 5
	}
	P := func(s ...string) [][]string {
		var r [][]string
		for _, x := range s {
			r = append(r, strings.Split(x, "."))
		}
		return r
	}
	pathPool := [][][]string{P("a"), P("b"), P("b.c"), P("b.d"), P("b.d.0"), P("b.d.4.e"), P("n"), P("a", "b.c"), P("zz"), P("b.d.1", "n")}
	smallPool := [][][]string{P("b"), P("b.c"), P("a", "b.d"), P("n", "b.d.4")}
	listChoices := func(pp [][][]string) []c17ListChoice {
		r := []c17ListChoice{{}}
		for _, p := range pp {
			r = append(r, c17ListChoice{"proc", p}, c17ListChoice{"ign", p})
		}
		return r
	}
	rule := func(mode matchrule.Mode, inv bool, vals ...string) matchrule.Rule {
		return matchrule.Rule{Values: vals, Mode: mode, Invert: inv}
	}
	rulePool := []matchrule.RuleSets{
		{{Cond: matchrule.CondAnd, Rules: []matchrule.Rule{rule(matchrule.ModePrefix, false, "a")}}},
		{{Cond: matchrule.CondAnd, Rules: []matchrule.Rule{rule(matchrule.ModeSuffix, false, "b", "éa")}}},
		{{Cond: matchrule.CondAnd, Rules: []matchrule.Rule{rule(matchrule.ModeContains, true, "é")}}},
		{{Cond: matchrule.CondAnd, Rules: []matchrule.Rule{rule(matchrule.ModePrefix, false, "a", "é"), rule(matchrule.ModeSuffix, true, "b")}}},
		{{Cond: matchrule.CondOr, Rules: []matchrule.Rule{rule(matchrule.ModePrefix, false, "b"), rule(matchrule.ModeContains, false, "ab")}}},
		{{Cond: matchrule.CondAnd, Rules: []matchrule.Rule{rule(matchrule.ModePrefix, false, "ab")}},
			{Cond: matchrule.CondOr, Rules: []matchrule.Rule{rule(matchrule.ModeSuffix, false, "ba"), rule(matchrule.ModeContains, false, "2")}}},
	}
	docs := []string{
		`{"a":"ab","b":{"c":"ba","d":["éab",12,true,null,{"e":"ab"}]},"n":21,"z":"","t":false}`,
		`{"a":"ba","b":{"c":"bb","d":["a",21,false,null,{"e":"éé"}]},"n":12,"z":"","t":true}`,
		`{"a":"éé","b":{"c":"abab","d":["bb",2,true,null,{"e":"ba"}]},"n":1.21,"z":"","t":null}`,
		`{"a":"aab","b":{"c":"é","d":["ab",112,true,{},{"e":"b"}]},"n":-12,"z":[],"t":"ab"}`,
		`{"b":{"d":[["ab","ba"],121,"ab",null,{"e":"ab","f":{"g":"ab"}}],"c":{"c":"ab"}},"a":["ab",{"a":"ba"}],"n":"12"}`,
	}

	type evCfg struct {
		masks []int
		lists []c17ListChoice
		glob  c17ListChoice
		rules []int // index into rulePool per mask, -1 none
		extra bool
	}
	var cfgs []evCfg
	// one mask x global lists
	for mi := range pool {
		for _, gl := range listChoices(pathPool) {
			cfgs = append(cfgs, evCfg{masks: []int{mi}, lists: []c17ListChoice{{}}, glob: gl, rules: []int{-1}})
		}
		// one mask x its own list
		for _, ml := range listChoices(pathPool)[1:] {
			cfgs = append(cfgs, evCfg{masks: []int{mi}, lists: []c17ListChoice{ml}, rules: []int{-1}})
		}
	}
	// one mask x match rules (x a global list)
	for _, mi := range []int{0, 1, 4} {
		for ri := range rulePool {
			for _, gl := range []c17ListChoice{{}, {"proc", P("b")}, {"ign", P("b.d")}} {
				cfgs = append(cfgs, evCfg{masks: []int{mi}, lists: []c17ListChoice{{}}, glob: gl, rules: []int{ri}})
			}
		}
	}
	// rule-only mask (no regexp): "applied" follows the rules alone
	for ri := range rulePool {
		cfgs = append(cfgs, evCfg{masks: []int{-1}, lists: []c17ListChoice{{}}, rules: []int{ri}})
	}
	// two masks x per-mask lists x global list
	// (pairs whose replacements could be mistaken for one another -- both asterisks -- are not chained)
	pairs := [][]int{{0, 1}, {1, 0}, {1, 3}, {2, 1}, {1, 5}, {1, 2}}
	for _, pr := range pairs {
		for _, l1 := range listChoices(smallPool) {
			for _, l2 := range listChoices(smallPool) {
				for _, gl := range listChoices(smallPool) {
					cfgs = append(cfgs, evCfg{masks: pr, lists: []c17ListChoice{l1, l2}, glob: gl, rules: []int{-1, -1}, extra: true})
				}
			}
		}
	}

	mids := map[c17MidKey][]byte{}
	midPlugins := map[int]*Plugin{}
	midOf := func(mi int, kind string, val []byte) []byte {
		k := c17MidKey{mi, kind, string(val)}
		if r, ok := mids[k]; ok {
			return r
		}
		p := midPlugins[mi]
		if p == nil {
			var rej string
			p, rej = c17Start(&Config{Masks: []Mask{pool[mi].toMask(0, c17ListChoice{})}})
			if p == nil {
				panic("mid plugin rejected: " + rej)
			}
			midPlugins[mi] = p
		}
		r := insaneJSON.Spawn()
		defer insaneJSON.Release(r)
		doc := `{"k":"` + string(val) + `"}`
		if kind == "n" {
			doc = `{"k":` + string(val) + `}`
		}
		if err := r.DecodeString(doc); err != nil {
			panic(err)
		}
		if _, panicked := c17Do(p, &pipeline.Event{Root: r}); panicked {
			delete(midPlugins, mi)
			mids[k] = nil
			return nil
		}
		res := append([]byte{}, r.Dig("k").AsBytes()...)
		mids[k] = res
		return res
	}

	quickFrac := 0.06
	root := insaneJSON.Spawn()
	defer insaneJSON.Release(root)
	for ci, ec := range cfgs {
		if replay != nil {
			any := false
			for di := range docs {
				any = any || replay[fmt.Sprintf("E|%d|%d", ci, di)]
			}
			if !any {
				continue
			}
		} else if ec.extra && !thorough && rng.Float64() >= quickFrac {
			continue
		}
		conf := &Config{MaskAppliedField: "ap", MaskAppliedValue: "1"}
		var descs []c17MaskDesc
		for i, mi := range ec.masks {
			var mt c17MaskT
			if mi >= 0 {
				mt = pool[mi]
			}
			if ec.rules[i] >= 0 {
				mt.rules = rulePool[ec.rules[i]]
			}
			mk := mt.toMask(i, ec.lists[i])
			conf.Masks = append(conf.Masks, mk)
		}
		switch ec.glob.kind {
		case "proc":
			conf.ProcessFields = c17PathStrs(ec.glob.paths)
		case "ign":
			conf.IgnoreFields = c17PathStrs(ec.glob.paths)
		}
		sum.Configs++
		cb, _ := json.Marshal(struct {
			P, I []string
			M    []Mask
		}{conf.ProcessFields, conf.IgnoreFields, conf.Masks})
		confStr := string(cb)
		p, rej := c17Start(conf)
		if p == nil {
			sum.Skipped++
			sum.SkipWhy[rej]++
			continue
		}
		for i := range p.config.Masks {
			m := &p.config.Masks[i]
			d := c17MaskDesc{HasRe: m.Re != "", G: append([]int{}, m.Groups...), MC: m.MaxCount,
				Word: c17Ints([]byte(m.ReplaceWord)), Proc: [][]string{}, Ign: [][]string{}, AF: m.AppliedField, HM: m.MetricName != "",
				DoIf: []c17Cond{}}
			switch {
			case m.CutValues:
				d.Mode = "cut"
			case m.ReplaceWord != "":
				d.Mode = "replace"
			default:
				d.Mode = "mask"
			}
			switch ec.lists[i].kind {
			case "proc":
				d.Proc = ec.lists[i].paths
			case "ign":
				d.Ign = ec.lists[i].paths
			}
			var rs matchrule.RuleSets
			if ec.rules[i] >= 0 {
				rs = rulePool[ec.rules[i]]
			}
			d.Rules = c17RuleDesc(rs)
			descs = append(descs, d)
		}
		for di, doc := range docs {
			key := fmt.Sprintf("E|%d|%d", ci, di)
			if replay != nil && !replay[key] {
				continue
			}
			if err := root.DecodeString(doc); err != nil {
				panic(err)
			}
			rec := c17Event{K: "E", GProc: [][]string{}, GIgn: [][]string{}, Masks: descs, AF: "ap", IM: c17Seq(len(descs)),
				After: []c17FLeaf{}, MMet: []int{}, PB: []int{}}
			info := c17Info{Key: key, Src: doc, Conf: confStr}
			switch ec.glob.kind {
			case "proc":
				rec.GProc = ec.glob.paths
			case "ign":
				rec.GIgn = ec.glob.paths
			}
			rec.Before = c17Flatten(root.Node, []string{}, nil)
			usable := true
			for li := range rec.Before {
				lf := &rec.Before[li]
				lf.MI = []c17MI{}
				if lf.T == "o" {
					continue
				}
				vb := make([]byte, len(lf.V))
				for i, x := range lf.V {
					vb[i] = byte(x)
				}
				for i := range p.config.Masks {
					mi := c17MI{Tb: [][]int{}, Mid: []int{}, CWm: []int{}, Tm: [][]int{}}
					if re := p.config.Masks[i].Re_; re != nil {
						mi.Tb = c17Table(re, vb)
						if i == 1 && ec.masks[0] >= 0 {
							mid := midOf(ec.masks[0], lf.T, vb)
							if mid == nil {
								usable = false
							}
							mi.Mid, mi.CWm, mi.Tm = c17Ints(mid), c17Widths(mid), c17Table(re, mid)
						}
					}
					lf.MI = append(lf.MI, mi)
				}
			}
			if !usable {
				sum.SkipWhy["intermediate value unavailable"]++
				continue
			}
			m0 := c17Met(p)
			mm0 := make([]int, len(p.config.Masks))
			for i := range mm0 {
				mm0[i] = c17MaskMet(p, i)
			}
			pmsg, panicked := c17Do(p, &pipeline.Event{Root: root})
			if panicked {
				rec.Res, info.Pmsg = "panic", pmsg
				rec.PC, rec.PB = c17PanicClass(pmsg)
				sum.Panics++
				p, _ = c17Start(conf)
			} else {
				rec.Res = "ok"
				rec.After = c17Flatten(root.Node, []string{}, nil)
				for li := range rec.After {
					rec.After[li].MI = []c17MI{}
				}
				rec.Met = c17Met(p) - m0
				for i := range mm0 {
					rec.MMet = append(rec.MMet, c17MaskMet(p, i)-mm0[i])
				}
			}
			sum.Events++
			w.put(&rec, info)
		}
	}
}

// ---------------------------------------------------------------- stress: instances sharing one config

// A pipeline creates one plugin instance per processor (Factory()) and hands every instance the SAME
// config object (pipeline/processor.go start()); the processors then run Do concurrently on different
// events.  This family does the same with masks guarded by do_if: N real instances are started on ONE
// *Config and run in goroutines for a bounded time over events whose do_if outcomes alternate.  Every Do is
// an execution; executions of the same (config, event) with the same outcome are logged once (with their
// number), every distinct outcome becomes an "E" record and is judged by TLC for THAT event alone (masked
// iff its own do_if holds, marks and metrics likewise).  On correct code there is exactly one outcome per
// event, so the family cannot raise a false alarm; whether a sharing bug shows depends on the interleaving
// (detection is probabilistic).

func c17CondEq(field string, vals ...string) (map[string]any, c17Cond) {
	return c17CondField("equal", field, vals...)
}

// c17CondField: op = equal | prefix | suffix | contains
func c17CondField(op, field string, vals ...string) (map[string]any, c17Cond) {
	vs := []any{}
	c := c17Cond{Op: op, Field: strings.Split(field, "."), Vals: [][]int{}, Args: []c17Cond{}}
	for _, v := range vals {
		vs = append(vs, v)
		c.Vals = append(c.Vals, c17Ints([]byte(v)))
	}
	return map[string]any{"op": op, "field": field, "values": vs}, c
}

func c17CondLogic(op string, ms []map[string]any, cs []c17Cond) (map[string]any, c17Cond) {
	ops := []any{}
	for _, m := range ms {
		ops = append(ops, m)
	}
	return map[string]any{"op": op, "operands": ops},
		c17Cond{Op: op, Field: []string{}, Vals: [][]int{}, Args: cs}
}

type c17StressMask struct {
	mask Mask
	cond []c17Cond
	proc [][]string
	ign  [][]string
}

// c17StressDescs describes the masks of a started plugin for the specification
func c17StressDescs(p0 *Plugin, sm []c17StressMask) []c17MaskDesc {
	var descs []c17MaskDesc
	for i := range p0.config.Masks {
		m := &p0.config.Masks[i]
		d := c17MaskDesc{HasRe: m.Re != "", G: append([]int{}, m.Groups...), MC: m.MaxCount,
			Word: c17Ints([]byte(m.ReplaceWord)), Proc: [][]string{}, Ign: [][]string{}, AF: m.AppliedField, HM: m.MetricName != "",
			DoIf: sm[i].cond, Rules: c17RuleDesc(m.MatchRules)}
		switch {
		case m.CutValues:
			d.Mode = "cut"
		case m.ReplaceWord != "":
			d.Mode = "replace"
		default:
			d.Mode = "mask"
		}
		if sm[i].proc != nil {
			d.Proc = sm[i].proc
		}
		if sm[i].ign != nil {
			d.Ign = sm[i].ign
		}
		descs = append(descs, d)
	}
	return descs
}

// c17StressBefore flattens the decoded event and attaches, per maskable leaf and mask, the regexp's table on
// the leaf and (second mask) the real result of the first mask alone on it together with the table on that
func c17StressBefore(p0 *Plugin, sm []c17StressMask, root *insaneJSON.Root) []c17FLeaf {
	im := []int{0}
	if len(sm) > 1 {
		im = []int{0, 1}
	}
	return c17BeforeIM(p0, sm, root, im)
}

// c17BeforeIM: im = positions (0-based) of the masks that may match; all other masks are expected to be silent,
// their tables (on the leaf and on the first matching mask's result) are logged all the same.
func c17BeforeIM(p0 *Plugin, sm []c17StressMask, root *insaneJSON.Root, im []int) []c17FLeaf {
	bf := c17Flatten(root.Node, []string{}, nil)
	var midPlugin *Plugin
	for li := range bf {
		lf := &bf[li]
		lf.MI = []c17MI{}
		if lf.T == "o" {
			continue
		}
		vb := make([]byte, len(lf.V))
		for i, x := range lf.V {
			vb[i] = byte(x)
		}
		// the real result of the first matching mask alone (no do_if, no lists, no rules) on this leaf
		var mid []byte
		first := im[0]
		if first < len(p0.config.Masks)-1 && p0.config.Masks[first].Re_ != nil {
			if midPlugin == nil {
				m0 := sm[first].mask
				m0.DoIfCheckerMap, m0.ProcessFields, m0.IgnoreFields, m0.MatchRules = nil, nil, nil, nil
				mp, rej := c17Start(&Config{Masks: []Mask{m0}})
				if mp == nil {
					panic("intermediate plugin rejected: " + rej)
				}
				midPlugin = mp
			}
			r2 := insaneJSON.Spawn()
			d2 := `{"k":"` + string(vb) + `"}`
			if lf.T == "n" {
				d2 = `{"k":` + string(vb) + `}`
			}
			if err := r2.DecodeString(d2); err != nil {
				panic(err)
			}
			if _, panicked := c17Do(midPlugin, &pipeline.Event{Root: r2}); panicked {
				panic("intermediate value unavailable")
			}
			mid = append([]byte{}, r2.Dig("k").AsBytes()...)
			insaneJSON.Release(r2)
		}
		for i := range p0.config.Masks {
			mi := c17MI{Tb: [][]int{}, Mid: []int{}, CWm: []int{}, Tm: [][]int{}}
			if re := p0.config.Masks[i].Re_; re != nil {
				mi.Tb = c17Table(re, vb)
				if i > first && mid != nil {
					mi.Tm = c17Table(re, mid)
					if len(im) > 1 && i == im[1] {
						mi.Mid, mi.CWm = c17Ints(mid), c17Widths(mid)
					}
				}
			}
			lf.MI = append(lf.MI, mi)
		}
	}
	return bf
}

type c17Outcome struct {
	after []c17FLeaf
	res   string
	pmsg  string
	met   int
	mmet  []int
	n     int
}

func c17RunStress(w *c17Writer, sum *c17Summary, rng *rand.Rand, thorough bool, replay map[string]bool) {
	const instances = 4
	dur := 350 * time.Millisecond
	if thorough {
		dur = 2500 * time.Millisecond
	}
	if s := os.Getenv("VERIF_C17_STRESS_MS"); s != "" {
		ms, _ := strconv.Atoi(s)
		dur = time.Duration(ms) * time.Millisecond
	}
	sum.StressMs = int(dur / time.Millisecond)

	eqS, eqSd := c17CondEq("lvl", "s")
	eqT, eqTd := c17CondEq("lvl", "t", "tt")
	notS, notSd := c17CondLogic("not", []map[string]any{eqS}, []c17Cond{eqSd})
	orST, orSTd := c17CondLogic("or", []map[string]any{eqS, eqT}, []c17Cond{eqSd, eqTd})
	eqN, eqNd := c17CondEq("b.lvl", "s")
	rules := matchrule.RuleSets{{Cond: matchrule.CondOr, Rules: []matchrule.Rule{
		{Values: []string{"a"}, Mode: matchrule.ModePrefix}, {Values: []string{"éa"}, Mode: matchrule.ModeSuffix}}}}
	P := func(s ...string) [][]string {
		var r [][]string
		for _, x := range s {
			r = append(r, strings.Split(x, "."))
		}
		return r
	}
	mk := func(re string, g []int, md c17Mode, doif map[string]any) Mask {
		return Mask{Re: re, Groups: g, MaxCount: md.mc, ReplaceWord: md.word, CutValues: md.cut, DoIfCheckerMap: doif}
	}
	mAst, mRep, mCut := c17Mode{name: "mask0"}, c17Mode{name: "replace", word: "XY"}, c17Mode{name: "cut", cut: true}
	configs := [][]c17StressMask{
		// one mask guarded by do_if
		{{mask: mk(`(a)(b)`, []int{1, 2}, mAst, eqS), cond: []c17Cond{eqSd}}},
		// two masks with opposite conditions
		{{mask: mk(`(a)`, []int{1}, mAst, eqS), cond: []c17Cond{eqSd}},
			{mask: mk(`(b)`, []int{1}, mRep, notS), cond: []c17Cond{notSd}}},
		// do_if (or) + match rules
		{{mask: func() Mask { m := mk(`(a)`, []int{0}, mRep, orST); m.MatchRules = c17CopyRules(rules); return m }(), cond: []c17Cond{orSTd}}},
		// do_if on a nested field + the mask's own process list; a second mask without do_if
		{{mask: func() Mask { m := mk(`a(b)`, []int{1}, mCut, eqN); m.ProcessFields = []string{"b"}; return m }(), cond: []c17Cond{eqNd}, proc: P("b")},
			{mask: mk(`(é+)`, []int{0}, c17Mode{name: "mask1", mc: 1}, nil), cond: []c17Cond{}}},
	}
	docs := []string{
		`{"lvl":"s","m":"ab","b":{"lvl":"p","c":"abab","d":["éab",12]},"n":21}`,
		`{"lvl":"p","m":"ab","b":{"lvl":"s","c":"abab","d":["éab",12]},"n":21}`,
		`{"lvl":"t","m":"éa","b":{"lvl":"s","c":"ba","d":["ab",1]},"n":2}`,
		`{"m":"ab","b":{"c":"ab","d":["bab"]},"lvl2":"s"}`,
		`{"lvl":"s","m":"ba","b":{"lvl":"s","c":"éé","d":["a"]}}`,
		`{"lvl":"tt","m":"aab","b":{"lvl":"x","c":"ab","d":["abé"]}}`,
	}

	cfgDocs := make([][]string, len(configs))
	cfgOwn := make([]bool, len(configs))
	for i := range configs {
		cfgDocs[i] = docs
	}

	// ---- match rules shared by the instances (the RuleSet objects of a mask are the SAME objects for every
	// instance: mask.Start copies the Masks slice only).  Every instance is fed its OWN values (some satisfy the
	// rules, some do not, different lengths, key word in different cases and places), half of the time with
	// GOMAXPROCS(1).  The decision of a rule is a function of (rule, value) alone (MaskRules.tla).
	ruleDur := 500 * time.Millisecond
	if thorough {
		ruleDur = 3000 * time.Millisecond
	}
	if s := os.Getenv("VERIF_C17_RULE_STRESS_MS"); s != "" {
		ms, _ := strconv.Atoi(s)
		ruleDur = time.Duration(ms) * time.Millisecond
	}
	sum.RuleStressMs = int(ruleDur / time.Millisecond)
	R := func(mode matchrule.Mode, ci, inv bool, vals ...string) matchrule.Rule {
		return matchrule.Rule{Values: vals, Mode: mode, CaseInsensitive: ci, Invert: inv}
	}
	ruleSets := []matchrule.RuleSets{
		{{Cond: matchrule.CondAnd, Rules: []matchrule.Rule{R(matchrule.ModeContains, true, false, "abBA:")}}},
		{{Cond: matchrule.CondAnd, Rules: []matchrule.Rule{R(matchrule.ModeContains, true, false, "ABBA:", "nope"),
			R(matchrule.ModePrefix, true, true, "CD")}}},
		{{Cond: matchrule.CondOr, Rules: []matchrule.Rule{R(matchrule.ModeSuffix, true, false, "BBBB"),
			R(matchrule.ModeContains, false, false, "ABba:")}}},
		{{Cond: matchrule.CondAnd, Rules: []matchrule.Rule{R(matchrule.ModePrefix, false, false, "ABba:")}},
			{Cond: matchrule.CondAnd, Rules: []matchrule.Rule{R(matchrule.ModeContains, true, false, "abba:"),
				R(matchrule.ModeSuffix, false, true, "a")}}},
	}
	pad := func(n int) string { return strings.Repeat("ab é", n) }
	var ruleDocs []string
	for j := 0; j < 3*instances; j++ {
		kw := []string{"ABba:", "cdcd:", "abba:", "cDcd:", "aBBA:", "abab:"}[j%6]
		n := []int{40, 64, 52, 30, 70, 46, 58}[j%7]
		var v1, v2 string
		switch j % 3 {
		case 0: // key word first
			v1 = kw + " bbbbb " + pad(n)
			v2 = pad(n/2) + "a"
		case 1: // key word last
			v1 = pad(n) + " bbbb " + kw
			v2 = kw + "bbbb"
		default: // key word in the middle, secret at the end
			v1 = pad(n/2) + kw + pad(n/2) + "bbbb"
			v2 = "bbb " + pad(n/3) + kw
		}
		ruleDocs = append(ruleDocs, `{"k":"`+v1+`","o":{"v":"`+v2+`","n":`+strconv.Itoa(j)+`}}`)
	}
	for _, rs := range ruleSets {
		m := mk(`(bbb+)`, []int{1}, mAst, nil)
		m.MatchRules = c17CopyRules(rs)
		configs = append(configs, []c17StressMask{{mask: m, cond: []c17Cond{}}})
		cfgDocs = append(cfgDocs, ruleDocs)
		cfgOwn = append(cfgOwn, true)
	}

	for ci, sm := range configs {
		docs := cfgDocs[ci]
		own := cfgOwn[ci]
		if replay != nil {
			any := false
			for di := range docs {
				any = any || replay[fmt.Sprintf("X|%d|%d", ci, di)]
			}
			if !any {
				continue
			}
		}
		conf := &Config{MaskAppliedField: "ap", MaskAppliedValue: "1"}
		for i := range sm {
			m := sm[i].mask
			m.AppliedField, m.AppliedValue = "am"+strconv.Itoa(i), "1"
			m.MetricName = "c17_mask_metric_" + strconv.Itoa(i)
			conf.Masks = append(conf.Masks, m)
		}
		cb, _ := json.Marshal(conf.Masks)
		confStr := "shared by " + strconv.Itoa(instances) + " instances: " + string(cb)
		sum.Configs++
		// ONE config object, N instances, exactly as the processors of a pipeline get them
		var shared pipeline.AnyConfig
		var plugins []*Plugin
		rejected := ""
		func() {
			defer func() {
				if r := recover(); r != nil {
					rejected = fmt.Sprint(r)
				}
			}()
			shared = test.NewConfig(conf, nil).(*Config)
			for i := 0; i < instances; i++ {
				pl, _ := factory()
				params := test.NewEmptyActionPluginParams()
				params.Logger = c17Logger()
				pl.(*Plugin).Start(shared, params)
				plugins = append(plugins, pl.(*Plugin))
			}
		}()
		if rejected != "" {
			sum.Skipped++
			sum.SkipWhy[rejected]++
			continue
		}
		p0 := plugins[0]
		descs := c17StressDescs(p0, sm)
		// the "before" half of the records, prepared single-threaded
		befores := make([][]c17FLeaf, len(docs))
		root := insaneJSON.Spawn()
		for di, doc := range docs {
			if err := root.DecodeString(doc); err != nil {
				panic(err)
			}
			bf := c17StressBefore(p0, sm, root)
			befores[di] = bf
		}
		insaneJSON.Release(root)

		// the concurrent phase
		outs := make([]map[string]*c17Outcome, instances) // per goroutine: "di|outcome" -> record
		for g := range outs {
			outs[g] = map[string]*c17Outcome{}
		}
		type phase struct {
			procs int // 0 = leave GOMAXPROCS alone
			dur   time.Duration
		}
		phases := []phase{{0, dur}}
		if own {
			phases = []phase{{0, ruleDur * 6 / 10}, {1, ruleDur * 4 / 10}}
		}
		var alternations, dropped, inflight, overlapped atomic.Int64
		const maxOutcomes = 40 // per goroutine and event
		nm := len(p0.config.Masks)
		for _, ph := range phases {
			prevProcs := 0
			if ph.procs > 0 {
				prevProcs = runtime.GOMAXPROCS(ph.procs)
			}
			var wg sync.WaitGroup
			var lastDoc atomic.Int64
			lastDoc.Store(-1)
			deadline := time.Now().Add(ph.dur)
			for g := 0; g < instances; g++ {
				wg.Add(1)
				lseed := rng.Int63()
				go func(g int, pl *Plugin, out map[string]*c17Outcome) {
					defer wg.Done()
					r := insaneJSON.Spawn()
					defer insaneJSON.Release(r)
					lrng := rand.New(rand.NewSource(lseed))
					mm0 := make([]int, nm)
					perDoc := make([]int, len(docs))
					for n := 0; ; n++ {
						if n%64 == 0 && time.Now().After(deadline) {
							return
						}
						di := (n + g) % len(docs)
						if n%7 == 0 {
							di = lrng.Intn(len(docs))
						}
						if own { // this instance's own values only
							di = g + instances*(di/instances)
						}
						if err := r.DecodeString(docs[di]); err != nil {
							panic(err)
						}
						m0 := c17Met(pl)
						for i := range mm0 {
							mm0[i] = c17MaskMet(pl, i)
						}
						if prev := lastDoc.Swap(int64(di)); prev >= 0 && prev != int64(di) {
							alternations.Add(1)
						}
						if inflight.Add(1) > 1 {
							overlapped.Add(1) // another instance is inside Do right now
						}
						pmsg, panicked := c17Do(pl, &pipeline.Event{Root: r})
						inflight.Add(-1)
						var key string
						oc := &c17Outcome{res: "ok", mmet: make([]int, nm)}
						if panicked {
							oc.res, oc.pmsg = "panic", pmsg
							key = fmt.Sprintf("%d|panic|%s", di, pmsg)
						} else {
							oc.met = c17Met(pl) - m0
							for i := range mm0 {
								oc.mmet[i] = c17MaskMet(pl, i) - mm0[i]
							}
							key = fmt.Sprintf("%d|%s|%d|%v", di, r.EncodeToString(), oc.met, oc.mmet)
						}
						if e, ok := out[key]; ok {
							e.n++
						} else if perDoc[di] >= maxOutcomes {
							// correct code has ONE outcome per event; a flood of different wrong outcomes (e.g. shared metric
							// counters) is cut here -- the ones already kept fail the specification anyway
							dropped.Add(1)
						} else {
							perDoc[di]++
							oc.n = 1
							if !panicked {
								oc.after = c17Flatten(r.Node, []string{}, nil)
								for li := range oc.after {
									oc.after[li].MI = []c17MI{}
								}
							}
							out[key] = oc
						}
						if panicked {
							return // the instance may be inconsistent; restarting it would race with the others
						}
					}
				}(g, plugins[g], outs[g])
			}
			wg.Wait()
			if ph.procs > 0 {
				runtime.GOMAXPROCS(prevProcs)
			}
		}
		sum.StressAlt += int(alternations.Load())
		sum.StressDrop += int(dropped.Load())
		if own {
			sum.RuleStressOverlap += int(overlapped.Load())
		}

		// one record per distinct (event, outcome)
		merged := map[string]*c17Outcome{}
		var order []string
		for g := range outs {
			for k, oc := range outs[g] {
				if e, ok := merged[k]; ok {
					e.n += oc.n
				} else {
					merged[k] = oc
					order = append(order, k)
				}
			}
		}
		sort.Strings(order)
		for _, k := range order {
			oc := merged[k]
			di, _ := strconv.Atoi(k[:strings.Index(k, "|")])
			rec := c17Event{K: "E", GProc: [][]string{}, GIgn: [][]string{}, Masks: descs, AF: "ap", IM: c17Seq(len(descs)),
				Before: befores[di], After: []c17FLeaf{}, MMet: []int{}, PB: []int{}, Res: oc.res}
			info := c17Info{Key: fmt.Sprintf("X|%d|%d", ci, di), Src: docs[di], Conf: confStr, Pmsg: oc.pmsg,
				Fam: fmt.Sprintf("stress: %d executions with this outcome", oc.n)}
			if oc.res == "panic" {
				rec.PC, rec.PB = c17PanicClass(oc.pmsg)
				sum.Panics++
			} else {
				rec.After, rec.Met, rec.MMet = oc.after, oc.met, oc.mmet
			}
			sum.Stress += oc.n
			sum.StressOut++
			if own {
				sum.RuleStress += oc.n
			}
			w.put(&rec, info)
		}
	}
}

// ---------------------------------------------------------------- do_if reads a field the plugin itself rewrites

// The decision of a mask's do_if belongs to the event as it arrived (mechanism M_DoIfOnOriginalEvent,
// specs/MaskDoIf.tla).  Here the condition of a mask reads a field that an earlier mask, a later mask or the mask
// itself rewrites, and the secrets sit before and after that field in document order: later key, nested object,
// array.  One real instance, ordinary "E" records: the specification evaluates do_if on the leaves BEFORE Do.
func c17RunDoIfOrder(w *c17Writer, sum *c17Summary, replay map[string]bool) {
	mAst, mRep, mCut := c17Mode{name: "mask0"}, c17Mode{name: "replace", word: "XY"}, c17Mode{name: "cut", cut: true}
	mk := func(re string, g []int, md c17Mode, doif map[string]any) Mask {
		return Mask{Re: re, Groups: g, MaxCount: md.mc, ReplaceWord: md.word, CutValues: md.cut, DoIfCheckerMap: doif}
	}
	type cnd struct {
		m map[string]any
		d c17Cond
	}
	C := func(m map[string]any, d c17Cond) cnd { return cnd{m, d} }
	not := func(c cnd) cnd { return C(c17CondLogic("not", []map[string]any{c.m}, []c17Cond{c.d})) }
	conds := []cnd{
		C(c17CondField("equal", "u", "ab")),        // destroyed by (a) and by (b)
		C(c17CondField("prefix", "u", "a")),        // destroyed by (a)
		C(c17CondField("suffix", "u", "b", "bé")),  // destroyed by (b)
		C(c17CondField("contains", "o.u", "ab")),   // nested field
		not(C(c17CondField("contains", "u", "*"))), // becomes false once (a) has written asterisks
		not(C(c17CondField("suffix", "o.u", "Y"))), // becomes false once (b) has written the word
		C(c17CondField("equal", "u", "ba", "bb")),  // a different set of events
	}
	var configs [][]c17StressMask
	for _, c := range conds {
		configs = append(configs,
			// mask 1 rewrites what mask 2's do_if reads
			[]c17StressMask{{mask: mk(`(a)`, []int{1}, mAst, nil), cond: []c17Cond{}},
				{mask: mk(`(b)`, []int{1}, mRep, c.m), cond: []c17Cond{c.d}}},
			// the guarded mask comes first: a later mask / the mask itself rewrites the field
			[]c17StressMask{{mask: mk(`(b)`, []int{1}, mRep, c.m), cond: []c17Cond{c.d}},
				{mask: mk(`(a)`, []int{1}, mAst, nil), cond: []c17Cond{}}},
			// one mask whose do_if reads a field it rewrites itself
			[]c17StressMask{{mask: mk(`(b)`, []int{1}, mRep, c.m), cond: []c17Cond{c.d}}},
			[]c17StressMask{{mask: mk(`(a)(b)`, []int{1, 2}, mAst, c.m), cond: []c17Cond{c.d}}},
			// both guarded
			[]c17StressMask{{mask: mk(`a(b)`, []int{1}, mCut, c.m), cond: []c17Cond{c.d}},
				{mask: mk(`(a)`, []int{0}, mRep, c.m), cond: []c17Cond{c.d}}},
		)
	}
	docs := []string{
		// the field read by do_if first, secrets after it (later key, nested object, array)
		`{"u":"ab","m":"bab","o":{"u":"ab","c":"ab","d":["ba",{"e":"b"},"a"]},"z":"abé"}`,
		// ... last, secrets before it
		`{"m":"bab","o":{"c":"ab","d":["ba",{"e":"b"},"a"],"u":"ab"},"z":"abé","u":"ab"}`,
		// ... in the middle
		`{"m":"bab","u":"ab","o":{"c":"ab","u":"ab","d":["ba",{"e":"b"},"a"]},"z":"abé"}`,
		// other values of the field
		`{"u":"ba","m":"bab","o":{"u":"éb","c":"ab","d":["ba","b"]}}`,
		`{"u":"bé","o":{"u":"b","d":[["ab"],"bb"]},"m":"ab"}`,
		`{"o":{"d":["ab","ba"]},"m":"ab"}`,
		`{"u":"bb","a":["ab",{"u":"ab","x":"ba"}],"o":{"u":"a"}}`,
	}
	root := insaneJSON.Spawn()
	defer insaneJSON.Release(root)
	for ci, sm := range configs {
		if replay != nil {
			any := false
			for di := range docs {
				any = any || replay[fmt.Sprintf("O|%d|%d", ci, di)]
			}
			if !any {
				continue
			}
		}
		conf := &Config{MaskAppliedField: "ap", MaskAppliedValue: "1"}
		for i := range sm {
			m := sm[i].mask
			m.AppliedField, m.AppliedValue = "am"+strconv.Itoa(i), "1"
			m.MetricName = "c17_mask_metric_" + strconv.Itoa(i)
			conf.Masks = append(conf.Masks, m)
		}
		cb, _ := json.Marshal(conf.Masks)
		sum.Configs++
		p, rej := c17Start(conf)
		if p == nil {
			sum.Skipped++
			sum.SkipWhy[rej]++
			continue
		}
		descs := c17StressDescs(p, sm)
		for di, doc := range docs {
			key := fmt.Sprintf("O|%d|%d", ci, di)
			if replay != nil && !replay[key] {
				continue
			}
			if err := root.DecodeString(doc); err != nil {
				panic(err)
			}
			rec := c17Event{K: "E", GProc: [][]string{}, GIgn: [][]string{}, Masks: descs, AF: "ap", IM: c17Seq(len(descs)),
				Before: c17StressBefore(p, sm, root), After: []c17FLeaf{}, MMet: []int{}, PB: []int{}}
			info := c17Info{Key: key, Src: doc, Conf: string(cb), Fam: "doif-order"}
			m0 := c17Met(p)
			mm0 := make([]int, len(p.config.Masks))
			for i := range mm0 {
				mm0[i] = c17MaskMet(p, i)
			}
			pmsg, panicked := c17Do(p, &pipeline.Event{Root: root})
			if panicked {
				rec.Res, info.Pmsg = "panic", pmsg
				rec.PC, rec.PB = c17PanicClass(pmsg)
				sum.Panics++
				p, _ = c17Start(conf)
			} else {
				rec.Res = "ok"
				rec.After = c17Flatten(root.Node, []string{}, nil)
				for li := range rec.After {
					rec.After[li].MI = []c17MI{}
				}
				rec.Met = c17Met(p) - m0
				for i := range mm0 {
					rec.MMet = append(rec.MMet, c17MaskMet(p, i)-mm0[i])
				}
			}
			sum.DoIfOrder++
			w.put(&rec, info)
		}
	}
}

// ---------------------------------------------------------------- number and index of masks

// The masks that can match (with their own process_fields / ignore_fields, and without) sit behind, between or
// before K filler masks whose regexps match nothing, K in {0, 1, 62, 63, 64, 65, 130}: the verdict on an event does
// not depend on the position of a mask in the list (specs/Mask.tla "number and index of masks", MaskSet.tla).
// Real Start / Do, ordinary "E" records with the positions of the matching masks (im); the fillers' tables are
// logged too and the specification checks that they are empty.
func c17RunManyMasks(w *c17Writer, sum *c17Summary, replay map[string]bool) {
	mAst, mRep := c17Mode{name: "mask0"}, c17Mode{name: "replace", word: "XY"}
	P := func(s ...string) [][]string {
		var r [][]string
		for _, x := range s {
			r = append(r, strings.Split(x, "."))
		}
		return r
	}
	mk := func(re string, g []int, md c17Mode) Mask {
		return Mask{Re: re, Groups: g, MaxCount: md.mc, ReplaceWord: md.word, CutValues: md.cut}
	}
	proc := func(m Mask, paths ...string) c17StressMask {
		m.ProcessFields = paths
		return c17StressMask{mask: m, cond: []c17Cond{}, proc: P(paths...)}
	}
	ign := func(m Mask, paths ...string) c17StressMask {
		m.IgnoreFields = paths
		return c17StressMask{mask: m, cond: []c17Cond{}, ign: P(paths...)}
	}
	plain := func(m Mask) c17StressMask { return c17StressMask{mask: m, cond: []c17Cond{}} }
	type layout struct {
		name       string
		head       []c17StressMask // matching masks before the fillers
		tail       []c17StressMask // matching masks after the fillers
		gproc      []string
		gign       []string
		fillerList bool // fillers carry an own process list too (their positions in the per-field sets are used)
	}
	layouts := []layout{
		{name: "process-list mask last", tail: []c17StressMask{proc(mk(`(a)`, []int{1}, mAst), "b.c", "t")}},
		{name: "ignore-list mask last", tail: []c17StressMask{ign(mk(`(b)`, []int{1}, mRep), "t", "b.d")}},
		{name: "process-list mask then ignore-list mask, both last", tail: []c17StressMask{
			proc(mk(`(a)`, []int{1}, mAst), "b", "a"), ign(mk(`(b)`, []int{1}, mRep), "t")}},
		{name: "process-list mask first, ignore-list mask last", head: []c17StressMask{proc(mk(`(a)`, []int{1}, mAst), "b.c", "t")},
			tail: []c17StressMask{ign(mk(`(b)`, []int{1}, mRep), "a")}},
		{name: "mask without own list last, global ignore list", tail: []c17StressMask{plain(mk(`(a)(b)`, []int{1, 2}, mAst))},
			gign: []string{"b.d", "t"}},
		{name: "mask without own list last, global process list", tail: []c17StressMask{plain(mk(`(b)`, []int{1}, mRep))},
			gproc: []string{"b", "t"}},
		{name: "mask without own list last, no lists", tail: []c17StressMask{plain(mk(`(a)`, []int{0}, mRep))}},
		{name: "process-list mask last, fillers with own lists", tail: []c17StressMask{proc(mk(`(b)`, []int{1}, mRep), "b.c", "a")},
			fillerList: true},
		{name: "ignore-list mask last, fillers with own lists", tail: []c17StressMask{ign(mk(`(a)`, []int{1}, mAst), "b.c", "a")},
			fillerList: true},
	}
	docs := []string{
		`{"a":"ab","b":{"c":"ba","d":["éab",12,{"e":"ab"}]},"t":"abab","n":21,"z":""}`,
		`{"t":"bb","b":{"d":["a"],"c":"éaé"},"a":"aab"}`,
		`{"a":"é","t":"ab","b":{"c":"abba","x":"b"}}`,
	}
	root := insaneJSON.Spawn()
	defer insaneJSON.Release(root)
	ci := -1
	for _, K := range []int{0, 1, 62, 63, 64, 65, 130} {
		for _, lo := range layouts {
			ci++
			if replay != nil {
				any := false
				for di := range docs {
					any = any || replay[fmt.Sprintf("K|%d|%d", ci, di)]
				}
				if !any {
					continue
				}
			}
			var sm []c17StressMask
			var im []int // 0-based
			for _, h := range lo.head {
				im = append(im, len(sm))
				sm = append(sm, h)
			}
			for k := 0; k < K; k++ {
				f := mk(fmt.Sprintf(`(zq%dq)`, k), []int{1}, mAst) // matches nothing over the values used here
				if lo.fillerList {
					sm = append(sm, proc(f, "zz", "b.x"))
				} else {
					sm = append(sm, plain(f))
				}
			}
			for _, t := range lo.tail {
				im = append(im, len(sm))
				sm = append(sm, t)
			}
			conf := &Config{MaskAppliedField: "ap", MaskAppliedValue: "1", ProcessFields: lo.gproc, IgnoreFields: lo.gign}
			for i := range sm {
				m := sm[i].mask
				m.AppliedField, m.AppliedValue = "am"+strconv.Itoa(i), "1"
				m.MetricName = "c17_mask_metric_" + strconv.Itoa(i)
				conf.Masks = append(conf.Masks, m)
			}
			confStr := fmt.Sprintf("%d filler masks; %s; global process %v ignore %v", K, lo.name, lo.gproc, lo.gign)
			sum.Configs++
			p, rej := c17Start(conf)
			if p == nil {
				sum.Skipped++
				sum.SkipWhy[rej]++
				continue
			}
			descs := c17StressDescs(p, sm)
			im1 := make([]int, len(im))
			for i, x := range im {
				im1[i] = x + 1
			}
			for di, doc := range docs {
				key := fmt.Sprintf("K|%d|%d", ci, di)
				if replay != nil && !replay[key] {
					continue
				}
				if err := root.DecodeString(doc); err != nil {
					panic(err)
				}
				rec := c17Event{K: "E", GProc: [][]string{}, GIgn: [][]string{}, Masks: descs, AF: "ap", IM: im1,
					Before: c17BeforeIM(p, sm, root, im), After: []c17FLeaf{}, MMet: []int{}, PB: []int{}}
				if lo.gproc != nil {
					rec.GProc = P(lo.gproc...)
				}
				if lo.gign != nil {
					rec.GIgn = P(lo.gign...)
				}
				info := c17Info{Key: key, Src: doc, Conf: confStr, Fam: "many-masks"}
				m0 := c17Met(p)
				mm0 := make([]int, len(p.config.Masks))
				for i := range mm0 {
					mm0[i] = c17MaskMet(p, i)
				}
				pmsg, panicked := c17Do(p, &pipeline.Event{Root: root})
				if panicked {
					rec.Res, info.Pmsg = "panic", pmsg
					rec.PC, rec.PB = c17PanicClass(pmsg)
					sum.Panics++
					p, _ = c17Start(conf)
				} else {
					rec.Res = "ok"
					rec.After = c17Flatten(root.Node, []string{}, nil)
					for li := range rec.After {
						rec.After[li].MI = []c17MI{}
					}
					rec.Met = c17Met(p) - m0
					for i := range mm0 {
						rec.MMet = append(rec.MMet, c17MaskMet(p, i)-mm0[i])
					}
				}
				sum.ManyMasks++
				w.put(&rec, info)
			}
		}
	}
}

// ---------------------------------------------------------------- all-digit path elements

// Path elements of process / ignore lists that consist of digits only x the addressed node being an array element at
// that index, an OBJECT member with that numeric key, or absent -- for the plugin's global ignore / process lists and
// for mask-specific lists (one list per configuration).  A path element addresses object members and array elements
// alike (specs/Mask.tla Listed, MaskPath.tla).  Real Start / Do, ordinary "E" records.
func c17RunNumericKeys(w *c17Writer, sum *c17Summary, replay map[string]bool) {
	mAst, mRep := c17Mode{name: "mask0"}, c17Mode{name: "replace", word: "XY"}
	P := func(s ...string) [][]string {
		var r [][]string
		for _, x := range s {
			r = append(r, strings.Split(x, "."))
		}
		return r
	}
	mk := func(re string, g []int, md c17Mode) Mask {
		return Mask{Re: re, Groups: g, MaxCount: md.mc, ReplaceWord: md.word, CutValues: md.cut}
	}
	pathSets := [][]string{
		{"s.1"},
		{"u.2.auth"},
		{"s.1", "u.2.auth", "q.3"},
		{"u.2", "m"}, // (non-canonical numbers such as "01" are left out: whether they are an index is not stated)
		{"s.0", "s.2", "u.1001"},
	}
	docs := []string{
		// the numeric element is an OBJECT key
		`{"s":{"1":"ab","x":"ba","01":"ab","0":"aa"},"u":{"2":{"auth":"aab","o":"ab"},"1001":"ab","k":"ab"},"m":"ab"}`,
		// ... an ARRAY index
		`{"s":["ba","ab","aa"],"u":["ab","ab",{"auth":"aab","o":"ab"}],"m":"ab"}`,
		// ... absent / a leaf / deeper containers
		`{"s":{"2":"ab"},"u":{"2":"ab"},"q":{"3":["ab",{"1":"ab"}]},"m":"ab"}`,
		// an array element that is an object with a numeric key, an empty array
		`{"s":[["ab"],{"1":"ab","z":"ba"}],"u":[],"q":["a","b","a",{"3":"ab"}],"m":"ba"}`,
	}
	type layout struct {
		name string
		kind string // gign | gproc | mproc | mign | mproc+plain | plain+mign
	}
	layouts := []layout{{"global ignore_fields", "gign"}, {"global process_fields", "gproc"},
		{"mask-specific process_fields", "mproc"}, {"mask-specific ignore_fields", "mign"},
		{"mask-specific process_fields, then a mask without lists", "mproc+plain"},
		{"a mask without lists, then mask-specific ignore_fields", "plain+mign"}}
	root := insaneJSON.Spawn()
	defer insaneJSON.Release(root)
	ci := -1
	for _, lo := range layouts {
		for _, ps := range pathSets {
			ci++
			if replay != nil {
				any := false
				for di := range docs {
					any = any || replay[fmt.Sprintf("N|%d|%d", ci, di)]
				}
				if !any {
					continue
				}
			}
			a := c17StressMask{mask: mk(`(a)`, []int{1}, mAst), cond: []c17Cond{}}
			b := c17StressMask{mask: mk(`(b)`, []int{1}, mRep), cond: []c17Cond{}}
			conf := &Config{MaskAppliedField: "ap", MaskAppliedValue: "1"}
			var sm []c17StressMask
			switch lo.kind {
			case "gign":
				conf.IgnoreFields = ps
				sm = []c17StressMask{a}
			case "gproc":
				conf.ProcessFields = ps
				sm = []c17StressMask{a}
			case "mproc":
				a.mask.ProcessFields, a.proc = ps, P(ps...)
				sm = []c17StressMask{a}
			case "mign":
				a.mask.IgnoreFields, a.ign = ps, P(ps...)
				sm = []c17StressMask{a}
			case "mproc+plain":
				a.mask.ProcessFields, a.proc = ps, P(ps...)
				sm = []c17StressMask{a, b}
			case "plain+mign":
				b.mask.IgnoreFields, b.ign = ps, P(ps...)
				sm = []c17StressMask{a, b}
			}
			for i := range sm {
				m := sm[i].mask
				m.AppliedField, m.AppliedValue = "am"+strconv.Itoa(i), "1"
				m.MetricName = "c17_mask_metric_" + strconv.Itoa(i)
				conf.Masks = append(conf.Masks, m)
			}
			confStr := fmt.Sprintf("%s %v", lo.name, ps)
			sum.Configs++
			p, rej := c17Start(conf)
			if p == nil {
				sum.Skipped++
				sum.SkipWhy[rej]++
				continue
			}
			descs := c17StressDescs(p, sm)
			for di, doc := range docs {
				key := fmt.Sprintf("N|%d|%d", ci, di)
				if replay != nil && !replay[key] {
					continue
				}
				if err := root.DecodeString(doc); err != nil {
					panic(err)
				}
				rec := c17Event{K: "E", GProc: [][]string{}, GIgn: [][]string{}, Masks: descs, AF: "ap", IM: c17Seq(len(descs)),
					Before: c17StressBefore(p, sm, root), After: []c17FLeaf{}, MMet: []int{}, PB: []int{}}
				if conf.ProcessFields != nil {
					rec.GProc = P(ps...)
				}
				if conf.IgnoreFields != nil {
					rec.GIgn = P(ps...)
				}
				info := c17Info{Key: key, Src: doc, Conf: confStr, Fam: "numeric-keys"}
				m0 := c17Met(p)
				mm0 := make([]int, len(p.config.Masks))
				for i := range mm0 {
					mm0[i] = c17MaskMet(p, i)
				}
				pmsg, panicked := c17Do(p, &pipeline.Event{Root: root})
				if panicked {
					rec.Res, info.Pmsg = "panic", pmsg
					rec.PC, rec.PB = c17PanicClass(pmsg)
					sum.Panics++
					p, _ = c17Start(conf)
				} else {
					rec.Res = "ok"
					rec.After = c17Flatten(root.Node, []string{}, nil)
					for li := range rec.After {
						rec.After[li].MI = []c17MI{}
					}
					rec.Met = c17Met(p) - m0
					for i := range mm0 {
						rec.MMet = append(rec.MMet, c17MaskMet(p, i)-mm0[i])
					}
				}
				sum.NumKeys++
				w.put(&rec, info)
			}
		}
	}
}

// c17EventRun runs one decoded event through p and writes the "E" record
func c17EventRun(w *c17Writer, sum *c17Summary, p *Plugin, sm []c17StressMask, descs []c17MaskDesc, root *insaneJSON.Root,
	before []c17FLeaf, im1 []int, info c17Info) (panicked bool) {
	if before == nil {
		before = c17StressBefore(p, sm, root)
	}
	if im1 == nil {
		im1 = c17Seq(len(descs))
	}
	rec := c17Event{K: "E", GProc: [][]string{}, GIgn: [][]string{}, Masks: descs, AF: p.config.MaskAppliedField, IM: im1,
		Before: before, After: []c17FLeaf{}, MMet: []int{}, PB: []int{}}
	m0 := c17Met(p)
	mm0 := make([]int, len(p.config.Masks))
	for i := range mm0 {
		mm0[i] = c17MaskMet(p, i)
	}
	pmsg, pan := c17Do(p, &pipeline.Event{Root: root})
	if pan {
		rec.Res, info.Pmsg = "panic", pmsg
		rec.PC, rec.PB = c17PanicClass(pmsg)
		sum.Panics++
	} else {
		rec.Res = "ok"
		rec.After = c17Flatten(root.Node, []string{}, nil)
		for li := range rec.After {
			rec.After[li].MI = []c17MI{}
		}
		rec.Met = c17Met(p) - m0
		for i := range mm0 {
			rec.MMet = append(rec.MMet, c17MaskMet(p, i)-mm0[i])
		}
	}
	w.put(&rec, info)
	return pan
}

// ---------------------------------------------------------------- sequences of events through one instance

// 2-3 masks x {applied_field set / unset} x {metric_name set / unset}; every sequence of 2 and 3 events out of
// {only mask A matches, only mask B, both, none (, only C)} goes through ONE started instance; every event is an
// ordinary "E" record judged on its own: the result for an event is a function of (configuration, event) alone
// (specs/MaskSeq.tla).  Identical records (same configuration, event and outcome) are written once.
func c17RunSequences(w *c17Writer, sum *c17Summary, replay map[string]bool) {
	mAst, mRep, mCut := c17Mode{name: "mask0"}, c17Mode{name: "replace", word: "XY"}, c17Mode{name: "cut", cut: true}
	mk := func(re string, g []int, md c17Mode) Mask {
		return Mask{Re: re, Groups: g, MaxCount: md.mc, ReplaceWord: md.word, CutValues: md.cut}
	}
	base := []Mask{mk(`(a)`, []int{1}, mAst), mk(`(b)`, []int{1}, mRep), mk(`(c)`, []int{1}, mCut)}
	docs := []string{
		`{"m":"aa","o":{"v":"éa"}}`, // A only
		`{"m":"bb","o":{"v":"b"}}`,  // B only
		`{"m":"ab","o":{"v":"ba"}}`, // A and B
		`{"m":"cc","o":{"v":"c"}}`,  // none of A, B (C only when there is a third mask)
		`{"m":"ca","o":{"v":"é"}}`,  // A (and C)
	}
	type variant struct {
		n      int
		af, mn uint // bit i: mask i has applied_field / metric_name
	}
	var variants []variant
	for af := uint(0); af < 4; af++ {
		for mn := uint(0); mn < 4; mn++ {
			variants = append(variants, variant{2, af, mn})
		}
	}
	variants = append(variants, variant{3, 7, 0}, variant{3, 5, 2}, variant{3, 2, 5}, variant{3, 0, 7})
	root := insaneJSON.Spawn()
	defer insaneJSON.Release(root)
	for vi, v := range variants {
		conf := &Config{MaskAppliedField: "ap", MaskAppliedValue: "1"}
		var sm []c17StressMask
		for i := 0; i < v.n; i++ {
			m := base[i]
			if v.af&(1<<uint(i)) != 0 {
				m.AppliedField, m.AppliedValue = "am"+strconv.Itoa(i), "1"
			}
			if v.mn&(1<<uint(i)) != 0 {
				m.MetricName = "c17_mask_metric_" + strconv.Itoa(i)
			}
			conf.Masks = append(conf.Masks, m)
			sm = append(sm, c17StressMask{mask: m, cond: []c17Cond{}})
		}
		sum.Configs++
		nd := len(docs)
		befores := make([][]c17FLeaf, nd) // the "before" half depends on (configuration, event) only
		ims := make([][]int, nd)
		var seqs [][]int
		for a := 0; a < nd; a++ {
			for b := 0; b < nd; b++ {
				seqs = append(seqs, []int{a, b})
				for c := 0; c < nd; c++ {
					seqs = append(seqs, []int{a, b, c})
				}
			}
		}
		for si, seq := range seqs {
			key := fmt.Sprintf("S|%d|%d", vi, si)
			if replay != nil && !replay[key] {
				continue
			}
			p, rej := c17Start(conf) // one instance for the whole sequence
			if p == nil {
				sum.Skipped++
				sum.SkipWhy[rej]++
				break
			}
			descs := c17StressDescs(p, sm)
			for pos, di := range seq {
				if err := root.DecodeString(docs[di]); err != nil {
					panic(err)
				}
				info := c17Info{Key: key, Src: docs[di], Fam: "sequence",
					Conf: fmt.Sprintf("%d masks, applied_field bits %b, metric_name bits %b; event %d of the sequence %v of events (indexes into: %v)", v.n, v.af, v.mn, pos+1, seq, docs)}
				sum.SeqRuns++
				if befores[di] == nil {
					// the masks that match something in this event (at most two of them do, by construction)
					var im []int
					for i := range p.config.Masks {
						for _, lf := range c17Flatten(root.Node, []string{}, nil) {
							if lf.T != "o" && len(lf.V) > 0 {
								vb := make([]byte, len(lf.V))
								for k, x := range lf.V {
									vb[k] = byte(x)
								}
								if p.config.Masks[i].Re_.Match(vb) {
									im = append(im, i)
									break
								}
							}
						}
					}
					if len(im) == 0 {
						im = []int{0}
					}
					befores[di] = c17BeforeIM(p, sm, root, im)
					ims[di] = nil
					for _, x := range im {
						ims[di] = append(ims[di], x+1)
					}
				}
				if c17EventRun(w, sum, p, sm, descs, root, befores[di], ims[di], info) {
					break
				}
			}
		}
	}
}

// ---------------------------------------------------------------- match rules: value lists of different lengths

// One mask guarded by one match rule: {prefix, suffix, contains} x case_insensitive x invert x value lists of 1, 2 and
// 3 values of DIFFERENT byte lengths, over leaves that match only the shortest, only a longer one, several, none.  The
// rule matches iff SOME value matches (specs/Mask.tla RuleHolds, MaskRuleMatch.tla).
func c17RunRuleValues(w *c17Writer, sum *c17Summary, replay map[string]bool) {
	lists := [][]string{{"ab"}, {"b", "aab"}, {"aB", "bAba", "é"}, {"abab", "ba", "a"}, {"BBa", "Ab"}}
	docs := []string{
		`{"v1":"AABb","v2":"aabb","v3":"bbaa","v4":"BBAAb","v5":"b","v6":"abab","v7":"ABAB","v8":"éab","v9":"ba","v10":"babA"}`,
		`{"v1":"aab","v2":"AAB","v3":"bba","v4":"bAbab","v5":"ab","v6":"bab","v7":"Ab","v8":"abé","v9":"bbBAb","v10":"bbab"}`,
	}
	root := insaneJSON.Spawn()
	defer insaneJSON.Release(root)
	ci := -1
	for _, mode := range []matchrule.Mode{matchrule.ModePrefix, matchrule.ModeSuffix, matchrule.ModeContains} {
		for _, cins := range []bool{false, true} {
			for _, inv := range []bool{false, true} {
				for _, vals := range lists {
					ci++
					m := Mask{Re: `(b+)`, Groups: []int{1}, AppliedField: "am0", AppliedValue: "1", MetricName: "c17_mask_metric_0",
						MatchRules: matchrule.RuleSets{{Cond: matchrule.CondAnd, Rules: []matchrule.Rule{
							{Values: append([]string{}, vals...), Mode: mode, CaseInsensitive: cins, Invert: inv}}}}}
					conf := &Config{MaskAppliedField: "ap", MaskAppliedValue: "1", Masks: []Mask{m}}
					sm := []c17StressMask{{mask: m, cond: []c17Cond{}}}
					sum.Configs++
					p, rej := c17Start(conf)
					if p == nil {
						sum.Skipped++
						sum.SkipWhy[rej]++
						continue
					}
					descs := c17StressDescs(p, sm)
					for di, doc := range docs {
						key := fmt.Sprintf("V|%d|%d", ci, di)
						if replay != nil && !replay[key] {
							continue
						}
						if err := root.DecodeString(doc); err != nil {
							panic(err)
						}
						info := c17Info{Key: key, Src: doc, Fam: "rule-values",
							Conf: fmt.Sprintf("mode %d case_insensitive %v invert %v values %q", mode, cins, inv, vals)}
						sum.RuleValRuns++
						if c17EventRun(w, sum, p, sm, descs, root, nil, nil, info) {
							p, _ = c17Start(conf)
						}
					}
				}
			}
		}
	}
}
