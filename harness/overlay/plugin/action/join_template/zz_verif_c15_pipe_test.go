package join_template

// C15 pipeline-level harness (mapped into /repo/plugin/action/join_template by `go test -overlay`; generated from the
// join package's harness, only the plugin under test differs).
// The REAL join_template action runs inside the REAL pipeline (pipeline.New, real processors, streamer,
// heartbeat/tryUnblock time-outs, fake input, devnull output) with event_timeout 10-30 ms, several
// sources and streams, 1/2/4 processors, optionally behind another action:
//
//	join            [join]
//	pass+join       [pass-through action, join]
//	join+discard    [join, real discard plugin matching drop=1]     (passed lines AND whole flushed runs are dropped
//	                                                                 behind the join: Propagate must reset busy first)
//	discard+join    [real discard plugin matching drop=1, join]      (D5 shows here)
//	break+join      [action returning ActionBreak for brk=1, join]  (D15 shows here)
//	seljoin-mf      [pass-through action, join with match_fields kind=multi]
//	seljoin-doif    [pass-through action, join with do_if kind == multi]   (events with kind=other inside open runs)
//
// Every action of the chain is wrapped by a logging shim that delegates to the real plugin and
// records each Do call (stream, event key or "time-out", result) under one global sequence counter;
// the output plugin records what arrives. The harness only records; checks/C15.py decides, by looking
// the observed (sequence, time-out positions) up in the table exported by TLC from specs/Join.tla.

import (
	"bufio"
	"encoding/json"
	"fmt"
	"os"
	"runtime"
	"strings"
	"sync"
	"testing"
	"time"

	"github.com/ozontech/file.d/fd"
	"github.com/ozontech/file.d/pipeline"
	"github.com/ozontech/file.d/pipeline/doif"
	_ "github.com/ozontech/file.d/plugin/action/discard"
	"github.com/ozontech/file.d/plugin/input/fake"
	"github.com/ozontech/file.d/test"
	"github.com/prometheus/client_golang/prometheus"
	"go.uber.org/zap"
)

type c15pStream struct {
	Src    int      `json:"src"`
	Name   string   `json:"name"`
	Events []string `json:"events"`
	Stalls []int    `json:"stalls"`   // after that many events the feeder waits for a time-out delivery
	Delay  int      `json:"delay_ms"` // the feeder starts that late (lets other streams drain first)
	Gate   bool     `json:"gate"`     // the join is not handed the first event before ALL events of the stream are queued
}

type c15pScenario struct {
	ID        int          `json:"id"`
	Chain     string       `json:"chain"`
	Procs     int          `json:"procs"` // 1 | 2 | 4
	TimeoutMs int          `json:"timeout_ms"`
	Limit     int          `json:"limit"`
	Neg       bool         `json:"neg"`
	WaitMs    int          `json:"wait_ms"`   // slack for "a time-out arrives once the stream is quiet"
	Templates []string     `json:"templates"` // join_template only
	Hold      int          `json:"hold"`      // the output reads an event only after that many later events arrived
	Streams   []c15pStream `json:"streams"`
}

type c15pEntry struct {
	Seq  int64  `json:"seq"`
	Act  int    `json:"act"`  // index of the action in the chain
	Join bool   `json:"join"` // the action is the join
	Inst int    `json:"inst"` // plugin instance (one per processor)
	Key  string `json:"key"`  // source/stream
	K    string `json:"k"`    // event key, "" for a time-out
	TO   bool   `json:"to"`
	Pos  int    `json:"pos"` // events of the stream handed to the chain before this call
	Res  int    `json:"res"` // pipeline.ActionResult, -1 while running
}

type c15pOut struct {
	Seq    int64  `json:"seq"`
	Key    string `json:"key"`
	K      string `json:"k"`
	HasLog bool   `json:"has_log"`
	IsStr  bool   `json:"is_str"`
	Log    string `json:"log"`       // the text when the output LOOKED at the event (a few events after it arrived)
	Early  string `json:"log_early"` // the text when the event arrived at the output
}

// an output that keeps the last `hold` events before it reads and commits them, as every batching output does
type c15pHoldOut struct {
	controller pipeline.OutputPluginController
	rec        *c15pRec
	hold       int
	mu         sync.Mutex
	queue      []*pipeline.Event
	idx        []int
	since      []time.Time
	done       chan struct{}
}

// like a batcher's flush time-out: nothing stays unread (and uncommitted) for longer than maxAge
func (o *c15pHoldOut) ager(maxAge time.Duration) {
	for {
		select {
		case <-o.done:
			return
		case <-time.After(5 * time.Millisecond):
		}
		o.mu.Lock()
		n := 0
		for n < len(o.queue) && time.Since(o.since[n]) > maxAge {
			n++
		}
		evs, idx := o.queue[:n:n], o.idx[:n:n]
		o.queue, o.idx, o.since = o.queue[n:], o.idx[n:], o.since[n:]
		o.mu.Unlock()
		o.finish(evs, idx)
	}
}

func (o *c15pHoldOut) Start(_ pipeline.AnyConfig, params *pipeline.OutputPluginParams) {
	o.controller = params.Controller
	o.done = make(chan struct{})
	go o.ager(25 * time.Millisecond)
}
func (o *c15pHoldOut) Stop() {}
func (o *c15pHoldOut) Out(e *pipeline.Event) {
	ent := c15pOut{Key: fmt.Sprintf("%d/%s", e.SourceID, e.Root.Dig("stream").AsString()), K: strings.Clone(e.Root.Dig("k").AsString())}
	if n := e.Root.Dig("log"); n != nil {
		ent.HasLog, ent.IsStr, ent.Early = true, n.IsString(), strings.Clone(n.AsString())
	}
	o.rec.mu.Lock()
	o.rec.seq++
	ent.Seq = o.rec.seq
	o.rec.out = append(o.rec.out, ent)
	i := len(o.rec.out) - 1
	o.rec.mu.Unlock()
	o.mu.Lock()
	o.queue = append(o.queue, e)
	o.idx = append(o.idx, i)
	o.since = append(o.since, time.Now())
	var ready []*pipeline.Event
	var readyIdx []int
	for len(o.queue) > o.hold {
		ready, readyIdx = append(ready, o.queue[0]), append(readyIdx, o.idx[0])
		o.queue, o.idx, o.since = o.queue[1:], o.idx[1:], o.since[1:]
	}
	o.mu.Unlock()
	o.finish(ready, readyIdx)
}
func (o *c15pHoldOut) finish(evs []*pipeline.Event, idx []int) {
	for j, e := range evs {
		late := ""
		if n := e.Root.Dig("log"); n != nil {
			late = strings.Clone(n.AsString())
		}
		o.rec.mu.Lock()
		o.rec.out[idx[j]].Log = late
		o.rec.mu.Unlock()
		o.controller.Commit(e)
	}
}
func (o *c15pHoldOut) flushAll() {
	o.mu.Lock()
	evs, idx := o.queue, o.idx
	o.queue, o.idx, o.since = nil, nil, nil
	o.mu.Unlock()
	o.finish(evs, idx)
	select {
	case <-o.done:
	default:
		close(o.done)
	}
}

type c15pResult struct {
	ID        int         `json:"id"`
	Log       []c15pEntry `json:"log"`
	Out       []c15pOut   `json:"out"`
	Deadlines []string    `json:"deadlines"` // waits that ran into the slack
	StopHung  bool        `json:"stop_hung"`
	Procs     int         `json:"procs_started"`
}

type c15pRec struct {
	mu      sync.Mutex
	seq     int64
	log     []c15pEntry
	out     []c15pOut
	seen    map[string]int  // key -> events of the stream seen by the chain so far (first Do call of each event)
	seenK   map[string]bool // key + event key
	holding map[string]bool // key -> last result of the join for this stream was Hold/Collapse
	toAt    map[string]int  // key -> highest Pos of a time-out delivery
	gates   map[string]chan struct{}
	inst    int
}

func (r *c15pRec) begin(e c15pEntry) (int, int) {
	r.mu.Lock()
	defer r.mu.Unlock()
	r.seq++
	e.Seq = r.seq
	if !e.TO && !r.seenK[e.Key+"#"+e.K] {
		// first action that is handed this event (actions whose match_fields do not match are skipped by the processor)
		r.seenK[e.Key+"#"+e.K] = true
		r.seen[e.Key]++
	}
	e.Pos = r.seen[e.Key]
	if e.TO {
		if p, ok := r.toAt[e.Key]; !ok || e.Pos > p {
			r.toAt[e.Key] = e.Pos
		}
	}
	e.Res = -1
	r.log = append(r.log, e)
	return len(r.log) - 1, e.Pos
}

func (r *c15pRec) end(idx int, res pipeline.ActionResult) {
	r.mu.Lock()
	defer r.mu.Unlock()
	r.log[idx].Res = int(res)
	if r.log[idx].Join {
		r.holding[r.log[idx].Key] = res == pipeline.ActionHold || res == pipeline.ActionCollapse
	}
}

func (r *c15pRec) state(key string) (seen int, holding bool, toAt int) {
	r.mu.Lock()
	defer r.mu.Unlock()
	toAt = -1
	if p, ok := r.toAt[key]; ok {
		toAt = p
	}
	return r.seen[key], r.holding[key], toAt
}

// logging shim around a real action plugin
type c15pWrap struct {
	inner pipeline.ActionPlugin
	rec   *c15pRec
	act   int
	join  bool
	inst  int
}

func (w *c15pWrap) Start(config pipeline.AnyConfig, params *pipeline.ActionPluginParams) {
	w.inner.Start(config, params)
}
func (w *c15pWrap) Stop() { w.inner.Stop() }
func (w *c15pWrap) Do(e *pipeline.Event) pipeline.ActionResult {
	ent := c15pEntry{Act: w.act, Join: w.join, Inst: w.inst}
	if e.IsTimeoutKind() {
		ent.TO = true
		ent.Key = fmt.Sprintf("%d/%s", e.SourceID, string(e.StreamNameBytes()))
	} else {
		ent.Key = fmt.Sprintf("%d/%s", e.SourceID, e.Root.Dig("stream").AsString())
		ent.K = strings.Clone(e.Root.Dig("k").AsString())
	}
	idx, pos := w.rec.begin(ent)
	if w.join && !ent.TO && pos == 1 {
		if g := w.rec.gates[ent.Key]; g != nil {
			// let the whole stream queue up behind the first event, so that a nested call would find the next lines
			select {
			case <-g:
			case <-time.After(5 * time.Second):
			}
		}
	}
	res := w.inner.Do(e)
	w.rec.end(idx, res)
	return res
}

// harness-owned actions: pass everything / break out the events that carry "brk"
type c15pPass struct{}

func (p *c15pPass) Start(_ pipeline.AnyConfig, _ *pipeline.ActionPluginParams) {}
func (p *c15pPass) Stop()                                                      {}
func (p *c15pPass) Do(_ *pipeline.Event) pipeline.ActionResult                 { return pipeline.ActionPass }

type c15pBreak struct{}

func (p *c15pBreak) Start(_ pipeline.AnyConfig, _ *pipeline.ActionPluginParams) {}
func (p *c15pBreak) Stop()                                                      {}
func (p *c15pBreak) Do(e *pipeline.Event) pipeline.ActionResult {
	if e.IsTimeoutKind() || e.Root == nil {
		return pipeline.ActionPass
	}
	if e.Root.Dig("brk") != nil {
		return pipeline.ActionBreak
	}
	return pipeline.ActionPass
}

// the joining action under test (this package's plugin through its real factory and config parser)
func c15pJoinConfig(sc *c15pScenario) pipeline.AnyConfig {
	return test.NewConfig(&Config{Field: "log", Templates: sc.Templates, MaxEventSize: sc.Limit}, nil)
}

var c15pStartMu sync.Mutex // serialises the GOMAXPROCS dance around Pipeline.Start

func c15pAction(rec *c15pRec, act int, isJoin bool, mk func() pipeline.ActionPlugin, config pipeline.AnyConfig,
	conds pipeline.MatchConditions) *pipeline.ActionPluginStaticInfo {
	return c15pActionSel(rec, act, isJoin, mk, config, conds, nil)
}

func c15pActionSel(rec *c15pRec, act int, isJoin bool, mk func() pipeline.ActionPlugin, config pipeline.AnyConfig,
	conds pipeline.MatchConditions, doIf *doif.Checker) *pipeline.ActionPluginStaticInfo {
	return &pipeline.ActionPluginStaticInfo{
		DoIfChecker: doIf,
		PluginStaticInfo: &pipeline.PluginStaticInfo{
			Type: "c15",
			Factory: func() (pipeline.AnyPlugin, pipeline.AnyConfig) {
				rec.mu.Lock()
				rec.inst++
				inst := rec.inst
				rec.mu.Unlock()
				return &c15pWrap{inner: mk(), rec: rec, act: act, join: isJoin, inst: inst}, config
			},
			Config: config,
		},
		MatchConditions: conds,
		MatchMode:       pipeline.MatchModeAnd,
	}
}

func c15pRun(sc *c15pScenario) (res *c15pResult) {
	rec := &c15pRec{seen: map[string]int{}, seenK: map[string]bool{}, holding: map[string]bool{}, toAt: map[string]int{},
		gates: map[string]chan struct{}{}}
	for _, st := range sc.Streams {
		if st.Gate {
			rec.gates[fmt.Sprintf("%d/%s", st.Src, st.Name)] = make(chan struct{})
		}
	}
	res = &c15pResult{ID: sc.ID}

	settings := &pipeline.Settings{
		Capacity:            256,
		MaintenanceInterval: time.Second * 5,
		EventTimeout:        time.Duration(sc.TimeoutMs) * time.Millisecond,
		Antispam:            pipeline.AntispamSettings{Threshold: pipeline.DefaultAntispamThreshold},
		AvgEventSize:        4096, // the join's run buffer never has to grow
		MetaCacheSize:       32,
		StreamField:         "stream",
		Decoder:             "json",
		Metric: &pipeline.MetricSettings{
			HoldDuration:        pipeline.DefaultMetricHoldDuration,
			MaxLabelValueLength: pipeline.DefaultMetricMaxLabelValueLength,
		},
	}
	p := pipeline.New(fmt.Sprintf("c15_%d_%d", sc.ID, time.Now().UnixNano()), settings, prometheus.NewRegistry(), zap.NewNop())
	if sc.Procs == 1 {
		p.DisableParallelism()
	}
	anyIn, _ := fake.Factory()
	input := anyIn.(*fake.Plugin)
	p.SetInput(&pipeline.InputPluginInfo{
		PluginStaticInfo:  &pipeline.PluginStaticInfo{Type: "fake"},
		PluginRuntimeInfo: &pipeline.PluginRuntimeInfo{Plugin: input},
	})
	output := &c15pHoldOut{rec: rec, hold: sc.Hold}
	p.SetOutput(&pipeline.OutputPluginInfo{
		PluginStaticInfo:  &pipeline.PluginStaticInfo{Type: "c15hold"},
		PluginRuntimeInfo: &pipeline.PluginRuntimeInfo{Plugin: output},
	})

	joinConf := c15pJoinConfig(sc)
	mkJoin := func() pipeline.ActionPlugin { pl, _ := factory(); return pl.(pipeline.ActionPlugin) }
	discardInfo, err := fd.DefaultPluginRegistry.Get(pipeline.PluginKindAction, "discard")
	if err != nil {
		panic(err)
	}
	mkDiscard := func() pipeline.ActionPlugin { pl, _ := discardInfo.Factory(); return pl.(pipeline.ActionPlugin) }
	_, discardConf := discardInfo.Factory()
	dropConds := pipeline.MatchConditions{pipeline.MatchCondition{Field: []string{"drop"}, Values: []string{"1"}}}
	mkPass := func() pipeline.ActionPlugin { return &c15pPass{} }
	mkBreak := func() pipeline.ActionPlugin { return &c15pBreak{} }
	switch sc.Chain {
	case "join":
		p.AddAction(c15pAction(rec, 0, true, mkJoin, joinConf, nil))
	case "pass+join":
		p.AddAction(c15pAction(rec, 0, false, mkPass, nil, nil))
		p.AddAction(c15pAction(rec, 1, true, mkJoin, joinConf, nil))
	case "join+discard":
		p.AddAction(c15pAction(rec, 0, true, mkJoin, joinConf, nil))
		p.AddAction(c15pAction(rec, 1, false, mkDiscard, discardConf, dropConds))
	case "discard+join":
		p.AddAction(c15pAction(rec, 0, false, mkDiscard, discardConf, dropConds))
		p.AddAction(c15pAction(rec, 1, true, mkJoin, joinConf, nil))
	case "break+join":
		p.AddAction(c15pAction(rec, 0, false, mkBreak, nil, nil))
		p.AddAction(c15pAction(rec, 1, true, mkJoin, joinConf, nil))
	case "seljoin-mf":
		p.AddAction(c15pAction(rec, 0, false, mkPass, nil, nil))
		p.AddAction(c15pAction(rec, 1, true, mkJoin, joinConf,
			pipeline.MatchConditions{pipeline.MatchCondition{Field: []string{"kind"}, Values: []string{"multi"}}}))
	case "seljoin-doif":
		chk, err := doif.NewFromMap(map[string]any{"op": "equal", "field": "kind", "values": []any{"multi"}})
		if err != nil {
			panic(err)
		}
		p.AddAction(c15pAction(rec, 0, false, mkPass, nil, nil))
		p.AddAction(c15pActionSel(rec, 1, true, mkJoin, joinConf, nil, chk))
	default:
		panic("c15: unknown chain " + sc.Chain)
	}

	// processor count is GOMAXPROCS*2 at Start (or 1)
	c15pStartMu.Lock()
	old := runtime.GOMAXPROCS(0)
	if sc.Procs > 1 {
		runtime.GOMAXPROCS(sc.Procs / 2)
	}
	p.Start()
	runtime.GOMAXPROCS(old)
	c15pStartMu.Unlock()
	res.Procs = len(p.Procs)

	wait := time.Duration(sc.WaitMs) * time.Millisecond
	var dmu sync.Mutex
	var wg sync.WaitGroup
	for si := range sc.Streams {
		st := &sc.Streams[si]
		wg.Add(1)
		go func() {
			defer wg.Done()
			key := fmt.Sprintf("%d/%s", st.Src, st.Name)
			time.Sleep(time.Duration(st.Delay) * time.Millisecond)
			stall := map[int]bool{}
			for _, s := range st.Stalls {
				stall[s] = true
			}
			until := func(what string, cond func(seen int, holding bool, toAt int) bool) bool {
				t0 := time.Now()
				for {
					if cond(rec.state(key)) {
						return true
					}
					if time.Since(t0) > wait {
						dmu.Lock()
						res.Deadlines = append(res.Deadlines, key+":"+what)
						dmu.Unlock()
						return false
					}
					time.Sleep(2 * time.Millisecond)
				}
			}
			for i, doc := range st.Events {
				input.In(pipeline.SourceID(st.Src), fmt.Sprintf("src%d.log", st.Src), test.NewOffset(int64(i+1)), []byte(doc))
				fed := i + 1
				if stall[fed] {
					if until(fmt.Sprintf("seen@%d", fed), func(seen int, _ bool, _ int) bool { return seen >= fed }) {
						until(fmt.Sprintf("timeout@%d", fed), func(_ int, _ bool, toAt int) bool { return toAt >= fed })
					}
				}
			}
			if g := rec.gates[key]; g != nil {
				close(g)
			}
			n := len(st.Events)
			if until("seen@end", func(seen int, _ bool, _ int) bool { return seen >= n }) {
				// the stream is quiet now: a held run must be flushed by a time-out within the slack
				until("flush@end", func(_ int, holding bool, toAt int) bool { return !holding || toAt >= n })
			}
		}()
	}
	wg.Wait()
	time.Sleep(20 * time.Millisecond) // let the last Do calls return
	output.flushAll()

	stopped := make(chan struct{})
	go func() { p.Stop(); close(stopped) }()
	select {
	case <-stopped:
	case <-time.After(10 * time.Second):
		res.StopHung = true
	}
	rec.mu.Lock()
	res.Log = append([]c15pEntry(nil), rec.log...)
	res.Out = append([]c15pOut(nil), rec.out...)
	rec.mu.Unlock()
	return res
}

func TestVerifC15Pipe(t *testing.T) {
	in, out := os.Getenv("VERIF_CASES"), os.Getenv("VERIF_OUT")
	if in == "" || out == "" {
		t.Skip("VERIF_CASES / VERIF_OUT not set")
	}
	f, err := os.Open(in)
	if err != nil {
		t.Fatal(err)
	}
	var scs []*c15pScenario
	sc := bufio.NewScanner(f)
	sc.Buffer(make([]byte, 1<<20), 1<<24)
	for sc.Scan() {
		s := &c15pScenario{}
		if err := json.Unmarshal(sc.Bytes(), s); err != nil {
			t.Fatalf("bad scenario line: %v", err)
		}
		scs = append(scs, s)
	}
	f.Close()
	of, err := os.OpenFile(out, os.O_CREATE|os.O_TRUNC|os.O_WRONLY, 0o644)
	if err != nil {
		t.Fatal(err)
	}
	defer of.Close()
	var omu sync.Mutex
	emit := func(v interface{}) {
		b, _ := json.Marshal(v)
		omu.Lock()
		of.Write(append(b, '\n'))
		omu.Unlock()
	}
	par := 8
	if v := os.Getenv("VERIF_C15_PAR"); v != "" {
		fmt.Sscan(v, &par)
	}
	sem := make(chan struct{}, par)
	var wg sync.WaitGroup
	for _, s := range scs {
		wg.Add(1)
		sem <- struct{}{}
		go func(s *c15pScenario) {
			defer wg.Done()
			defer func() { <-sem }()
			emit(map[string]interface{}{"begin": s.ID})
			emit(c15pRun(s))
		}(s)
	}
	wg.Wait()
	emit(map[string]interface{}{"done": len(scs)})
}
