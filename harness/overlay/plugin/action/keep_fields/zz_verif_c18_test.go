package keep_fields

// C18 replay harness for keep_fields (mapped into /repo/plugin/action/keep_fields by `go test -overlay`;
// /repo is not modified).  Every case exported by TLC from specs/FieldSelect.tla is executed against the REAL
// plugin: the selector list is written as the STRINGS a user writes (dots inside a name escaped with a
// backslash), passed through the real Start (cfg.ParseNestedFields / cfg.ParseFieldSelector, trie and depth
// buffers), and the real Do runs on a real insaneJSON root decoded from the case's document.  The encoded
// result is compared, as an ORDERED token sequence, with the document the specification's declarative Keep
// expects.  The same plugin instance then processes the same document a second time (instance reuse).

import (
	"bufio"
	"bytes"
	"encoding/json"
	"fmt"
	"os"
	"reflect"
	"runtime"
	"strings"
	"sync"
	"testing"

	"github.com/ozontech/file.d/pipeline"
	"github.com/ozontech/file.d/test"
	insaneJSON "github.com/ozontech/insane-json"
)

const c18Plugin = "keep_fields"

// what the case's expectation for this plugin is: index into the exported tuple
const (
	c18WantIdx  = 3 // expected keep result
	c18ModelIdx = 5 // transcription's prediction under D_SwapDelete (0 = same as expected)
)

var c18KeyNames = map[int]string{1: "a", 2: "b", 3: "a.b", 4: "a.b.a", 5: "b.a"}
var c18LeafText = map[int]string{1: `1`, 2: `"s"`, 3: `null`}

type c18Case struct {
	Line  string
	Fam   int
	Doc   string
	Sels  []string
	Want  string
	Model string // "" = same as Want
}

// value encoding: leaf -> code; object -> [0,k1,v1,k2,v2,...]; array -> [1,e1,e2,...]
func c18Render(v interface{}, sb *strings.Builder) {
	switch x := v.(type) {
	case float64:
		t, ok := c18LeafText[int(x)]
		if !ok {
			panic(fmt.Sprintf("bad leaf code %v", x))
		}
		sb.WriteString(t)
	case []interface{}:
		if len(x) == 0 {
			panic("empty container encoding")
		}
		if x[0].(float64) == 0 {
			sb.WriteByte('{')
			for i := 1; i+1 < len(x); i += 2 {
				if i > 1 {
					sb.WriteByte(',')
				}
				name, ok := c18KeyNames[int(x[i].(float64))]
				if !ok {
					panic(fmt.Sprintf("bad key code %v", x[i]))
				}
				kb, _ := json.Marshal(name)
				sb.Write(kb)
				sb.WriteByte(':')
				c18Render(x[i+1], sb)
			}
			sb.WriteByte('}')
		} else {
			sb.WriteByte('[')
			for i := 1; i < len(x); i++ {
				if i > 1 {
					sb.WriteByte(',')
				}
				c18Render(x[i], sb)
			}
			sb.WriteByte(']')
		}
	default:
		panic(fmt.Sprintf("bad value encoding %T", v))
	}
}

func c18Text(v interface{}) string {
	var sb strings.Builder
	c18Render(v, &sb)
	return sb.String()
}

func c18ParseCase(line string) (*c18Case, error) {
	var t []interface{}
	if err := json.Unmarshal([]byte(line), &t); err != nil {
		return nil, err
	}
	if len(t) != 7 {
		return nil, fmt.Errorf("case tuple has %d elements", len(t))
	}
	c := &c18Case{Line: line, Fam: int(t[0].(float64)), Doc: c18Text(t[1]), Want: c18Text(t[c18WantIdx])}
	for _, p := range t[2].([]interface{}) {
		var parts []string
		for _, k := range p.([]interface{}) {
			name, ok := c18KeyNames[int(k.(float64))]
			if !ok {
				return nil, fmt.Errorf("bad key code %v", k)
			}
			// as a user writes it: a dot inside a field name is escaped with a backslash
			parts = append(parts, strings.ReplaceAll(name, ".", `\.`))
		}
		c.Sels = append(c.Sels, strings.Join(parts, "."))
	}
	if _, same := t[c18ModelIdx].(float64); !same {
		c.Model = c18Text(t[c18ModelIdx])
	}
	return c, nil
}

// ordered token sequence of a JSON text (nil, err when it is not one JSON value)
func c18Tokens(s string) ([]string, error) {
	dec := json.NewDecoder(strings.NewReader(s))
	dec.UseNumber()
	var out []string
	for {
		tok, err := dec.Token()
		if err != nil {
			if err.Error() == "EOF" {
				break
			}
			return nil, err
		}
		switch x := tok.(type) {
		case json.Delim:
			out = append(out, "d:"+x.String())
		case string:
			out = append(out, "s:"+x)
		case json.Number:
			out = append(out, "n:"+x.String())
		case bool:
			out = append(out, fmt.Sprintf("b:%v", x))
		case nil:
			out = append(out, "z")
		}
	}
	if len(out) == 0 {
		return nil, fmt.Errorf("no JSON value")
	}
	// exactly one value: the decoder must accept the text as a whole, too
	var any interface{}
	d2 := json.NewDecoder(strings.NewReader(s))
	d2.UseNumber()
	if err := d2.Decode(&any); err != nil {
		return nil, err
	}
	if d2.More() {
		return nil, fmt.Errorf("trailing data")
	}
	return out, nil
}

func c18SameTokens(a, b []string) bool {
	if len(a) != len(b) {
		return false
	}
	for i := range a {
		if a[i] != b[i] {
			return false
		}
	}
	return true
}

func c18Unordered(s string) interface{} {
	var v interface{}
	d := json.NewDecoder(strings.NewReader(s))
	d.UseNumber()
	if err := d.Decode(&v); err != nil {
		return nil
	}
	return v
}

type c18Mismatch struct {
	Plugin string   `json:"plugin"`
	Kind   string   `json:"kind"` // key_order | content | invalid_json | panic
	AsSwap bool     `json:"as_swap_delete_model"`
	Event  int      `json:"event"` // 1 = first Do of the instance, 2 = second Do of the same instance
	Fam    int      `json:"fam"`
	Doc    string   `json:"doc"`
	Fields []string `json:"fields"`
	Want   string   `json:"want"`
	Got    string   `json:"got"`
	Panic  string   `json:"panic,omitempty"`
	Case   string   `json:"case"`
}

// c18Do: one real plugin instance, two events
func c18Exec(c *c18Case, params *pipeline.ActionPluginParams) (mm []*c18Mismatch) {
	event := 0
	defer func() {
		if r := recover(); r != nil {
			mm = append(mm, &c18Mismatch{Plugin: c18Plugin, Kind: "panic", Event: event, Fam: c.Fam, Doc: c.Doc,
				Fields: c.Sels, Want: c.Want, Panic: fmt.Sprint(r), Case: c.Line})
		}
	}()
	wantTok, err := c18Tokens(c.Want)
	if err != nil {
		panic("harness: expected document is not JSON: " + c.Want)
	}
	var modelTok []string
	if c.Model != "" {
		modelTok, _ = c18Tokens(c.Model)
	}

	pl, cf := factory()
	cf.(*Config).Fields = append([]string(nil), c.Sels...)
	test.NewConfig(cf, nil)
	p := pl.(*Plugin)
	p.Start(cf, params)
	defer p.Stop()

	for event = 1; event <= 2; event++ {
		root := insaneJSON.Spawn()
		if err := root.DecodeString(c.Doc); err != nil {
			insaneJSON.Release(root)
			panic("harness: case document does not decode: " + c.Doc)
		}
		res := p.Do(&pipeline.Event{Root: root})
		got := string(append([]byte(nil), root.Encode(nil)...))
		insaneJSON.Release(root)

		m := &c18Mismatch{Plugin: c18Plugin, Event: event, Fam: c.Fam, Doc: c.Doc, Fields: c.Sels, Want: c.Want, Got: got, Case: c.Line}
		if res != pipeline.ActionPass {
			m.Kind = "content"
			m.Panic = fmt.Sprintf("Do returned %v", res)
			mm = append(mm, m)
			continue
		}
		gotTok, err := c18Tokens(got)
		if err != nil {
			m.Kind = "invalid_json"
			mm = append(mm, m)
			continue
		}
		if c18SameTokens(gotTok, wantTok) {
			continue
		}
		if reflect.DeepEqual(c18Unordered(got), c18Unordered(c.Want)) {
			m.Kind = "key_order"
		} else {
			m.Kind = "content"
		}
		m.AsSwap = modelTok != nil && c18SameTokens(gotTok, modelTok)
		mm = append(mm, m)
	}
	return mm
}

func TestVerifC18(t *testing.T) {
	in := os.Getenv("VERIF_CASES")
	out := os.Getenv("VERIF_OUT")
	if in == "" || out == "" {
		t.Skip("VERIF_CASES / VERIF_OUT not set")
	}
	f, err := os.Open(in)
	if err != nil {
		t.Fatal(err)
	}
	defer f.Close()
	var lines []string
	sc := bufio.NewScanner(f)
	sc.Buffer(make([]byte, 1<<20), 1<<24)
	for sc.Scan() {
		b := bytes.TrimSpace(sc.Bytes())
		if len(b) > 0 {
			lines = append(lines, string(b))
		}
	}
	if err := sc.Err(); err != nil {
		t.Fatal(err)
	}

	nw := runtime.GOMAXPROCS(0)
	var wg sync.WaitGroup
	var mu sync.Mutex
	const perClass = 40
	kept := map[string][]*c18Mismatch{}
	counts := map[string]int{}
	executed, nontrivial, reordering, bad := 0, 0, 0, 0
	for wi := 0; wi < nw; wi++ {
		wg.Add(1)
		go func(wi int) {
			defer wg.Done()
			params := test.NewEmptyActionPluginParams()
			for i := wi; i < len(lines); i += nw {
				c, err := c18ParseCase(lines[i])
				if err != nil {
					mu.Lock()
					bad++
					mu.Unlock()
					continue
				}
				mm := c18Exec(c, params)
				mu.Lock()
				executed++
				if c.Want != c.Doc && c.Want != "{}" {
					nontrivial++
				}
				if c.Model != "" {
					reordering++
				}
				for _, m := range mm {
					class := fmt.Sprintf("%s/%v/event%d", m.Kind, m.AsSwap, m.Event)
					counts[class]++
					if len(kept[class]) < perClass {
						kept[class] = append(kept[class], m)
					}
				}
				mu.Unlock()
			}
		}(wi)
	}
	wg.Wait()
	var mms []*c18Mismatch
	for _, l := range kept {
		mms = append(mms, l...)
	}
	res := map[string]interface{}{"plugin": c18Plugin, "executed": executed, "bad_lines": bad, "nontrivial": nontrivial,
		"reordering_predicted": reordering, "mismatch_counts": counts, "mismatches": mms}
	b, _ := json.Marshal(res)
	if err := os.WriteFile(out, b, 0o644); err != nil {
		t.Fatal(err)
	}
}
