package keep_fields

// C18 replay harness for keep_fields (mapped into /repo/plugin/action/keep_fields by `go test -overlay`;
// /repo is not modified).  Every case exported by TLC from specs/FieldSelect.tla is executed against the REAL
// plugin: the selector list is written as the STRINGS a user writes (dots inside a name escaped with a
// backslash), passed through the real Start (cfg.ParseNestedFields / cfg.ParseFieldSelector, trie and depth
// buffers), and the real Do runs on a real insaneJSON root decoded from the case's document.  The encoded
// result is compared, as an ORDERED token sequence, with the document the specification's declarative Keep
// expects.  The same plugin instance then processes the same document a second time (instance reuse).
//
// WIDE cases (the document contains the marker member, key code 9): the marker stands for K never-selected
// members junk_000.. (specification lemma WidthIndependent: K such members behave like one, in the document and
// in the expected result alike).  Two plugin instances are started; one processes the document widened to
// K = 1, 99, 100, 101, 150, 250 in this order, the other in the reverse order (a huge event first makes Go's
// append reallocate a buffer for good), every event compared with the equally widened declarative expectation.
//
// EVENT KINDS (the result is a function of (document, selectors) for every event that carries a document): every
// ordinary case is run through one instance as a regular event (twice), as a CHILD event built the way
// processor.Spawn builds it (fresh Root mutated to the array element of a parent document, SetChildKind) and as a
// CHILD-PARENT event (SetChildParentKind).  For a seeded sample (VERIF_E2E) the documents of several cases with the
// same selector list are the elements of one array that a REAL `split` action splits on a RUNNING pipeline
// [split, this plugin] (real processor.Spawn); the children and the same documents sent as ordinary events are
// compared with the same declarative expectation.
//
// NAME LENGTH (names matter only through equality; specification lemma RenameInvariant): every ordinary case runs
// once more, through a fresh instance, with its names replaced by a name table whose names have one of the lengths
// 1, 7, 8, 31, 32, 63, 64, 65, 127, 128, 255, 256, 1000 (table chosen by case number + seed): two names of that
// length differing only in the last byte, one equal to them up to that byte and one byte longer, a dotted one
// (escaped in the selector), one differing in the first byte; document, selectors and expectation renamed alike.
//
// NUMBER OF SELECTORS (specification lemma PadIrrelevant): ordinary cases also run, through a fresh instance, with
// the selector list padded to 9, 10, 16 or 40 selectors by selectors whose first name no document has (pad_NNN; half
// of them before, half after the case's own selectors; in every second variant one pad selector is nested, pad_x.y).
//
// INSTANCES (the per-depth buffers belong to ONE plugin instance): for a seeded sample of selector lists
// (VERIF_STRESS) N >= 4 real plugin instances are started from ONE shared Config object, the way the pipeline does
// (pipeline.newProc / processor.start: one Config, one plugin per processor), and run concurrently for a bounded time,
// each on its own goroutine with its own documents (the group's documents in its own rotation; marker members
// widened to its own number (< 100) of members with its own names, so that the delete lists differ).  Every single
// result is compared with the declarative expectation; the achieved overlap (Do calls that ran while another
// instance was inside Do) is measured and reported.

import (
	"bufio"
	"bytes"
	"encoding/json"
	"fmt"
	"os"
	"reflect"
	"runtime"
	"sort"
	"strings"
	"sync"
	"sync/atomic"
	"testing"
	"time"

	"github.com/ozontech/file.d/fd"
	"github.com/ozontech/file.d/pipeline"
	"github.com/ozontech/file.d/plugin/action/split"
	"github.com/ozontech/file.d/plugin/input/fake"
	"github.com/ozontech/file.d/plugin/output/devnull"
	"github.com/ozontech/file.d/test"
	insaneJSON "github.com/ozontech/insane-json"
	"github.com/prometheus/client_golang/prometheus"
	"go.uber.org/zap"
)

const c18Plugin = "keep_fields"

// what the case's expectation for this plugin is: index into the exported tuple
const (
	c18WantIdx  = 3 // expected keep result
	c18ModelIdx = 5 // transcription's prediction under D_SwapDelete (0 = same as expected)
	c18IsKeep   = c18WantIdx == 3
)

const c18JunkKey = 9

var c18KeyNames = map[int]string{1: "a", 2: "b", 3: "a.b", 4: "a.b.a", 5: "b.a"}

var c18PadEvery = 1 // VERIF_PAD_EVERY: every n-th ordinary case also runs with a padded selector list

var c18PadSizes = []int{9, 10, 16, 40}

var c18NameAll = false // VERIF_NAME_ALL=1 (replay): every ordinary case under every name table

var c18NameEvery = 1 // VERIF_NAME_EVERY: every n-th ordinary case also runs under a long-name table

var c18NameLens = []int{1, 7, 8, 31, 32, 63, 64, 65, 127, 128, 255, 256, 1000}

// injective name table for the length l
func c18NameTable(l int) map[int]string {
	p := strings.Repeat("n", l-1)
	return map[int]string{
		1: p + "a",   // length l
		2: p + "b",   // length l, differs from 1 only in the last byte
		3: p + "ac",  // equal to 1 up to byte l, one byte longer
		4: p + "a.b", // dotted (escaped in the selector); not the path 1 -> "b"
		5: "q" + p,   // length l, differs in the first byte
	}
}

var c18LeafText = map[int]string{1: `1`, 2: `"s"`, 3: `null`}
var c18Widths = []int{1, 99, 100, 101, 150, 250}

// ordered JSON tree
type c18Node struct {
	kind int // 0 leaf, 1 object, 2 array
	leaf int
	keys []string
	vals []*c18Node
}

// value encoding: leaf -> code; object -> [0,k1,v1,k2,v2,...]; array -> [1,e1,e2,...].
// A member with the marker key is replaced by `width` members junk_000.. with the same value.
func c18Build(v interface{}, width int) *c18Node { return c18BuildN(v, width, "junk_", c18KeyNames) }

func c18BuildP(v interface{}, width int, prefix string) *c18Node {
	return c18BuildN(v, width, prefix, c18KeyNames)
}

func c18BuildN(v interface{}, width int, prefix string, names map[int]string) *c18Node {
	switch x := v.(type) {
	case float64:
		if _, ok := c18LeafText[int(x)]; !ok {
			panic(fmt.Sprintf("bad leaf code %v", x))
		}
		return &c18Node{kind: 0, leaf: int(x)}
	case []interface{}:
		if len(x) == 0 {
			panic("empty container encoding")
		}
		if x[0].(float64) == 0 {
			n := &c18Node{kind: 1}
			for i := 1; i+1 < len(x); i += 2 {
				code := int(x[i].(float64))
				if code == c18JunkKey {
					for j := 0; j < width; j++ {
						n.keys = append(n.keys, fmt.Sprintf("%s%03d", prefix, j))
						n.vals = append(n.vals, c18BuildN(x[i+1], width, prefix, names))
					}
					continue
				}
				name, ok := names[code]
				if !ok {
					panic(fmt.Sprintf("bad key code %v", x[i]))
				}
				n.keys = append(n.keys, name)
				n.vals = append(n.vals, c18BuildN(x[i+1], width, prefix, names))
			}
			return n
		}
		n := &c18Node{kind: 2}
		for i := 1; i < len(x); i++ {
			n.keys = append(n.keys, "")
			n.vals = append(n.vals, c18BuildN(x[i], width, prefix, names))
		}
		return n
	}
	panic(fmt.Sprintf("bad value encoding %T", v))
}

func (n *c18Node) render(sb *strings.Builder) {
	switch n.kind {
	case 0:
		sb.WriteString(c18LeafText[n.leaf])
	case 1:
		sb.WriteByte('{')
		for i, k := range n.keys {
			if i > 0 {
				sb.WriteByte(',')
			}
			kb, _ := json.Marshal(k)
			sb.Write(kb)
			sb.WriteByte(':')
			n.vals[i].render(sb)
		}
		sb.WriteByte('}')
	default:
		sb.WriteByte('[')
		for i := range n.vals {
			if i > 0 {
				sb.WriteByte(',')
			}
			n.vals[i].render(sb)
		}
		sb.WriteByte(']')
	}
}

func (n *c18Node) text() string {
	var sb strings.Builder
	n.render(&sb)
	return sb.String()
}

func (n *c18Node) clone() *c18Node {
	c := &c18Node{kind: n.kind, leaf: n.leaf, keys: append([]string(nil), n.keys...)}
	for _, v := range n.vals {
		c.vals = append(c.vals, v.clone())
	}
	return c
}

func (n *c18Node) index(key string) int {
	for i, k := range n.keys {
		if k == key {
			return i
		}
	}
	return -1
}

// the known deviation (specification: D_SwapDelete): deleting member i moves the LAST member into its place
func (n *c18Node) swapDelete(i int) {
	last := len(n.keys) - 1
	n.keys[i], n.vals[i] = n.keys[last], n.vals[last]
	n.keys, n.vals = n.keys[:last], n.vals[:last]
}

// Which ORDER the known deviation gives for a document whose CONTENT expectation is `want` (used only to tell the
// listed key-order finding from any other difference; cross-checked against the specification's own prediction
// on every case that is not widened).
// keep_fields: per object, the members that do not survive are deleted in document order.
func c18PredictKeep(doc, want *c18Node) *c18Node {
	if doc.kind != 1 || want.kind != 1 {
		return doc.clone()
	}
	res := &c18Node{kind: 1}
	var doomed []string
	for i, k := range doc.keys {
		res.keys = append(res.keys, k)
		if j := want.index(k); j >= 0 {
			res.vals = append(res.vals, c18PredictKeep(doc.vals[i], want.vals[j]))
		} else {
			res.vals = append(res.vals, doc.vals[i])
			doomed = append(doomed, k)
		}
	}
	for _, k := range doomed {
		res.swapDelete(res.index(k))
	}
	return res
}

// remove_fields: the selectors, shortest first (stable), each dug through objects and deleted where it resolves
func c18PredictRemove(doc *c18Node, sels [][]string) *c18Node {
	res := doc.clone()
	order := append([][]string(nil), sels...)
	sort.SliceStable(order, func(i, j int) bool { return len(order[i]) < len(order[j]) })
	for _, p := range order {
		cur := res
		for d, name := range p {
			if cur.kind != 1 {
				break
			}
			i := cur.index(name)
			if i < 0 {
				break
			}
			if d == len(p)-1 {
				cur.swapDelete(i)
				break
			}
			cur = cur.vals[i]
		}
	}
	return res
}

type c18Case struct {
	Line     string
	Fam      int
	Wide     bool
	Sels     []string   // as the user writes them
	Paths    [][]string // parsed key names
	doc      interface{}
	want     interface{}
	model    interface{} // nil = same as want
	hasModel bool
	codes    [][]int
	NameLen  int // 0 = the specification's own names; else the length of the name table used
	ListLen  int // 0 = the case's own selector list; else the length it was padded to
}

// the selector list as a user writes it, for a name table
func (c *c18Case) setNames(names map[int]string) error {
	c.Sels, c.Paths = nil, nil
	for _, p := range c.codes {
		var parts, ns []string
		for _, k := range p {
			name, ok := names[k]
			if !ok {
				return fmt.Errorf("bad key code %v", k)
			}
			ns = append(ns, name)
			// as a user writes it: a dot inside a field name is escaped with a backslash
			parts = append(parts, strings.ReplaceAll(name, ".", `\.`))
		}
		c.Paths = append(c.Paths, ns)
		c.Sels = append(c.Sels, strings.Join(parts, "."))
	}
	return nil
}

func c18HasJunk(v interface{}) bool {
	x, ok := v.([]interface{})
	if !ok || len(x) == 0 {
		return false
	}
	if x[0].(float64) == 0 {
		for i := 1; i+1 < len(x); i += 2 {
			if int(x[i].(float64)) == c18JunkKey || c18HasJunk(x[i+1]) {
				return true
			}
		}
		return false
	}
	for i := 1; i < len(x); i++ {
		if c18HasJunk(x[i]) {
			return true
		}
	}
	return false
}

func c18ParseCase(line string) (*c18Case, error) {
	var t []interface{}
	if err := json.Unmarshal([]byte(line), &t); err != nil {
		return nil, err
	}
	if len(t) != 7 {
		return nil, fmt.Errorf("case tuple has %d elements", len(t))
	}
	c := &c18Case{Line: line, Fam: int(t[0].(float64)), doc: t[1], want: t[c18WantIdx]}
	c.Wide = c18HasJunk(t[1])
	for _, p := range t[2].([]interface{}) {
		var codes []int
		for _, k := range p.([]interface{}) {
			codes = append(codes, int(k.(float64)))
		}
		c.codes = append(c.codes, codes)
	}
	if err := c.setNames(c18KeyNames); err != nil {
		return nil, err
	}
	if _, same := t[c18ModelIdx].(float64); !same {
		c.model, c.hasModel = t[c18ModelIdx], true
	}
	return c, nil
}

// ordered token sequence of a JSON text (nil, err when it is not one JSON value)
func c18Tokens(s string) ([]string, error) {
	dec := json.NewDecoder(strings.NewReader(s))
	dec.UseNumber()
	var out []string
	for {
		tok, err := dec.Token()
		if err != nil {
			if err.Error() == "EOF" {
				break
			}
			return nil, err
		}
		switch x := tok.(type) {
		case json.Delim:
			out = append(out, "d:"+x.String())
		case string:
			out = append(out, "s:"+x)
		case json.Number:
			out = append(out, "n:"+x.String())
		case bool:
			out = append(out, fmt.Sprintf("b:%v", x))
		case nil:
			out = append(out, "z")
		}
	}
	if len(out) == 0 {
		return nil, fmt.Errorf("no JSON value")
	}
	// exactly one value: the decoder must accept the text as a whole, too
	var any interface{}
	d2 := json.NewDecoder(strings.NewReader(s))
	d2.UseNumber()
	if err := d2.Decode(&any); err != nil {
		return nil, err
	}
	if d2.More() {
		return nil, fmt.Errorf("trailing data")
	}
	return out, nil
}

func c18SameTokens(a, b []string) bool {
	if len(a) != len(b) {
		return false
	}
	for i := range a {
		if a[i] != b[i] {
			return false
		}
	}
	return true
}

func c18Unordered(s string) interface{} {
	var v interface{}
	d := json.NewDecoder(strings.NewReader(s))
	d.UseNumber()
	if err := d.Decode(&v); err != nil {
		return nil
	}
	return v
}

func c18Short(s string) string {
	if len(s) > 700 {
		return s[:340] + " ...(" + fmt.Sprint(len(s)) + " bytes)... " + s[len(s)-340:]
	}
	return s
}

type c18Mismatch struct {
	Plugin    string   `json:"plugin"`
	Kind      string   `json:"kind"` // key_order | content | invalid_json | panic
	AsSwap    bool     `json:"as_swap_delete_model"`
	Event     int      `json:"event"`      // n-th Do of the plugin instance
	EvKind    string   `json:"event_kind"` // regular | child | child_parent | pipeline_regular | pipeline_child
	Width     int      `json:"width"`      // 0 = not a widened case; else the number of junk members per marker
	ListLen   int      `json:"list_len"`   // 0 = the case's own list; else the number of selectors after padding
	NameLen   int      `json:"name_len"`   // 0 = the specification's names; else the length of the names used
	Order     string   `json:"width_order,omitempty"`
	Instances int      `json:"instances,omitempty"` // concurrent runs: plugin instances started from the one config
	Instance  int      `json:"instance,omitempty"`
	Fam       int      `json:"fam"`
	Doc       string   `json:"doc"`
	Fields    []string `json:"fields"`
	Want      string   `json:"want"`
	Got       string   `json:"got"`
	Panic     string   `json:"panic,omitempty"`
	Case      string   `json:"case"`
}

type c18Event struct {
	width            int
	kind             string // regular | child | child_parent
	doc, want, model string
	altModels        []string // further orders the known deviation may give (see c18PermutedModels)
}

// remove_fields deletes in the order ParseNestedFields leaves the selectors in; sort.Slice is an unstable sort beyond
// 12 elements, so for long lists the order among selectors of equal length is unspecified: every permutation of the
// case's own selectors is a possible deletion order of the known deviation.
func c18PermutedModels(c *c18Case, doc *c18Node) []string {
	if c18IsKeep || len(c.Paths) > 4 {
		return nil
	}
	var out []string
	var rec func(done, rest [][]string)
	rec = func(done, rest [][]string) {
		if len(rest) == 0 {
			out = append(out, c18PredictRemove(doc, done).text())
			return
		}
		for i := range rest {
			nr := append(append([][]string(nil), rest[:i]...), rest[i+1:]...)
			rec(append(append([][]string(nil), done...), rest[i]), nr)
		}
	}
	rec(nil, c.Paths)
	return out
}

// compares one produced document with the expectation; nil = as expected
func c18Judge(m *c18Mismatch, got, want, model string) *c18Mismatch {
	wantTok, err := c18Tokens(want)
	if err != nil {
		panic("harness: expected document is not JSON: " + want)
	}
	gotTok, err := c18Tokens(got)
	if err != nil {
		m.Kind = "invalid_json"
		return m
	}
	if c18SameTokens(gotTok, wantTok) {
		return nil
	}
	if reflect.DeepEqual(c18Unordered(got), c18Unordered(want)) {
		m.Kind = "key_order"
	} else {
		m.Kind = "content"
	}
	if model != want {
		modelTok, _ := c18Tokens(model)
		m.AsSwap = c18SameTokens(gotTok, modelTok)
	}
	return m
}

// one real plugin instance, the given events in order
func c18RunInstance(c *c18Case, params *pipeline.ActionPluginParams, events []c18Event, order string) (mm []*c18Mismatch) {
	n := 0
	cur := c18Event{}
	defer func() {
		if r := recover(); r != nil {
			mm = append(mm, &c18Mismatch{Plugin: c18Plugin, Kind: "panic", Event: n, EvKind: cur.kind, NameLen: c.NameLen, ListLen: c.ListLen, Width: cur.width, Order: order, Fam: c.Fam,
				Doc: c18Short(cur.doc), Fields: c.Sels, Want: c18Short(cur.want), Panic: fmt.Sprint(r), Case: c.Line})
		}
	}()
	pl, cf := factory()
	cf.(*Config).Fields = append([]string(nil), c.Sels...)
	test.NewConfig(cf, nil)
	p := pl.(*Plugin)
	p.Start(cf, params)
	defer p.Stop()

	for i, ev := range events {
		n, cur = i+1, ev
		var event *pipeline.Event
		var parent *insaneJSON.Root
		switch ev.kind {
		case "child":
			// as processor.Spawn does: a fresh Root mutated to the element node of the parent's array
			parent = insaneJSON.Spawn()
			if err := parent.DecodeString(`{"data":[` + ev.doc + `]}`); err != nil {
				panic("harness: parent document does not decode: " + ev.doc)
			}
			event = &pipeline.Event{Root: insaneJSON.Spawn()}
			event.Root.MutateToNode(parent.Dig("data").AsArray()[0])
			event.SetChildKind()
		default:
			root := insaneJSON.Spawn()
			if err := root.DecodeString(ev.doc); err != nil {
				insaneJSON.Release(root)
				panic("harness: case document does not decode: " + ev.doc)
			}
			event = &pipeline.Event{Root: root}
			if ev.kind == "child_parent" {
				event.SetChildParentKind()
			}
		}
		res := p.Do(event)
		got := string(append([]byte(nil), event.Root.Encode(nil)...))
		insaneJSON.Release(event.Root)
		if parent != nil {
			insaneJSON.Release(parent)
		}

		m := &c18Mismatch{Plugin: c18Plugin, Event: n, EvKind: ev.kind, NameLen: c.NameLen, ListLen: c.ListLen, Width: ev.width, Order: order, Fam: c.Fam, Doc: c18Short(ev.doc),
			Fields: c.Sels, Want: c18Short(ev.want), Got: c18Short(got), Case: c.Line}
		if res != pipeline.ActionPass {
			m.Kind = "content"
			m.Panic = fmt.Sprintf("Do returned %v", res)
			mm = append(mm, m)
			continue
		}
		if bad := c18Judge(m, got, ev.want, ev.model); bad != nil {
			if bad.Kind == "key_order" && !bad.AsSwap {
				for _, alt := range ev.altModels {
					if alt == got {
						bad.AsSwap = true
					}
				}
			}
			mm = append(mm, bad)
		}
	}
	return mm
}

func c18Predict(c *c18Case, doc, want *c18Node) *c18Node {
	if c18IsKeep {
		return c18PredictKeep(doc, want)
	}
	return c18PredictRemove(doc, c.Paths)
}

// returns the mismatches, whether the case is non-trivial, whether a re-ordering is predicted, and whether the
// harness's order predictor disagrees with the specification's (self-check; must never happen)
func c18Exec(c *c18Case, params *pipeline.ActionPluginParams, idx int) (mm []*c18Mismatch, nontrivial, reorder, predictorOff bool) {
	if !c.Wide {
		doc, want := c18Build(c.doc, 1), c18Build(c.want, 1)
		ev := c18Event{kind: "regular", doc: doc.text(), want: want.text()}
		ev.model = ev.want
		if c.hasModel {
			ev.model = c18Build(c.model, 1).text()
		}
		predictorOff = c18Predict(c, doc, want).text() != ev.model
		nontrivial = ev.want != ev.doc && ev.want != "{}"
		reorder = ev.model != ev.want
		child, childParent := ev, ev
		child.kind, childParent.kind = "child", "child_parent"
		mm = c18RunInstance(c, params, []c18Event{ev, ev, child, childParent}, "")
		// the same case under a name table of another length (fresh instance, one regular event);
		// every c18NameEvery-th case
		if idx%c18PadEvery == 0 || c18NameAll {
			variants := []int{(idx / c18PadEvery) % (2 * len(c18PadSizes))}
			if c18NameAll {
				variants = []int{0, 1, 2, 3, 4, 5, 6, 7}
			}
			for _, v := range variants {
				size, nested := c18PadSizes[v%len(c18PadSizes)], v >= len(c18PadSizes)
				pc := *c
				pc.ListLen = size
				var front, back []string
				for j := 0; len(c.Sels)+len(front)+len(back) < size; j++ {
					name := fmt.Sprintf("pad_%03d", j)
					if nested && j == 0 {
						name = "pad_x.y"
					}
					if j%2 == 0 {
						front = append(front, name)
					} else {
						back = append(back, name)
					}
				}
				pc.Sels = append(append(append([]string(nil), front...), c.Sels...), back...)
				pc.Paths = nil
				for range front {
					pc.Paths = append(pc.Paths, []string{"pad"})
				}
				pc.Paths = append(pc.Paths, c.Paths...)
				pev := ev
				if size > 12 {
					pev.altModels = c18PermutedModels(c, doc)
				}
				mm = append(mm, c18RunInstance(&pc, params, []c18Event{pev}, "")...)
			}
		}
		if idx%c18NameEvery != 0 && !c18NameAll {
			return mm, nontrivial, reorder, predictorOff
		}
		lens := []int{c18NameLens[(idx/c18NameEvery)%len(c18NameLens)]}
		if c18NameAll {
			lens = c18NameLens
		}
		for _, l := range lens {
			names := c18NameTable(l)
			rc := *c
			rc.NameLen = l
			if err := rc.setNames(names); err != nil {
				panic(err)
			}
			rdoc, rwant := c18BuildN(c.doc, 1, "junk_", names), c18BuildN(c.want, 1, "junk_", names)
			rev := c18Event{kind: "regular", doc: rdoc.text(), want: rwant.text()}
			rev.model = rev.want
			if c.hasModel {
				rev.model = c18BuildN(c.model, 1, "junk_", names).text()
			}
			if c18Predict(&rc, rdoc, rwant).text() != rev.model {
				predictorOff = true
			}
			mm = append(mm, c18RunInstance(&rc, params, []c18Event{rev}, "")...)
		}
		return mm, nontrivial, reorder, predictorOff
	}
	var asc []c18Event
	for _, w := range c18Widths {
		doc, want := c18Build(c.doc, w), c18Build(c.want, w)
		ev := c18Event{width: w, kind: "regular", doc: doc.text(), want: want.text(), model: c18Predict(c, doc, want).text()}
		if w == 1 {
			m := ev.want
			if c.hasModel {
				m = c18Build(c.model, 1).text()
			}
			predictorOff = ev.model != m
			nontrivial = ev.want != ev.doc && ev.want != "{}"
		}
		if ev.model != ev.want {
			reorder = true
		}
		asc = append(asc, ev)
	}
	desc := make([]c18Event, len(asc))
	for i := range asc {
		desc[len(asc)-1-i] = asc[i]
	}
	mm = append(mm, c18RunInstance(c, params, asc, "asc")...)
	mm = append(mm, c18RunInstance(c, params, desc, "desc")...)
	return mm, nontrivial, reorder, predictorOff
}

func TestVerifC18(t *testing.T) {
	in := os.Getenv("VERIF_CASES")
	out := os.Getenv("VERIF_OUT")
	if in == "" || out == "" {
		t.Skip("VERIF_CASES / VERIF_OUT not set")
	}
	f, err := os.Open(in)
	if err != nil {
		t.Fatal(err)
	}
	defer f.Close()
	var lines []string
	sc := bufio.NewScanner(f)
	sc.Buffer(make([]byte, 1<<20), 1<<24)
	for sc.Scan() {
		b := bytes.TrimSpace(sc.Bytes())
		if len(b) > 0 {
			lines = append(lines, string(b))
		}
	}
	if err := sc.Err(); err != nil {
		t.Fatal(err)
	}

	if n := 0; true {
		fmt.Sscan(os.Getenv("VERIF_NAME_EVERY"), &n)
		if n > 1 {
			c18NameEvery = n
		}
	}
	c18NameAll = os.Getenv("VERIF_NAME_ALL") == "1"
	if n := 0; true {
		fmt.Sscan(os.Getenv("VERIF_PAD_EVERY"), &n)
		if n > 1 {
			c18PadEvery = n
		}
	}
	seedShift := 0
	fmt.Sscan(os.Getenv("VERIF_SEED"), &seedShift)
	if seedShift < 0 {
		seedShift = -seedShift
	}
	seedShift %= 1 << 20
	nw := runtime.GOMAXPROCS(0)
	var wg sync.WaitGroup
	var mu sync.Mutex
	const perClass = 25
	kept := map[string][]*c18Mismatch{}
	counts := map[string]int{}
	executed, events, wide, nontrivial, reordering, bad, predictorOff := 0, 0, 0, 0, 0, 0, 0
	for wi := 0; wi < nw; wi++ {
		wg.Add(1)
		go func(wi int) {
			defer wg.Done()
			params := test.NewEmptyActionPluginParams()
			for i := wi; i < len(lines); i += nw {
				c, err := c18ParseCase(lines[i])
				if err != nil {
					mu.Lock()
					bad++
					mu.Unlock()
					continue
				}
				mm, nt, ro, off := c18Exec(c, params, i+seedShift)
				mu.Lock()
				executed++
				if c.Wide {
					wide++
					events += 2 * len(c18Widths)
				} else {
					events += 4
					if c18NameAll {
						events += 8
					} else if (i+seedShift)%c18PadEvery == 0 {
						events++
					}
					if c18NameAll {
						events += len(c18NameLens)
					} else if (i+seedShift)%c18NameEvery == 0 {
						events++
					}
				}
				if nt {
					nontrivial++
				}
				if ro {
					reordering++
				}
				if off {
					predictorOff++
				}
				for _, m := range mm {
					class := fmt.Sprintf("%s/%v/%s/event%d/width%d%s/len%d", m.Kind, m.AsSwap, m.EvKind, m.Event, m.Width, m.Order, m.NameLen*1000+m.ListLen)
					counts[class]++
					if len(kept[class]) < perClass {
						kept[class] = append(kept[class], m)
					}
				}
				mu.Unlock()
			}
		}(wi)
	}
	wg.Wait()
	// end to end: [split, this plugin] on a running pipeline
	e2eGroups, e2eDocs := 0, 0
	if e2e := os.Getenv("VERIF_E2E"); e2e != "" {
		ef, err := os.Open(e2e)
		if err != nil {
			t.Fatal(err)
		}
		es := bufio.NewScanner(ef)
		es.Buffer(make([]byte, 1<<20), 1<<24)
		for es.Scan() {
			var group []string
			if err := json.Unmarshal(es.Bytes(), &group); err != nil || len(group) == 0 {
				bad++
				continue
			}
			mm, nd := c18EndToEnd(group)
			e2eGroups++
			e2eDocs += nd
			events += 2 * nd
			for _, m := range mm {
				class := fmt.Sprintf("%s/%v/%s", m.Kind, m.AsSwap, m.EvKind)
				counts[class]++
				if len(kept[class]) < perClass {
					kept[class] = append(kept[class], m)
				}
			}
		}
		ef.Close()
	}

	// instances: N plugins from one shared config, concurrently
	stressGroups, stressInstances := 0, 0
	var stressDo, stressOverlap int64
	if sf := os.Getenv("VERIF_STRESS"); sf != "" {
		ms, _ := time.ParseDuration(os.Getenv("VERIF_STRESS_MS") + "ms")
		if ms <= 0 {
			ms = 300 * time.Millisecond
		}
		ef, err := os.Open(sf)
		if err != nil {
			t.Fatal(err)
		}
		es := bufio.NewScanner(ef)
		es.Buffer(make([]byte, 1<<20), 1<<24)
		for es.Scan() {
			var group []string
			if err := json.Unmarshal(es.Bytes(), &group); err != nil || len(group) < 4 {
				bad++
				continue
			}
			mm, nDo, nOver, inst := c18Stress(group, ms)
			stressGroups++
			stressInstances = inst
			stressDo += nDo
			stressOverlap += nOver
			events += int(nDo)
			for _, m := range mm {
				class := fmt.Sprintf("%s/%v/%s", m.Kind, m.AsSwap, m.EvKind)
				counts[class]++
				if len(kept[class]) < perClass {
					kept[class] = append(kept[class], m)
				}
			}
		}
		ef.Close()
	}

	var mms []*c18Mismatch
	for _, l := range kept {
		mms = append(mms, l...)
	}
	res := map[string]interface{}{"plugin": c18Plugin, "executed": executed, "events": events, "wide_cases": wide, "bad_lines": bad,
		"e2e_groups": e2eGroups, "e2e_documents": e2eDocs,
		"stress_groups": stressGroups, "stress_instances": stressInstances, "stress_do_calls": stressDo, "stress_overlapping_do_calls": stressOverlap,
		"nontrivial": nontrivial, "reordering_predicted": reordering, "predictor_disagrees": predictorOff,
		"mismatch_counts": counts, "mismatches": mms}
	b, _ := json.Marshal(res)
	if err := os.WriteFile(out, b, 0o644); err != nil {
		t.Fatal(err)
	}
}

// c18EndToEnd: the cases of one group share the selector list.  A running pipeline [split(field: data), plugin]
// receives every document as an ordinary event and then ONE event {"data":[doc1,...,docN]}; the real split action
// spawns the children through the real processor.Spawn.  One processor, so the output order is the input order.
func c18EndToEnd(group []string) (mm []*c18Mismatch, ndocs int) {
	var cases []*c18Case
	for _, line := range group {
		c, err := c18ParseCase(line)
		if err != nil || c.Wide {
			panic("harness: bad end-to-end case " + line)
		}
		cases = append(cases, c)
	}
	first := cases[0]
	evs := make([]c18Event, len(cases))
	for i, c := range cases {
		doc, want := c18Build(c.doc, 1), c18Build(c.want, 1)
		evs[i] = c18Event{doc: doc.text(), want: want.text()}
		evs[i].model = evs[i].want
		if c.hasModel {
			evs[i].model = c18Build(c.model, 1).text()
		}
	}

	splitInfo, err := fd.DefaultPluginRegistry.Get(pipeline.PluginKindAction, "split")
	if err != nil {
		panic(err)
	}
	splitConfig := test.NewConfig(&split.Config{Field: "data"}, nil)
	_, cf := factory()
	cf.(*Config).Fields = append([]string(nil), first.Sels...)
	test.NewConfig(cf, nil)
	actions := test.NewActionPluginStaticInfo(splitInfo.Factory, splitConfig, pipeline.MatchModeAnd, nil, false)
	actions = append(actions, test.NewActionPluginStaticInfo(factory, cf, pipeline.MatchModeAnd, nil, false)...)

	settings := &pipeline.Settings{
		Capacity:            64,
		MaintenanceInterval: time.Second * 5,
		EventTimeout:        pipeline.DefaultEventTimeout,
		Antispam:            pipeline.AntispamSettings{Threshold: pipeline.DefaultAntispamThreshold},
		AvgEventSize:        2048,
		MetaCacheSize:       32,
		StreamField:         "stream",
		Decoder:             "json",
		Metric: &pipeline.MetricSettings{
			HoldDuration:        pipeline.DefaultMetricHoldDuration,
			MaxLabelValueLength: pipeline.DefaultMetricMaxLabelValueLength,
		},
	}
	p := pipeline.New("verif_c18", settings, prometheus.NewRegistry(), zap.NewNop())
	p.DisableParallelism()
	anyIn, _ := fake.Factory()
	input := anyIn.(*fake.Plugin)
	p.SetInput(&pipeline.InputPluginInfo{
		PluginStaticInfo:  &pipeline.PluginStaticInfo{Type: "fake"},
		PluginRuntimeInfo: &pipeline.PluginRuntimeInfo{Plugin: input},
	})
	anyOut, _ := devnull.Factory()
	output := anyOut.(*devnull.Plugin)
	p.SetOutput(&pipeline.OutputPluginInfo{
		PluginStaticInfo:  &pipeline.PluginStaticInfo{Type: "devnull"},
		PluginRuntimeInfo: &pipeline.PluginRuntimeInfo{Plugin: output},
	})
	for _, info := range actions {
		p.AddAction(info)
	}

	var mu sync.Mutex
	var regular, children []string
	seen := make(chan struct{}, 4*len(cases)+8)
	output.SetOutFn(func(e *pipeline.Event) {
		mu.Lock()
		switch {
		case e.IsChildParentKind():
		case e.IsChildKind():
			children = append(children, string(append([]byte(nil), e.Root.Encode(nil)...)))
		default:
			regular = append(regular, string(append([]byte(nil), e.Root.Encode(nil)...)))
		}
		mu.Unlock()
		seen <- struct{}{}
	})
	p.Start()

	var sb strings.Builder
	sb.WriteString(`{"data":[`)
	for i, ev := range evs {
		input.In(0, "verif.log", test.NewOffset(int64(i)), []byte(ev.doc))
		if i > 0 {
			sb.WriteByte(',')
		}
		sb.WriteString(ev.doc)
	}
	sb.WriteString(`]}`)
	input.In(0, "verif.log", test.NewOffset(int64(len(evs))), []byte(sb.String()))

	// N ordinary events + N children + the parent; generous deadline (normally a few milliseconds)
	deadline := time.After(60 * time.Second)
	complete := true
wait:
	for i := 0; i < 2*len(evs)+1; i++ {
		select {
		case <-seen:
		case <-deadline:
			complete = false
			break wait
		}
	}
	p.Stop()

	mu.Lock()
	defer mu.Unlock()
	mk := func(kind string, i int, got string) *c18Mismatch {
		return &c18Mismatch{Plugin: c18Plugin, Event: i + 1, EvKind: kind, Fam: first.Fam, Doc: c18Short(evs[i].doc), Fields: first.Sels,
			Want: c18Short(evs[i].want), Got: c18Short(got), Case: cases[i].Line}
	}
	if !complete || len(regular) != len(evs) || len(children) != len(evs) {
		m := mk("pipeline_child", 0, fmt.Sprintf("%d ordinary and %d child events arrived, %d each expected (complete=%v)",
			len(regular), len(children), len(evs), complete))
		m.Kind = "events_missing"
		return []*c18Mismatch{m}, len(evs)
	}
	for i := range evs {
		if bad := c18Judge(mk("pipeline_regular", i, regular[i]), regular[i], evs[i].want, evs[i].model); bad != nil {
			mm = append(mm, bad)
		}
		if bad := c18Judge(mk("pipeline_child", i, children[i]), children[i], evs[i].want, evs[i].model); bad != nil {
			mm = append(mm, bad)
		}
	}
	return mm, len(evs)
}

type c18StressDoc struct {
	c                *c18Case
	doc, want, model string
	verdict          map[string]*c18Mismatch // judged results that differ from `want` (nil value = fine)
}

// c18Stress: the cases of the group share the selector list.  ONE config object, n plugin instances started from it
// (as pipeline.newProc + processor.start do), every instance on its own goroutine for `dur`.
func c18Stress(group []string, dur time.Duration) (mm []*c18Mismatch, nDo, nOverlap int64, n int) {
	var cases []*c18Case
	for _, line := range group {
		c, err := c18ParseCase(line)
		if err != nil {
			panic("harness: bad stress case " + line)
		}
		cases = append(cases, c)
	}
	n = runtime.GOMAXPROCS(0)
	if n < 4 {
		n = 4
	}
	if n > 8 {
		n = 8
	}
	first := cases[0]

	// the ONE config of the action, shared by all instances
	_, cf := factory()
	cf.(*Config).Fields = append([]string(nil), first.Sels...)
	test.NewConfig(cf, nil)

	plugins := make([]*Plugin, n)
	docs := make([][]*c18StressDoc, n)
	for i := 0; i < n; i++ {
		pl, _ := factory()
		plugins[i] = pl.(*Plugin)
		plugins[i].Start(cf, test.NewEmptyActionPluginParams())
		width, prefix := 40+7*i, fmt.Sprintf("j%d_", i) // < 100 names to delete per level, own names
		for j := range cases {
			c := cases[(i+j)%len(cases)]
			doc, want := c18BuildP(c.doc, width, prefix), c18BuildP(c.want, width, prefix)
			docs[i] = append(docs[i], &c18StressDoc{c: c, doc: doc.text(), want: want.text(),
				model: c18Predict(c, doc, want).text(), verdict: map[string]*c18Mismatch{}})
		}
	}

	var inDo int32
	var totalDo, overlapDo int64
	var mu sync.Mutex
	var wg sync.WaitGroup
	start := make(chan struct{})
	deadline := time.Now().Add(dur)
	for i := 0; i < n; i++ {
		wg.Add(1)
		go func(i int) {
			defer wg.Done()
			defer func() {
				if r := recover(); r != nil {
					mu.Lock()
					mm = append(mm, &c18Mismatch{Plugin: c18Plugin, Kind: "panic", EvKind: "concurrent", Fam: first.Fam, Fields: first.Sels,
						Panic: fmt.Sprint(r), Case: first.Line, Instances: n})
					mu.Unlock()
				}
			}()
			p := plugins[i]
			root := insaneJSON.Spawn()
			defer insaneJSON.Release(root)
			var buf []byte
			var did, over int64
			<-start
			for it := 0; ; it++ {
				if it&63 == 0 && time.Now().After(deadline) {
					break
				}
				d := docs[i][it%len(docs[i])]
				if err := root.DecodeString(d.doc); err != nil {
					panic("harness: stress document does not decode")
				}
				c := atomic.AddInt32(&inDo, 1)
				res := p.Do(&pipeline.Event{Root: root})
				c2 := atomic.AddInt32(&inDo, -1)
				did++
				if c > 1 || c2 > 0 {
					over++
				}
				buf = root.Encode(buf[:0])
				if res == pipeline.ActionPass && string(buf) == d.want {
					continue
				}
				got := string(buf)
				if _, seen := d.verdict[got]; seen {
					continue
				}
				m := &c18Mismatch{Plugin: c18Plugin, Event: it + 1, EvKind: "concurrent", Instances: n, Instance: i + 1, Fam: d.c.Fam,
					Doc: c18Short(d.doc), Fields: first.Sels, Want: c18Short(d.want), Got: c18Short(got), Case: d.c.Line}
				if res != pipeline.ActionPass {
					m.Kind, m.Panic = "content", fmt.Sprintf("Do returned %v", res)
				} else {
					m = c18Judge(m, got, d.want, d.model)
				}
				d.verdict[got] = m
				if m != nil {
					mu.Lock()
					mm = append(mm, m)
					mu.Unlock()
				}
			}
			atomic.AddInt64(&totalDo, did)
			atomic.AddInt64(&overlapDo, over)
		}(i)
	}
	close(start)
	wg.Wait()
	for _, p := range plugins {
		p.Stop()
	}
	return mm, totalDo, overlapDo, n
}
