package gelf

// C19 replay harness for the gelf output (mapped into /repo/plugin/output/gelf by `go test -overlay`;
// /repo is not modified).
//
// The REAL plugin is started (real config decoding, real Start computing the derived field names); the batches are
// then handed to the plugin's own out function with pipeline.NewPreparedBatch and one persistent WorkerData, exactly
// as a batcher worker does, because the TCP stream has no request boundaries: after out() returns the harness writes
// a marker on the worker's own connection (in-package access), so the in-process TCP sink knows, without any timing,
// that it has received every byte of the batch. host_field is the adversarial routing value (svc).
// Abstraction function: NUL-terminated GELF JSON messages -> ids (_c19id).

import (
	"bufio"
	"bytes"
	"compress/gzip"
	"encoding/json"
	"fmt"
	"io"
	"net"
	"net/http"
	"os"
	"reflect"
	"runtime"
	"strings"
	"sync"
	"sync/atomic"
	"testing"
	"time"

	"github.com/ozontech/file.d/metric"
	"github.com/ozontech/file.d/pipeline"
	insaneJSON "github.com/ozontech/insane-json"
	"github.com/prometheus/client_golang/prometheus"
	"go.uber.org/zap"
)

const c19Marker = "\x00\x00C19-END-OF-BATCH\x00\x00"

type c19TCPSink struct {
	mu   sync.Mutex
	cond *sync.Cond
	buf  []byte
	ln   net.Listener
}

func c19NewTCPSink() *c19TCPSink {
	ln, err := net.Listen("tcp", "127.0.0.1:0")
	if err != nil {
		panic(err)
	}
	s := &c19TCPSink{ln: ln}
	s.cond = sync.NewCond(&s.mu)
	go func() {
		for {
			conn, err := ln.Accept()
			if err != nil {
				return
			}
			go func() {
				defer conn.Close()
				b := make([]byte, 64<<10)
				for {
					n, err := conn.Read(b)
					s.mu.Lock()
					s.buf = append(s.buf, b[:n]...)
					s.cond.Broadcast()
					s.mu.Unlock()
					if err != nil {
						return
					}
				}
			}()
		}
	}()
	return s
}

// everything received up to the marker (which is consumed); ok=false on timeout
func (s *c19TCPSink) untilMarker() ([]byte, bool) {
	timer := time.AfterFunc(60*time.Second, func() { s.mu.Lock(); s.cond.Broadcast(); s.mu.Unlock() })
	defer timer.Stop()
	deadline := time.Now().Add(60 * time.Second)
	s.mu.Lock()
	defer s.mu.Unlock()
	for {
		if i := bytes.Index(s.buf, []byte(c19Marker)); i >= 0 {
			body := append([]byte{}, s.buf[:i]...)
			s.buf = append([]byte{}, s.buf[i+len(c19Marker):]...)
			return body, true
		}
		if time.Now().After(deadline) {
			body := s.buf
			s.buf = nil
			return body, false
		}
		s.cond.Wait()
	}
}

func c19ParseGelf(body []byte, orig map[int][]byte) c19Req {
	r := c19Req{IDs: []int{}}
	if len(body) == 0 {
		return r
	}
	if body[len(body)-1] != 0 {
		r.Framing = append(r.Framing, c19Framing{Where: "no_final_nul", ID: -1, Text: c19Clip(string(body[max(0, len(body)-80):]))})
	} else {
		body = body[:len(body)-1]
	}
	for _, msg := range bytes.Split(body, []byte{0}) {
		id, ok := c19DocID(msg, "_c19id")
		if !ok {
			r.Framing = append(r.Framing, c19Framing{Where: "message", ID: -1, Text: c19Clip(string(msg))})
			continue
		}
		var m map[string]interface{}
		_ = json.Unmarshal(msg, &m)
		host, hok := m["host"].(string)
		short, sok := m["short_message"].(string)
		if v, _ := m["version"].(string); v != "1.1" || !hok || !sok || host == "" || short == "" {
			r.Framing = append(r.Framing, c19Framing{Where: "gelf_mandatory_fields", ID: id, Text: c19Clip(string(msg))})
		}
		r.IDs = append(r.IDs, id)
		if o, ok := orig[id]; ok {
			var om map[string]interface{}
			_ = json.Unmarshal(o, &om)
			wantHost, _ := om["svc"].(string)
			if wantHost == "" {
				wantHost = "unknown"
			}
			if short != om["msg"] {
				r.DocDiff = append(r.DocDiff, id)
			}
			if host != wantHost { // host_field = svc: the host of a message is the one of its own event
				r.Routing = append(r.Routing, c19Framing{Where: "host", ID: id, Text: c19Clip(fmt.Sprintf("got %q want %q", host, wantHost))})
			}
		}
	}
	return r
}

type c19GelfWorker struct {
	wi   int
	sink *c19TCPSink
}

func (w *c19GelfWorker) close() { _ = w.sink.ln.Close() }

func (w *c19GelfWorker) run(c *c19Case) (res c19CaseRes) {
	res.N = c.N
	cfgJSON := fmt.Sprintf(`{"endpoint":%q,"host_field":"svc","short_message_field":"msg",`+c19BatcherJSON+`,"retry":0}`, w.sink.ln.Addr().String())
	config, err := pipeline.GetConfig(&pipeline.PluginStaticInfo{Type: outPluginType, Factory: Factory}, []byte(cfgJSON), c19Values)
	if err != nil {
		panic(err)
	}
	ctl := &c19Ctl{commits: make(chan uint64, 64)}
	p := &Plugin{}
	p.Start(config, c19Params(ctl, w.wi, c.DQ))
	defer p.Stop()
	wd := pipeline.WorkerData(nil) // what Batcher.work keeps per worker
	defer func() {
		if wd != nil && wd.(*data).gelf != nil {
			_ = wd.(*data).gelf.close()
		}
	}()
	defer func() {
		if r := recover(); r != nil {
			res.Panic = fmt.Sprint(r)
		}
	}()
	seq := uint64(0)
	for _, b := range c.Batches {
		x := c19MakeEvents(b, &seq)
		defer x.release()
		iterable := false
		for _, ev := range x.evs {
			iterable = iterable || !ev.IsChildParentKind()
		}
		br := c19BatchRes{Reqs: []c19Req{}, Acked: true}
		if iterable { // Batcher.work: out is called only for batches with iterable events
			if err := p.out(&wd, pipeline.NewPreparedBatch(x.evs)); err != nil {
				br.Acked = false // the RetriableBatcher would retry
			} else {
				if _, err := wd.(*data).gelf.conn.Write([]byte(c19Marker)); err != nil {
					panic(err)
				}
				body, ok := w.sink.untilMarker()
				r := c19ParseGelf(body, x.orig)
				r.OK, r.Status, r.Bytes = true, 200, len(body)
				br.Reqs = append(br.Reqs, r)
				br.Acked = ok
			}
		}
		res.Batches = append(res.Batches, br)
		if !br.Acked {
			break
		}
	}
	return res
}

func TestVerifC19(t *testing.T) {
	c19Main(t, func(wi int) c19Worker { return &c19GelfWorker{wi: wi, sink: c19NewTCPSink()} })
}

// ======================================================================================================
// Common part of the C19 harness (identical text in every plugin/output/<sink>/zz_verif_c19_test.go;
// in-package test files cannot share code across packages).
// ======================================================================================================

type c19Ev struct {
	ID   int    `json:"id"`
	Kind string `json:"kind"`
	Size int    `json:"size"`
	Val  int    `json:"val"`
}

type c19Case struct {
	N       int       `json:"n"`
	Variant string    `json:"variant,omitempty"` // sink-specific configuration variant (http: "raw")
	Split   bool      `json:"split"`
	Batches [][]c19Ev `json:"batches"`
	Pats    [][][]int `json:"pats"`
	Gzip    bool      `json:"gzip"` // transport: use_gzip
	Dead    int       `json:"dead"` // transport: number of dead endpoints configured next to the live one
	Fail    []bool    `json:"fail"` // per batch: the sink answers 5xx to every attempt (the batch is given up)
	DQ      bool      `json:"dq"`   // a dead queue is configured
}

func c19Fail(c *c19Case, bi int) bool { return bi < len(c.Fail) && c.Fail[bi] }

type c19Framing struct {
	Where string `json:"where"`
	ID    int    `json:"id"`
	Text  string `json:"text"`
}

// one captured request / write / produce call, projected by the sink's abstraction function
type c19Req struct {
	IDs     []int        `json:"ids"`
	OK      bool         `json:"ok"`
	Status  int          `json:"st"`
	Framing []c19Framing `json:"framing,omitempty"`
	DocDiff []int        `json:"doc_diff,omitempty"`
	Routing []c19Framing `json:"routing,omitempty"` // routing value of a record is not the one of its own event
	Bytes   int          `json:"bytes"`
}

type c19BatchRes struct {
	Reqs  []c19Req `json:"reqs"`
	Acked bool     `json:"acked"`
}

type c19CaseRes struct {
	N        int           `json:"n"`
	Batches  []c19BatchRes `json:"batches"`
	Panic    string        `json:"panic,omitempty"`
	DeadHits int           `json:"dead_hits"` // connections that arrived at a dead endpoint during the case
}

// ---- event content: adversarial values in the routing field (svc) and in the message -------------------

// JSON text of the routing value by class; ok=false: field absent. Classes >= 5 need escaping when they are
// spliced into a JSON string.
func c19Val(class int) (string, bool) {
	switch class {
	case 0:
		return `"svc-a"`, true
	case 1:
		return "", false
	case 2:
		return `""`, true
	case 3:
		return "\"a\xff\xfeb\"", true // invalid UTF-8, raw
	case 4:
		return "\"ü %z ☃\"", true
	case 5:
		return `"a\"b"`, true
	case 6:
		return `"a\\b"`, true
	case 7:
		return `"a\nb"`, true
	case 8:
		return `"x\"}}\n{\"index\":{\"_index\":\"y"`, true
	default:
		return `"a\u0001\tb"`, true
	}
}

// the same value as the raw string a plugin reads with AsString(); "" when absent or empty
func c19ValRaw(class int) string {
	switch class {
	case 0:
		return "svc-a"
	case 1, 2:
		return ""
	case 3:
		return "a\xff\xfeb"
	case 4:
		return "ü %z ☃"
	case 5:
		return `a"b`
	case 6:
		return `a\b`
	case 7:
		return "a\nb"
	case 8:
		return "x\"}}\n{\"index\":{\"_index\":\"y"
	default:
		return "a\x01\tb"
	}
}

// a string as encoding/json hands it back (every invalid UTF-8 byte -> U+FFFD), for comparisons with decoded JSON
func c19Norm(s string) string {
	b, _ := json.Marshal(s)
	var out string
	_ = json.Unmarshal(b, &out)
	return out
}

func c19Msg(id int) string {
	switch id % 4 {
	case 0:
		return `"he said \"hi\" \\ back\\slash \n newline \t tab \u0000 nul"`
	case 1:
		return "\"raw \xff\xfe bytes \xc3\x28 end\""
	case 2:
		return `"{\"nested\":\"json\",\"a\":[1,2]}\r\n"`
	default:
		return `"plain"`
	}
}

func c19EventJSON(e c19Ev) []byte {
	var b bytes.Buffer
	fmt.Fprintf(&b, `{"c19id":%d`, e.ID)
	if v, ok := c19Val(e.Val); ok {
		b.WriteString(`,"svc":`)
		b.WriteString(v)
		fmt.Fprintf(&b, `,"carrier":{"c19id":%d,"svc":%s}`, e.ID, v) // absent together with svc (class 1)
	}
	b.WriteString(`,"msg":`)
	b.WriteString(c19Msg(e.ID))
	b.WriteString(`,"n":{"a":[1,2.5,true,null,"x"],"q\"k":"v"}`)
	if e.Size > 1 {
		b.WriteString(`,"pad":"`)
		b.WriteString(strings.Repeat("p", 3000))
		b.WriteString(`"`)
	}
	b.WriteString("}")
	return b.Bytes()
}

func c19SameJSON(a, b []byte) bool {
	var x, y interface{}
	if json.Unmarshal(a, &x) != nil || json.Unmarshal(b, &y) != nil {
		return false
	}
	return reflect.DeepEqual(x, y)
}

// id of a JSON document that carries one of the harness's events (object with a numeric field `key`)
func c19DocID(doc []byte, key string) (int, bool) {
	if !json.Valid(doc) {
		return 0, false
	}
	var m map[string]interface{}
	if json.Unmarshal(doc, &m) != nil {
		return 0, false
	}
	f, ok := m[key].(float64)
	if !ok {
		return 0, false
	}
	return int(f), true
}

func c19Clip(s string) string {
	if len(s) > 160 {
		return s[:160] + "..."
	}
	return s
}

func c19Rejects(pat [][]int, ids []int) bool {
	have := map[int]bool{}
	for _, id := range ids {
		have[id] = true
	}
	for _, m := range pat {
		all := true
		for _, id := range m {
			if !have[id] {
				all = false
				break
			}
		}
		if all {
			return true
		}
	}
	return false
}

// ---- capture: what the sink saw for the batch in flight ------------------------------------------------

type c19Capture struct {
	mu    sync.Mutex
	pat   [][]int
	fail  bool
	orig  map[int][]byte
	route map[int]string // id -> the event's own routing value ("" = absent or empty)
	reqs  []c19Req
}

func (s *c19Capture) arm(pat [][]int, x *c19Events, fail bool) {
	s.mu.Lock()
	s.pat, s.orig, s.route, s.fail, s.reqs = pat, x.orig, x.route, fail, nil
	s.mu.Unlock()
}

func (s *c19Capture) take() []c19Req {
	s.mu.Lock()
	defer s.mu.Unlock()
	return append([]c19Req{}, s.reqs...)
}

// in-process HTTP sink: parses every body with the sink-specific abstraction function, answers 413 by pattern
type c19HTTPSink struct {
	c19Capture
	parse    func(body []byte, orig map[int][]byte, route map[int]string) c19Req
	okStatus int
	okBody   string
}

// dead endpoints: the TCP connection is accepted (so that the hit can be counted) and reset at once -- a transport error
// for the client, like a refused connection
type c19DeadEndpoints struct {
	lns  []net.Listener
	hits int64
}

func c19NewDeadEndpoints(n int) *c19DeadEndpoints {
	d := &c19DeadEndpoints{}
	for i := 0; i < n; i++ {
		ln, err := net.Listen("tcp", "127.0.0.1:0")
		if err != nil {
			panic(err)
		}
		d.lns = append(d.lns, ln)
		go func() {
			for {
				conn, err := ln.Accept()
				if err != nil {
					return
				}
				atomic.AddInt64(&d.hits, 1)
				if tc, ok := conn.(*net.TCPConn); ok {
					_ = tc.SetLinger(0)
				}
				_ = conn.Close()
			}
		}()
	}
	return d
}

func (d *c19DeadEndpoints) urls(n int) []string {
	var out []string
	for i := 0; i < n && i < len(d.lns); i++ {
		out = append(out, "http://"+d.lns[i].Addr().String())
	}
	return out
}

func (d *c19DeadEndpoints) close() {
	for _, ln := range d.lns {
		_ = ln.Close()
	}
}

func (s *c19HTTPSink) ServeHTTP(w http.ResponseWriter, req *http.Request) {
	body, _ := io.ReadAll(req.Body)
	var gzErr error
	if req.Header.Get("Content-Encoding") == "gzip" {
		// what a sink does: decode the body (all gzip members) before it looks at the documents
		var zr *gzip.Reader
		if zr, gzErr = gzip.NewReader(bytes.NewReader(body)); gzErr == nil {
			body, gzErr = io.ReadAll(zr)
		}
	}
	s.mu.Lock()
	r := s.parse(body, s.orig, s.route)
	if gzErr != nil {
		r.Framing = append(r.Framing, c19Framing{Where: "gzip_body", ID: -1, Text: gzErr.Error()})
	}
	r.Bytes = len(body)
	if r.IDs == nil {
		r.IDs = []int{}
	}
	switch {
	case s.fail:
		r.Status = http.StatusInternalServerError
	case c19Rejects(s.pat, r.IDs):
		r.Status = http.StatusRequestEntityTooLarge
	default:
		r.Status, r.OK = http.StatusOK, true
	}
	s.reqs = append(s.reqs, r)
	s.mu.Unlock()
	if !r.OK {
		w.WriteHeader(r.Status)
		_, _ = w.Write([]byte(`{"error":"scripted"}`))
		return
	}
	w.WriteHeader(s.okStatus)
	_, _ = w.Write([]byte(s.okBody))
}

// ---- controller, params, events -----------------------------------------------------------------------

type c19Ctl struct {
	commits chan uint64
}

func (c *c19Ctl) Commit(e *pipeline.Event) { c.commits <- e.SeqID }
func (c *c19Ctl) Error(string)             {}

// stand-in for a configured dead-queue output: receiving an event counts like its commit
type c19DQ struct{ ctl *c19Ctl }

func (d *c19DQ) Start(pipeline.AnyConfig, *pipeline.OutputPluginParams) {}
func (d *c19DQ) Stop()                                                  {}
func (d *c19DQ) Out(e *pipeline.Event)                                  { d.ctl.commits <- e.SeqID }

func c19Params(ctl *c19Ctl, wi int, dq bool) *pipeline.OutputPluginParams {
	router := pipeline.NewRouter()
	if dq {
		router.SetDeadQueueOutput(&pipeline.OutputPluginInfo{
			PluginStaticInfo:  &pipeline.PluginStaticInfo{Type: "c19dq"},
			PluginRuntimeInfo: &pipeline.PluginRuntimeInfo{Plugin: &c19DQ{ctl: ctl}},
		})
	}
	return &pipeline.OutputPluginParams{
		PluginDefaultParams: pipeline.PluginDefaultParams{
			PipelineName:     "c19",
			PipelineSettings: &pipeline.Settings{AvgEventSize: 128, Capacity: 64},
			MetricCtl:        metric.NewCtl(fmt.Sprintf("c19_%d", wi), prometheus.NewRegistry(), 0, 0),
		},
		Controller: ctl,
		Router:     router,
		Logger:     zap.NewNop().Sugar(),
	}
}

const c19BatcherJSON = `"workers_count":"1","batch_size":"8","batch_size_bytes":"1000000","batch_flush_timeout":"1h"`

var c19Values = map[string]int{"gomaxprocs": 1, "capacity": 64}

type c19Events struct {
	evs   []*pipeline.Event
	orig  map[int][]byte
	route map[int]string
	roots []*insaneJSON.Root
}

func (x *c19Events) release() {
	for _, r := range x.roots {
		insaneJSON.Release(r)
	}
}

// the events of one batch; the last one carries a Size that seals the batch through batch_size_bytes, so batch
// boundaries are exactly the case's, without any timing
func c19MakeEvents(b []c19Ev, seq *uint64) *c19Events {
	x := &c19Events{orig: map[int][]byte{}, route: map[int]string{}}
	for i, e := range b {
		js := c19EventJSON(e)
		x.orig[e.ID] = js
		x.route[e.ID] = c19ValRaw(e.Val)
		root := insaneJSON.Spawn()
		x.roots = append(x.roots, root)
		if err := root.DecodeBytes(js); err != nil {
			panic(fmt.Sprintf("harness event does not decode: %v: %q", err, js))
		}
		*seq++
		ev := &pipeline.Event{Root: root, Buf: make([]byte, 0, 64), SeqID: *seq, Size: 1}
		switch e.Kind {
		case "child":
			ev.SetChildKind()
		case "parent":
			ev.SetChildParentKind()
		}
		if i == len(b)-1 {
			ev.Size = 1000000
		}
		x.evs = append(x.evs, ev)
	}
	return x
}

// hands the events to the plugin's public Out and waits until the batcher has committed all of them
func c19Feed(out func(*pipeline.Event), x *c19Events, ctl *c19Ctl) bool {
	for _, ev := range x.evs {
		out(ev)
	}
	deadline := time.After(60 * time.Second)
	for n := 0; n < len(x.evs); n++ {
		select {
		case <-ctl.commits:
		case <-deadline:
			return false
		}
	}
	return true
}

// ---- driver ------------------------------------------------------------------------------------------

type c19Worker interface {
	run(c *c19Case) c19CaseRes
	close()
}

func c19Main(t *testing.T, newWorker func(wi int) c19Worker) {
	in, out := os.Getenv("VERIF_CASES"), os.Getenv("VERIF_OUT")
	if in == "" || out == "" {
		t.Skip("VERIF_CASES / VERIF_OUT not set")
	}
	f, err := os.Open(in)
	if err != nil {
		t.Fatal(err)
	}
	defer f.Close()
	var cases []*c19Case
	sc := bufio.NewScanner(f)
	sc.Buffer(make([]byte, 1<<20), 1<<24)
	for sc.Scan() {
		c := &c19Case{}
		if err := json.Unmarshal(sc.Bytes(), c); err != nil {
			t.Fatalf("bad case line: %v", err)
		}
		cases = append(cases, c)
	}
	of, err := os.Create(out)
	if err != nil {
		t.Fatal(err)
	}
	defer of.Close()
	w := bufio.NewWriterSize(of, 1<<20)
	defer w.Flush()

	nw := runtime.GOMAXPROCS(0)
	if nw > 16 {
		nw = 16
	}
	var wg sync.WaitGroup
	var mu sync.Mutex
	var next int64 = -1
	for wi := 0; wi < nw; wi++ {
		wg.Add(1)
		go func(wi int) {
			defer wg.Done()
			wk := newWorker(wi)
			defer wk.close()
			for {
				i := int(atomic.AddInt64(&next, 1))
				if i >= len(cases) {
					return
				}
				res := wk.run(cases[i])
				b, _ := json.Marshal(res)
				mu.Lock()
				_, _ = w.Write(b)
				_ = w.WriteByte('\n')
				mu.Unlock()
			}
		}(wi)
	}
	wg.Wait()
}
