package gelf

// C19, gelf field names (specs/GelfFieldName.tla): mapped into /repo/plugin/output/gelf by `go test -overlay`; /repo is not
// modified; shares the helpers of zz_verif_c19_test.go in this package.
//
// Every name exported by TLC (1..N runes over ASCII letters / digits, `_` `-` `.`, other ASCII punctuation, 2-, 3- and
// 4-byte UTF-8 letters and digits) becomes the name of a field of an event; the REAL plugin (real config decoding, real
// Start) formats the event with its own formatEvent and the message is encoded as out() does. The message must be valid
// UTF-8 and a JSON document whose members are exactly: the expected GELF name of that field with the event's value,
// _c19id, host, short_message, version.

import (
	"bufio"
	"encoding/json"
	"fmt"
	"os"
	"sort"
	"strings"
	"testing"
	"unicode/utf8"

	"github.com/ozontech/file.d/pipeline"
	insaneJSON "github.com/ozontech/insane-json"
)

type c19gnCase struct {
	Name []int `json:"name"`
	Want []int `json:"want"`
}

type c19gnViolation struct {
	Kind      string `json:"kind"`
	Name      []int  `json:"name"`
	NameText  string `json:"name_text"`
	Want      string `json:"want"`
	ValidUTF8 bool   `json:"message_is_valid_utf8"`
	Got       string `json:"got"`
}

func TestVerifC19GelfNames(t *testing.T) {
	in, out := os.Getenv("VERIF_CASES"), os.Getenv("VERIF_OUT")
	if in == "" || out == "" {
		t.Skip("VERIF_CASES / VERIF_OUT not set")
	}
	f, err := os.Open(in)
	if err != nil {
		t.Fatal(err)
	}
	defer f.Close()
	config, err := pipeline.GetConfig(&pipeline.PluginStaticInfo{Type: outPluginType, Factory: Factory},
		[]byte(`{"endpoint":"127.0.0.1:1","host_field":"svc","short_message_field":"msg",`+c19BatcherJSON+`}`), c19Values)
	if err != nil {
		t.Fatal(err)
	}
	p := &Plugin{}
	p.Start(config, c19Params(&c19Ctl{commits: make(chan uint64, 1)}, 0, false))
	defer p.Stop()

	var violations []c19gnViolation
	executed, nviol := 0, 0
	encodeBuf := make([]byte, 0, 64) // data.encodeBuf of a worker: reused from event to event
	sc := bufio.NewScanner(f)
	for sc.Scan() {
		c := &c19gnCase{}
		if err := json.Unmarshal(sc.Bytes(), c); err != nil {
			t.Fatalf("bad case line: %v", err)
		}
		executed++
		var nb, wb strings.Builder
		for _, r := range c.Name {
			nb.WriteRune(rune(r))
		}
		for _, b := range c.Want {
			wb.WriteByte(byte(b))
		}
		name, want := nb.String(), wb.String()
		val := fmt.Sprintf("val-%d", executed)
		nameJSON, _ := json.Marshal(name)
		root := insaneJSON.Spawn()
		if err := root.DecodeString(fmt.Sprintf(`{"c19id":%d,%s:%q,"svc":"h","msg":"m"}`, executed, nameJSON, val)); err != nil {
			t.Fatalf("harness event does not decode: %v", err)
		}
		ev := &pipeline.Event{Root: root}
		encodeBuf = p.formatEvent(encodeBuf[:0], ev) // what out() does per event
		msg, _ := ev.Encode(nil)
		v := c19gnViolation{Name: c.Name, NameText: name, Want: want, ValidUTF8: utf8.Valid(msg)}
		var m map[string]interface{}
		switch {
		case !v.ValidUTF8:
			v.Kind = "gelf_name_message_not_utf8"
		case !json.Valid(msg) || json.Unmarshal(msg, &m) != nil:
			v.Kind = "gelf_name_message_not_json"
		default:
			keys := make([]string, 0, len(m))
			for k := range m {
				keys = append(keys, k)
			}
			sort.Strings(keys)
			wantKeys := []string{want, "_c19id", "host", "short_message", "version"}
			sort.Strings(wantKeys)
			if strings.Join(keys, "\x00") != strings.Join(wantKeys, "\x00") || m[want] != val || m["_c19id"] != float64(executed) {
				v.Kind = "gelf_name_differs"
			}
		}
		if v.Kind != "" {
			nviol++
			if len(violations) < 30 {
				v.Got = c19Clip(fmt.Sprintf("%q", msg))
				violations = append(violations, v)
			}
		}
		insaneJSON.Release(root)
	}
	b, _ := json.Marshal(map[string]interface{}{"executed": executed, "n_violations": nviol, "violations": violations})
	if err := os.WriteFile(out, b, 0o644); err != nil {
		t.Fatal(err)
	}
}
