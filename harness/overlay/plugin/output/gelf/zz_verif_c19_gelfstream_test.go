package gelf

// C19, connection-oriented sink (specs/OutputStreamSink.tla): mapped into /repo/plugin/output/gelf by `go test -overlay`;
// /repo is not modified; shares the helpers of zz_verif_c19_test.go in this package.
//
// The REAL plugin is started (real config decoding, real Start; write_timeout small). A batch whose payload (a few MB) exceeds
// the socket buffers is handed to the plugin's own out() with one persistent WorkerData, as a batcher worker does; the
// in-process TCP receiver has a small receive buffer and does not read until the first attempt has failed (write deadline
// expired after a part of the payload was taken), then out() is called again with the same batch until it succeeds, as the
// RetriableBatcher does. Afterwards the worker's connection is closed (in-package access) and every connection's byte stream
// is examined: every complete NUL-terminated frame must be the GELF document of exactly one event of the batch, no frame
// twice on one connection, and the connection of the successful attempt carries exactly the batch's frames in order.
// Whether the first write really timed out part-way is measured and reported.

import (
	"bytes"
	"context"
	"encoding/json"
	"fmt"
	"io"
	"net"
	"os"
	"strconv"
	"strings"
	"sync"
	"syscall"
	"testing"
	"time"
	"unicode/utf8"

	"github.com/ozontech/file.d/pipeline"
	insaneJSON "github.com/ozontech/insane-json"
)

type c19gsViolation struct {
	Kind           string `json:"kind"`
	Round          int    `json:"round"`
	Conn           int    `json:"conn"`  // index of the connection = number of the attempt that opened it (0-based)
	Frame          int    `json:"frame"` // index of the frame on that connection
	DoublePrefixed bool   `json:"id_under_double_underscore"`
	OnRetry        bool   `json:"on_connection_of_a_retry"`
	Text           string `json:"text"`
}

type c19gsResult struct {
	Rounds          int              `json:"rounds"`
	PayloadBytes    int              `json:"payload_bytes"`
	FirstTimedOut   int              `json:"first_attempt_timed_out"`
	PartialWrites   int              `json:"first_attempt_partial_bytes_seen"` // rounds where connection 0 received 0 < bytes < payload
	Attempts        int              `json:"attempts"`
	Connections     int              `json:"connections"`
	Frames          int              `json:"frames"`
	NotDelivered    int              `json:"not_delivered"`
	Violations      []c19gsViolation `json:"violations"`
	NViolations     int              `json:"n_violations"`
	ViolationsKinds map[string]int   `json:"violation_kinds"`
}

func c19gsClip(b []byte) string {
	if len(b) > 140 {
		return string(b[:70]) + " ... " + string(b[len(b)-60:])
	}
	return string(b)
}

func TestVerifC19GelfStream(t *testing.T) {
	out := os.Getenv("VERIF_OUT")
	if out == "" {
		t.Skip("VERIF_OUT not set")
	}
	rounds, _ := strconv.Atoi(os.Getenv("VERIF_ROUNDS"))
	if rounds <= 0 {
		rounds = 2
	}
	res := c19gsResult{Rounds: rounds, ViolationsKinds: map[string]int{}}
	add := func(v c19gsViolation) {
		res.NViolations++
		res.ViolationsKinds[v.Kind]++
		if res.ViolationsKinds[v.Kind] <= 6 { // a few of every kind
			res.Violations = append(res.Violations, v)
		}
	}
	for round := 0; round < rounds; round++ {
		// the payload must exceed what the kernel buffers of a TCP connection can swallow while the receiver is not reading:
		// the send buffer grows up to tcp_wmem[2] (4 MiB by default), the receive buffer is set to 64 KiB below
		padLen := 128 * 1024
		wmemMax := 4 << 20
		if b, err := os.ReadFile("/proc/sys/net/ipv4/tcp_wmem"); err == nil {
			if f := strings.Fields(string(b)); len(f) == 3 {
				if v, err := strconv.Atoi(f[2]); err == nil && v > 0 {
					wmemMax = v
				}
			}
		}
		nEvents := (wmemMax*3/2+(1<<20))/padLen + 4*round

		// a receiver that cannot absorb the payload while it is not reading
		lc := net.ListenConfig{Control: func(_, _ string, c syscall.RawConn) error {
			var serr error
			if err := c.Control(func(fd uintptr) {
				serr = syscall.SetsockoptInt(int(fd), syscall.SOL_SOCKET, syscall.SO_RCVBUF, 64*1024)
			}); err != nil {
				return err
			}
			return serr
		}}
		ln, err := lc.Listen(context.Background(), "tcp", "127.0.0.1:0")
		if err != nil {
			t.Fatal(err)
		}
		var mu sync.Mutex
		var received [][]byte
		var wg sync.WaitGroup
		startReading := make(chan struct{})
		acceptDone := make(chan struct{})
		go func() {
			defer close(acceptDone)
			for {
				conn, err := ln.Accept()
				if err != nil {
					return
				}
				mu.Lock()
				idx := len(received)
				received = append(received, nil)
				mu.Unlock()
				wg.Add(1)
				go func() {
					defer wg.Done()
					defer conn.Close()
					<-startReading // stalled until the first attempt has failed
					b, _ := io.ReadAll(conn)
					mu.Lock()
					received[idx] = b
					mu.Unlock()
				}()
			}
		}()

		cfgJSON := fmt.Sprintf(`{"endpoint":%q,"host_field":"svc","short_message_field":"msg","write_timeout":"300ms","connection_timeout":"5s",`+
			c19BatcherJSON+`,"retry":0}`, ln.Addr().String())
		config, err := pipeline.GetConfig(&pipeline.PluginStaticInfo{Type: outPluginType, Factory: Factory}, []byte(cfgJSON), c19Values)
		if err != nil {
			t.Fatal(err)
		}
		p := &Plugin{}
		p.Start(config, c19Params(&c19Ctl{commits: make(chan uint64, 1)}, round, false))

		want := map[int][2]string{}
		evs := make([]*pipeline.Event, 0, nEvents)
		var roots []*insaneJSON.Root
		payload := 0
		for i := 1; i <= nEvents; i++ {
			svc, msg := fmt.Sprintf("host-%d", i), fmt.Sprintf("message %d \"quoted\" \\ back", i)
			unit := fmt.Sprintf("%d.%d;", round, i)
			pad := strings.Repeat(unit, (padLen+i)/len(unit)+1)[:padLen+i]
			// two fields with non-ASCII names: their GELF names are _caf- and _------ (specs/GelfFieldName.tla)
			js := fmt.Sprintf(`{"c19id":%d,"svc":%q,"msg":%q,"café":"c%d","сервис":"s%d","pad":%q}`, i, svc, msg, i, i, pad)
			payload += len(js)
			root := insaneJSON.Spawn()
			if err := root.DecodeString(js); err != nil {
				t.Fatal(err)
			}
			roots = append(roots, root)
			evs = append(evs, &pipeline.Event{Root: root, Buf: make([]byte, 0, 16)})
			want[i] = [2]string{svc, msg}
		}
		res.PayloadBytes = payload
		batch := pipeline.NewPreparedBatch(evs)
		wd := pipeline.WorkerData(nil) // what Batcher.work keeps per worker

		// attempt 1 against the stalled receiver, then what the RetriableBatcher does: out() again with the same batch
		attempts, delivered := 0, false
		for attempts < 8 {
			attempts++
			err := p.out(&wd, batch)
			if attempts == 1 {
				if err != nil {
					res.FirstTimedOut++
				}
				close(startReading)
			}
			if err == nil {
				delivered = true
				break
			}
		}
		res.Attempts += attempts
		if !delivered {
			res.NotDelivered++
		}
		if d, ok := wd.(*data); ok && d != nil && d.gelf != nil {
			_ = d.gelf.close() // finishes the stream of the worker's connection
		}
		done := make(chan struct{})
		go func() { wg.Wait(); close(done) }()
		select {
		case <-done:
		case <-time.After(60 * time.Second):
			t.Fatal("receiver did not finish")
		}
		_ = ln.Close()
		<-acceptDone
		p.Stop()

		mu.Lock()
		res.Connections += len(received)
		if len(received) > 0 && len(received[0]) > 0 && len(received[0]) < payload {
			res.PartialWrites++
		}
		for ci, stream := range received {
			parts := bytes.Split(stream, []byte{0})
			frames := parts[:len(parts)-1] // what follows the last NUL is an unterminated tail: not a frame, receivers discard it
			seen := map[int]int{}
			idAt := make([]int, len(frames)) // event id of the frame where it can be told (also from a re-prefixed __c19id), else 0
			for fi, frame := range frames {
				res.Frames++
				v := c19gsViolation{Round: round, Conn: ci, Frame: fi, OnRetry: ci > 0, Text: c19gsClip(frame)}
				var m map[string]interface{}
				if !utf8.Valid(frame) || !json.Valid(frame) || json.Unmarshal(frame, &m) != nil {
					v.Kind = "gelf_stream_frame_not_json"
					add(v)
					continue
				}
				_, v.DoublePrefixed = m["__c19id"]
				idf, ok := m["_c19id"].(float64)
				w, known := want[int(idf)]
				if !ok || !known || m["version"] != "1.1" || m["host"] != w[0] || m["short_message"] != w[1] ||
					m["_caf-"] != fmt.Sprintf("c%d", int(idf)) || m["_------"] != fmt.Sprintf("s%d", int(idf)) {
					v.Kind = "gelf_stream_frame_not_the_event"
					keys := make([]string, 0, len(m))
					for k := range m {
						if k != "_pad" && k != "__pad" {
							keys = append(keys, fmt.Sprintf("%s=%.40v", k, m[k]))
						}
					}
					v.Text = strings.Join(keys, " ")
					add(v)
					if f2, ok2 := m["__c19id"].(float64); ok2 {
						idAt[fi] = int(f2)
					} else if ok && known {
						idAt[fi] = int(idf)
					}
					continue
				}
				id := int(idf)
				idAt[fi] = id
				seen[id]++
				if seen[id] == 2 {
					v.Kind = "gelf_stream_frame_twice"
					add(v)
				}
			}
			if delivered && ci == len(received)-1 {
				// exactly the batch's frames, in order (frames whose id cannot be told are judged by their position)
				ok := len(frames) == nEvents
				for i := 0; ok && i < len(frames); i++ {
					ok = idAt[i] == 0 || idAt[i] == i+1
				}
				if !ok {
					add(c19gsViolation{Kind: "gelf_stream_batch_not_whole", Round: round, Conn: ci, OnRetry: ci > 0,
						Text: c19gsClip([]byte(fmt.Sprintf("connection of the successful attempt carries %d frames for a batch of %d events; ids by position %v", len(frames), nEvents, idAt)))})
				}
			}
		}
		mu.Unlock()
		for _, r := range roots {
			insaneJSON.Release(r)
		}
	}
	b, _ := json.Marshal(res)
	if err := os.WriteFile(out, b, 0o644); err != nil {
		t.Fatal(err)
	}
}
