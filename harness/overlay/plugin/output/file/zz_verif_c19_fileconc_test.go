package file

// C19, file sink under concurrency (specs/OutputFileSink.tla): mapped into /repo/plugin/output/file by `go test -overlay`;
// /repo is not modified; shares the helpers of zz_verif_c19_test.go in this package.
//
// The REAL plugin is started (real config decoding, real Start, workers_count 2). In every round each of the two workers
// (its own WorkerData, as in Batcher.work) flushes several batches whose payload exceeds 64 KiB resp. 128 KiB through the
// plugin's own out(); the workers are released together by a barrier and the harness calls the plugin's sealUp while the
// writes are in flight. Afterwards ALL files (sealed + current) are read: every line must be the complete payload of exactly
// one event, every event of every batch must appear exactly once, the lines of a batch must be contiguous, in order, within
// one file. The overlap that was really achieved (pairs of out() calls whose intervals overlap, seal-ups that ran while an
// out() call was in flight) is measured and reported.

import (
	"bytes"
	"encoding/json"
	"fmt"
	"math/rand"
	"os"
	"path/filepath"
	"strconv"
	"strings"
	"sync"
	"testing"
	"time"

	"github.com/ozontech/file.d/pipeline"
	insaneJSON "github.com/ozontech/insane-json"
)

type c19fcViolation struct {
	Kind  string `json:"kind"`
	Round int    `json:"round"`
	File  string `json:"file"`
	Line  int    `json:"line"`
	Text  string `json:"text"`
}

type c19fcResult struct {
	Rounds           int              `json:"rounds"`
	Batches          int              `json:"batches"`
	Events           int              `json:"events"`
	Files            int              `json:"files"`
	OverlappingOuts  int              `json:"overlapping_out_pairs"`
	SealUps          int              `json:"seal_ups"`
	SealUpsMidFlight int              `json:"seal_ups_while_out_in_flight"`
	Violations       []c19fcViolation `json:"violations"`
	NViolations      int              `json:"n_violations"`
}

type c19fcSpan struct{ from, to time.Time }

func c19fcEvent(round, w, b, i, padKB int) []byte {
	unit := fmt.Sprintf("%d.%d.%d.%d;", round, w, b, i)
	n := padKB*1024 + i%37
	pad := strings.Repeat(unit, n/len(unit)+1)[:n]
	return []byte(fmt.Sprintf(`{"r":%d,"w":%d,"b":%d,"i":%d,"msg":"q\"uote \\ back\n","pad":%q}`, round, w, b, i, pad))
}

func TestVerifC19FileConc(t *testing.T) {
	out := os.Getenv("VERIF_OUT")
	if out == "" {
		t.Skip("VERIF_OUT not set")
	}
	rounds, _ := strconv.Atoi(os.Getenv("VERIF_ROUNDS"))
	if rounds <= 0 {
		rounds = 20
	}
	seed, _ := strconv.Atoi(os.Getenv("VERIF_SEED"))
	rng := rand.New(rand.NewSource(int64(seed)))
	const workers, batchesPerWorker = 2, 4
	res := c19fcResult{Rounds: rounds}
	add := func(v c19fcViolation) {
		res.NViolations++
		if len(res.Violations) < 20 {
			if len(v.Text) > 120 {
				v.Text = v.Text[:60] + " ... " + v.Text[len(v.Text)-50:]
			}
			res.Violations = append(res.Violations, v)
		}
	}
	base, err := os.MkdirTemp(os.Getenv("VERIF_SCRATCH"), "c19-fileconc-")
	if err != nil {
		t.Fatal(err)
	}
	defer os.RemoveAll(base)

	for round := 0; round < rounds; round++ {
		dir := filepath.Join(base, fmt.Sprintf("r%d", round)) + string(os.PathSeparator)
		cfgJSON := fmt.Sprintf(`{"target_file":%q,"retention_interval":"24h","workers_count":"2","batch_size":"256","batch_flush_timeout":"1h"}`, dir+"c19.log")
		config, err := pipeline.GetConfig(&pipeline.PluginStaticInfo{Type: outPluginType, Factory: Factory}, []byte(cfgJSON), c19Values)
		if err != nil {
			t.Fatal(err)
		}
		p := &Plugin{}
		p.Start(config, c19Params(&c19Ctl{commits: make(chan uint64, 1)}, round, false))

		// payloads: > 64 KiB (2 chunks of the seeded change) and > 128 KiB (3 chunks), events of ~1 resp. ~2 KiB
		orig := map[[3]int][]byte{}
		var roots []*insaneJSON.Root
		batches := make([][]*pipeline.Batch, workers)
		nev := make([][]int, workers)
		for w := 0; w < workers; w++ {
			for b := 0; b < batchesPerWorker; b++ {
				n, padKB := 70+rng.Intn(20), 1
				if (b+w)%2 == 1 {
					n, padKB = 70+rng.Intn(20), 2
				}
				evs := make([]*pipeline.Event, 0, n)
				for i := 0; i < n; i++ {
					js := c19fcEvent(round, w, b, i, padKB)
					orig[[3]int{w, b, i}] = js
					root := insaneJSON.Spawn()
					if err := root.DecodeBytes(js); err != nil {
						t.Fatal(err)
					}
					roots = append(roots, root)
					evs = append(evs, &pipeline.Event{Root: root, Buf: make([]byte, 0, 16)})
				}
				batches[w] = append(batches[w], pipeline.NewPreparedBatch(evs))
				nev[w] = append(nev[w], n)
				res.Batches++
				res.Events += n
			}
		}

		start := make(chan struct{})
		var wg sync.WaitGroup
		var mu sync.Mutex
		var outs []c19fcSpan
		var seals []c19fcSpan
		running := int32(workers)
		var runMu sync.Mutex
		for w := 0; w < workers; w++ {
			wg.Add(1)
			go func(w int) {
				defer wg.Done()
				var wd pipeline.WorkerData // what Batcher.work keeps per worker
				<-start
				for _, batch := range batches[w] {
					from := time.Now()
					p.out(&wd, batch)
					to := time.Now()
					mu.Lock()
					outs = append(outs, c19fcSpan{from, to})
					mu.Unlock()
				}
				runMu.Lock()
				running--
				runMu.Unlock()
			}(w)
		}
		delays := make([]time.Duration, 6)
		for i := range delays {
			delays[i] = time.Duration(rng.Intn(300)) * time.Microsecond
		}
		wg.Add(1)
		go func() {
			defer wg.Done()
			<-start
			for _, d := range delays {
				runMu.Lock()
				r := running
				runMu.Unlock()
				if r == 0 {
					return
				}
				time.Sleep(d)
				from := time.Now()
				p.sealUp() // what fileSealUpTicker does when the retention interval is over
				mu.Lock()
				seals = append(seals, c19fcSpan{from, time.Now()})
				mu.Unlock()
			}
		}()
		close(start)
		wg.Wait()
		p.Stop()
		_ = p.file.Close()

		for i := range outs {
			for j := i + 1; j < len(outs); j++ {
				if outs[i].from.Before(outs[j].to) && outs[j].from.Before(outs[i].to) {
					res.OverlappingOuts++
				}
			}
		}
		for _, s := range seals {
			res.SealUps++
			for _, o := range outs {
				if o.from.Before(s.to) && s.from.Before(o.to) {
					res.SealUpsMidFlight++
					break
				}
			}
		}

		// ---- read everything back
		files, _ := filepath.Glob(dir + "*")
		seen := map[[3]int]int{}
		for _, name := range files {
			content, err := os.ReadFile(name)
			if err != nil {
				t.Fatal(err)
			}
			res.Files++
			if len(content) == 0 {
				continue
			}
			fn := filepath.Base(name)
			if content[len(content)-1] != '\n' {
				add(c19fcViolation{Kind: "file_ends_inside_a_line", Round: round, File: fn, Text: string(content[max(0, len(content)-100):])})
			}
			prev := [3]int{-1, -1, -1}
			for ln, line := range bytes.Split(bytes.TrimSuffix(content, []byte("\n")), []byte("\n")) {
				var k struct{ R, W, B, I *int }
				if json.Unmarshal(line, &k) != nil || k.R == nil || k.W == nil || k.B == nil || k.I == nil {
					add(c19fcViolation{Kind: "file_line_broken", Round: round, File: fn, Line: ln + 1, Text: string(line)})
					prev = [3]int{-1, -1, -1}
					continue
				}
				key := [3]int{*k.W, *k.B, *k.I}
				o, known := orig[key]
				if !known || *k.R != round || !c19SameJSON(o, line) {
					add(c19fcViolation{Kind: "file_line_broken", Round: round, File: fn, Line: ln + 1, Text: string(line)})
					prev = [3]int{-1, -1, -1}
					continue
				}
				seen[key]++
				// lines of a batch are contiguous and in order: event i > 0 directly follows event i-1 of the same batch
				if key[2] > 0 && prev != [3]int{key[0], key[1], key[2] - 1} {
					add(c19fcViolation{Kind: "file_batch_not_contiguous", Round: round, File: fn, Line: ln + 1,
						Text: fmt.Sprintf("event w=%d b=%d i=%d follows %v", key[0], key[1], key[2], prev)})
				}
				prev = key
			}
		}
		for w := 0; w < workers; w++ {
			for b := 0; b < batchesPerWorker; b++ {
				for i := 0; i < nev[w][b]; i++ {
					if c := seen[[3]int{w, b, i}]; c != 1 {
						add(c19fcViolation{Kind: "file_event_count", Round: round, Text: fmt.Sprintf("event w=%d b=%d i=%d appears %d times", w, b, i, c)})
					}
				}
			}
		}
		for _, r := range roots {
			insaneJSON.Release(r)
		}
		_ = os.RemoveAll(dir)
	}
	b, _ := json.Marshal(res)
	if err := os.WriteFile(out, b, 0o644); err != nil {
		t.Fatal(err)
	}
}
