package elasticsearch

// C19, elasticsearch action lines (specs/EsActionLine.tla): mapped into /repo/plugin/output/elasticsearch by
// `go test -overlay`; /repo is not modified; shares the helpers of zz_verif_c19_test.go in this package.
//
// Every case exported by TLC (index_values of 1..3 entries over {@time, a, b}, a batch of events whose a and b vary
// independently, split_batch on/off) runs on the REAL plugin (real config decoding, real Start, RetriableBatcher, one worker,
// events through the public Out) with index_format "c19" + one "-%" per entry. The sink parses every action line and compares
// its _index with the index built from THAT document's own values of all the listed fields.
//
// Case encoding (reuses c19Case): variant = the index_values joined by ","; event val 0..3 -> a = 1 + val/2, b = 1 + val%2.

import (
	"bytes"
	"encoding/json"
	"fmt"
	"net/http"
	"net/http/httptest"
	"regexp"
	"strings"
	"testing"

	"github.com/ozontech/file.d/pipeline"
	insaneJSON "github.com/ozontech/insane-json"
)

type c19eiWorker struct {
	wi   int
	sink *c19HTTPSink
	srv  *httptest.Server
}

func (w *c19eiWorker) close() { w.srv.Close() }

// route[id] holds the expected index as a regular expression (the date of @time is a pattern)
func c19eiParse(body []byte, _ map[int][]byte, route map[int]string) c19Req {
	r := c19Req{IDs: []int{}}
	lines := bytes.Split(bytes.TrimSuffix(body, []byte{'\n'}), []byte{'\n'})
	if len(body) == 0 {
		return r
	}
	if len(lines)%2 != 0 {
		r.Framing = append(r.Framing, c19Framing{Where: "odd_number_of_lines", ID: -1, Text: fmt.Sprint(len(lines))})
		return r
	}
	for k := 0; k < len(lines); k += 2 {
		id, ok := c19DocID(lines[k+1], "c19id")
		index, okA := c19ValidAction(lines[k])
		if !ok || !okA {
			r.Framing = append(r.Framing, c19Framing{Where: "action_line", ID: id, Text: c19Clip(string(lines[k]))})
			continue
		}
		r.IDs = append(r.IDs, id)
		if want, known := route[id]; known {
			if m, _ := regexp.MatchString(want, index); !m {
				r.Routing = append(r.Routing, c19Framing{Where: "_index", ID: id, Text: fmt.Sprintf("got %q want %s", index, want)})
			}
		}
	}
	return r
}

func (w *c19eiWorker) run(c *c19Case) (res c19CaseRes) {
	res.N = c.N
	iv := strings.Split(c.Variant, ",")
	names := make([]string, len(iv))
	for i, f := range iv {
		names[i] = map[string]string{"t": "@time", "a": "a", "b": "b"}[f]
	}
	ivJSON, _ := json.Marshal(names)
	cfgJSON := fmt.Sprintf(`{"endpoints":[%q],"index_format":"c19%s","index_values":%s,`+c19BatcherJSON+
		`,"split_batch":%v,"retry":1,"retention":"1ms","connection_timeout":"10s","keep_alive":{"max_idle_conn_duration":"100ms"}}`,
		w.srv.URL, strings.Repeat("-%", len(iv)), ivJSON, c.Split)
	config, err := pipeline.GetConfig(&pipeline.PluginStaticInfo{Type: outPluginType, Factory: Factory}, []byte(cfgJSON), c19Values)
	if err != nil {
		panic(err)
	}
	ctl := &c19Ctl{commits: make(chan uint64, 64)}
	p := &Plugin{}
	p.Start(config, c19Params(ctl, w.wi, false))
	defer p.Stop()
	for _, b := range c.Batches {
		x := &c19Events{orig: map[int][]byte{}, route: map[int]string{}}
		for i, e := range b {
			a, bb := fmt.Sprintf("a%d", 1+e.Val/2), fmt.Sprintf("b%d", 1+e.Val%2)
			root := insaneJSON.Spawn()
			x.roots = append(x.roots, root)
			if err := root.DecodeString(fmt.Sprintf(`{"c19id":%d,"a":%q,"b":%q}`, e.ID, a, bb)); err != nil {
				panic(err)
			}
			ev := &pipeline.Event{Root: root, Buf: make([]byte, 0, 16), SeqID: uint64(e.ID), Size: 1}
			if i == len(b)-1 {
				ev.Size = 1000000 // seals the batch
			}
			x.evs = append(x.evs, ev)
			want := "^c19"
			for _, f := range iv {
				want += "-" + map[string]string{"t": `\d{4}-\d{2}-\d{2}`, "a": a, "b": bb}[f]
			}
			x.route[e.ID] = want + "$"
		}
		w.sink.arm(nil, x, false)
		acked := c19Feed(p.Out, x, ctl)
		res.Batches = append(res.Batches, c19BatchRes{Reqs: w.sink.take(), Acked: acked})
		x.release()
		if !acked {
			break
		}
	}
	return res
}

func TestVerifC19EsIndex(t *testing.T) {
	c19Main(t, func(wi int) c19Worker {
		sink := &c19HTTPSink{parse: c19eiParse, okStatus: http.StatusOK, okBody: `{"took":1,"errors":false,"items":[]}`}
		return &c19eiWorker{wi: wi, sink: sink, srv: httptest.NewServer(sink)}
	})
}
