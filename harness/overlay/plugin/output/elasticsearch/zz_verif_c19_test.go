package elasticsearch

// C19 replay harness for the elasticsearch output (mapped into /repo/plugin/output/elasticsearch by
// `go test -overlay`; /repo is not modified).
//
// Every case exported by TLC from specs/OutputPayload.tla (split_batch on/off, <= 3 successive batches of
// shrinking size, event kinds, size classes, a monotone 413 pattern) is executed against the REAL plugin:
// real config decoding (pipeline.GetConfig), real Start (RetriableBatcher, one worker, real xhttp client),
// events handed over through the public Out(event); an in-process HTTP sink plays Elasticsearch, answers 413
// according to the case's pattern, and applies the abstraction function (bulk body -> event ids).
// The comparison with the specification's expectation is done by checks/C19.py.

import (
	"bufio"
	"bytes"
	"compress/gzip"
	"encoding/json"
	"fmt"
	"io"
	"net"
	"net/http"
	"net/http/httptest"
	"os"
	"reflect"
	"runtime"
	"strings"
	"sync"
	"sync/atomic"
	"testing"
	"time"

	"github.com/ozontech/file.d/metric"
	"github.com/ozontech/file.d/pipeline"
	insaneJSON "github.com/ozontech/insane-json"
	"github.com/prometheus/client_golang/prometheus"
	"go.uber.org/zap"
)

// valid action line -> its _index
func c19ValidAction(line []byte) (string, bool) {
	var m map[string]map[string]interface{}
	if !json.Valid(line) || json.Unmarshal(line, &m) != nil || len(m) != 1 {
		return "", false
	}
	for op, meta := range m {
		if op != "index" && op != "create" {
			return "", false
		}
		idx, ok := meta["_index"].(string)
		return idx, ok
	}
	return "", false
}

// index_format "c19-%-%" with index_values [svc, @time]: the index of an event is built from ITS svc
func c19IndexOK(index, route string) bool {
	if route == "" {
		route = "not_set"
	}
	want := "c19-" + c19Norm(route) + "-"
	return strings.HasPrefix(index, want) && len(index) == len(want)+len("2006-01-02")
}

// abstraction function: bulk body -> ids. A document line is a line that is a JSON object with a numeric c19id;
// the lines in front of it must be exactly one valid action line; anything else is a framing violation.
func c19ParseBulk(body []byte, orig map[int][]byte, route map[int]string) c19Req {
	r := c19Req{IDs: []int{}}
	if len(body) == 0 {
		return r
	}
	if body[len(body)-1] != '\n' {
		r.Framing = append(r.Framing, c19Framing{Where: "no_final_newline", ID: -1, Text: c19Clip(string(body[max(0, len(body)-80):]))})
	} else {
		body = body[:len(body)-1]
	}
	var pending [][]byte
	for _, line := range bytes.Split(body, []byte{'\n'}) {
		id, isDoc := c19DocID(line, "c19id")
		if !isDoc {
			pending = append(pending, line)
			continue
		}
		if len(pending) != 1 {
			r.Framing = append(r.Framing, c19Framing{Where: "action_line", ID: id, Text: c19Clip(string(bytes.Join(pending, []byte("\\n"))))})
		} else if index, ok := c19ValidAction(pending[0]); !ok {
			r.Framing = append(r.Framing, c19Framing{Where: "action_line", ID: id, Text: c19Clip(string(pending[0]))})
		} else if rt, known := route[id]; known && !c19IndexOK(index, rt) {
			r.Routing = append(r.Routing, c19Framing{Where: "_index", ID: id, Text: c19Clip(fmt.Sprintf("got %q for svc %q", index, rt))})
		}
		pending = nil
		r.IDs = append(r.IDs, id)
		if o, ok := orig[id]; ok && !c19SameJSON(o, line) {
			r.DocDiff = append(r.DocDiff, id)
		}
	}
	if len(pending) > 0 {
		r.Framing = append(r.Framing, c19Framing{Where: "trailing", ID: -1, Text: c19Clip(string(bytes.Join(pending, []byte("\\n"))))})
	}
	return r
}

type c19ESWorker struct {
	wi   int
	sink *c19HTTPSink
	srv  *httptest.Server
	dead *c19DeadEndpoints
}

func (w *c19ESWorker) close() { w.srv.Close(); w.dead.close() }

// transport part of the config: the live endpoint last, c.Dead dead ones in front; when dead endpoints are configured the
// batcher retries long enough (constant 1ms pauses) to come across the live one
func c19Transport(c *c19Case, live string, dead *c19DeadEndpoints) string {
	eps, _ := json.Marshal(append(dead.urls(c.Dead), live))
	retry := `"retry":1,"retention":"1ms"`
	if c.Dead > 0 {
		retry = `"retry":80,"retention":"1ms","retention_exponentially_multiplier":1`
	}
	return fmt.Sprintf(`"endpoints":%s,"use_gzip":%v,%s`, eps, c.Gzip, retry)
}

func (w *c19ESWorker) run(c *c19Case) (res c19CaseRes) {
	res.N = c.N
	hits0 := atomic.LoadInt64(&w.dead.hits)
	defer func() { res.DeadHits = int(atomic.LoadInt64(&w.dead.hits) - hits0) }()
	cfgJSON := fmt.Sprintf(`{%s,"index_format":"c19-%%-%%","index_values":["svc","@time"],`+c19BatcherJSON+
		`,"split_batch":%v,"connection_timeout":"10s","keep_alive":{"max_idle_conn_duration":"100ms"}}`, c19Transport(c, w.srv.URL, w.dead), c.Split)
	config, err := pipeline.GetConfig(&pipeline.PluginStaticInfo{Type: outPluginType, Factory: Factory}, []byte(cfgJSON), c19Values)
	if err != nil {
		panic(err)
	}
	ctl := &c19Ctl{commits: make(chan uint64, 64)}
	p := &Plugin{}
	p.Start(config, c19Params(ctl, w.wi, c.DQ))
	defer p.Stop()
	seq := uint64(0)
	for bi, b := range c.Batches {
		x := c19MakeEvents(b, &seq)
		defer x.release()
		w.sink.arm(c.Pats[bi], x, c19Fail(c, bi))
		acked := c19Feed(p.Out, x, ctl)
		res.Batches = append(res.Batches, c19BatchRes{Reqs: w.sink.take(), Acked: acked})
		if !acked {
			break
		}
	}
	return res
}

func TestVerifC19(t *testing.T) {
	c19Main(t, func(wi int) c19Worker {
		sink := &c19HTTPSink{parse: c19ParseBulk, okStatus: http.StatusOK, okBody: `{"took":1,"errors":false,"items":[]}`}
		return &c19ESWorker{wi: wi, sink: sink, srv: httptest.NewServer(sink), dead: c19NewDeadEndpoints(2)}
	})
}

// ======================================================================================================
// Common part of the C19 harness (identical text in every plugin/output/<sink>/zz_verif_c19_test.go;
// in-package test files cannot share code across packages).
// ======================================================================================================

type c19Ev struct {
	ID   int    `json:"id"`
	Kind string `json:"kind"`
	Size int    `json:"size"`
	Val  int    `json:"val"`
}

type c19Case struct {
	N       int       `json:"n"`
	Variant string    `json:"variant,omitempty"` // sink-specific configuration variant (http: "raw")
	Split   bool      `json:"split"`
	Batches [][]c19Ev `json:"batches"`
	Pats    [][][]int `json:"pats"`
	Gzip    bool      `json:"gzip"` // transport: use_gzip
	Dead    int       `json:"dead"` // transport: number of dead endpoints configured next to the live one
	Fail    []bool    `json:"fail"` // per batch: the sink answers 5xx to every attempt (the batch is given up)
	DQ      bool      `json:"dq"`   // a dead queue is configured
}

func c19Fail(c *c19Case, bi int) bool { return bi < len(c.Fail) && c.Fail[bi] }

type c19Framing struct {
	Where string `json:"where"`
	ID    int    `json:"id"`
	Text  string `json:"text"`
}

// one captured request / write / produce call, projected by the sink's abstraction function
type c19Req struct {
	IDs     []int        `json:"ids"`
	OK      bool         `json:"ok"`
	Status  int          `json:"st"`
	Framing []c19Framing `json:"framing,omitempty"`
	DocDiff []int        `json:"doc_diff,omitempty"`
	Routing []c19Framing `json:"routing,omitempty"` // routing value of a record is not the one of its own event
	Bytes   int          `json:"bytes"`
}

type c19BatchRes struct {
	Reqs  []c19Req `json:"reqs"`
	Acked bool     `json:"acked"`
}

type c19CaseRes struct {
	N        int           `json:"n"`
	Batches  []c19BatchRes `json:"batches"`
	Panic    string        `json:"panic,omitempty"`
	DeadHits int           `json:"dead_hits"` // connections that arrived at a dead endpoint during the case
}

// ---- event content: adversarial values in the routing field (svc) and in the message -------------------

// JSON text of the routing value by class; ok=false: field absent. Classes >= 5 need escaping when they are
// spliced into a JSON string.
func c19Val(class int) (string, bool) {
	switch class {
	case 0:
		return `"svc-a"`, true
	case 1:
		return "", false
	case 2:
		return `""`, true
	case 3:
		return "\"a\xff\xfeb\"", true // invalid UTF-8, raw
	case 4:
		return "\"ü %z ☃\"", true
	case 5:
		return `"a\"b"`, true
	case 6:
		return `"a\\b"`, true
	case 7:
		return `"a\nb"`, true
	case 8:
		return `"x\"}}\n{\"index\":{\"_index\":\"y"`, true
	default:
		return `"a\u0001\tb"`, true
	}
}

// the same value as the raw string a plugin reads with AsString(); "" when absent or empty
func c19ValRaw(class int) string {
	switch class {
	case 0:
		return "svc-a"
	case 1, 2:
		return ""
	case 3:
		return "a\xff\xfeb"
	case 4:
		return "ü %z ☃"
	case 5:
		return `a"b`
	case 6:
		return `a\b`
	case 7:
		return "a\nb"
	case 8:
		return "x\"}}\n{\"index\":{\"_index\":\"y"
	default:
		return "a\x01\tb"
	}
}

// a string as encoding/json hands it back (every invalid UTF-8 byte -> U+FFFD), for comparisons with decoded JSON
func c19Norm(s string) string {
	b, _ := json.Marshal(s)
	var out string
	_ = json.Unmarshal(b, &out)
	return out
}

func c19Msg(id int) string {
	switch id % 4 {
	case 0:
		return `"he said \"hi\" \\ back\\slash \n newline \t tab \u0000 nul"`
	case 1:
		return "\"raw \xff\xfe bytes \xc3\x28 end\""
	case 2:
		return `"{\"nested\":\"json\",\"a\":[1,2]}\r\n"`
	default:
		return `"plain"`
	}
}

func c19EventJSON(e c19Ev) []byte {
	var b bytes.Buffer
	fmt.Fprintf(&b, `{"c19id":%d`, e.ID)
	if v, ok := c19Val(e.Val); ok {
		b.WriteString(`,"svc":`)
		b.WriteString(v)
		fmt.Fprintf(&b, `,"carrier":{"c19id":%d,"svc":%s}`, e.ID, v) // absent together with svc (class 1)
	}
	b.WriteString(`,"msg":`)
	b.WriteString(c19Msg(e.ID))
	b.WriteString(`,"n":{"a":[1,2.5,true,null,"x"],"q\"k":"v"}`)
	if e.Size > 1 {
		b.WriteString(`,"pad":"`)
		b.WriteString(strings.Repeat("p", 3000))
		b.WriteString(`"`)
	}
	b.WriteString("}")
	return b.Bytes()
}

func c19SameJSON(a, b []byte) bool {
	var x, y interface{}
	if json.Unmarshal(a, &x) != nil || json.Unmarshal(b, &y) != nil {
		return false
	}
	return reflect.DeepEqual(x, y)
}

// id of a JSON document that carries one of the harness's events (object with a numeric field `key`)
func c19DocID(doc []byte, key string) (int, bool) {
	if !json.Valid(doc) {
		return 0, false
	}
	var m map[string]interface{}
	if json.Unmarshal(doc, &m) != nil {
		return 0, false
	}
	f, ok := m[key].(float64)
	if !ok {
		return 0, false
	}
	return int(f), true
}

func c19Clip(s string) string {
	if len(s) > 160 {
		return s[:160] + "..."
	}
	return s
}

func c19Rejects(pat [][]int, ids []int) bool {
	have := map[int]bool{}
	for _, id := range ids {
		have[id] = true
	}
	for _, m := range pat {
		all := true
		for _, id := range m {
			if !have[id] {
				all = false
				break
			}
		}
		if all {
			return true
		}
	}
	return false
}

// ---- capture: what the sink saw for the batch in flight ------------------------------------------------

type c19Capture struct {
	mu    sync.Mutex
	pat   [][]int
	fail  bool
	orig  map[int][]byte
	route map[int]string // id -> the event's own routing value ("" = absent or empty)
	reqs  []c19Req
}

func (s *c19Capture) arm(pat [][]int, x *c19Events, fail bool) {
	s.mu.Lock()
	s.pat, s.orig, s.route, s.fail, s.reqs = pat, x.orig, x.route, fail, nil
	s.mu.Unlock()
}

func (s *c19Capture) take() []c19Req {
	s.mu.Lock()
	defer s.mu.Unlock()
	return append([]c19Req{}, s.reqs...)
}

// in-process HTTP sink: parses every body with the sink-specific abstraction function, answers 413 by pattern
type c19HTTPSink struct {
	c19Capture
	parse    func(body []byte, orig map[int][]byte, route map[int]string) c19Req
	okStatus int
	okBody   string
}

// dead endpoints: the TCP connection is accepted (so that the hit can be counted) and reset at once -- a transport error
// for the client, like a refused connection
type c19DeadEndpoints struct {
	lns  []net.Listener
	hits int64
}

func c19NewDeadEndpoints(n int) *c19DeadEndpoints {
	d := &c19DeadEndpoints{}
	for i := 0; i < n; i++ {
		ln, err := net.Listen("tcp", "127.0.0.1:0")
		if err != nil {
			panic(err)
		}
		d.lns = append(d.lns, ln)
		go func() {
			for {
				conn, err := ln.Accept()
				if err != nil {
					return
				}
				atomic.AddInt64(&d.hits, 1)
				if tc, ok := conn.(*net.TCPConn); ok {
					_ = tc.SetLinger(0)
				}
				_ = conn.Close()
			}
		}()
	}
	return d
}

func (d *c19DeadEndpoints) urls(n int) []string {
	var out []string
	for i := 0; i < n && i < len(d.lns); i++ {
		out = append(out, "http://"+d.lns[i].Addr().String())
	}
	return out
}

func (d *c19DeadEndpoints) close() {
	for _, ln := range d.lns {
		_ = ln.Close()
	}
}

func (s *c19HTTPSink) ServeHTTP(w http.ResponseWriter, req *http.Request) {
	body, _ := io.ReadAll(req.Body)
	var gzErr error
	if req.Header.Get("Content-Encoding") == "gzip" {
		// what a sink does: decode the body (all gzip members) before it looks at the documents
		var zr *gzip.Reader
		if zr, gzErr = gzip.NewReader(bytes.NewReader(body)); gzErr == nil {
			body, gzErr = io.ReadAll(zr)
		}
	}
	s.mu.Lock()
	r := s.parse(body, s.orig, s.route)
	if gzErr != nil {
		r.Framing = append(r.Framing, c19Framing{Where: "gzip_body", ID: -1, Text: gzErr.Error()})
	}
	r.Bytes = len(body)
	if r.IDs == nil {
		r.IDs = []int{}
	}
	switch {
	case s.fail:
		r.Status = http.StatusInternalServerError
	case c19Rejects(s.pat, r.IDs):
		r.Status = http.StatusRequestEntityTooLarge
	default:
		r.Status, r.OK = http.StatusOK, true
	}
	s.reqs = append(s.reqs, r)
	s.mu.Unlock()
	if !r.OK {
		w.WriteHeader(r.Status)
		_, _ = w.Write([]byte(`{"error":"scripted"}`))
		return
	}
	w.WriteHeader(s.okStatus)
	_, _ = w.Write([]byte(s.okBody))
}

// ---- controller, params, events -----------------------------------------------------------------------

type c19Ctl struct {
	commits chan uint64
}

func (c *c19Ctl) Commit(e *pipeline.Event) { c.commits <- e.SeqID }
func (c *c19Ctl) Error(string)             {}

// stand-in for a configured dead-queue output: receiving an event counts like its commit
type c19DQ struct{ ctl *c19Ctl }

func (d *c19DQ) Start(pipeline.AnyConfig, *pipeline.OutputPluginParams) {}
func (d *c19DQ) Stop()                                                  {}
func (d *c19DQ) Out(e *pipeline.Event)                                  { d.ctl.commits <- e.SeqID }

func c19Params(ctl *c19Ctl, wi int, dq bool) *pipeline.OutputPluginParams {
	router := pipeline.NewRouter()
	if dq {
		router.SetDeadQueueOutput(&pipeline.OutputPluginInfo{
			PluginStaticInfo:  &pipeline.PluginStaticInfo{Type: "c19dq"},
			PluginRuntimeInfo: &pipeline.PluginRuntimeInfo{Plugin: &c19DQ{ctl: ctl}},
		})
	}
	return &pipeline.OutputPluginParams{
		PluginDefaultParams: pipeline.PluginDefaultParams{
			PipelineName:     "c19",
			PipelineSettings: &pipeline.Settings{AvgEventSize: 128, Capacity: 64},
			MetricCtl:        metric.NewCtl(fmt.Sprintf("c19_%d", wi), prometheus.NewRegistry(), 0, 0),
		},
		Controller: ctl,
		Router:     router,
		Logger:     zap.NewNop().Sugar(),
	}
}

const c19BatcherJSON = `"workers_count":"1","batch_size":"8","batch_size_bytes":"1000000","batch_flush_timeout":"1h"`

var c19Values = map[string]int{"gomaxprocs": 1, "capacity": 64}

type c19Events struct {
	evs   []*pipeline.Event
	orig  map[int][]byte
	route map[int]string
	roots []*insaneJSON.Root
}

func (x *c19Events) release() {
	for _, r := range x.roots {
		insaneJSON.Release(r)
	}
}

// the events of one batch; the last one carries a Size that seals the batch through batch_size_bytes, so batch
// boundaries are exactly the case's, without any timing
func c19MakeEvents(b []c19Ev, seq *uint64) *c19Events {
	x := &c19Events{orig: map[int][]byte{}, route: map[int]string{}}
	for i, e := range b {
		js := c19EventJSON(e)
		x.orig[e.ID] = js
		x.route[e.ID] = c19ValRaw(e.Val)
		root := insaneJSON.Spawn()
		x.roots = append(x.roots, root)
		if err := root.DecodeBytes(js); err != nil {
			panic(fmt.Sprintf("harness event does not decode: %v: %q", err, js))
		}
		*seq++
		ev := &pipeline.Event{Root: root, Buf: make([]byte, 0, 64), SeqID: *seq, Size: 1}
		switch e.Kind {
		case "child":
			ev.SetChildKind()
		case "parent":
			ev.SetChildParentKind()
		}
		if i == len(b)-1 {
			ev.Size = 1000000
		}
		x.evs = append(x.evs, ev)
	}
	return x
}

// hands the events to the plugin's public Out and waits until the batcher has committed all of them
func c19Feed(out func(*pipeline.Event), x *c19Events, ctl *c19Ctl) bool {
	for _, ev := range x.evs {
		out(ev)
	}
	deadline := time.After(60 * time.Second)
	for n := 0; n < len(x.evs); n++ {
		select {
		case <-ctl.commits:
		case <-deadline:
			return false
		}
	}
	return true
}

// ---- driver ------------------------------------------------------------------------------------------

type c19Worker interface {
	run(c *c19Case) c19CaseRes
	close()
}

func c19Main(t *testing.T, newWorker func(wi int) c19Worker) {
	in, out := os.Getenv("VERIF_CASES"), os.Getenv("VERIF_OUT")
	if in == "" || out == "" {
		t.Skip("VERIF_CASES / VERIF_OUT not set")
	}
	f, err := os.Open(in)
	if err != nil {
		t.Fatal(err)
	}
	defer f.Close()
	var cases []*c19Case
	sc := bufio.NewScanner(f)
	sc.Buffer(make([]byte, 1<<20), 1<<24)
	for sc.Scan() {
		c := &c19Case{}
		if err := json.Unmarshal(sc.Bytes(), c); err != nil {
			t.Fatalf("bad case line: %v", err)
		}
		cases = append(cases, c)
	}
	of, err := os.Create(out)
	if err != nil {
		t.Fatal(err)
	}
	defer of.Close()
	w := bufio.NewWriterSize(of, 1<<20)
	defer w.Flush()

	nw := runtime.GOMAXPROCS(0)
	if nw > 16 {
		nw = 16
	}
	var wg sync.WaitGroup
	var mu sync.Mutex
	var next int64 = -1
	for wi := 0; wi < nw; wi++ {
		wg.Add(1)
		go func(wi int) {
			defer wg.Done()
			wk := newWorker(wi)
			defer wk.close()
			for {
				i := int(atomic.AddInt64(&next, 1))
				if i >= len(cases) {
					return
				}
				res := wk.run(cases[i])
				b, _ := json.Marshal(res)
				mu.Lock()
				_, _ = w.Write(b)
				_ = w.WriteByte('\n')
				mu.Unlock()
			}
		}(wi)
	}
	wg.Wait()
}
