package elasticsearch

// C09 at plugin level: replay harness for the elasticsearch output's own failure classification (mapped into
// /repo/plugin/output/elasticsearch by `go test -overlay`; /repo is not modified; shares the event / params helpers of
// zz_verif_c19_test.go in this package).
//
// Every case exported by TLC from specs/EsSplit.tla (batch size, split_batch, the backend's answer to every request
// of the first attempt) is executed on the REAL plugin: real config decoding, real Start, real RetriableBatcher
// (one worker, retry small, retention 1ms), events through the public Out. The in-process backend answers the
// requests of the first attempt by the script (keyed by the event ids of the request) and later attempts either
// with ok or by the same script again (exhaustion). One ordered log records every request, every Controller.Commit,
// every hand-over to the dead queue and every run of the plugin's error callback. checks/C09 (lib/c09_outputs.py)
// compares it with the specification's expectation.

import (
	"bufio"
	"encoding/json"
	"fmt"
	"io"
	"net/http"
	"net/http/httptest"
	"os"
	"runtime"
	"sync"
	"sync/atomic"
	"testing"
	"time"

	"github.com/ozontech/file.d/metric"
	"github.com/ozontech/file.d/pipeline"
	"github.com/prometheus/client_golang/prometheus"
	"go.uber.org/zap"
	"go.uber.org/zap/zapcore"
)

type c09Step struct {
	IDs []int  `json:"ids"`
	Ans string `json:"ans"`
}

type c09Case struct {
	Idx    int       `json:"idx"`
	N      int       `json:"n"`
	Split  bool      `json:"split"`
	Script []c09Step `json:"script"`
	Later  string    `json:"later"` // answers after the first attempt: "ok" | "same"
	DQ     bool      `json:"dq"`
	Retry  int       `json:"retry"`
	Follow int       `json:"follow"` // >0: a second batch of that many events (ids N+1..) is fed right behind the first one, and the dead queue is slow
}

type c09Entry struct {
	T   string `json:"t"` // req | commit | dq | errcb | timeout
	IDs []int  `json:"ids,omitempty"`
	Ans string `json:"ans,omitempty"`
	ID  int    `json:"id,omitempty"`
}

type c09Log struct {
	mu      sync.Mutex
	entries []c09Entry
	done    chan struct{}
}

func (l *c09Log) add(e c09Entry) {
	l.mu.Lock()
	l.entries = append(l.entries, e)
	l.mu.Unlock()
}

type c09Ctl struct{ log *c09Log }

func (c *c09Ctl) Commit(e *pipeline.Event) {
	c.log.add(c09Entry{T: "commit", ID: int(e.SeqID)})
	c.log.done <- struct{}{}
}
func (c *c09Ctl) Error(string) {}

type c09DQ struct {
	log  *c09Log
	slow time.Duration // the dead queue takes that long to accept its first event
	once sync.Once
}

func (d *c09DQ) Start(pipeline.AnyConfig, *pipeline.OutputPluginParams) {}
func (d *c09DQ) Stop()                                                  {}
func (d *c09DQ) Out(e *pipeline.Event) {
	id := int(e.SeqID) // what was handed over is read at the moment of the call
	if d.slow > 0 {
		d.once.Do(func() { time.Sleep(d.slow) })
	}
	d.log.add(c09Entry{T: "dq", ID: id})
	d.log.done <- struct{}{}
}

type c09Backend struct {
	mu      sync.Mutex
	c       *c09Case
	log     *c09Log
	attempt int
}

func c09Key(ids []int) string { return fmt.Sprint(ids) }

func (b *c09Backend) ServeHTTP(w http.ResponseWriter, req *http.Request) {
	body, _ := io.ReadAll(req.Body)
	ids := c19ParseBulk(body, nil, nil).IDs
	b.mu.Lock()
	if len(ids) == b.c.N {
		b.attempt++ // every attempt of out() starts with the request for the whole batch
	}
	ans := "ok"
	if b.attempt <= 1 || b.c.Later == "same" {
		ans = "unscripted"
		for _, s := range b.c.Script {
			if c09Key(s.IDs) == c09Key(ids) {
				ans = s.Ans
			}
		}
	}
	b.log.add(c09Entry{T: "req", IDs: ids, Ans: ans})
	b.mu.Unlock()
	switch ans {
	case "too_large":
		w.WriteHeader(http.StatusRequestEntityTooLarge)
	case "bad_request":
		w.WriteHeader(http.StatusBadRequest)
	case "unavailable":
		w.WriteHeader(http.StatusServiceUnavailable)
	case "transport":
		if hj, ok := w.(http.Hijacker); ok {
			if conn, _, err := hj.Hijack(); err == nil {
				// a response that breaks off in the middle: a transport error the http client does not resend by
				// itself (a connection closed before the first byte would be resent transparently, up to 5 times)
				_, _ = conn.Write([]byte("HTTP/1.1 200 OK\r\nContent-Type: application/json\r\nContent-Length: 64\r\n\r\n{\"took\":"))
				_ = conn.Close()
				return
			}
		}
		w.WriteHeader(http.StatusBadGateway)
	default:
		w.WriteHeader(http.StatusOK)
	}
	_, _ = w.Write([]byte(`{"took":1,"errors":false,"items":[]}`))
}

func c09Run(c *c09Case, be *c09Backend, url string, wi int) []c09Entry {
	log := &c09Log{done: make(chan struct{}, 64)}
	be.mu.Lock()
	be.c, be.log, be.attempt = c, log, 0
	be.mu.Unlock()

	cfgJSON := fmt.Sprintf(`{"endpoints":[%q],"index_format":"c09","workers_count":"1","batch_size":"8","batch_size_bytes":"1000000",`+
		`"batch_flush_timeout":"1h","split_batch":%v,"retry":%d,"retention":"1ms","connection_timeout":"10s",`+
		`"keep_alive":{"max_idle_conn_duration":"100ms"}}`, url, c.Split, c.Retry)
	config, err := pipeline.GetConfig(&pipeline.PluginStaticInfo{Type: outPluginType, Factory: Factory}, []byte(cfgJSON), c19Values)
	if err != nil {
		panic(err)
	}
	router := pipeline.NewRouter()
	if c.DQ {
		router.SetDeadQueueOutput(&pipeline.OutputPluginInfo{
			PluginStaticInfo:  &pipeline.PluginStaticInfo{Type: "c09dq"},
			PluginRuntimeInfo: &pipeline.PluginRuntimeInfo{Plugin: &c09DQ{log: log, slow: map[bool]time.Duration{true: 60 * time.Millisecond}[c.Follow > 0]}},
		})
	}
	// the plugin's error callback (onError of the RetriableBatcher) is observable through its log message
	core := zapcore.NewCore(zapcore.NewJSONEncoder(zap.NewProductionEncoderConfig()), zapcore.AddSync(io.Discard), zap.ErrorLevel)
	lg := zap.New(core, zap.Hooks(func(e zapcore.Entry) error {
		if e.Message == "can't send to the elastic" {
			log.add(c09Entry{T: "errcb"})
		}
		return nil
	}))
	p := &Plugin{}
	p.Start(config, &pipeline.OutputPluginParams{
		PluginDefaultParams: pipeline.PluginDefaultParams{
			PipelineName:     "c09",
			PipelineSettings: &pipeline.Settings{AvgEventSize: 128, Capacity: 64},
			MetricCtl:        metric.NewCtl(fmt.Sprintf("c09_%d", wi), prometheus.NewRegistry(), 0, 0),
		},
		Controller: &c09Ctl{log: log},
		Router:     router,
		Logger:     lg.Sugar(),
	})
	evs := make([]c19Ev, c.N)
	for i := range evs {
		evs[i] = c19Ev{ID: i + 1, Kind: "regular", Size: 1, Val: 0}
	}
	seq := uint64(0)
	x := c19MakeEvents(evs, &seq) // SeqID = id = 1..N; the last event seals the batch
	defer x.release()
	for _, ev := range x.evs {
		p.Out(ev)
	}
	if c.Follow > 0 {
		// the next batch arrives while the first one is being given up: with one worker there is ONE batch object, so the
		// second batch is collected in the object the first one has just left (Out blocks until that object is free)
		f := make([]c19Ev, c.Follow)
		for i := range f {
			f[i] = c19Ev{ID: c.N + i + 1, Kind: "regular", Size: 1, Val: 0}
		}
		y := c19MakeEvents(f, &seq)
		defer y.release()
		for _, ev := range y.evs {
			p.Out(ev)
		}
	}
	deadline := time.After(60 * time.Second)
wait:
	for i := 0; i < c.N+c.Follow; i++ {
		select {
		case <-log.done:
		case <-deadline:
			log.add(c09Entry{T: "timeout"})
			break wait
		}
	}
	p.Stop() // the worker has finished the batch: anything it still does is in the log before Stop returns
	log.mu.Lock()
	defer log.mu.Unlock()
	return append([]c09Entry{}, log.entries...)
}

func TestVerifC09ES(t *testing.T) {
	in, out := os.Getenv("VERIF_CASES"), os.Getenv("VERIF_OUT")
	if in == "" || out == "" {
		t.Skip("VERIF_CASES / VERIF_OUT not set")
	}
	f, err := os.Open(in)
	if err != nil {
		t.Fatal(err)
	}
	defer f.Close()
	var cases []*c09Case
	sc := bufio.NewScanner(f)
	sc.Buffer(make([]byte, 1<<20), 1<<24)
	for sc.Scan() {
		c := &c09Case{}
		if err := json.Unmarshal(sc.Bytes(), c); err != nil {
			t.Fatalf("bad case line: %v", err)
		}
		cases = append(cases, c)
	}
	of, err := os.Create(out)
	if err != nil {
		t.Fatal(err)
	}
	defer of.Close()
	w := bufio.NewWriter(of)
	defer w.Flush()
	nw := min(runtime.GOMAXPROCS(0), 16)
	var wg sync.WaitGroup
	var mu sync.Mutex
	var next int64 = -1
	for wi := 0; wi < nw; wi++ {
		wg.Add(1)
		go func(wi int) {
			defer wg.Done()
			be := &c09Backend{c: &c09Case{}, log: &c09Log{done: make(chan struct{}, 64)}}
			srv := httptest.NewServer(be)
			defer srv.Close()
			for {
				i := int(atomic.AddInt64(&next, 1))
				if i >= len(cases) {
					return
				}
				entries := c09Run(cases[i], be, srv.URL, wi)
				b, _ := json.Marshal(map[string]interface{}{"idx": cases[i].Idx, "log": entries})
				mu.Lock()
				_, _ = w.Write(b)
				_ = w.WriteByte('\n')
				mu.Unlock()
			}
		}(wi)
	}
	wg.Wait()
}
