package loki

// C09 at plugin level, generic one-step family (mapped into /repo/plugin/output/loki by `go test -overlay`; /repo is
// not modified; shares the event helpers of zz_verif_c19_test.go in this package).
//
// The REAL plugin (real config decoding, real Start, real RetriableBatcher, one worker, retention 1ms, events through the
// public Out) sends one batch to a sink that fails the first k attempts with a retryable failure (HTTP 503) and then
// succeeds, or never succeeds. One ordered log records every attempt seen by the sink, every Controller.Commit, every
// hand-over to the dead queue and every run of the plugin's error callback; lib/c09_outputs.py judges it: attempts >=
// min(k, retry)+1, no commit before the succeeding attempt, one commit per event, callback / dead queue once on exhaustion.

import (
	"bufio"
	"encoding/json"
	"fmt"
	"io"
	"net/http"
	"net/http/httptest"
	"os"
	"runtime"
	"sync"
	"sync/atomic"
	"testing"
	"time"

	"github.com/ozontech/file.d/metric"
	"github.com/ozontech/file.d/pipeline"
	"github.com/prometheus/client_golang/prometheus"
	"go.uber.org/zap"
	"go.uber.org/zap/zapcore"
)

type c09oCase struct {
	Idx   int  `json:"idx"`
	N     int  `json:"n"`
	Retry int  `json:"retry"`
	DQ    bool `json:"dq"`
	Fail  int  `json:"fail"` // number of failing attempts before the sink recovers; < 0: never recovers
}

type c09oEntry struct {
	T  string `json:"t"` // req | commit | dq | errcb | timeout
	ID int    `json:"id,omitempty"`
	OK bool   `json:"ok,omitempty"`
}

type c09oLog struct {
	mu      sync.Mutex
	entries []c09oEntry
	reqs    int
	fail    int
	done    chan struct{}
}

func (l *c09oLog) add(e c09oEntry) {
	l.mu.Lock()
	l.entries = append(l.entries, e)
	l.mu.Unlock()
}

// one attempt arrives at the sink: does it fail?
func (l *c09oLog) attempt() bool {
	l.mu.Lock()
	defer l.mu.Unlock()
	l.reqs++
	failing := l.fail < 0 || l.reqs <= l.fail
	l.entries = append(l.entries, c09oEntry{T: "req", OK: !failing})
	return failing
}

type c09oCtl struct{ log *c09oLog }

func (c *c09oCtl) Commit(e *pipeline.Event) {
	c.log.add(c09oEntry{T: "commit", ID: int(e.SeqID)})
	c.log.done <- struct{}{}
}
func (c *c09oCtl) Error(string) {}

type c09oDQ struct{ log *c09oLog }

func (d *c09oDQ) Start(pipeline.AnyConfig, *pipeline.OutputPluginParams) {}
func (d *c09oDQ) Stop()                                                  {}
func (d *c09oDQ) Out(e *pipeline.Event) {
	d.log.add(c09oEntry{T: "dq", ID: int(e.SeqID)})
	d.log.done <- struct{}{}
}

func c09oParams(c *c09oCase, log *c09oLog, wi int, errMsg string) *pipeline.OutputPluginParams {
	router := pipeline.NewRouter()
	if c.DQ {
		router.SetDeadQueueOutput(&pipeline.OutputPluginInfo{
			PluginStaticInfo:  &pipeline.PluginStaticInfo{Type: "c09dq"},
			PluginRuntimeInfo: &pipeline.PluginRuntimeInfo{Plugin: &c09oDQ{log: log}},
		})
	}
	// the plugin's error callback (onError of the RetriableBatcher) is observable through its log message
	core := zapcore.NewCore(zapcore.NewJSONEncoder(zap.NewProductionEncoderConfig()), zapcore.AddSync(io.Discard), zap.ErrorLevel)
	lg := zap.New(core, zap.Hooks(func(e zapcore.Entry) error {
		if e.Message == errMsg {
			log.add(c09oEntry{T: "errcb"})
		}
		return nil
	}))
	return &pipeline.OutputPluginParams{
		PluginDefaultParams: pipeline.PluginDefaultParams{
			PipelineName:     "c09",
			PipelineSettings: &pipeline.Settings{AvgEventSize: 128, Capacity: 64},
			MetricCtl:        metric.NewCtl(fmt.Sprintf("c09o_%d", wi), prometheus.NewRegistry(), 0, 0),
		},
		Controller: &c09oCtl{log: log},
		Router:     router,
		Logger:     lg.Sugar(),
	}
}

// feeds one batch of c.N events through out and waits until every event is committed or handed to the dead queue
func c09oFeed(c *c09oCase, log *c09oLog, out func(*pipeline.Event), stop func()) []c09oEntry {
	evs := make([]c19Ev, c.N)
	for i := range evs {
		evs[i] = c19Ev{ID: i + 1, Kind: "regular", Size: 1, Val: 0}
	}
	seq := uint64(0)
	x := c19MakeEvents(evs, &seq) // SeqID = 1..N; the last event seals the batch
	defer x.release()
	for _, ev := range x.evs {
		out(ev)
	}
	deadline := time.After(60 * time.Second)
wait:
	for i := 0; i < c.N; i++ {
		select {
		case <-log.done:
		case <-deadline:
			log.add(c09oEntry{T: "timeout"})
			break wait
		}
	}
	stop() // the worker has finished the batch: anything it still does is in the log before stop returns
	log.mu.Lock()
	defer log.mu.Unlock()
	return append([]c09oEntry{}, log.entries...)
}

type c09oSink struct {
	mu  sync.Mutex
	log *c09oLog
}

func (s *c09oSink) ServeHTTP(w http.ResponseWriter, req *http.Request) {
	_, _ = io.ReadAll(req.Body)
	s.mu.Lock()
	log := s.log
	s.mu.Unlock()
	if log.attempt() {
		w.WriteHeader(http.StatusServiceUnavailable)
		_, _ = w.Write([]byte(`{"error":"scripted"}`))
		return
	}
	w.WriteHeader(http.StatusNoContent)
	_, _ = w.Write([]byte(``))
}

func c09oWorker(wi int) (func(*c09oCase) []c09oEntry, func()) {
	sink := &c09oSink{}
	srv := httptest.NewServer(sink)
	run := func(c *c09oCase) []c09oEntry {
		log := &c09oLog{fail: c.Fail, done: make(chan struct{}, 64)}
		sink.mu.Lock()
		sink.log = log
		sink.mu.Unlock()
		cfgJSON := fmt.Sprintf(`{"address":%q,"message_field":"msg","timestamp_field":"ts",`+c19BatcherJSON+`,"retry":%d,"retention":"1ms","connection_timeout":"10s","keep_alive":{"max_idle_conn_duration":"100ms"}}`, srv.URL, c.Retry)
		config, err := pipeline.GetConfig(&pipeline.PluginStaticInfo{Type: outPluginType, Factory: Factory}, []byte(cfgJSON), c19Values)
		if err != nil {
			panic(err)
		}
		p := &Plugin{}
		p.Start(config, c09oParams(c, log, wi, "can't send data to loki"))
		return c09oFeed(c, log, p.Out, p.Stop)
	}
	return run, srv.Close
}

func TestVerifC09Out(t *testing.T) {
	in, out := os.Getenv("VERIF_CASES"), os.Getenv("VERIF_OUT")
	if in == "" || out == "" {
		t.Skip("VERIF_CASES / VERIF_OUT not set")
	}
	f, err := os.Open(in)
	if err != nil {
		t.Fatal(err)
	}
	defer f.Close()
	var cases []*c09oCase
	sc := bufio.NewScanner(f)
	for sc.Scan() {
		c := &c09oCase{}
		if err := json.Unmarshal(sc.Bytes(), c); err != nil {
			t.Fatalf("bad case line: %v", err)
		}
		cases = append(cases, c)
	}
	of, err := os.Create(out)
	if err != nil {
		t.Fatal(err)
	}
	defer of.Close()
	w := bufio.NewWriter(of)
	defer w.Flush()
	nw := min(runtime.GOMAXPROCS(0), 16)
	var wg sync.WaitGroup
	var mu sync.Mutex
	var next int64 = -1
	for wi := 0; wi < nw; wi++ {
		wg.Add(1)
		go func(wi int) {
			defer wg.Done()
			run, closeFn := c09oWorker(wi)
			defer closeFn()
			for {
				i := int(atomic.AddInt64(&next, 1))
				if i >= len(cases) {
					return
				}
				entries := run(cases[i])
				b, _ := json.Marshal(map[string]interface{}{"idx": cases[i].Idx, "log": entries})
				mu.Lock()
				_, _ = w.Write(b)
				_ = w.WriteByte('\n')
				mu.Unlock()
			}
		}(wi)
	}
	wg.Wait()
}
