package pipeline

// C04, stream protocol on the REAL stream/streamer objects (mapped into /repo/pipeline by `go test -overlay`).
// specs/StreamProto.tla, mechanism M_CommitCheckUnderLock: two finalizations of one stream (the output acknowledging event n, a
// processor dropping event n+1) may arrive in any order and at any instant; the stream's commit sequence never goes back, so
// that the stream is released once everything taken from it is finalized, and the next event charges it again.
// The window TLC constructs for the mutant (both callers past the stale test, the bigger sequence number stored first) is
// constructed here by holding the stream's own mutex while both callers arrive -- as the input's put or the heartbeat do.

import (
	"encoding/json"
	"os"
	"sync"
	"testing"
	"time"
)

type c04StreamResult struct {
	Scenario string `json:"scenario"`
	Trial    int    `json:"trial"`
	OK       bool   `json:"ok"`
	What     string `json:"what,omitempty"`
	Rounds   int    `json:"rounds,omitempty"`
}

func c04JoinWithin(sr *streamer, d time.Duration) *stream {
	got := make(chan *stream, 1)
	go func() { got <- sr.joinStream() }()
	select {
	case st := <-got:
		return st
	case <-time.After(d):
		sr.shouldStop.Store(true) // release the helper goroutine
		sr.chargedCond.Broadcast()
		return nil
	}
}

// order: which finalization reaches the lock first ("big" = the one with the bigger sequence number)
func c04CommitWindow(trial int, bigFirst bool) c04StreamResult {
	res := c04StreamResult{Scenario: "commit-window", Trial: trial}
	if bigFirst {
		res.Scenario = "commit-window-big-first"
	}
	sr := newStreamer(time.Hour)
	st := sr.getStream(StreamID(trial+1), "s")
	e1, e2 := &Event{}, &Event{}
	st.put(e1)
	st.put(e2)
	if c04JoinWithin(sr, 5*time.Second) != st {
		res.What = "cannot attach to the charged stream"
		return res
	}
	if st.instantGet() != e1 || st.instantGet() != e2 {
		res.What = "wrong order of events"
		return res
	}
	first, second := e1, e2
	if bigFirst {
		first, second = e2, e1
	}
	st.mu.Lock() // somebody (put of the input, the heartbeat) owns the stream for a moment
	var wg sync.WaitGroup
	wg.Add(2)
	go func() { defer wg.Done(); st.commit(first) }()
	time.Sleep(20 * time.Millisecond)
	go func() { defer wg.Done(); st.commit(second) }()
	time.Sleep(20 * time.Millisecond)
	st.mu.Unlock()
	wg.Wait()
	if c := st.commitSeq.Load(); c != e2.SeqID {
		res.What = "the commit sequence number of the stream went back"
		return res
	}
	if st.instantGet() != nil {
		res.What = "stream not empty"
		return res
	}
	e3 := &Event{}
	st.put(e3)
	got := c04JoinWithin(sr, 3*time.Second)
	if got == nil {
		res.What = "every event taken from the stream is finalized and a new event is queued, but the stream is never charged again"
		return res
	}
	if got.instantGet() != e3 {
		res.What = "wrong event after re-charge"
		return res
	}
	res.OK = true
	return res
}

// the same without construction: the two finalizations simply race (a few instructions wide; many rounds)
func c04CommitRace(trial int, d time.Duration) c04StreamResult {
	res := c04StreamResult{Scenario: "commit-race", Trial: trial, OK: true}
	sr := newStreamer(time.Hour)
	deadline := time.Now().Add(d)
	for time.Now().Before(deadline) {
		res.Rounds++
		st := newStream("s", StreamID(res.Rounds), sr)
		e1, e2 := &Event{}, &Event{}
		st.put(e1)
		st.put(e2)
		sr.charged = sr.charged[:0]
		st.attach()
		st.instantGet()
		st.instantGet()
		start := make(chan struct{})
		var wg sync.WaitGroup
		wg.Add(2)
		go func() { defer wg.Done(); <-start; st.commit(e2) }()
		go func() { defer wg.Done(); <-start; st.commit(e1) }()
		close(start)
		wg.Wait()
		st.instantGet() // leave
		if st.isAttached {
			res.OK = false
			res.What = "every event is finalized but the stream is still owned"
			return res
		}
	}
	return res
}

func TestVerifC04Stream(t *testing.T) {
	out := os.Getenv("VERIF_OUT")
	if out == "" {
		t.Skip("VERIF_OUT not set")
	}
	var rs []c04StreamResult
	for trial := 0; trial < 3; trial++ {
		rs = append(rs, c04CommitWindow(trial, true))
		rs = append(rs, c04CommitWindow(100+trial, false))
	}
	rs = append(rs, c04CommitRace(0, 1500*time.Millisecond))
	b, _ := json.Marshal(rs)
	if err := os.WriteFile(out, b, 0o644); err != nil {
		t.Fatal(err)
	}
}
