package pipeline

// C04, stream protocol on the REAL stream/streamer objects (mapped into /repo/pipeline by `go test -overlay`).
// specs/StreamProto.tla, mechanism M_CommitCheckUnderLock: two finalizations of one stream (the output acknowledging event n, a
// processor dropping event n+1) may arrive in any order and at any instant; the stream's commit sequence never goes back, so
// that the stream is released once everything taken from it is finalized, and the next event charges it again.
// The window TLC constructs for the mutant (both callers past the stale test, the bigger sequence number stored first) is
// constructed here by holding the stream's own mutex while both callers arrive -- as the input's put or the heartbeat do.

import (
	"fmt"
	"encoding/json"
	"os"
	"runtime"
	"sync"
	"sync/atomic"
	"testing"
	"time"
)

type c04StreamResult struct {
	Scenario string `json:"scenario"`
	Trial    int    `json:"trial"`
	OK       bool   `json:"ok"`
	What     string `json:"what,omitempty"`
	Rounds   int    `json:"rounds,omitempty"`
}

func c04JoinWithin(sr *streamer, d time.Duration) *stream {
	got := make(chan *stream, 1)
	go func() { got <- sr.joinStream() }()
	select {
	case st := <-got:
		return st
	case <-time.After(d):
		sr.shouldStop.Store(true) // release the helper goroutine
		sr.chargedCond.Broadcast()
		return nil
	}
}

// order: which finalization reaches the lock first ("big" = the one with the bigger sequence number)
func c04CommitWindow(trial int, bigFirst bool) c04StreamResult {
	res := c04StreamResult{Scenario: "commit-window", Trial: trial}
	if bigFirst {
		res.Scenario = "commit-window-big-first"
	}
	sr := newStreamer(time.Hour)
	st := sr.getStream(StreamID(trial+1), "s")
	e1, e2 := &Event{}, &Event{}
	st.put(e1)
	st.put(e2)
	if c04JoinWithin(sr, 5*time.Second) != st {
		res.What = "cannot attach to the charged stream"
		return res
	}
	if st.instantGet() != e1 || st.instantGet() != e2 {
		res.What = "wrong order of events"
		return res
	}
	first, second := e1, e2
	if bigFirst {
		first, second = e2, e1
	}
	st.mu.Lock() // somebody (put of the input, the heartbeat) owns the stream for a moment
	var wg sync.WaitGroup
	wg.Add(2)
	go func() { defer wg.Done(); st.commit(first) }()
	time.Sleep(20 * time.Millisecond)
	go func() { defer wg.Done(); st.commit(second) }()
	time.Sleep(20 * time.Millisecond)
	st.mu.Unlock()
	wg.Wait()
	if c := st.commitSeq.Load(); c != e2.SeqID {
		res.What = "the commit sequence number of the stream went back"
		return res
	}
	if st.instantGet() != nil {
		res.What = "stream not empty"
		return res
	}
	e3 := &Event{}
	st.put(e3)
	got := c04JoinWithin(sr, 3*time.Second)
	if got == nil {
		res.What = "every event taken from the stream is finalized and a new event is queued, but the stream is never charged again"
		return res
	}
	if got.instantGet() != e3 {
		res.What = "wrong event after re-charge"
		return res
	}
	res.OK = true
	return res
}

// the same without construction: the two finalizations simply race (a few instructions wide; many rounds)
func c04CommitRace(trial int, d time.Duration) c04StreamResult {
	res := c04StreamResult{Scenario: "commit-race", Trial: trial, OK: true}
	sr := newStreamer(time.Hour)
	deadline := time.Now().Add(d)
	for time.Now().Before(deadline) {
		res.Rounds++
		st := newStream("s", StreamID(res.Rounds), sr)
		e1, e2 := &Event{}, &Event{}
		st.put(e1)
		st.put(e2)
		sr.charged = sr.charged[:0]
		st.attach()
		st.instantGet()
		st.instantGet()
		start := make(chan struct{})
		var wg sync.WaitGroup
		wg.Add(2)
		go func() { defer wg.Done(); <-start; st.commit(e2) }()
		go func() { defer wg.Done(); <-start; st.commit(e1) }()
		close(start)
		wg.Wait()
		st.instantGet() // leave
		if st.isAttached {
			res.OK = false
			res.What = "every event is finalized but the stream is still owned"
			return res
		}
	}
	return res
}

// LockOrder.tla on the real streamer: many streams, each held by a "processor" that keeps asking for the next sequential event
// (blockGet), the "input" delivering the next line as soon as the previous one was taken, the real heartbeat goroutine running.
// The event time-out is an hour: the heartbeat only LOOKS at the blocked streams.  Every put must reach its waiting processor;
// the flow must never stop (a stop of 1.5 s with nothing delivered anywhere = wedged).
func c04BlockedFlow(trial int, d time.Duration) c04StreamResult {
	res := c04StreamResult{Scenario: "blocked-streams-keep-flowing", Trial: trial, OK: true}
	const streamsN = 48
	if prev := runtime.GOMAXPROCS(0); prev < 4 {
		runtime.GOMAXPROCS(4)
		defer runtime.GOMAXPROCS(prev)
	}
	s := newStreamer(time.Hour)
	s.start()
	defer s.shouldStop.Store(true)
	var delivered int64
	stop := make(chan struct{})
	acks := make([]chan struct{}, streamsN)
	for i := 0; i < streamsN; i++ {
		acks[i] = make(chan struct{}, 1)
		st := s.getStream(StreamID(i), "stdout")
		go func(st *stream, ack chan struct{}) {
			for {
				st.put(&Event{})
				select {
				case <-ack:
				case <-stop:
					return
				}
				runtime.Gosched()
			}
		}(st, acks[i])
	}
	for i := 0; i < streamsN; i++ {
		go func() {
			st := s.joinStream()
			if st == nil {
				return
			}
			for {
				event := st.blockGet()
				st.commit(event)
				atomic.AddInt64(&delivered, 1)
				select {
				case acks[st.streamID] <- struct{}{}:
				case <-stop:
					return
				}
			}
		}()
	}
	deadline := time.Now().Add(d)
	last := atomic.LoadInt64(&delivered)
	lastChange := time.Now()
	for time.Now().Before(deadline) {
		time.Sleep(50 * time.Millisecond)
		cur := atomic.LoadInt64(&delivered)
		if cur != last {
			last, lastChange = cur, time.Now()
			continue
		}
		if time.Since(lastChange) > 1500*time.Millisecond {
			res.OK = false
			res.What = "no event reached any of the waiting processors for 1.5 s: the blocked streams are wedged"
			break
		}
	}
	close(stop)
	res.Rounds = int(atomic.LoadInt64(&delivered))
	return res
}

// The heartbeat's copy of the blocked list goes stale (StreamProto / DESIGN D28): the stream is blocked for longer than the event
// time-out; the heartbeat copies the blocked list; the next event arrives, the processor wakes up, takes it and goes on with it
// (away, not committed: it sits in an output batch); only now does the heartbeat get to call tryUnblock for the stream of its
// copy.  Nothing is wrong with that stream: tryUnblock must leave it alone (the pinned code panicked "why events are different?").
func c04StaleBlockedCopy(trial int) (res c04StreamResult) {
	res = c04StreamResult{Scenario: "stale-blocked-copy", Trial: trial}
	defer func() {
		if r := recover(); r != nil {
			res.OK = false
			res.What = fmt.Sprint("panic: ", r)
		}
	}()
	sr := newStreamer(10 * time.Millisecond)
	st := sr.getStream(StreamID(9000+trial), "s")
	e1 := &Event{}
	st.put(e1)
	if c04JoinWithin(sr, 5*time.Second) != st {
		res.What = "cannot attach to the charged stream"
		return res
	}
	if st.instantGet() != e1 {
		res.What = "wrong event"
		return res
	}
	st.commit(e1) // held by a multi-line action: finalized at once, the processor waits for the next line of the stream
	taken := make(chan *Event, 1)
	go func() { taken <- st.blockGet() }()
	// wait until the stream is in the blocked list, and longer than the event time-out
	deadline := time.Now().Add(5 * time.Second)
	for {
		sr.blockedMu.Lock()
		n := len(sr.blocked)
		sr.blockedMu.Unlock()
		if n == 1 || time.Now().After(deadline) {
			break
		}
		time.Sleep(time.Millisecond)
	}
	time.Sleep(30 * time.Millisecond)
	// the heartbeat's first step: the copy
	sr.blockedMu.Lock()
	copyOfBlocked := append([]*stream(nil), sr.blocked...)
	sr.blockedMu.Unlock()
	if len(copyOfBlocked) != 1 {
		res.What = "the stream never got into the blocked list"
		return res
	}
	// the next line arrives; the processor takes it and goes on (it is away and will be committed by the output later)
	e2 := &Event{}
	st.put(e2)
	select {
	case got := <-taken:
		if got != e2 {
			res.What = "the processor did not get the event that was put"
			return res
		}
	case <-time.After(5 * time.Second):
		res.What = "the blocked processor did not wake up"
		return res
	}
	// the heartbeat's second step, on its stale copy
	injected := copyOfBlocked[0].tryUnblock()
	if injected {
		res.What = "a time-out event was injected into a stream nobody is blocked on"
		return res
	}
	st.commit(e2)
	res.OK = true
	return res
}

func TestVerifC04Stream(t *testing.T) {
	out := os.Getenv("VERIF_OUT")
	if out == "" {
		t.Skip("VERIF_OUT not set")
	}
	var rs []c04StreamResult
	for trial := 0; trial < 3; trial++ {
		rs = append(rs, c04CommitWindow(trial, true))
		rs = append(rs, c04CommitWindow(100+trial, false))
	}
	rs = append(rs, c04CommitRace(0, 1500*time.Millisecond))
	for trial := 0; trial < 3; trial++ {
		rs = append(rs, c04StaleBlockedCopy(trial))
	}
	flow := 4 * time.Second
	if os.Getenv("VERIF_TIER") == "thorough" {
		flow = 15 * time.Second
	}
	rs = append(rs, c04BlockedFlow(0, flow))
	b, _ := json.Marshal(rs)
	if err := os.WriteFile(out, b, 0o644); err != nil {
		t.Fatal(err)
	}
}
