package pipeline

// C08 harness, direct part (mapped into /repo/pipeline by `go test -overlay`): the REAL Batcher driven through its
// public API (NewBatcher / Start / Add / Stop) with a gated, recording OutFn and a recording Controller.
//   - byte-size bound, count bound, staleness (flush by the heartbeat only), mixes of regular / child / child-parent
//     events, completion orders of concurrently running sends (released in scripted order): recorded as a trace in the
//     vocabulary of specs/PipelineObs.tla and validated by TLC (PipelineMon.tla);
//   - Stop() racing with concurrent Add calls: run in a child process (a panic kills the process); the schedule is
//     the one TLC finds in specs/BatcherProto.tla (Stop closes the channel between mu.Unlock and the channel send).

import (
	"bufio"
	"context"
	"encoding/json"
	"fmt"
	"math/rand"
	"os"
	"os/exec"
	"strings"
	"sync"
	"testing"
	"time"

	"github.com/ozontech/file.d/metric"
	"github.com/prometheus/client_golang/prometheus"
)

type c08Scenario struct {
	Run       int     `json:"run"`
	Name      string  `json:"name"`
	Workers   int     `json:"workers"`
	Count     int     `json:"count"`
	Bytes     int     `json:"bytes"`
	FlushMs   int     `json:"flush_ms"`
	Sizes     []int   `json:"sizes"`   // size of event i+1
	Kinds     []string `json:"kinds"`  // r | c | p   (regular, child, child-parent)
	Adders    int     `json:"adders"`
	Seed      int64   `json:"seed"`
	Order     string  `json:"order"`   // fifo | lifo | random : release order of parked sends
	Stale     bool    `json:"stale"`   // staleness scenario: no gating, measure add -> send delay
	PhaseMs   int     `json:"phase_ms"` // pause before the first Add (a random phase against the batcher's heartbeat)
	Contend   bool    `json:"contend"` // every second Add queues on the batcher mutex BEHIND the heartbeat while the open batch has expired
}

type c08Run struct {
	sc  *c08Scenario
	mu  sync.Mutex
	n   int
	evs []map[string]interface{}
}

func (r *c08Run) log(ev string, kv ...interface{}) {
	r.mu.Lock()
	r.n++
	e := map[string]interface{}{"n": r.n, "ev": ev, "run": r.sc.Run, "iu": 0}
	for i := 0; i+1 < len(kv); i += 2 {
		e[kv[i].(string)] = kv[i+1]
	}
	r.evs = append(r.evs, e)
	r.mu.Unlock()
}

type c08Ctl struct {
	r  *c08Run
	id map[*Event]int
}

func (c *c08Ctl) Commit(e *Event) {
	c.r.log("BCommit", "b", "main", "id", c.id[e], "nosend", e.IsChildParentKind())
	c.r.log("Commit", "id", c.id[e], "by", "main") // the controller is the end of the line here: it stands for the input notification
}
func (c *c08Ctl) Error(string)    {}

func c08RunScenario(sc *c08Scenario) *c08Run {
	r := &c08Run{sc: sc}
	rng := rand.New(rand.NewSource(sc.Seed))
	n := len(sc.Sizes)
	events := make([]*Event, n)
	ids := map[*Event]int{}
	for i := 0; i < n; i++ {
		e := &Event{Size: sc.Sizes[i]}
		switch sc.Kinds[i] {
		case "c":
			e.SetChildKind()
		case "p":
			e.SetChildParentKind()
		}
		events[i] = e
		ids[e] = i + 1
	}
	addedAt := map[int]time.Time{}
	var amu sync.Mutex
	type parked struct {
		first int
		ch    chan struct{}
	}
	var pmu sync.Mutex
	var park []parked
	gaps := false
	for _, k := range sc.Kinds {
		if k == "p" {
			gaps = true
		}
	}
	r.log("Reset", "cap", 1000000, "batch", sc.Count, "dqbatch", 0, "retry", 0, "dq", false, "gaps", gaps, "retention", 0, "mult10", 10, "name", sc.Name)
	out := func(_ *WorkerData, b *Batch) {
		bids := []int{}
		total, last := 0, 0
		for _, e := range b.events { // what the batcher sealed (incl. child-parent events)
			total += e.Size
			last = e.Size
		}
		b.ForEach(func(e *Event) {
			if e.IsChildParentKind() {
				r.log("ParentSent", "b", "main", "id", ids[e])
			}
			bids = append(bids, ids[e])
		})
		all := []int{}
		for _, e := range b.events {
			all = append(all, ids[e])
		}
		r.log("SendCall", "b", "main", "seq", int(b.seq), "ids", all, "t", 0)
		r.log("SendBytes", "b", "main", "first", all[0], "total", total, "last", last, "limit", sc.Bytes)
		if sc.Stale {
			amu.Lock()
			t0 := addedAt[all[0]]
			amu.Unlock()
			waited := time.Since(t0).Milliseconds()
			// flush timeout + heartbeat period (100 ms) + generous slack
			r.log("Stale", "b", "main", "first", all[0], "waited", int(waited), "bound", sc.FlushMs+100+2000)
		} else {
			ch := make(chan struct{})
			pmu.Lock()
			park = append(park, parked{all[0], ch})
			pmu.Unlock()
			<-ch
		}
		r.log("SendRet", "b", "main", "ids", all, "ok", true, "t", 0)
	}
	opts := BatcherOptions{
		PipelineName: "verif_c08", OutputType: "verif", OutFn: out, Controller: &c08Ctl{r: r, id: ids},
		Workers: sc.Workers, BatchSizeCount: sc.Count, BatchSizeBytes: sc.Bytes,
		FlushTimeout: time.Duration(sc.FlushMs) * time.Millisecond,
		MetricCtl:    metric.NewCtl(fmt.Sprintf("verif_c08_%d", sc.Run), prometheus.NewRegistry(), time.Hour, 0),
	}
	b := NewBatcher(opts)
	ctx, cancel := context.WithCancel(context.Background())
	defer cancel()
	b.Start(ctx)
	// releaser of parked sends in the scripted order
	stopRel := make(chan struct{})
	relDone := make(chan struct{})
	go func() {
		defer close(relDone)
		for {
			select {
			case <-stopRel:
				pmu.Lock()
				for _, p := range park {
					close(p.ch)
				}
				park = nil
				pmu.Unlock()
				return
			default:
			}
			pmu.Lock()
			// release only when every worker that can be busy is parked, or after a short grace period
			if len(park) > 0 && (len(park) >= sc.Workers || rng.Intn(4) == 0) {
				i := 0
				switch sc.Order {
				case "lifo":
					i = len(park) - 1
				case "random":
					i = rng.Intn(len(park))
				}
				close(park[i].ch)
				park = append(park[:i], park[i+1:]...)
			}
			pmu.Unlock()
			time.Sleep(300 * time.Microsecond)
		}
	}()
	// adders: events are added in id order by one adder (the monitor needs the Add order); with several adders the
	// ids are partitioned round-robin and the Add order is the one recorded
	var wg sync.WaitGroup
	adders := sc.Adders
	if adders < 1 {
		adders = 1
	}
	if sc.PhaseMs > 0 {
		time.Sleep(time.Duration(sc.PhaseMs) * time.Millisecond)
	}
	var addMu sync.Mutex // makes (log, Add) atomic so that the recorded order is the Add order
	for a := 0; a < adders; a++ {
		wg.Add(1)
		go func(a int) {
			defer wg.Done()
			for i := a; i < n; i += adders {
				if sc.Contend && i%2 == 1 {
					// The open batch holds the previous event.  The batcher mutex is kept busy for longer than the heartbeat
					// period and the flush time-out, so the heartbeat is waiting for it and the batch has expired; then this Add
					// queues up behind the heartbeat.  A mutex contended for more than 1 ms is handed over in FIFO order:
					// heartbeat, Add, and then whoever comes back (a heartbeat that works in two critical sections).
					b.mu.Lock()
					time.Sleep(time.Duration(sc.FlushMs+130) * time.Millisecond)
					done := make(chan struct{})
					go func() {
						amu.Lock()
						addedAt[i+1] = time.Now()
						amu.Unlock()
						r.log("Out", "b", "main", "id", i+1)
						b.Add(events[i])
						close(done)
					}()
					time.Sleep(20 * time.Millisecond)
					b.mu.Unlock()
					b.mu.Lock()
					time.Sleep(2 * time.Millisecond)
					b.mu.Unlock()
					select {
					case <-done:
					case <-time.After(10 * time.Second):
						return
					}
					continue
				}
				addMu.Lock()
				amu.Lock()
				addedAt[i+1] = time.Now()
				amu.Unlock()
				r.log("Out", "b", "main", "id", i+1)
				b.Add(events[i])
				addMu.Unlock()
			}
		}(a)
	}
	wg.Wait()
	// everything added must be committed (the tail only by the heartbeat flush)
	deadline := time.Now().Add(15 * time.Second)
	idle := false
	for time.Now().Before(deadline) {
		r.mu.Lock()
		c := 0
		for _, e := range r.evs {
			if e["ev"] == "BCommit" {
				c++
			}
		}
		r.mu.Unlock()
		if c >= n {
			idle = true
			break
		}
		time.Sleep(time.Millisecond)
	}
	close(stopRel)
	<-relDone
	r.log("End", "idle", idle, "inuse", 0, "waiters", 0, "diverged", false)
	if idle {
		b.Stop()
	}
	return r
}

func TestVerifC08Direct(t *testing.T) {
	in, out := os.Getenv("VERIF_CASES"), os.Getenv("VERIF_OUT")
	if in == "" || out == "" {
		t.Skip("VERIF_CASES / VERIF_OUT not set")
	}
	f, err := os.Open(in)
	if err != nil {
		t.Fatal(err)
	}
	defer f.Close()
	var scs []*c08Scenario
	s := bufio.NewScanner(f)
	s.Buffer(make([]byte, 1<<20), 1<<24)
	for s.Scan() {
		sc := &c08Scenario{}
		if err := json.Unmarshal(s.Bytes(), sc); err != nil {
			t.Fatal(err)
		}
		scs = append(scs, sc)
	}
	res := make([]*c08Run, len(scs))
	var wg sync.WaitGroup
	sem := make(chan struct{}, 6)
	for i := range scs {
		wg.Add(1)
		sem <- struct{}{}
		go func(i int) {
			defer wg.Done()
			defer func() { <-sem }()
			res[i] = c08RunScenario(scs[i])
		}(i)
	}
	wg.Wait()
	w, _ := os.Create(out)
	bw := bufio.NewWriter(w)
	for _, r := range res {
		for _, e := range r.evs {
			b, _ := json.Marshal(e)
			bw.Write(b)
			bw.WriteByte('\n')
		}
	}
	bw.Flush()
	w.Close()
}

// ---------------------------------------------------------------- Stop vs Add
// child: many trials of "adders keep adding while Stop is called"; any panic kills this process
func TestVerifC08StopChild(t *testing.T) {
	if os.Getenv("VERIF_C08_STOP_CHILD") == "" {
		t.Skip("not a child invocation")
	}
	trials := 300
	fmt.Sscan(os.Getenv("VERIF_C08_TRIALS"), &trials)
	var seed int64 = 1
	fmt.Sscan(os.Getenv("VERIF_SEED"), &seed)
	rng := rand.New(rand.NewSource(seed))
	for tr := 0; tr < trials; tr++ {
		committed := map[*Event]int{}
		sent := map[*Event]bool{}
		var mu sync.Mutex
		returned := map[*Event]bool{}
		ctl := &c08StopCtl{mu: &mu, committed: committed, returned: returned, last: map[SourceID]uint64{}, trial: tr}
		workers := 1 + rng.Intn(3)
		slow := time.Duration(0) // some trials: sends take a while, so batches are in flight when Stop comes
		if tr%2 == 1 {
			slow = time.Duration(50+rng.Intn(400)) * time.Microsecond
		}
		opts := BatcherOptions{PipelineName: "verif_c08s", OutputType: "verif",
			OutFn: func(_ *WorkerData, b *Batch) {
				mu.Lock()
				for _, e := range b.events {
					sent[e] = true
				}
				mu.Unlock()
				if slow > 0 {
					time.Sleep(slow)
				}
				mu.Lock()
				for _, e := range b.events {
					returned[e] = true
				}
				mu.Unlock()
			},
			Controller: ctl, Workers: workers, BatchSizeCount: 1 + rng.Intn(3), FlushTimeout: time.Millisecond,
			MetricCtl: metric.NewCtl(fmt.Sprintf("verif_c08s_%d", tr), prometheus.NewRegistry(), time.Hour, 0)}
		b := NewBatcher(opts)
		b.Start(context.Background())
		var wg sync.WaitGroup
		stop := make(chan struct{})
		for a := 0; a < 8; a++ {
			wg.Add(1)
			go func(a int) {
				defer wg.Done()
				for n := uint64(1); ; n++ {
					select {
					case <-stop:
						return
					default:
					}
					// one adder's events are added one after another: they must be committed in that order
					b.Add(&Event{Size: 1, SourceID: SourceID(a + 1), SeqID: n})
				}
			}(a)
		}
		time.Sleep(time.Duration(rng.Intn(400)) * time.Microsecond)
		b.Stop()
		close(stop)
		wg.Wait()
		mu.Lock()
		for e, c := range committed {
			if c != 1 || !sent[e] {
				fmt.Printf("C08STOP bad_commit trial=%d count=%d sent=%v\n", tr, c, sent[e])
			}
		}
		mu.Unlock()
	}
	fmt.Printf("C08STOP done trials=%d\n", trials)
}

type c08StopCtl struct {
	mu        *sync.Mutex
	committed map[*Event]int
	returned  map[*Event]bool
	last      map[SourceID]uint64
	trial     int
}

func (c *c08StopCtl) Commit(e *Event) {
	c.mu.Lock()
	c.committed[e]++
	if e.SeqID < c.last[e.SourceID] {
		fmt.Printf("C08STOP out_of_order trial=%d adder=%d event=%d after=%d\n", c.trial, e.SourceID, e.SeqID, c.last[e.SourceID])
	}
	c.last[e.SourceID] = e.SeqID
	if !c.returned[e] {
		fmt.Printf("C08STOP before_send_return trial=%d adder=%d event=%d\n", c.trial, e.SourceID, e.SeqID)
	}
	c.mu.Unlock()
}
func (c *c08StopCtl) Error(string)    {}

func TestVerifC08Stop(t *testing.T) {
	out := os.Getenv("VERIF_OUT")
	if out == "" || os.Getenv("VERIF_C08_STOP") == "" {
		t.Skip("not requested")
	}
	cmd := exec.Command(os.Args[0], "-test.run", "^TestVerifC08StopChild$", "-test.count=1", "-test.timeout", "300s")
	cmd.Env = append(os.Environ(), "VERIF_C08_STOP_CHILD=1")
	b, err := cmd.CombinedOutput()
	txt := string(b)
	res := map[string]interface{}{"exit_error": fmt.Sprint(err), "done": strings.Contains(txt, "C08STOP done"),
		"bad_commits": strings.Count(txt, "C08STOP bad_commit"), "panic": "",
		"out_of_order": strings.Count(txt, "C08STOP out_of_order"), "before_send_return": strings.Count(txt, "C08STOP before_send_return"), "example": ""}
	for _, k := range []string{"C08STOP out_of_order", "C08STOP before_send_return"} {
		if i := strings.Index(txt, k); i >= 0 {
			res["example"] = strings.SplitN(txt[i:], "\n", 2)[0]
			break
		}
	}
	if i := strings.Index(txt, "panic: "); i >= 0 {
		end := i + 1500
		if end > len(txt) {
			end = len(txt)
		}
		res["panic"] = txt[i:end]
	}
	jb, _ := json.Marshal(res)
	_ = os.WriteFile(out, jb, 0o644)
}
