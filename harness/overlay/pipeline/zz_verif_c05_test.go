package pipeline

// C05 harness, pool part (mapped into /repo/pipeline by `go test -overlay`): the REAL event pools under
//  (a) a holder-counting stress: many readers get/back concurrently on capacities 1..3; the number of events held
//      at the same instant is counted by the harness itself (never more than capacity; no object handed out twice);
//  (b) a size-class sweep: one get/back cycle for every size-class boundary (2^k-1, 2^k, 2^k+1 up to 2^31) must
//      leave the in-use count at exactly zero and must not cost a capacity slot (a reader still gets through).
// These are the clauses Bounded / SingleOwner / ZeroAtEnd of specs/EventPoolStd.tla and specs/EventPoolLowMem.tla.

import (
	"encoding/json"
	"fmt"
	"os"
	"strings"
	"sync"
	"sync/atomic"
	"testing"
	"time"

	"github.com/prometheus/client_golang/prometheus"
	"go.uber.org/zap"
)

type c05Res struct {
	Family   string `json:"family"`
	Pool     string `json:"pool"`
	Capacity int    `json:"capacity"`
	Readers  int    `json:"readers"`
	Gets     int64  `json:"gets"`
	MaxHeld  int64  `json:"max_held"`
	Double   int64  `json:"double_owner"`
	InUseEnd int64  `json:"inuse_end"`
	Waiters  int64  `json:"waiters_end"`
	Size     int    `json:"size"`
	Blocked  bool   `json:"blocked"`
}

func c05Stress(kind string, capacity, readers int, d time.Duration) c05Res {
	p := c04NewPool(kind, capacity, 20*time.Millisecond)
	defer p.stop()
	var held, maxHeld, gets, double int64
	var owners sync.Map
	stop := make(chan struct{})
	var wg sync.WaitGroup
	for r := 0; r < readers; r++ {
		wg.Add(1)
		go func(r int) {
			defer wg.Done()
			for i := 0; ; i++ {
				select {
				case <-stop:
					return
				default:
				}
				e := p.get(1 + (i+r)%5)
				if _, loaded := owners.LoadOrStore(e, r); loaded {
					atomic.AddInt64(&double, 1)
				}
				h := atomic.AddInt64(&held, 1)
				for {
					m := atomic.LoadInt64(&maxHeld)
					if h <= m || atomic.CompareAndSwapInt64(&maxHeld, m, h) {
						break
					}
				}
				atomic.AddInt64(&gets, 1)
				if i%16 == 0 {
					time.Sleep(time.Microsecond)
				}
				atomic.AddInt64(&held, -1)
				owners.Delete(e)
				p.back(e)
			}
		}(r)
	}
	time.Sleep(d)
	close(stop)
	done := make(chan struct{})
	go func() { wg.Wait(); close(done) }()
	select {
	case <-done:
	case <-time.After(10 * time.Second):
	}
	return c05Res{Family: "stress", Pool: kind, Capacity: capacity, Readers: readers, Gets: atomic.LoadInt64(&gets),
		MaxHeld: atomic.LoadInt64(&maxHeld), Double: atomic.LoadInt64(&double), InUseEnd: p.inUse(), Waiters: p.waiters()}
}

func c05Sizes(kind string, size int) c05Res {
	p := c04NewPool(kind, 2, 20*time.Millisecond)
	defer p.stop()
	res := c05Res{Family: "size_class", Pool: kind, Capacity: 2, Size: size}
	for i := 0; i < 3; i++ { // more cycles than the capacity: a leaked slot per cycle would block the third get
		got := make(chan *Event, 1)
		go func() { got <- p.get(size) }()
		select {
		case e := <-got:
			p.back(e)
		case <-time.After(2 * time.Second):
			res.Blocked = true
			res.InUseEnd = p.inUse()
			return res
		}
	}
	res.InUseEnd, res.Waiters = p.inUse(), p.waiters()
	if lm, ok := p.(*lowMemoryEventPool); ok {
		res.InUseEnd = lm.inUseEvents.Load() // the accessor clamps; the raw counter must be zero as well
	}
	return res
}

func TestVerifC05Pools(t *testing.T) {
	out := os.Getenv("VERIF_OUT")
	if out == "" {
		t.Skip("VERIF_OUT not set")
	}
	d := 150 * time.Millisecond
	if os.Getenv("VERIF_TIER") == "thorough" {
		d = 1500 * time.Millisecond
	}
	var all []c05Res
	for _, kind := range []string{"std", "low_memory"} {
		for _, capacity := range []int{1, 2, 3} {
			for _, readers := range []int{4, 16} {
				all = append(all, c05Stress(kind, capacity, readers, d))
			}
		}
		for k := 0; k <= 31; k++ {
			for _, delta := range []int{-1, 0, 1} {
				size := (1 << uint(k)) + delta
				if size < 0 {
					continue
				}
				all = append(all, c05Sizes(kind, size))
			}
		}
	}
	b, _ := json.Marshal(all)
	if err := os.WriteFile(out, b, 0o644); err != nil {
		t.Fatal(err)
	}
}

// ---------------------------------------------------------------- every way In can refuse a record
// A record that In refuses holds no event afterwards, whichever of its exits it takes: oversize without cut-off, wrong CRI
// format, offset below the committed offset of its stream (antispam on, CRI), banned by the antispam, not decodable, refused
// by the input's own PassEvent.  After each series the pool's in-use count is zero and the pool still hands out `capacity` events.
type c05RefInput struct{ refuse bool }

func (i *c05RefInput) Start(AnyConfig, *InputPluginParams) {}
func (i *c05RefInput) Stop()                               {}
func (i *c05RefInput) Commit(*Event)                       {}
func (i *c05RefInput) PassEvent(*Event) bool               { return !i.refuse }

type c05RefOutput struct{ ctl OutputPluginController }

func (o *c05RefOutput) Start(_ AnyConfig, p *OutputPluginParams) { o.ctl = p.Controller }
func (o *c05RefOutput) Stop()                                    {}
func (o *c05RefOutput) Out(e *Event)                             { o.ctl.Commit(e) }

type c05RefRes struct {
	Family   string `json:"family"`
	Pool     string `json:"pool"`
	Exit     string `json:"exit"`
	Refused  int    `json:"refused"`
	Accepted int    `json:"accepted"`
	InUseEnd int64  `json:"inuse_end"`
	Blocked  bool   `json:"blocked"`
}

func c05Refusals(pool PoolType, exit string, n int) c05RefRes {
	res := c05RefRes{Family: "in_refusals", Pool: string(pool), Exit: exit}
	settings := &Settings{Decoder: "json", Capacity: 2, MaintenanceInterval: time.Hour, EventTimeout: time.Minute,
		Antispam: AntispamSettings{Threshold: -1, MaintenanceInterval: time.Hour}, AvgEventSize: 128, StreamField: "stream",
		Pool: pool, Metric: &MetricSettings{HoldDuration: time.Hour}}
	in := &c05RefInput{}
	var data []byte
	offs := NewOffsets(10, nil)
	switch exit {
	case "oversize":
		settings.MaxEventSize = 16
		data = []byte(`{"a":"` + strings.Repeat("x", 64) + `"}` + "\n")
	case "wrong_cri":
		settings.Decoder = "cri"
		data = []byte("not a cri line\n")
	case "below_stream_offset":
		settings.Decoder = "cri"
		settings.Antispam.Threshold = 1000000
		data = []byte("2016-10-06T00:17:09.669794202Z stdout F a line\n")
		offs = NewOffsets(10, SliceFromMap(map[StreamName]int64{"stdout": 100}))
	case "banned":
		settings.Antispam.Threshold = 1
		data = []byte(`{"a":1}` + "\n")
	case "undecodable":
		data = []byte(`{"a":1 BROKEN` + "\n")
	case "pass_event":
		in.refuse = true
		data = []byte(`{"a":1}` + "\n")
	}
	p := New(fmt.Sprintf("verif_c05r_%s_%s", pool, exit), settings, prometheus.NewRegistry(), zap.NewNop())
	p.SetInput(&InputPluginInfo{PluginStaticInfo: &PluginStaticInfo{Type: "verif_in"}, PluginRuntimeInfo: &PluginRuntimeInfo{Plugin: in, ID: "verif_in"}})
	p.SetOutput(&OutputPluginInfo{PluginStaticInfo: &PluginStaticInfo{Type: "verif_out"}, PluginRuntimeInfo: &PluginRuntimeInfo{Plugin: &c05RefOutput{}, ID: "verif_out"}})
	p.Start()
	defer p.Stop()
	done := make(chan struct{})
	go func() {
		defer close(done)
		for i := 0; i < n; i++ {
			if p.In(1, "src", offs, append([]byte(nil), data...), false, nil) == EventSeqIDError {
				res.Refused++
			} else {
				res.Accepted++
			}
		}
	}()
	select {
	case <-done:
	case <-time.After(5 * time.Second):
		res.Blocked = true // the reader sits in the pool although nothing is in flight
		res.InUseEnd = p.eventPool.inUse()
		return res
	}
	for i := 0; i < 2000 && p.eventPool.inUse() != 0; i++ {
		time.Sleep(time.Millisecond)
	}
	res.InUseEnd = p.eventPool.inUse()
	return res
}

func TestVerifC05Refusals(t *testing.T) {
	out := os.Getenv("VERIF_OUT")
	if out == "" {
		t.Skip("VERIF_OUT not set")
	}
	var all []c05RefRes
	for _, pool := range []PoolType{PoolTypeStd, PoolTypeLowMem} {
		for _, exit := range []string{"oversize", "wrong_cri", "below_stream_offset", "banned", "undecodable", "pass_event"} {
			all = append(all, c05Refusals(pool, exit, 7)) // more than the capacity: a slot lost per refusal blocks the reader
		}
	}
	b, _ := json.Marshal(all)
	if err := os.WriteFile(out, b, 0o644); err != nil {
		t.Fatal(err)
	}
}
