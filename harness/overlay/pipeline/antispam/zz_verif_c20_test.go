package antispam

// C20 replay harness, antispam part (mapped into /repo/pipeline/antispam by `go test -overlay`; /repo is
// not modified).  Every arrival/maintenance history exported by TLC from specs/Admission.tla is executed
// step by step against the REAL NewAntispammer / IsSpam / Maintenance.  After every step the verdict and
// the ban state of every source (counter >= the source's threshold, read in-package; Dump() is
// cross-checked) are judged by the declarative expectation the specification exported for that step:
//   - disabled antispam / matching exception / unlimited rule  => not spam
//   - spam                                                   => the source is banned
//   - banned(src) becomes true only at an arrival of src with >= threshold arrivals of src since the
//     previous maintenance round
//   - after unban+1 silent maintenance rounds the source is not banned
// Differences between the real state and the specification's transcription that no property clause
// forbids are counted as model drift, not as violations.

import (
	"bufio"
	"encoding/json"
	"fmt"
	"os"
	"runtime"
	"strings"
	"sync"
	"testing"
	"time"

	"github.com/ozontech/file.d/cfg/matchrule"
	"github.com/ozontech/file.d/metric"
	"github.com/ozontech/file.d/pipeline/doif"
	"github.com/prometheus/client_golang/prometheus"
	"go.uber.org/zap"
)

type c20Case struct {
	Part  string  `json:"part,omitempty"`
	T     int     `json:"T"`
	T2    int     `json:"T2"`
	U     int     `json:"U"`
	Mode  string  `json:"mode"`
	I     int     `json:"I"`
	N     int     `json:"n"`
	Steps [][]int `json:"steps"`
}

// indices into a step tuple
const (
	c20Op = iota
	c20Src
	c20Kind
	c20Dt
	c20Mv
	c20Exp
	c20Why
	c20Win
	c20Thr
	c20Resid
	c20Fixed
)

type c20Viol struct {
	Kind     string        `json:"kind"`
	Case     *c20Case      `json:"case"`
	Step     int           `json:"step"`
	Src      int           `json:"src"`
	Win      int           `json:"win"`
	Thr      int           `json:"thr"`
	Residual bool          `json:"residual_after_unban"`
	RealRes  int           `json:"real_residual"`
	Rules    bool          `json:"rules_present"`
	ExcKind  string        `json:"exception_kind,omitempty"`
	Counter  int           `json:"counter"`
	Panic    string        `json:"panic,omitempty"`
	Harness  string        `json:"harness"`
	Match    *c20MatchCase `json:"match_case,omitempty"`
	XList    *c20XlCase    `json:"xlist_case,omitempty"`
	RList    *c20RlCase    `json:"rlist_case,omitempty"`
	Via      string        `json:"via,omitempty"`
	Inverted bool          `json:"inverted,omitempty"`
	Short    bool          `json:"shorter_than_values,omitempty"`
}

func (v *c20Viol) key() string {
	return fmt.Sprintf("%s/%v/%v/%s", v.Kind, v.Residual, v.Rules, v.ExcKind)
}

var c20Events = [4][]byte{
	[]byte(`{"level":"info","message":"plain"}`),
	[]byte(`{"level":"info","message":"has EXC inside"}`),
	[]byte(`{"level":"info","message":"has UNL inside"}`),
	[]byte(`{"level":"info","message":"plain"}`),
}

// the second realisation of class "e": shorter than the value of the inverted exception rule
var c20ShortExcepted = []byte(`{"m":1}`)

func c20Event(kind, step int) []byte {
	if kind == 1 && step%2 == 1 {
		return c20ShortExcepted
	}
	return c20Events[kind]
}

func c20Name(s int) string { return fmt.Sprintf("src%d", s) }
func c20ID(s int) string   { return fmt.Sprintf("%d", s) }

func c20Exceptions() Exceptions {
	e := Exceptions{
		{RuleSet: matchrule.RuleSet{
			Name:  "c20exc",
			Cond:  matchrule.CondOr,
			Rules: []matchrule.Rule{{Mode: matchrule.ModeContains, Values: []string{"EXC"}}},
		}},
		// "everything that does not start with {"level":" is exempt"
		{RuleSet: matchrule.RuleSet{
			Name:  "c20notlevel",
			Cond:  matchrule.CondAnd,
			Rules: []matchrule.Rule{{Mode: matchrule.ModePrefix, Values: []string{`{"level":"`}, Invert: true}},
		}},
	}
	e.Prepare()
	return e
}

func c20Rules(t2 int) (Rules, error) {
	unl, err := doif.NewFromMap(map[string]any{"op": "contains", "field": "event", "values": []any{"UNL"}})
	if err != nil {
		return nil, err
	}
	s2, err := doif.NewFromMap(map[string]any{"op": "equal", "field": "source_name", "values": []any{c20Name(2)}})
	if err != nil {
		return nil, err
	}
	return Rules{
		{Name: "c20unl", Threshold: -1, DoIfChecker: unl},
		{Name: "c20s2", Threshold: t2, DoIfChecker: s2},
	}, nil
}

type c20Stats struct {
	executed, steps, flips, unbans, casesWithBan, casesWithUnban, drift, dumpDrift int
	rlCases                                                                        int
	xlCases                                                                        int
	matchCases                                                                     int
	determined                                                                     int
	driftSample                                                                    []string
	viols                                                                          map[string][]*c20Viol
	counts                                                                         map[string]int
}

func (st *c20Stats) add(v *c20Viol) {
	k := v.key()
	st.counts[k]++
	if len(st.viols[k]) < 8 {
		st.viols[k] = append(st.viols[k], v)
	}
}

func c20Run(c *c20Case, ctl *metric.Ctl, st *c20Stats) {
	step := -1
	defer func() {
		if r := recover(); r != nil {
			st.add(&c20Viol{Kind: "panic", Case: c, Step: step, Panic: fmt.Sprint(r), Harness: "antispam"})
		}
	}()
	o := &Options{
		MaintenanceInterval: time.Duration(c.I) * time.Second,
		Threshold:           c.T,
		UnbanIterations:     c.U,
		Exceptions:          c20Exceptions(),
		Logger:              zap.NewNop(),
		MetricsController:   ctl,
	}
	if c.Mode == "rules" {
		rules, err := c20Rules(c.T2)
		if err != nil {
			panic(err)
		}
		o.Rules = rules
	}
	a := NewAntispammer(o)
	n := c.N
	base := time.Date(2024, 1, 2, 3, 4, 5, 0, time.UTC)
	now := 0
	banned := make([]bool, n+1)
	realRes := make([]int, n+1)
	hadBan, hadUnban := false, false
	for i, s := range c.Steps {
		step = i
		verdict := false
		if s[c20Op] == 0 {
			now += s[c20Dt]
			verdict = a.IsSpam(c20ID(s[c20Src]), c20Name(s[c20Src]), s[c20Kind] == 3, c20Event(s[c20Kind], i),
				base.Add(time.Duration(now)*time.Second), nil)
		} else {
			a.Maintenance()
		}
		st.steps++
		// observe
		cur := make([]bool, n+1)
		cntr := make([]int, n+1)
		a.mu.RLock()
		for x := 1; x <= n; x++ {
			src, has := a.sources[c20ID(x)]
			cntr[x] = -1
			if has {
				cntr[x] = int(src.counter.Load())
				cur[x] = cntr[x] >= a.sourcesThresholds[c20ID(x)]
			}
		}
		a.mu.RUnlock()
		if c.Mode != "rules" && c.T >= 1 {
			d := a.Dump()
			for x := 1; x <= n; x++ {
				if strings.Contains(d, "source_id: "+c20ID(x)+",") != cur[x] {
					st.dumpDrift++
				}
			}
		}
		// per-source blocks of the step tuple: banned (model), may-be-banned, must-be-unbanned, counter (model)
		mb := s[c20Fixed : c20Fixed+n]
		mu := s[c20Fixed+2*n : c20Fixed+3*n]
		mc := s[c20Fixed+3*n : c20Fixed+4*n]
		mk := func(kind string, x int) *c20Viol {
			return &c20Viol{Kind: kind, Case: c, Step: i, Src: x, Win: s[c20Win], Thr: s[c20Thr],
				Rules: c.Mode == "rules", Counter: cntr[x], RealRes: realRes[x], Harness: "antispam"}
		}
		if s[c20Op] == 0 {
			x := s[c20Src]
			if s[c20Exp] == 0 {
				st.determined++
			}
			if verdict {
				switch s[c20Why] {
				case 1:
					st.add(mk("dropped_while_disabled", x))
				case 2:
					v := mk("exception_dropped", x)
					v.ExcKind = "exception"
					st.add(v)
				case 3:
					v := mk("exception_dropped", x)
					v.ExcKind = "unlimited_rule"
					st.add(v)
				}
				if !cur[x] && s[c20Thr] != 0 { // threshold 0: blocked by the settings
					st.add(mk("spam_but_not_banned", x))
				}
			}
		}
		for x := 1; x <= n; x++ {
			if cur[x] && !banned[x] {
				st.flips++
				hadBan = true
				if s[c20Op] != 0 || s[c20Src] != x {
					st.add(mk("ban_without_arrival", x))
				} else if s[c20Win] < s[c20Thr] {
					v := mk("ban_below_threshold", x)
					v.Residual = realRes[x] > 0 && realRes[x]+s[c20Win] >= s[c20Thr]
					st.add(v)
				}
			}
			if !cur[x] && banned[x] {
				st.unbans++
				hadUnban = true
			}
			if mu[x-1] == 1 && cur[x] {
				st.add(mk("not_unbanned", x))
			}
			// conformance with the transcription (drift only)
			if (mb[x-1] == 1) != cur[x] || mc[x-1] != cntr[x] {
				st.drift++
				if len(st.driftSample) < 5 {
					b, _ := json.Marshal(c)
					st.driftSample = append(st.driftSample, fmt.Sprintf("step %d src %d: real banned=%v counter=%d, model banned=%d counter=%d; case %s",
						i, x, cur[x], cntr[x], mb[x-1], mc[x-1], b))
				}
			}
		}
		if s[c20Op] == 0 && (s[c20Mv] == 1) != verdict {
			st.drift++
			if len(st.driftSample) < 5 {
				b, _ := json.Marshal(c)
				st.driftSample = append(st.driftSample, fmt.Sprintf("step %d: real verdict=%v, model verdict=%d; case %s", i, verdict, s[c20Mv], b))
			}
		}
		// bookkeeping for the next step
		copy(banned, cur)
		if s[c20Op] == 1 {
			for x := 1; x <= n; x++ {
				realRes[x] = 0
				if cntr[x] > 0 {
					realRes[x] = cntr[x]
				}
			}
		} else if s[c20Kind] == 3 {
			realRes[s[c20Src]] = 0
		}
	}
	st.executed++
	if hadBan {
		st.casesWithBan++
	}
	if hadUnban {
		st.casesWithUnban++
	}
}

// ---- matchrule cases: "a matching exception" decided by the real RuleSet.Match inside the real IsSpam

type c20MatchRule struct {
	Vals [][]int `json:"vals"`
	Mode string  `json:"mode"`
	Ci   bool    `json:"ci"`
	Inv  bool    `json:"inv"`
}

type c20MatchCase struct {
	Cond  string         `json:"cond"`
	Data  []int          `json:"data"`
	Rules []c20MatchRule `json:"rules"`
	M     bool           `json:"m"`  // declarative: the set matches the data
	Mm    bool           `json:"mm"` // transcription
	Short bool           `json:"short"`
}

func c20Str(sym []int) string {
	b := make([]byte, len(sym))
	for i, x := range sym {
		b[i] = [...]byte{'?', 'a', 'b', 'A'}[x]
	}
	return string(b)
}

// with threshold 1 a fresh source is banned (and dropped) by its first counted event, so
// "IsSpam = false" <=> the record was recognised as matching the exception / the unlimited rule
func c20RunMatch(c *c20MatchCase, ctl *metric.Ctl, st *c20Stats) {
	defer func() {
		if r := recover(); r != nil {
			st.add(&c20Viol{Kind: "panic", Match: c, Panic: fmt.Sprint(r), Harness: "antispam-match"})
		}
	}()
	data := c20Str(c.Data)
	inverted := false
	rs := matchrule.RuleSet{Name: "c20m", Cond: matchrule.CondAnd}
	if c.Cond == "or" {
		rs.Cond = matchrule.CondOr
	}
	var nodes []any
	for _, r := range c.Rules {
		mr := matchrule.Rule{CaseInsensitive: r.Ci, Invert: r.Inv}
		inverted = inverted || r.Inv
		switch r.Mode {
		case "prefix":
			mr.Mode = matchrule.ModePrefix
		case "contains":
			mr.Mode = matchrule.ModeContains
		case "suffix":
			mr.Mode = matchrule.ModeSuffix
		}
		var vals []any
		for _, v := range r.Vals {
			mr.Values = append(mr.Values, c20Str(v))
			vals = append(vals, c20Str(v))
		}
		rs.Rules = append(rs.Rules, mr)
		var node any = map[string]any{"op": r.Mode, "field": "event", "values": vals, "case_sensitive": !r.Ci}
		if r.Inv {
			node = map[string]any{"op": "not", "operands": []any{node}}
		}
		nodes = append(nodes, node)
	}
	now := time.Date(2024, 1, 2, 3, 4, 5, 0, time.UTC)
	judge := func(via string, verdict bool, excKind string, rules bool) {
		st.steps++
		if c.M {
			st.determined++
		}
		if c.M && verdict {
			st.add(&c20Viol{Kind: "exception_dropped", Match: c, ExcKind: excKind, Rules: rules, Via: via,
				Inverted: inverted, Short: c.Short, Harness: "antispam-match"})
		}
		if c.Mm == verdict { // the transcription says "matches" <=> not spam
			st.drift++
			if len(st.driftSample) < 5 {
				b, _ := json.Marshal(c)
				st.driftSample = append(st.driftSample, fmt.Sprintf("match via %s: real verdict=%v, model match=%v; case %s", via, verdict, c.Mm, b))
			}
		}
	}
	// evaluating a rule set / an exception / a rule is read-only on the record: the caller's bytes are compared
	// with a copy afterwards
	unchanged := func(via string, buf []byte) {
		st.steps++
		if string(buf) != data {
			st.add(&c20Viol{Kind: "record_altered", Match: c, Via: via, Inverted: inverted, Short: c.Short,
				Panic: fmt.Sprintf("input %q, afterwards %q", data, buf), Harness: "antispam-match"})
		}
	}
	// (0) the real RuleSet.Match directly
	{
		rs0 := rs
		rs0.Rules = append([]matchrule.Rule(nil), rs.Rules...)
		for i := range rs0.Rules {
			rs0.Rules[i].Values = append([]string(nil), rs.Rules[i].Values...)
		}
		rs0.Prepare()
		buf := []byte(data)
		got := rs0.Match(buf)
		unchanged("match", buf)
		if got != c.Mm {
			st.drift++
			if len(st.driftSample) < 5 {
				b, _ := json.Marshal(c)
				st.driftSample = append(st.driftSample, fmt.Sprintf("RuleSet.Match=%v, model match=%v; case %s", got, c.Mm, b))
			}
		}
	}
	// (a) exception checked against the event bytes
	rsA := rs
	rsA.Rules = append([]matchrule.Rule(nil), rs.Rules...)
	for i := range rsA.Rules {
		rsA.Rules[i].Values = append([]string(nil), rs.Rules[i].Values...)
	}
	exc := Exceptions{{RuleSet: rsA}}
	exc.Prepare()
	a := NewAntispammer(&Options{MaintenanceInterval: time.Second, Threshold: 1, UnbanIterations: 4, Exceptions: exc,
		Logger: zap.NewNop(), MetricsController: ctl})
	bufA := []byte(data)
	judge("event", a.IsSpam("1", "c20src", false, bufA, now, nil), "exception", false)
	unchanged("event", bufA)
	// (b) exception checked against the source name
	rs2 := rs
	rs2.Rules = append([]matchrule.Rule(nil), rs.Rules...)
	for i := range rs2.Rules {
		rs2.Rules[i].Values = append([]string(nil), rs.Rules[i].Values...)
	}
	exc2 := Exceptions{{RuleSet: rs2, CheckSourceName: true}}
	exc2.Prepare()
	a2 := NewAntispammer(&Options{MaintenanceInterval: time.Second, Threshold: 1, UnbanIterations: 4, Exceptions: exc2,
		Logger: zap.NewNop(), MetricsController: ctl})
	judge("source_name", a2.IsSpam("1", data, false, []byte("some event"), now, nil), "exception", false)
	// (c) the same condition as an antispam rule that lifts the limit (do_if with not / and / or)
	var root any = nodes[0]
	if len(nodes) > 1 {
		root = map[string]any{"op": c.Cond, "operands": nodes}
	}
	chk, err := doif.NewFromMap(root.(map[string]any))
	if err != nil {
		panic(err)
	}
	a3 := NewAntispammer(&Options{MaintenanceInterval: time.Second, Threshold: 1, UnbanIterations: 4,
		Rules:  Rules{{Name: "c20unl", Threshold: -1, DoIfChecker: chk}},
		Logger: zap.NewNop(), MetricsController: ctl})
	bufC := []byte(data)
	judge("rule", a3.IsSpam("1", "c20src", false, bufC, now, nil), "unlimited_rule", true)
	unchanged("rule", bufC)
	st.matchCases++
}

// ---- exception lists: which exception is matched against what

type c20XlCase struct {
	G      int     `json:"g"`     // global threshold
	Rules  bool    `json:"rules"` // an antispam rule (that never matches) is configured as well
	Excs   [][]int `json:"excs"`  // per exception: check_source_name, its rule matches the record, matches the source name
	Exempt bool    `json:"exempt"`
	Mex    bool    `json:"mex"`
	Mspam  []int   `json:"mspam"` // transcription: is the k-th record of a fresh source refused
}

func c20RunXl(c *c20XlCase, ctl *metric.Ctl, st *c20Stats) {
	defer func() {
		if r := recover(); r != nil {
			st.add(&c20Viol{Kind: "panic", XList: c, Panic: fmt.Sprint(r), Harness: "antispam-xlist"})
		}
	}()
	var exc Exceptions
	content, name := "ev", "src"
	for i, e := range c.Excs {
		tok := fmt.Sprintf("<%d>", i+1)
		exc = append(exc, Exception{
			RuleSet:         matchrule.RuleSet{Name: fmt.Sprintf("c20x%d", i+1), Cond: matchrule.CondOr, Rules: []matchrule.Rule{{Mode: matchrule.ModeContains, Values: []string{tok}}}},
			CheckSourceName: e[0] == 1,
		})
		if e[1] == 1 {
			content += " " + tok
		}
		if e[2] == 1 {
			name += " " + tok
		}
	}
	exc.Prepare()
	o := &Options{MaintenanceInterval: time.Second, Threshold: c.G, UnbanIterations: 4, Exceptions: exc,
		Logger: zap.NewNop(), MetricsController: ctl}
	if c.Rules {
		chk, err := doif.NewFromMap(map[string]any{"op": "contains", "field": "event", "values": []any{"~never~"}})
		if err != nil {
			panic(err)
		}
		o.Rules = Rules{{Name: "c20never", Threshold: 3, DoIfChecker: chk}}
	}
	a := NewAntispammer(o)
	now := time.Date(2024, 1, 2, 3, 4, 5, 0, time.UTC)
	// several records: none of a matching source may be counted, let alone refused
	for k := 0; k < 3; k++ {
		verdict := a.IsSpam("1", name, false, []byte(content), now, nil)
		st.steps++
		if c.Exempt {
			st.determined++
			if verdict {
				st.add(&c20Viol{Kind: "exception_dropped", XList: c, ExcKind: "exception", Rules: c.Rules, Thr: c.G, Via: "list", Step: k, Harness: "antispam-xlist"})
			}
		}
		if verdict != (c.Mspam[k] == 1) {
			st.drift++
			if len(st.driftSample) < 5 {
				b, _ := json.Marshal(c)
				st.driftSample = append(st.driftSample, fmt.Sprintf("exception list: real verdict=%v, model exempt=%v; case %s", verdict, c.Mex, b))
			}
		}
	}
	st.xlCases++
}

// ---- rule lists: which rule governs a record

type c20RlCase struct {
	G     int     `json:"g"`
	Rules [][]int `json:"rules"` // per rule: its condition matches the record, its threshold
	Gov   int     `json:"gov"`   // declarative: threshold of the first matching rule, else the global one
	Mgov  int     `json:"mgov"`  // transcription
}

func c20RunRl(c *c20RlCase, ctl *metric.Ctl, st *c20Stats) {
	defer func() {
		if r := recover(); r != nil {
			st.add(&c20Viol{Kind: "panic", RList: c, Panic: fmt.Sprint(r), Harness: "antispam-rlist"})
		}
	}()
	var rules Rules
	content := "ev"
	for i, r := range c.Rules {
		tok := fmt.Sprintf("<%d>", i+1)
		chk, err := doif.NewFromMap(map[string]any{"op": "contains", "field": "event", "values": []any{tok}})
		if err != nil {
			panic(err)
		}
		rules = append(rules, Rule{Name: fmt.Sprintf("c20r%d", i+1), Threshold: r[1], DoIfChecker: chk})
		if r[0] == 1 {
			content += " " + tok
		}
	}
	a := NewAntispammer(&Options{MaintenanceInterval: time.Second, Threshold: c.G, UnbanIterations: 4, Rules: rules,
		Logger: zap.NewNop(), MetricsController: ctl})
	now := time.Date(2024, 1, 2, 3, 4, 5, 0, time.UTC)
	// an arrival history up to (and one past) the largest threshold
	for k := 1; k <= 4; k++ {
		verdict := a.IsSpam("1", "c20src", false, []byte(content), now, nil)
		st.steps++
		// the statement: never refused under an unlimited threshold; not banned before the governing threshold is reached
		if c.Gov == -1 || (c.Gov >= 1 && k < c.Gov) {
			st.determined++
			if verdict {
				v := &c20Viol{Kind: "spam_from_unbannable_source", RList: c, Step: k, Win: k, Thr: c.Gov, Rules: true, Harness: "antispam-rlist"}
				if c.Gov == -1 {
					v.Kind, v.ExcKind = "exception_dropped", "unlimited_rule"
				}
				st.add(v)
			}
		}
		if verdict != (c.Mgov == 0 || (c.Mgov >= 1 && k >= c.Mgov)) {
			st.drift++
			if len(st.driftSample) < 5 {
				b, _ := json.Marshal(c)
				st.driftSample = append(st.driftSample, fmt.Sprintf("rule list, record %d: real verdict=%v, model governing threshold %d; case %s", k, verdict, c.Mgov, b))
			}
		}
	}
	st.rlCases++
}

func TestVerifC20(t *testing.T) {
	in := os.Getenv("VERIF_CASES")
	out := os.Getenv("VERIF_OUT")
	if in == "" || out == "" {
		t.Skip("VERIF_CASES / VERIF_OUT not set")
	}
	f, err := os.Open(in)
	if err != nil {
		t.Fatal(err)
	}
	defer f.Close()
	nw := runtime.GOMAXPROCS(0)
	lines := make(chan []byte, 1024)
	var wg sync.WaitGroup
	stats := make([]*c20Stats, nw)
	for wi := 0; wi < nw; wi++ {
		wg.Add(1)
		stats[wi] = &c20Stats{viols: map[string][]*c20Viol{}, counts: map[string]int{}}
		go func(wi int) {
			defer wg.Done()
			ctl := metric.NewCtl(fmt.Sprintf("verif_c20_%d", wi), prometheus.NewRegistry(), 0, 0)
			for ln := range lines {
				c := &c20Case{}
				if err := json.Unmarshal(ln, c); err != nil {
					panic(fmt.Sprintf("bad case line: %v", err))
				}
				if c.Part == "rlist" {
					x := &c20RlCase{}
					if err := json.Unmarshal(ln, x); err != nil {
						panic(fmt.Sprintf("bad rule-list case line: %v", err))
					}
					c20RunRl(x, ctl, stats[wi])
					continue
				}
				if c.Part == "xlist" {
					x := &c20XlCase{}
					if err := json.Unmarshal(ln, x); err != nil {
						panic(fmt.Sprintf("bad exception-list case line: %v", err))
					}
					c20RunXl(x, ctl, stats[wi])
					continue
				}
				if c.Part == "match" {
					m := &c20MatchCase{}
					if err := json.Unmarshal(ln, m); err != nil {
						panic(fmt.Sprintf("bad match case line: %v", err))
					}
					c20RunMatch(m, ctl, stats[wi])
					continue
				}
				c20Run(c, ctl, stats[wi])
			}
		}(wi)
	}
	sc := bufio.NewScanner(f)
	sc.Buffer(make([]byte, 1<<20), 1<<24)
	for sc.Scan() {
		lines <- append([]byte(nil), sc.Bytes()...)
	}
	close(lines)
	wg.Wait()
	tot := &c20Stats{viols: map[string][]*c20Viol{}, counts: map[string]int{}}
	for _, s := range stats {
		tot.executed += s.executed
		tot.steps += s.steps
		tot.flips += s.flips
		tot.unbans += s.unbans
		tot.casesWithBan += s.casesWithBan
		tot.casesWithUnban += s.casesWithUnban
		tot.drift += s.drift
		tot.dumpDrift += s.dumpDrift
		tot.determined += s.determined
		tot.matchCases += s.matchCases
		tot.xlCases += s.xlCases
		tot.rlCases += s.rlCases
		for _, d := range s.driftSample {
			if len(tot.driftSample) < 5 {
				tot.driftSample = append(tot.driftSample, d)
			}
		}
		for k, vs := range s.viols {
			for _, v := range vs {
				if len(tot.viols[k]) < 8 {
					tot.viols[k] = append(tot.viols[k], v)
				}
			}
		}
		for k, n := range s.counts {
			tot.counts[k] += n
		}
	}
	var all []*c20Viol
	for _, vs := range tot.viols {
		all = append(all, vs...)
	}
	res := map[string]interface{}{
		"executed": tot.executed, "steps": tot.steps, "bans": tot.flips, "unbans": tot.unbans,
		"cases_with_ban": tot.casesWithBan, "cases_with_unban": tot.casesWithUnban,
		"determined": tot.determined, "match_cases": tot.matchCases, "xlist_cases": tot.xlCases, "rlist_cases": tot.rlCases, "drift": tot.drift, "dump_drift": tot.dumpDrift,
		"drift_samples": tot.driftSample, "violations": all, "violation_counts": tot.counts,
	}
	b, _ := json.Marshal(res)
	if err := os.WriteFile(out, b, 0o644); err != nil {
		t.Fatal(err)
	}
}
