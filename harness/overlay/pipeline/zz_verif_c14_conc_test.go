package pipeline

// C14 replay harness, concurrency family (in-package; see zz_verif_c14_test.go for the sequential one).
//
// One *ActionPluginStaticInfo (with its *doif.Checker / MatchConditions) per action is shared by every
// processor of a pipeline (Pipeline.newProc hands the same pointer to each processor), so the decision
// for an event must not depend on what the other processors are checking at the same moment.
// For a seeded selection of rules ONE info per rule is built through the real constructor path and
// registered in c14ConcG processors (newProcessor + AddActionPlugin, exactly as newProc does); every
// processor is driven by its own goroutine on its OWN decoded copies of the events, in its own order:
//   phase "chain": every goroutine pushes its events through processor.doActions (all rules at once);
//   phase k:       all goroutines hammer processor.isMatch(rule k, event) at the same time for a time slice.
// For every (rule, event) the number of true and of false decisions is reported; the driver demands
// that all of them equal the one decision of the sequential replay (which is compared with the
// specification).  Correct code has one decision per pair whatever the schedule, so this cannot raise a
// false alarm; whether a shared-state bug is hit is a matter of schedule (probabilistic detection).

import (
	"bufio"
	"encoding/json"
	"fmt"
	"math/rand"
	"os"
	"runtime"
	"strconv"
	"sync"
	"testing"
	"time"

	insaneJSON "github.com/ozontech/insane-json"
	"go.uber.org/atomic"
)

type c14ConcOut struct {
	ID  int     `json:"id"`
	Err string  `json:"err,omitempty"`
	T   []int64 `json:"t"` // per event: number of concurrent decisions "apply"
	F   []int64 `json:"f"` // per event: number of concurrent decisions "skip"
}

// recording action of one goroutine's processor: counts Do invocations per event
type c14ConcRec struct {
	hits []int64
	cur  *int
}

func (a *c14ConcRec) Start(AnyConfig, *ActionPluginParams) {}
func (a *c14ConcRec) Stop()                                {}
func (a *c14ConcRec) Do(*Event) ActionResult {
	a.hits[*a.cur]++
	return ActionPass
}

type c14ConcWorker struct {
	p      *processor
	events []*Event
	perm   []int
	cur    int
	recs   []*c14ConcRec
	rounds int64
	t, f   [][]int64 // [rule][event]
	panic  string
}

func c14ConcRunSet(rules []*c14Rule, ext map[int]*c14Extract, evs []string, g int, budget time.Duration,
	rng *rand.Rand, emit func(*c14ConcOut)) (checks int64) {
	var live []*c14Rule
	var infos []*ActionPluginStaticInfo
	for _, r := range rules {
		info, err := c14Build(r, ext)
		if err != nil {
			emit(&c14ConcOut{ID: r.ID, Err: err.Error()})
			continue
		}
		live = append(live, r)
		infos = append(infos, info)
	}
	if len(live) == 0 {
		return 0
	}
	n := len(evs)
	workers := make([]*c14ConcWorker, g)
	for wi := range workers {
		w := &c14ConcWorker{perm: rng.Perm(n)}
		w.p = newProcessor(wi, nil, atomic.NewInt32(0), nil, nil, func(*Event, bool, bool) {}, func(...string) {}, func() {})
		for _, info := range infos { // the SAME info in every processor, as in Pipeline.newProc
			rec := &c14ConcRec{hits: make([]int64, n), cur: &w.cur}
			w.p.AddActionPlugin(&ActionPluginInfo{ActionPluginStaticInfo: info,
				PluginRuntimeInfo: &PluginRuntimeInfo{Plugin: rec, ID: strconv.Itoa(wi)}})
			w.recs = append(w.recs, rec)
		}
		w.events = make([]*Event, n) // own roots
		for i, e := range evs {
			root := insaneJSON.Spawn()
			if err := root.DecodeString(e); err != nil {
				panic(err)
			}
			w.events[i] = &Event{Root: root}
		}
		w.t = make([][]int64, len(live))
		w.f = make([][]int64, len(live))
		for k := range live {
			w.t[k] = make([]int64, n)
			w.f[k] = make([]int64, n)
		}
		workers[wi] = w
	}
	defer func() {
		for _, w := range workers {
			for _, ev := range w.events {
				insaneJSON.Release(ev.Root)
			}
		}
	}()

	run := func(fn func(w *c14ConcWorker)) {
		var wg sync.WaitGroup
		start := make(chan struct{})
		for _, w := range workers {
			wg.Add(1)
			go func(w *c14ConcWorker) {
				defer wg.Done()
				defer func() {
					if pv := recover(); pv != nil && w.panic == "" {
						w.panic = fmt.Sprintf("panic: %v", pv)
					}
				}()
				<-start
				fn(w)
			}(w)
		}
		close(start)
		wg.Wait()
	}

	// phase "chain": a fifth of the budget
	chainEnd := time.Now().Add(budget / 5)
	run(func(w *c14ConcWorker) {
		for {
			for _, i := range w.perm {
				w.cur = i
				ev := w.events[i]
				ev.action = 0
				w.p.doActions(ev)
			}
			w.rounds++
			if time.Now().After(chainEnd) {
				return
			}
		}
	})
	// phases per rule
	slice := (budget - budget/5) / time.Duration(len(live))
	if slice < 50*time.Microsecond {
		slice = 50 * time.Microsecond
	}
	for k := range live {
		end := time.Now().Add(slice)
		run(func(w *c14ConcWorker) {
			tk, fk := w.t[k], w.f[k]
			for it := 0; ; it++ {
				for _, i := range w.perm {
					if w.p.isMatch(k, w.events[i]) {
						tk[i]++
					} else {
						fk[i]++
					}
				}
				if it%4 == 3 && time.Now().After(end) {
					return
				}
			}
		})
	}
	for k, r := range live {
		out := &c14ConcOut{ID: r.ID, T: make([]int64, n), F: make([]int64, n)}
		for _, w := range workers {
			if w.panic != "" {
				out.Err = w.panic
			}
			for i := 0; i < n; i++ {
				h := w.recs[k].hits[i]
				out.T[i] += w.t[k][i] + h
				out.F[i] += w.f[k][i] + (w.rounds - h)
			}
		}
		for i := 0; i < n; i++ {
			checks += out.T[i] + out.F[i]
		}
		emit(out)
	}
	return checks
}

func TestVerifC14Conc(t *testing.T) {
	evPath, rulesPath, extPath, outPath := os.Getenv("VERIF_C14_EVENTS"), os.Getenv("VERIF_C14_CONC_RULES"),
		os.Getenv("VERIF_C14_EXTRACT"), os.Getenv("VERIF_OUT")
	if evPath == "" || rulesPath == "" || extPath == "" || outPath == "" {
		t.Skip("VERIF_C14_EVENTS / VERIF_C14_CONC_RULES / VERIF_C14_EXTRACT / VERIF_OUT not set")
	}
	budgetMs, _ := strconv.Atoi(os.Getenv("VERIF_C14_CONC_MS"))
	if budgetMs <= 0 {
		budgetMs = 400
	}
	g := runtime.GOMAXPROCS(0)
	if g > 8 {
		g = 8
	}
	if g < 4 {
		g = 4 // more goroutines than Ps still interleave at preemption points
	}
	raw, err := os.ReadFile(evPath)
	if err != nil {
		t.Fatal(err)
	}
	var cs c14Cases
	if err := json.Unmarshal(raw, &cs); err != nil {
		t.Fatal(err)
	}
	ext := map[int]*c14Extract{}
	ef, err := os.Open(extPath)
	if err != nil {
		t.Fatal(err)
	}
	esc := bufio.NewScanner(ef)
	esc.Buffer(make([]byte, 1<<20), 1<<24)
	for esc.Scan() {
		e := &c14Extract{}
		if err := json.Unmarshal(esc.Bytes(), e); err != nil {
			t.Fatalf("bad extract line: %v", err)
		}
		ext[e.ID] = e
	}
	ef.Close()

	// rules grouped by event set (the file is sorted by set)
	var sets [][]*c14Rule
	total := 0
	f, err := os.Open(rulesPath)
	if err != nil {
		t.Fatal(err)
	}
	sc := bufio.NewScanner(f)
	sc.Buffer(make([]byte, 1<<20), 1<<24)
	for sc.Scan() {
		r := &c14Rule{}
		if err := json.Unmarshal(sc.Bytes(), r); err != nil {
			t.Fatalf("bad rule line: %v", err)
		}
		if _, ok := cs.Events[r.Set]; !ok {
			t.Fatalf("unknown event set %q", r.Set)
		}
		if len(sets) == 0 || sets[len(sets)-1][0].Set != r.Set {
			sets = append(sets, nil)
		}
		sets[len(sets)-1] = append(sets[len(sets)-1], r)
		total++
	}
	f.Close()
	if total == 0 {
		t.Fatal("no rules")
	}
	of, err := os.Create(outPath + ".tmp")
	if err != nil {
		t.Fatal(err)
	}
	w := bufio.NewWriterSize(of, 1<<20)
	enc := json.NewEncoder(w)
	emit := func(o *c14ConcOut) {
		if err := enc.Encode(o); err != nil {
			t.Fatal(err)
		}
	}
	rng := rand.New(rand.NewSource(cs.Seed + 2))
	var checks int64
	t0 := time.Now()
	for _, rs := range sets {
		budget := time.Duration(budgetMs) * time.Millisecond * time.Duration(len(rs)) / time.Duration(total)
		checks += c14ConcRunSet(rs, ext, cs.Events[rs[0].Set], g, budget, rng, emit)
	}
	if err := enc.Encode(map[string]interface{}{"id": -1, "checks": checks, "goroutines": g,
		"gomaxprocs": runtime.GOMAXPROCS(0), "wall_ms": time.Since(t0).Milliseconds()}); err != nil {
		t.Fatal(err)
	}
	if err := w.Flush(); err != nil {
		t.Fatal(err)
	}
	of.Close()
	if err := os.Rename(outPath+".tmp", outPath); err != nil {
		t.Fatal(err)
	}
	t.Logf("c14/conc: %d rules, %d goroutines, %d concurrent decisions in %v", total, g, checks, time.Since(t0))
}
