package pipeline

// C20 replay harness, pipeline part (mapped into /repo/pipeline by `go test -overlay`; /repo is not
// modified; every identifier is prefixed c20).
//
// (1) size cases exported by TLC from specs/Admission.tla go through the REAL Pipeline.In of a pipeline
//     built with New/SetInput/SetOutput/Start, a fake input plugin (PassEvent = "not already committed")
//     and a recording output plugin.  Three decoders: raw, json (real ones) and a probe decoder that
//     records the exact bytes handed to DecodeToJson ("before decoding").  Compared: the return value
//     (0 = refused), the delivered bytes, the mark field.  "Undecodable" for json is an observed bit
//     from the real decoder applied to the bytes the statement expects.
// (2) antispam histories go through the REAL Pipeline.In with the cri decoder (the event time is
//     taken from the CRI line, so inter-arrival gaps are real) and Antispammer.Maintenance is called
//     at the scripted points; the verdict (In returns 0) is compared with the statement's expectation.

import (
	"bufio"
	"encoding/json"
	"errors"
	"fmt"
	"os"
	"strings"
	"sync"
	"testing"
	"time"

	"github.com/ozontech/file.d/cfg/matchrule"
	"github.com/ozontech/file.d/decoder"
	"github.com/ozontech/file.d/pipeline/antispam"
	"github.com/ozontech/file.d/pipeline/doif"
	insaneJSON "github.com/ozontech/insane-json"
	"github.com/prometheus/client_golang/prometheus"
	"go.uber.org/atomic"
	"go.uber.org/zap"
)

const c20MarkField = "c20_cut_mark"

// ---------------------------------------------------------------- plugins

type c20Input struct {
	committed atomic.Bool  // what PassEvent answers: the input recognises the event as already committed
	suggest   decoder.Type // what the input suggests when the pipeline decoder is "auto" (as the k8s input does)
	saved     atomic.Value // map[StreamName]int64: when set, PassEvent answers as the file input does
}

func (p *c20Input) Start(_ AnyConfig, params *InputPluginParams) {
	if p.suggest != decoder.NO {
		params.Controller.SuggestDecoder(p.suggest)
	}
}
func (p *c20Input) Stop()           {}
func (p *c20Input) Commit(_ *Event) {}
func (p *c20Input) PassEvent(event *Event) bool {
	if m, ok := p.saved.Load().(map[StreamName]int64); ok && m != nil {
		// plugin/input/file PassEvent: already committed iff the saved offset of the event's own stream is not older
		if off, has := m[event.streamName]; has {
			return event.Offset > off
		}
		return true
	}
	return !p.committed.Load()
}

type c20Delivered struct {
	seq      uint64
	doc      string
	message  string
	hasMsg   bool
	hasMark  bool
	markTrue bool
}

type c20Output struct {
	controller OutputPluginController
	ch         chan c20Delivered
	count      atomic.Int64
	record     bool
}

func (p *c20Output) Start(_ AnyConfig, params *OutputPluginParams) { p.controller = params.Controller }
func (p *c20Output) Stop()                                         {}
func (p *c20Output) Out(event *Event) {
	if p.record {
		d := c20Delivered{seq: event.SeqID, doc: event.Root.EncodeToString()}
		if n := event.Root.Dig("message"); n != nil {
			d.hasMsg = true
			d.message = string(append([]byte(nil), n.AsBytes()...))
		}
		if n := event.Root.Dig(c20MarkField); n != nil {
			d.hasMark = true
			d.markTrue = n.IsTrue()
		}
		p.ch <- d
	}
	p.count.Inc()
	p.controller.Commit(event)
}

// probe decoder: sees exactly what In hands to the decoder
type c20Probe struct {
	mu    sync.Mutex
	seen  []byte
	calls int
	undec bool
}

func (d *c20Probe) Type() decoder.Type { return decoder.NGINX_ERROR }
func (d *c20Probe) DecodeToJson(root *insaneJSON.Root, data []byte) error {
	d.mu.Lock()
	d.seen = append([]byte(nil), data...)
	d.calls++
	u := d.undec
	d.mu.Unlock()
	if u {
		return errors.New("c20 probe: undecodable")
	}
	root.AddFieldNoAlloc(root, "message").MutateToBytesCopy(root, data)
	return nil
}
func (d *c20Probe) Decode(_ []byte, _ ...any) (any, error) { return nil, errors.New("unused") }

func c20NewPipeline(name string, s *Settings) (*Pipeline, *c20Input, *c20Output) {
	s.Capacity = 16
	s.AvgEventSize = 256
	s.MaintenanceInterval = time.Hour
	s.EventTimeout = time.Hour
	s.StreamField = "stream"
	s.Metric = &MetricSettings{HoldDuration: DefaultMetricHoldDuration, MaxLabelValueLength: DefaultMetricMaxLabelValueLength}
	s.Pool = PoolTypeStd
	p := New(name, s, prometheus.NewRegistry(), zap.NewNop())
	p.DisableParallelism()
	in := &c20Input{}
	out := &c20Output{ch: make(chan c20Delivered, 64)}
	p.SetInput(&InputPluginInfo{
		PluginStaticInfo:  &PluginStaticInfo{Type: "c20in"},
		PluginRuntimeInfo: &PluginRuntimeInfo{Plugin: in},
	})
	p.SetOutput(&OutputPluginInfo{
		PluginStaticInfo:  &PluginStaticInfo{Type: "c20out"},
		PluginRuntimeInfo: &PluginRuntimeInfo{Plugin: out},
	})
	return p, in, out
}

// ---------------------------------------------------------------- size cases

type c20SizeCase struct {
	L         int    `json:"L"`
	Nl        bool   `json:"nl"`
	M         int    `json:"M"`
	Cut       bool   `json:"cut"`
	Mark      bool   `json:"mark"`
	Undec     bool   `json:"undec"`
	Committed bool   `json:"committed"`
	Rec       []int  `json:"rec"`
	MayRefuse bool   `json:"mayRefuse"`
	Why       string `json:"why"`
	Over      bool   `json:"over"`
	ExpBytes  []int  `json:"expBytes"`
	ExpMark   bool   `json:"expMark"`
}

type c20SizeViol struct {
	Kind    string       `json:"kind"`
	Decoder string       `json:"decoder"`
	Case    *c20SizeCase `json:"case"`
	Over    bool         `json:"over"`
	Cut     bool         `json:"cut"`
	Nl      bool         `json:"nl"`
	Why     string       `json:"why"`
	Input   string       `json:"input"`
	Want    string       `json:"want"`
	Got     string       `json:"got"`
	Panic   string       `json:"panic,omitempty"`
	Harness string       `json:"harness"`
	RawCase any          `json:"raw_case,omitempty"` // cri / exception-list case, for --replay
	ExcKind string       `json:"exception_kind,omitempty"`
	Rules   bool         `json:"rules_present"`
}

// the body of a record of length L for a decoder; position i (1-based) of the abstract record is byte i-1
// flavour (non-JSON decoders): 0 = ASCII; 1, 2 = multi-byte UTF-8 text, so that for every limit some character straddles it
// (the bytes at and right before the cut position are continuation bytes); 3 = binary (every byte >= 0x80);
// 4 = ASCII with upper-case letters (json: an upper-case key), so that any case folding of the record shows
func c20Body(dec string, l int, flavour int) []byte {
	b := make([]byte, l)
	if dec != "json" {
		switch flavour % 5 {
		case 4:
			for i := range b {
				b[i] = byte('A' + i)
				if i%3 == 2 {
					b[i] = byte('a' + i)
				}
			}
		case 0:
			for i := range b {
				b[i] = byte('a' + i)
			}
		case 1, 2:
			text := []byte(strings.Repeat("\u00e9\u20ac\U0001F600z", l/2+2)) // 2-, 3-, 4-byte characters and an ASCII letter
			copy(b, text[flavour%5-1:])
		default:
			for i := range b {
				b[i] = byte(0x80 + (i*7)%0x40)
			}
		}
		return b
	}
	switch {
	case l == 2:
		copy(b, `{}`)
	case l >= 7:
		copy(b, `{"k":`)
		if flavour%5 == 4 {
			copy(b, `{"K":`)
		}
		for i := 5; i < l-1; i++ {
			b[i] = byte('1' + (i-5)%9)
		}
		b[l-1] = '}'
	default:
		for i := range b {
			b[i] = 'x'
		}
	}
	return b
}

func c20Real(body []byte, sym []int) []byte {
	r := make([]byte, 0, len(sym))
	for _, s := range sym {
		if s == 0 {
			r = append(r, '\n')
		} else {
			r = append(r, body[s-1])
		}
	}
	return r
}

type c20SizeStats struct {
	mu                                         sync.Mutex
	executed, delivered, refused, cutDelivered int
	keptBoundary                               int
	viols                                      []*c20SizeViol
}

func (st *c20SizeStats) add(v *c20SizeViol) {
	st.mu.Lock()
	if len(st.viols) < 200 {
		st.viols = append(st.viols, v)
	}
	st.mu.Unlock()
}

type c20SizeCfg struct {
	dec  string
	m    int
	cut  bool
	mark bool
	anti bool // antispam enabled (threshold never reached) with case-insensitive exception rules that get evaluated
}

// exceptions that are evaluated for every record and never exempt it: every mode, case-insensitive, also inverted
func c20FoldingExceptions() antispam.Exceptions {
	ci := func(m matchrule.Mode, v string, inv bool) matchrule.Rule {
		return matchrule.Rule{Mode: m, Values: []string{v}, CaseInsensitive: true, Invert: inv}
	}
	never := matchrule.Rule{Mode: matchrule.ModeContains, Values: []string{"~~"}}
	e := antispam.Exceptions{
		{RuleSet: matchrule.RuleSet{Name: "c20ci1", Cond: matchrule.CondAnd, Rules: []matchrule.Rule{ci(matchrule.ModeContains, "~Q", false)}}},
		{RuleSet: matchrule.RuleSet{Name: "c20ci2", Cond: matchrule.CondAnd, Rules: []matchrule.Rule{ci(matchrule.ModePrefix, "~Q", false)}}},
		{RuleSet: matchrule.RuleSet{Name: "c20ci3", Cond: matchrule.CondAnd, Rules: []matchrule.Rule{ci(matchrule.ModeSuffix, "Q~", false)}}},
		{RuleSet: matchrule.RuleSet{Name: "c20ci4", Cond: matchrule.CondAnd, Rules: []matchrule.Rule{ci(matchrule.ModeContains, "~Q", true), never}}},
		{RuleSet: matchrule.RuleSet{Name: "c20ci5", Cond: matchrule.CondAnd, Rules: []matchrule.Rule{ci(matchrule.ModePrefix, "~Q", true), never}}},
		{RuleSet: matchrule.RuleSet{Name: "c20ci6", Cond: matchrule.CondAnd, Rules: []matchrule.Rule{ci(matchrule.ModeSuffix, "Q~", true), never}}},
		{RuleSet: matchrule.RuleSet{Name: "c20ci7", Cond: matchrule.CondAnd, Rules: []matchrule.Rule{ci(matchrule.ModeContains, "~", false)}}, CheckSourceName: true},
	}
	e.Prepare()
	return e
}

func c20RunSizeGroup(id int, g c20SizeCfg, cases []*c20SizeCase, st *c20SizeStats) {
	s := &Settings{
		Decoder:            map[string]string{"raw": "raw", "json": "json", "probe": "nginx_error"}[g.dec],
		MaxEventSize:       g.m,
		CutOffEventByLimit: g.cut,
		Antispam:           AntispamSettings{Threshold: DefaultAntispamThreshold, MaintenanceInterval: time.Hour},
	}
	if g.mark {
		s.CutOffEventByLimitField = c20MarkField
	}
	if g.anti {
		s.Antispam.Threshold = 1 << 30
		s.Antispam.Exceptions = c20FoldingExceptions()
	}
	p, in, out := c20NewPipeline(fmt.Sprintf("c20size%d", id), s)
	out.record = true
	probe := &c20Probe{}
	if g.dec == "probe" {
		p.decoder = probe
	}
	jsonDec, _ := decoder.NewJsonDecoder(nil)
	p.Start()
	defer p.Stop()

	for ci, c := range cases {
		func() {
			body := c20Body(g.dec, c.L, ci)
			rec := c20Real(body, c.Rec)
			exp := c20Real(body, c.ExpBytes)
			mk := func(kind, want, got string) *c20SizeViol {
				return &c20SizeViol{Kind: kind, Decoder: g.dec, Case: c, Over: c.Over, Cut: c.Cut, Nl: c.Nl, Why: c.Why,
					Input: string(rec), Want: want, Got: got, Harness: "pipeline-size"}
			}
			defer func() {
				if r := recover(); r != nil {
					v := mk("panic", "", "")
					v.Panic = fmt.Sprint(r)
					st.add(v)
				}
			}()
			mayRefuse := c.MayRefuse
			var wantDoc string
			if g.dec == "json" && !mayRefuse {
				// "undecodable" is an observed bit: the real decoder applied to the bytes the statement expects
				root := insaneJSON.Spawn()
				err := jsonDec.DecodeToJson(root, append([]byte(nil), exp...))
				if err != nil || !root.IsObject() {
					mayRefuse = true
				} else {
					if c.ExpMark {
						root.AddFieldNoAlloc(root, c20MarkField).MutateToBool(true)
					}
					wantDoc = root.EncodeToString()
				}
				insaneJSON.Release(root)
			}
			in.committed.Store(c.Committed)
			probe.mu.Lock()
			probe.undec = c.Undec
			probe.seen = nil
			probe.mu.Unlock()

			data := append(make([]byte, 0, len(rec)+8), rec...)
			seq := p.In(SourceID(1), "c20Src", Offsets{current: int64(ci + 1)}, data, false, nil)
			st.mu.Lock()
			st.executed++
			st.mu.Unlock()
			// the caller's buffer: In may put the newline back right after a cut, everything before is the record
			keep := len(rec)
			if c.Over && c.Cut {
				keep = c.M
			}
			if string(data[:keep]) != string(rec[:keep]) {
				st.add(mk("input_buffer_altered", string(rec[:keep]), string(data[:keep])))
			}
			if seq == EventSeqIDError {
				st.mu.Lock()
				st.refused++
				st.mu.Unlock()
				if !mayRefuse {
					st.add(mk("refused_without_reason", "delivered", "In returned 0"))
				}
				return
			}
			var d c20Delivered
			select {
			case d = <-out.ch:
			case <-time.After(30 * time.Second):
				st.add(mk("not_delivered", "event at the output", "nothing after 30s"))
				return
			}
			st.mu.Lock()
			st.delivered++
			if c.Over {
				st.cutDelivered++
			}
			if c.M != 0 && len(rec) == c.M {
				st.keptBoundary++
			}
			st.mu.Unlock()
			if mayRefuse {
				return // the statement allows refusal here and does not say what a delivery must look like
			}
			switch g.dec {
			case "raw":
				// the raw decoder stores all but the last byte of what it is handed
				want := string(exp[:len(exp)-1])
				if !d.hasMsg || d.message != want {
					st.add(mk("bytes_differ", want, d.message))
				}
			case "probe":
				probe.mu.Lock()
				seen := string(probe.seen)
				probe.mu.Unlock()
				if seen != string(exp) || d.message != string(exp) {
					st.add(mk("bytes_differ", string(exp), seen))
				}
			case "json":
				if d.doc != wantDoc {
					st.add(mk("bytes_differ", wantDoc, d.doc))
				}
			}
			if c.ExpMark != (d.hasMark && d.markTrue) || (!c.ExpMark && d.hasMark) {
				st.add(mk("mark_differ", fmt.Sprint(c.ExpMark), fmt.Sprintf("present=%v true=%v", d.hasMark, d.markTrue)))
			}
		}()
	}
}

// ---------------------------------------------------------------- antispam histories through In

type c20HistCase struct {
	T     int     `json:"T"`
	T2    int     `json:"T2"`
	U     int     `json:"U"`
	Mode  string  `json:"mode"`
	I     int     `json:"I"`
	N     int     `json:"n"`
	Steps [][]int `json:"steps"`
}

const (
	c20Op = iota
	c20Src
	c20Kind
	c20Dt
	c20Mv
	c20Exp
	c20Why
	c20Win
	c20Thr
	c20Resid
	c20Fixed
)

type c20HistViol struct {
	Kind         string       `json:"kind"`
	Case         *c20HistCase `json:"case"`
	Step         int          `json:"step"`
	Src          int          `json:"src"`
	Win          int          `json:"win"`
	Thr          int          `json:"thr"`
	Residual     bool         `json:"residual_after_unban"`
	Rules        bool         `json:"rules_present"`
	ExcKind      string       `json:"exception_kind,omitempty"`
	Panic        string       `json:"panic,omitempty"`
	Harness      string       `json:"harness"`
	AfterSilence bool         `json:"after_silence,omitempty"`
	PauseMs      int64        `json:"pause_ms,omitempty"`
}

type c20HistStats struct {
	mu                                          sync.Mutex
	executed, steps, spam, accepted, drift, det int
	viols                                       map[string][]*c20HistViol
	counts                                      map[string]int
	driftSample                                 []string
}

func (st *c20HistStats) add(v *c20HistViol) {
	k := fmt.Sprintf("%s/%v/%v/%s", v.Kind, v.Residual, v.Rules, v.ExcKind)
	st.mu.Lock()
	st.counts[k]++
	if len(st.viols[k]) < 8 {
		st.viols[k] = append(st.viols[k], v)
	}
	st.mu.Unlock()
}

var c20Contents = [4]string{"plain message", "message with EXC inside", "message with UNL inside", "plain message"}

// class "e" is realised alternately by a record matching the first and the second exception
func c20Content(kind, step int) string {
	if kind == 1 && step%2 == 1 {
		return "message with SHX inside"
	}
	return c20Contents[kind]
}

// the exception and rule lists of the specification's configurations ("exc" / "rules")
func c20AntispamLists(as *AntispamSettings, c0 *c20HistCase) {
	s := &Settings{}
	exc := antispam.Exceptions{
		{RuleSet: matchrule.RuleSet{
			Name:  "c20exc",
			Cond:  matchrule.CondOr,
			Rules: []matchrule.Rule{{Mode: matchrule.ModeContains, Values: []string{"EXC"}}},
		}},
		// an inverted rule whose value is longer than any line (the CRI line is what IsSpam is handed):
		// "contains SHX and does not end with <200 x>"
		{RuleSet: matchrule.RuleSet{
			Name: "c20shx",
			Cond: matchrule.CondAnd,
			Rules: []matchrule.Rule{
				{Mode: matchrule.ModeSuffix, Values: []string{strings.Repeat("x", 200)}, Invert: true},
				{Mode: matchrule.ModeContains, Values: []string{"SHX"}},
			},
		}},
	}
	exc.Prepare()
	s.Antispam.Exceptions = exc
	if c0.Mode == "rules" {
		unl, err := doif.NewFromMap(map[string]any{"op": "contains", "field": "event", "values": []any{"UNL"}})
		if err != nil {
			panic(err)
		}
		s2, err := doif.NewFromMap(map[string]any{"op": "equal", "field": "source_name", "values": []any{"src2"}})
		if err != nil {
			panic(err)
		}
		s.Antispam.Rules = antispam.Rules{
			{Name: "c20unl", Threshold: -1, DoIfChecker: unl},
			{Name: "c20s2", Threshold: c0.T2, DoIfChecker: s2},
		}
	}
	as.Exceptions = s.Antispam.Exceptions
	as.Rules = s.Antispam.Rules
}

func c20RunHistGroup(id int, cases []*c20HistCase, st *c20HistStats) {
	c0 := cases[0]
	unit := time.Hour // one abstract time unit; the pipeline's own maintenance ticker never fires during the run
	s := &Settings{
		Decoder:  "cri",
		Antispam: AntispamSettings{Threshold: c0.T, MaintenanceInterval: time.Duration(c0.I) * unit},
	}
	c20AntispamLists(&s.Antispam, c0)
	p, _, out := c20NewPipeline(fmt.Sprintf("c20hist%d", id), s)
	p.Start()
	defer p.Stop()
	base := time.Date(2024, 1, 2, 3, 4, 5, 0, time.UTC)
	accepted := int64(0)
	for ci, c := range cases {
		func() {
			step := -1
			defer func() {
				if r := recover(); r != nil {
					st.add(&c20HistViol{Kind: "panic", Case: c, Step: step, Panic: fmt.Sprint(r), Harness: "pipeline-antispam"})
				}
			}()
			now := 0
			for i, sp := range c.Steps {
				step = i
				st.mu.Lock()
				st.steps++
				st.mu.Unlock()
				if sp[c20Op] == 1 {
					p.antispamer.Maintenance()
					continue
				}
				now += sp[c20Dt]
				x := sp[c20Src]
				line := fmt.Sprintf("%s stdout F %s\n", base.Add(time.Duration(now)*unit).Format("2006-01-02T15:04:05.000000000Z"), c20Content(sp[c20Kind], i))
				seq := p.In(SourceID(uint64(ci)*8+uint64(x)), fmt.Sprintf("src%d", x), Offsets{current: int64(i + 1)}, []byte(line), sp[c20Kind] == 3, nil)
				verdict := seq == EventSeqIDError
				if !verdict {
					accepted++
				}
				mk := func(kind string) *c20HistViol {
					return &c20HistViol{Kind: kind, Case: c, Step: i, Src: x, Win: sp[c20Win], Thr: sp[c20Thr],
						Rules: c.Mode == "rules", Harness: "pipeline-antispam"}
				}
				st.mu.Lock()
				if verdict {
					st.spam++
				}
				if sp[c20Exp] == 0 {
					st.det++
				}
				if verdict != (sp[c20Mv] == 1) {
					st.drift++
					if len(st.driftSample) < 5 {
						b, _ := json.Marshal(c)
						st.driftSample = append(st.driftSample, fmt.Sprintf("step %d: In refused=%v, model verdict=%d; case %s", i, verdict, sp[c20Mv], b))
					}
				}
				st.mu.Unlock()
				if verdict && sp[c20Exp] == 0 {
					switch sp[c20Why] {
					case 1:
						st.add(mk("dropped_while_disabled"))
					case 2:
						v := mk("exception_dropped")
						v.ExcKind = "exception"
						st.add(v)
					case 3:
						v := mk("exception_dropped")
						v.ExcKind = "unlimited_rule"
						st.add(v)
					case 4:
						st.add(mk("spam_from_unbannable_source"))
					}
				}
			}
			st.mu.Lock()
			st.executed++
			st.mu.Unlock()
		}()
	}
	// everything In accepted must come out
	deadline := time.Now().Add(30 * time.Second)
	for out.count.Load() < accepted && time.Now().Before(deadline) {
		time.Sleep(time.Millisecond)
	}
	if out.count.Load() != accepted {
		st.add(&c20HistViol{Kind: "not_delivered", Case: c0, Harness: "pipeline-antispam",
			Panic: fmt.Sprintf("accepted %d, delivered %d", accepted, out.count.Load())})
	}
	st.mu.Lock()
	st.accepted += int(accepted)
	st.mu.Unlock()
}

// ---------------------------------------------------------------- pipeline-scheduled maintenance
//
// Histories of the shape  arrivals* , K >= unban+1 maintenance rounds , arrivals+  on a RUNNING pipeline whose
// own antispammerMaintenance goroutine does the maintenance (interval c20SchedInterval): all bursts, one pause
// of 10 x K intervals + 300 ms, all second bursts.  Only admissions are asserted: a record the statement says
// cannot be refused (exp = 0) must be admitted -- in particular the first records of a source after the pause,
// however it was banned before.  Extra maintenance rounds falling into a burst only shrink the counting
// windows, so they cannot turn such an expectation wrong.  Nothing is ever required to be still banned.

const c20SchedInterval = 20 * time.Millisecond

type c20SchedStats struct {
	mu                                       sync.Mutex
	executed, steps, sawBan, bannedThenAdmit int
	groups                                   int
	viols                                    map[string][]*c20HistViol
	counts                                   map[string]int
}

func (st *c20SchedStats) add(v *c20HistViol) {
	k := fmt.Sprintf("%s/%v/%v/%s", v.Kind, v.Residual, v.Rules, v.ExcKind)
	st.mu.Lock()
	st.counts[k]++
	if len(st.viols[k]) < 8 {
		st.viols[k] = append(st.viols[k], v)
	}
	st.mu.Unlock()
}

func c20RunSchedGroup(id int, cases []*c20HistCase, st *c20SchedStats) {
	c0 := cases[0]
	s := &Settings{
		Decoder:  "raw",
		Antispam: AntispamSettings{Threshold: c0.T, MaintenanceInterval: c20SchedInterval},
	}
	c20AntispamLists(&s.Antispam, c0)
	p, _, out := c20NewPipeline(fmt.Sprintf("c20sched%d", id), s)
	p.Start()
	defer p.Stop()
	accepted := int64(0)
	maxK := 0
	type progress struct {
		next   int          // first step after the maintenance block
		banned map[int]bool // sources that were refused in the first burst
	}
	prog := make([]progress, len(cases))
	var pause time.Duration
	send := func(ci int, c *c20HistCase, i int, afterSilence bool) {
		sp := c.Steps[i]
		x := sp[c20Src]
		line := c20Content(sp[c20Kind], i) + "\n"
		seq := p.In(SourceID(uint64(ci)*8+uint64(x)), fmt.Sprintf("src%d", x), Offsets{current: int64(i + 1)}, []byte(line), sp[c20Kind] == 3, nil)
		refused := seq == EventSeqIDError
		if !refused {
			accepted++
		}
		st.mu.Lock()
		st.steps++
		st.mu.Unlock()
		if !afterSilence {
			if refused {
				prog[ci].banned[x] = true
			}
		} else if prog[ci].banned[x] {
			prog[ci].banned[x] = false
			if !refused {
				st.mu.Lock()
				st.bannedThenAdmit++
				st.mu.Unlock()
			}
		}
		if !refused || sp[c20Exp] != 0 {
			return
		}
		v := &c20HistViol{Case: c, Step: i, Src: x, Win: sp[c20Win], Thr: sp[c20Thr], Rules: c.Mode == "rules",
			Harness: "pipeline-scheduled", AfterSilence: afterSilence, PauseMs: pause.Milliseconds()}
		switch sp[c20Why] {
		case 1:
			v.Kind = "dropped_while_disabled"
		case 2:
			v.Kind, v.ExcKind = "exception_dropped", "exception"
		case 3:
			v.Kind, v.ExcKind = "exception_dropped", "unlimited_rule"
		default:
			v.Kind = "spam_from_unbannable_source"
			if afterSilence {
				v.Kind = "not_unbanned"
			}
		}
		st.add(v)
	}
	phase := func(after bool) {
		for ci, c := range cases {
			func() {
				defer func() {
					if r := recover(); r != nil {
						st.add(&c20HistViol{Kind: "panic", Case: c, Panic: fmt.Sprint(r), Harness: "pipeline-scheduled"})
					}
				}()
				if !after {
					prog[ci].banned = map[int]bool{}
					i, k := 0, 0
					for ; i < len(c.Steps) && c.Steps[i][c20Op] == 0; i++ {
						send(ci, c, i, false)
					}
					for ; i < len(c.Steps) && c.Steps[i][c20Op] == 1; i++ {
						k++
					}
					prog[ci].next = i
					if k > maxK {
						maxK = k
					}
					for _, b := range prog[ci].banned {
						if b {
							st.mu.Lock()
							st.sawBan++
							st.mu.Unlock()
						}
					}
					return
				}
				for i := prog[ci].next; i < len(c.Steps); i++ {
					if c.Steps[i][c20Op] == 1 {
						panic("history is not of the burst / pause / burst shape")
					}
					send(ci, c, i, true)
				}
				st.mu.Lock()
				st.executed++
				st.mu.Unlock()
			}()
		}
	}
	phase(false)
	pause = time.Duration(10*maxK)*c20SchedInterval + 300*time.Millisecond
	time.Sleep(pause)
	phase(true)
	deadline := time.Now().Add(30 * time.Second)
	for out.count.Load() < accepted && time.Now().Before(deadline) {
		time.Sleep(time.Millisecond)
	}
	if out.count.Load() != accepted {
		st.add(&c20HistViol{Kind: "not_delivered", Case: c0, Harness: "pipeline-scheduled",
			Panic: fmt.Sprintf("accepted %d, delivered %d", accepted, out.count.Load())})
	}
	st.mu.Lock()
	st.groups++
	st.mu.Unlock()
}

// ---------------------------------------------------------------- CRI lines x antispam setting
//
// Well-formed CRI lines (time zone Z / numeric offset, with / without fraction, stdout / stderr, full / partial)
// through the real Pipeline.In with decoder "cri" and with decoder "auto" + an input that suggests cri, under
// antispam disabled / threshold 0 + rule for the source / large threshold.  Nothing is banned, so every record
// must be admitted and delivered unaltered (log, time, stream), whatever the antispam setting.

type c20CriCase struct {
	Zone   string `json:"zone"`
	Stream string `json:"stream"`
	Flag   string `json:"flag"`
	Anti   string `json:"anti"`
}

type c20MiscStats struct {
	mu                                  sync.Mutex
	criExecuted, criDelivered           int
	xlExecuted, xlExempt, xlDrift       int
	rlExecuted, rlDrift                 int
	skExecuted, skDrift                 int
	ofsExecuted, ofsMustAdmit, ofsDrift int
	seqExecuted, seqDelivered           int
	perKey                              map[string]int
	driftSample                         []string
	pipelines                           int
	viols                               []*c20SizeViol
}

func (st *c20MiscStats) add(v *c20SizeViol) {
	k := fmt.Sprint(v.Kind, "/", v.Harness, "/", v.Decoder, "/", v.Rules)
	st.mu.Lock()
	if st.perKey == nil {
		st.perKey = map[string]int{}
	}
	st.perKey[k]++
	if st.perKey[k] <= 8 { // a flood of one class (e.g. a known finding) must not crowd out another
		st.viols = append(st.viols, v)
	}
	st.mu.Unlock()
}

func c20RunCriGroup(id int, dec string, anti string, cases []*c20CriCase, st *c20MiscStats) {
	s := &Settings{Decoder: dec, Antispam: AntispamSettings{Threshold: DefaultAntispamThreshold, MaintenanceInterval: time.Hour}}
	switch anti {
	case "zero+rule":
		chk, err := doif.NewFromMap(map[string]any{"op": "equal", "field": "source_name", "values": []any{"c20cri"}})
		if err != nil {
			panic(err)
		}
		s.Antispam.Threshold = 0
		s.Antispam.Rules = antispam.Rules{{Name: "c20cri", Threshold: 1 << 30, DoIfChecker: chk}}
	case "large":
		s.Antispam.Threshold = 1 << 30
	}
	p, in, out := c20NewPipeline(fmt.Sprintf("c20cri%d", id), s)
	out.record = true
	if dec == "auto" {
		in.suggest = decoder.CRI
	}
	p.Start()
	defer p.Stop()
	st.mu.Lock()
	st.pipelines++
	st.mu.Unlock()
	stamps := map[string][]string{
		"z":      {"2016-10-06T00:17:09.669794202Z", "2016-10-06T00:17:09Z"},
		"offset": {"2016-10-06T03:17:09.669794202+03:00", "2016-10-05T17:17:09-07:00"},
	}
	n := 0
	for _, c := range cases {
		for _, ts := range stamps[c.Zone] {
			for _, content := range []string{"Hello World", `{"a":"b","N":1}`} {
				n++
				func() {
					line := ts + " " + c.Stream + " " + c.Flag + " " + content + "\n"
					mk := func(kind, want, got string) *c20SizeViol {
						return &c20SizeViol{Kind: kind, Decoder: dec, Why: "antispam=" + anti, Input: line, Want: want, Got: got, Harness: "pipeline-cri", RawCase: c}
					}
					defer func() {
						if r := recover(); r != nil {
							v := mk("panic", "", "")
							v.Panic = fmt.Sprint(r)
							st.add(v)
						}
					}()
					seq := p.In(SourceID(7), "c20cri", Offsets{current: int64(n)}, []byte(line), false, nil)
					st.mu.Lock()
					st.criExecuted++
					st.mu.Unlock()
					if seq == EventSeqIDError {
						st.add(mk("refused_without_reason", "delivered", "In returned 0"))
						return
					}
					var d c20Delivered
					select {
					case d = <-out.ch:
					case <-time.After(30 * time.Second):
						st.add(mk("not_delivered", "event at the output", "nothing after 30s"))
						return
					}
					st.mu.Lock()
					st.criDelivered++
					st.mu.Unlock()
					wantLog := content + "\n"
					if c.Flag == "P" {
						wantLog = content // DecodeCRI strips the line end of a partial line
					}
					var got map[string]any
					_ = json.Unmarshal([]byte(d.doc), &got)
					want := map[string]any{"log": wantLog, "time": ts, "stream": c.Stream}
					wb, _ := json.Marshal(want)
					gb, _ := json.Marshal(got)
					if string(wb) != string(gb) {
						st.add(mk("bytes_differ", string(wb), d.doc))
					}
				}()
			}
		}
	}
}

// ---------------------------------------------------------------- exception lists through In
//
// One running pipeline per list structure (which entries are check_source_name); the abstract bits "rule i matches
// the record / the source name" are realised by tokens in the record and in the source name.  Threshold 1: a fresh
// source's first counted record is refused, so "admitted" <=> recognised as exempt.

type c20XlCase struct {
	G      int     `json:"g"`
	Rules  bool    `json:"rules"`
	Excs   [][]int `json:"excs"` // per exception: check_source_name, matches record, matches source name
	Exempt bool    `json:"exempt"`
	Mex    bool    `json:"mex"`
	Mspam  []int   `json:"mspam"`
}

func c20XlTokens(c *c20XlCase) (content, name string) {
	content, name = "ev", "src"
	for i, e := range c.Excs {
		if e[1] == 1 {
			content += fmt.Sprintf(" <%d>", i+1)
		}
		if e[2] == 1 {
			name += fmt.Sprintf(" <%d>", i+1)
		}
	}
	return
}

func c20RunXlGroup(id int, cases []*c20XlCase, st *c20MiscStats) {
	c0 := cases[0]
	var exc antispam.Exceptions
	for i, e := range c0.Excs {
		exc = append(exc, antispam.Exception{
			RuleSet: matchrule.RuleSet{Name: fmt.Sprintf("c20x%d", i+1), Cond: matchrule.CondOr,
				Rules: []matchrule.Rule{{Mode: matchrule.ModeContains, Values: []string{fmt.Sprintf("<%d>", i+1)}}}},
			CheckSourceName: e[0] == 1,
		})
	}
	exc.Prepare()
	s := &Settings{Decoder: "raw", Antispam: AntispamSettings{Threshold: c0.G, MaintenanceInterval: time.Hour, Exceptions: exc}}
	if c0.Rules {
		chk, err := doif.NewFromMap(map[string]any{"op": "contains", "field": "event", "values": []any{"~never~"}})
		if err != nil {
			panic(err)
		}
		s.Antispam.Rules = antispam.Rules{{Name: "c20never", Threshold: 3, DoIfChecker: chk}}
	}
	p, _, out := c20NewPipeline(fmt.Sprintf("c20xl%d", id), s)
	p.Start()
	defer p.Stop()
	st.mu.Lock()
	st.pipelines++
	st.mu.Unlock()
	accepted := int64(0)
	for ci, c := range cases {
		func() {
			content, name := c20XlTokens(c)
			mk := func(kind, want, got string) *c20SizeViol {
				b, _ := json.Marshal(c)
				return &c20SizeViol{Kind: kind, Decoder: "raw", Why: "exception list " + string(b), Input: content + " from " + name,
					Want: want, Got: got, Harness: "pipeline-xlist", RawCase: c, ExcKind: "exception", Rules: c.Rules}
			}
			defer func() {
				if r := recover(); r != nil {
					v := mk("panic", "", "")
					v.Panic = fmt.Sprint(r)
					st.add(v)
				}
			}()
			seq := p.In(SourceID(100+ci), name, Offsets{current: int64(ci + 1)}, []byte(content+"\n"), false, nil)
			refused := seq == EventSeqIDError
			if !refused {
				accepted++
			}
			st.mu.Lock()
			st.xlExecuted++
			if c.Exempt {
				st.xlExempt++
			}
			if refused != (c.Mspam[0] == 1) {
				st.xlDrift++
			}
			st.mu.Unlock()
			if c.Exempt && refused {
				st.add(mk("exception_dropped", "admitted: an exception of the list matches its own subject", "In returned 0"))
			}
		}()
	}
	deadline := time.Now().Add(30 * time.Second)
	for out.count.Load() < accepted && time.Now().Before(deadline) {
		time.Sleep(time.Millisecond)
	}
	if out.count.Load() != accepted {
		st.add(&c20SizeViol{Kind: "not_delivered", Harness: "pipeline-xlist", Got: fmt.Sprintf("accepted %d, delivered %d", accepted, out.count.Load())})
	}
}

// ---------------------------------------------------------------- rule lists through In

type c20RlCase struct {
	G     int     `json:"g"`
	Rules [][]int `json:"rules"` // per rule: its condition matches the record, its threshold
	Gov   int     `json:"gov"`
	Mgov  int     `json:"mgov"`
}

func c20RunRlGroup(id int, cases []*c20RlCase, st *c20MiscStats) {
	c0 := cases[0]
	var rules antispam.Rules
	for i, r := range c0.Rules {
		chk, err := doif.NewFromMap(map[string]any{"op": "contains", "field": "event", "values": []any{fmt.Sprintf("<%d>", i+1)}})
		if err != nil {
			panic(err)
		}
		rules = append(rules, antispam.Rule{Name: fmt.Sprintf("c20r%d", i+1), Threshold: r[1], DoIfChecker: chk})
	}
	s := &Settings{Decoder: "raw", Antispam: AntispamSettings{Threshold: c0.G, MaintenanceInterval: time.Hour, Rules: rules}}
	p, _, out := c20NewPipeline(fmt.Sprintf("c20rl%d", id), s)
	p.Start()
	defer p.Stop()
	st.mu.Lock()
	st.pipelines++
	st.mu.Unlock()
	accepted := int64(0)
	for ci, c := range cases {
		func() {
			content := "ev"
			for i, r := range c.Rules {
				if r[0] == 1 {
					content += fmt.Sprintf(" <%d>", i+1)
				}
			}
			mk := func(kind, want, got string) *c20SizeViol {
				b, _ := json.Marshal(c)
				return &c20SizeViol{Kind: kind, Decoder: "raw", Why: "rule list " + string(b), Input: content, Want: want, Got: got,
					Harness: "pipeline-rlist", RawCase: c}
			}
			defer func() {
				if r := recover(); r != nil {
					v := mk("panic", "", "")
					v.Panic = fmt.Sprint(r)
					st.add(v)
				}
			}()
			for k := 1; k <= 4; k++ {
				seq := p.In(SourceID(100+ci), "c20src", Offsets{current: int64(k)}, []byte(content+"\n"), false, nil)
				refused := seq == EventSeqIDError
				if !refused {
					accepted++
				}
				st.mu.Lock()
				st.rlExecuted++
				if refused != (c.Mgov == 0 || (c.Mgov >= 1 && k >= c.Mgov)) {
					st.rlDrift++
				}
				st.mu.Unlock()
				if refused && (c.Gov == -1 || (c.Gov >= 1 && k < c.Gov)) {
					st.add(mk("spam_from_unbannable_source", fmt.Sprintf("record %d admitted: the first matching rule (else the global threshold) gives %d", k, c.Gov), "In returned 0"))
				}
			}
		}()
	}
	deadline := time.Now().Add(30 * time.Second)
	for out.count.Load() < accepted && time.Now().Before(deadline) {
		time.Sleep(time.Millisecond)
	}
	if out.count.Load() != accepted {
		st.add(&c20SizeViol{Kind: "not_delivered", Harness: "pipeline-rlist", Got: fmt.Sprintf("accepted %d, delivered %d", accepted, out.count.Load())})
	}
}

// ---------------------------------------------------------------- the antispam source key
//
// Two inputs interleaved on a running pipeline (threshold 2), source_name_meta_field unset / set, records with or
// without that meta key.  A record that is among the first threshold-1 charged to its counter (the meta value if
// the field is configured and present, else the input's source id) must be admitted -- in particular the first
// record of input B after input A reached the threshold.

const c20MetaKey = "c20_source"

type c20SkCase struct {
	Field bool    `json:"field"`
	Thr   int     `json:"thr"`
	Recs  [][]int `json:"recs"` // input (1, 2), meta (0 absent, 1, 2 = two values), count on its counter, must be admitted, count in the model
}

func c20RunSkGroup(id int, cases []*c20SkCase, st *c20MiscStats) {
	c0 := cases[0]
	s := &Settings{Decoder: "raw", Antispam: AntispamSettings{Threshold: c0.Thr, MaintenanceInterval: time.Hour}}
	if c0.Field {
		s.SourceNameMetaField = c20MetaKey
	}
	p, _, out := c20NewPipeline(fmt.Sprintf("c20sk%d", id), s)
	p.Start()
	defer p.Stop()
	st.mu.Lock()
	st.pipelines++
	st.mu.Unlock()
	accepted := int64(0)
	for ci, c := range cases {
		func() {
			mk := func(kind, want, got string, i int) *c20SizeViol {
				b, _ := json.Marshal(c)
				return &c20SizeViol{Kind: kind, Decoder: "raw", Why: fmt.Sprintf("source key, record %d of %s", i, b), Want: want, Got: got,
					Harness: "pipeline-skey", RawCase: c}
			}
			defer func() {
				if r := recover(); r != nil {
					v := mk("panic", "", "", -1)
					v.Panic = fmt.Sprint(r)
					st.add(v)
				}
			}()
			for i, r := range c.Recs {
				var meta map[string]string
				if r[1] != 0 {
					meta = map[string]string{c20MetaKey: fmt.Sprintf("svc-%d-%c", ci, 'w'+r[1])} // values private to the case
				}
				seq := p.In(SourceID(1000+ci*4+r[0]), fmt.Sprintf("input%d", r[0]), Offsets{current: int64(i + 1)}, []byte("some record\n"), false, meta)
				refused := seq == EventSeqIDError
				if !refused {
					accepted++
				}
				st.mu.Lock()
				st.skExecuted++
				if refused != (r[4] >= c.Thr) {
					st.skDrift++
				}
				st.mu.Unlock()
				if refused && r[3] == 1 {
					st.add(mk("ban_below_threshold", fmt.Sprintf("admitted: record %d on its counter, threshold %d", r[2], c.Thr), "In returned 0", i))
				}
			}
		}()
	}
	deadline := time.Now().Add(30 * time.Second)
	for out.count.Load() < accepted && time.Now().Before(deadline) {
		time.Sleep(time.Millisecond)
	}
	if out.count.Load() != accepted {
		st.add(&c20SizeViol{Kind: "not_delivered", Harness: "pipeline-skey", Got: fmt.Sprintf("accepted %d, delivered %d", accepted, out.count.Load())})
	}
}

// ---------------------------------------------------------------- the Offsets argument
//
// Saved per-stream offsets (built with the real NewOffsets / SliceFromMap, as the file input does) x decoder
// (raw, json without / with a stream field, cri) x antispam off / on.  The input's PassEvent answers like the file
// input's.  A record may be refused as "already committed" only if the saved offset of its OWN stream is not older
// than the record; otherwise it must be admitted and delivered.

type c20OfsCase struct {
	Dec       string `json:"dec"`
	Anti      bool   `json:"anti"`
	Cur       int64  `json:"cur"`
	NotSet    int64  `json:"notset"`
	Stderr    int64  `json:"stderr"`
	Stdout    int64  `json:"stdout"`
	MayRefuse bool   `json:"mayRefuse"`
	Mret      int    `json:"mret"`
}

func c20RunOfsGroup(id int, cases []*c20OfsCase, st *c20MiscStats) {
	c0 := cases[0]
	s := &Settings{Decoder: map[string]string{"raw": "raw", "json": "json", "json+stream": "json", "cri": "cri"}[c0.Dec],
		Antispam: AntispamSettings{Threshold: DefaultAntispamThreshold, MaintenanceInterval: time.Hour}}
	if c0.Anti {
		s.Antispam.Threshold = 1 << 30
	}
	p, in, out := c20NewPipeline(fmt.Sprintf("c20ofs%d", id), s)
	p.Start()
	defer p.Stop()
	st.mu.Lock()
	st.pipelines++
	st.mu.Unlock()
	line := map[string]string{
		"raw":         "plain record\n",
		"json":        `{"n":1}` + "\n",
		"json+stream": `{"stream":"stderr","n":1}` + "\n",
		"cri":         "2016-10-06T00:17:09.669794202Z stderr F hello\n",
	}[c0.Dec]
	accepted := int64(0)
	for _, c := range cases {
		func() {
			mk := func(kind, want, got string) *c20SizeViol {
				b, _ := json.Marshal(c)
				return &c20SizeViol{Kind: kind, Decoder: c.Dec, Why: "offsets " + string(b), Input: line, Want: want, Got: got,
					Harness: "pipeline-offsets", RawCase: c}
			}
			defer func() {
				if r := recover(); r != nil {
					v := mk("panic", "", "")
					v.Panic = fmt.Sprint(r)
					st.add(v)
				}
			}()
			saved := map[StreamName]int64{}
			for name, v := range map[StreamName]int64{"not_set": c.NotSet, "stderr": c.Stderr, "stdout": c.Stdout} {
				if v >= 0 {
					saved[name] = v
				}
			}
			in.saved.Store(saved)
			seq := p.In(SourceID(5), "c20ofs", NewOffsets(c.Cur, SliceFromMap(saved)), []byte(line), false, nil)
			refused := seq == EventSeqIDError
			if !refused {
				accepted++
			}
			st.mu.Lock()
			st.ofsExecuted++
			if !c.MayRefuse {
				st.ofsMustAdmit++
			}
			if refused != (c.Mret == 0) {
				st.ofsDrift++
				if len(st.driftSample) < 5 {
					b, _ := json.Marshal(c)
					st.driftSample = append(st.driftSample, fmt.Sprintf("offsets: In refused=%v, model ret=%d; case %s", refused, c.Mret, b))
				}
			}
			st.mu.Unlock()
			if refused && !c.MayRefuse {
				st.add(mk("refused_without_reason", "admitted: the saved offset of the record's own stream does not cover it", "In returned 0"))
			}
		}()
	}
	deadline := time.Now().Add(30 * time.Second)
	for out.count.Load() < accepted && time.Now().Before(deadline) {
		time.Sleep(time.Millisecond)
	}
	if out.count.Load() != accepted {
		st.add(&c20SizeViol{Kind: "not_delivered", Harness: "pipeline-offsets", Got: fmt.Sprintf("accepted %d, delivered %d", accepted, out.count.Load())})
	}
}

// ---------------------------------------------------------------- record sequences through one pooled event
//
// Pipelines with capacity 1 (every record reuses the same pooled event), cut-off with a mark field, one per real
// decoder.  What is delivered for a record must be a function of that record and the settings alone: it equals what a
// FRESH pipeline delivers for the same record, and a record within the limit never carries the mark.

type c20SeqCase struct {
	Dec   string `json:"dec"` // class: json, raw, cri, adding
	Overs []bool `json:"overs"`
}

var c20SeqDecoders = map[string][]string{"json": {"json"}, "raw": {"raw"}, "cri": {"cri"},
	"adding": {"nginx_error", "syslog_rfc3164", "csv", "postgres"}}

const c20SeqLimit = 150

func c20SeqRecord(dec string, over bool, variant int) string {
	tail := fmt.Sprintf("short message %d", variant)
	if over {
		tail = fmt.Sprintf("long message %d ", variant) + strings.Repeat("x", 300)
	}
	switch dec {
	case "json":
		return fmt.Sprintf(`{"v%d":"%s"}`, variant, tail) + "\n"
	case "cri":
		return "2016-10-06T00:17:09.669794202Z stdout F " + tail + "\n"
	case "nginx_error":
		return "2022/08/17 10:49:27 [error] 2725122#2725122: *792412315 " + tail + "\n"
	case "syslog_rfc3164":
		return "<34>Oct 11 22:14:15 mymachine.example.com myproc[10]: " + tail + "\n"
	case "csv":
		if over {
			return "a,b," + tail + "\n"
		}
		return fmt.Sprintf("a%d,%s\n", variant, tail) // one column fewer than the long record
	case "postgres":
		return "2021-06-22 16:24:27 GMT [7291] => [3-1] client=test_client,db=test_db,user=test_user LOG:  " + tail + "\n"
	}
	return tail + "\n"
}

func c20SeqPipeline(name, dec string) (*Pipeline, *c20Output) {
	s := &Settings{Decoder: dec, MaxEventSize: c20SeqLimit, CutOffEventByLimit: true, CutOffEventByLimitField: c20MarkField,
		Antispam: AntispamSettings{Threshold: DefaultAntispamThreshold, MaintenanceInterval: time.Hour}}
	p, _, out := c20NewPipeline(name, s)
	p.settings.Capacity = 1
	p.eventPool = newEventPool(1, 256)
	out.record = true
	p.Start()
	return p, out
}

// deliver one record; "" = refused
func c20SeqSend(p *Pipeline, out *c20Output, rec string, off int64) (string, bool, error) {
	seq := p.In(SourceID(3), "c20seq", Offsets{current: off}, []byte(rec), false, nil)
	if seq == EventSeqIDError {
		return "", false, nil
	}
	select {
	case d := <-out.ch:
		return d.doc, d.hasMark, nil
	case <-time.After(30 * time.Second):
		return "", false, errors.New("nothing delivered after 30s")
	}
}

func c20RunSeq(id int, c *c20SeqCase, st *c20MiscStats) {
	for di, dec := range c20SeqDecoders[c.Dec] {
		func() {
			mk := func(kind, input, want, got string) *c20SizeViol {
				b, _ := json.Marshal(c)
				return &c20SizeViol{Kind: kind, Decoder: dec, Why: "record sequence " + string(b), Input: input, Want: want, Got: got,
					Harness: "pipeline-seq", RawCase: c}
			}
			defer func() {
				if r := recover(); r != nil {
					v := mk("panic", "", "", "")
					v.Panic = fmt.Sprint(r)
					st.add(v)
				}
			}()
			p, out := c20SeqPipeline(fmt.Sprintf("c20seq%d_%d", id, di), dec)
			defer p.Stop()
			st.mu.Lock()
			st.pipelines++
			st.mu.Unlock()
			for i, over := range c.Overs {
				rec := c20SeqRecord(dec, over, i+1)
				// reference: the same record as the only record of a fresh pipeline
				rp, rout := c20SeqPipeline(fmt.Sprintf("c20seqref%d_%d_%d", id, di, i), dec)
				wantDoc, _, rerr := c20SeqSend(rp, rout, rec, 1)
				rp.Stop()
				gotDoc, hasMark, err := c20SeqSend(p, out, rec, int64(i+1))
				st.mu.Lock()
				st.seqExecuted++
				st.mu.Unlock()
				if err != nil || rerr != nil {
					st.add(mk("not_delivered", rec, "event at the output", fmt.Sprint(err, rerr)))
					return
				}
				if gotDoc != wantDoc {
					st.add(mk("bytes_differ", rec, wantDoc, gotDoc))
				}
				if gotDoc != "" && hasMark != over {
					st.add(mk("mark_differ", rec, fmt.Sprint(over), fmt.Sprint(hasMark)))
				}
				if gotDoc != "" {
					st.mu.Lock()
					st.seqDelivered++
					st.mu.Unlock()
				}
			}
		}()
	}
}

// ---------------------------------------------------------------- driver

func TestVerifC20(t *testing.T) {
	in := os.Getenv("VERIF_CASES")
	outPath := os.Getenv("VERIF_OUT")
	if in == "" || outPath == "" {
		t.Skip("VERIF_CASES / VERIF_OUT not set")
	}
	f, err := os.Open(in)
	if err != nil {
		t.Fatal(err)
	}
	defer f.Close()
	sizeGroups := map[c20SizeCfg][]*c20SizeCase{}
	var sizeOrder []c20SizeCfg
	histGroups := map[string][]*c20HistCase{}
	var histOrder []string
	schedGroups := map[string][]*c20HistCase{}
	var schedOrder []string
	criGroups := map[string][]*c20CriCase{}
	xlGroups := map[string][]*c20XlCase{}
	var xlOrder []string
	rlGroups := map[string][]*c20RlCase{}
	var rlOrder []string
	skGroups := map[bool][]*c20SkCase{}
	var seqCases []*c20SeqCase
	ofsGroups := map[string][]*c20OfsCase{}
	var ofsOrder []string
	sc := bufio.NewScanner(f)
	sc.Buffer(make([]byte, 1<<20), 1<<24)
	for sc.Scan() {
		var head struct {
			Part string `json:"part"`
		}
		if err := json.Unmarshal(sc.Bytes(), &head); err != nil {
			t.Fatalf("bad case line: %v", err)
		}
		if head.Part == "cri" {
			c := &c20CriCase{}
			if err := json.Unmarshal(sc.Bytes(), c); err != nil {
				t.Fatalf("bad cri case: %v", err)
			}
			criGroups[c.Anti] = append(criGroups[c.Anti], c)
		} else if head.Part == "rlist" {
			c := &c20RlCase{}
			if err := json.Unmarshal(sc.Bytes(), c); err != nil {
				t.Fatalf("bad rule-list case: %v", err)
			}
			k := fmt.Sprint(c.G)
			for _, r := range c.Rules {
				k += fmt.Sprint("/", r[1])
			}
			if _, ok := rlGroups[k]; !ok {
				rlOrder = append(rlOrder, k)
			}
			rlGroups[k] = append(rlGroups[k], c)
		} else if head.Part == "seq" {
			c := &c20SeqCase{}
			if err := json.Unmarshal(sc.Bytes(), c); err != nil {
				t.Fatalf("bad sequence case: %v", err)
			}
			seqCases = append(seqCases, c)
		} else if head.Part == "offs" {
			c := &c20OfsCase{}
			if err := json.Unmarshal(sc.Bytes(), c); err != nil {
				t.Fatalf("bad offsets case: %v", err)
			}
			k := fmt.Sprint(c.Dec, "/", c.Anti)
			if _, ok := ofsGroups[k]; !ok {
				ofsOrder = append(ofsOrder, k)
			}
			ofsGroups[k] = append(ofsGroups[k], c)
		} else if head.Part == "skey" {
			c := &c20SkCase{}
			if err := json.Unmarshal(sc.Bytes(), c); err != nil {
				t.Fatalf("bad source-key case: %v", err)
			}
			skGroups[c.Field] = append(skGroups[c.Field], c)
		} else if head.Part == "xlist" {
			c := &c20XlCase{}
			if err := json.Unmarshal(sc.Bytes(), c); err != nil {
				t.Fatalf("bad exception-list case: %v", err)
			}
			k := fmt.Sprint(c.G, "/", c.Rules, "/")
			for _, e := range c.Excs {
				k += fmt.Sprint(e[0])
			}
			if _, ok := xlGroups[k]; !ok {
				xlOrder = append(xlOrder, k)
			}
			xlGroups[k] = append(xlGroups[k], c)
		} else if head.Part == "size" {
			c := &c20SizeCase{}
			if err := json.Unmarshal(sc.Bytes(), c); err != nil {
				t.Fatalf("bad size case: %v", err)
			}
			for _, dec := range []string{"raw", "json", "probe"} {
				if c.Undec && dec != "probe" {
					continue // only the probe decoder can be told to fail; raw never fails, json is observed
				}
				for _, anti := range []bool{false, true} {
					g := c20SizeCfg{dec: dec, m: c.M, cut: c.Cut, mark: c.Mark, anti: anti}
					if _, ok := sizeGroups[g]; !ok {
						sizeOrder = append(sizeOrder, g)
					}
					sizeGroups[g] = append(sizeGroups[g], c)
				}
			}
		} else {
			c := &c20HistCase{}
			if err := json.Unmarshal(sc.Bytes(), c); err != nil {
				t.Fatalf("bad history case: %v", err)
			}
			k := fmt.Sprintf("%d/%d/%s", c.T, c.T2, c.Mode)
			if head.Part == "sched" {
				if _, ok := schedGroups[k]; !ok {
					schedOrder = append(schedOrder, k)
				}
				schedGroups[k] = append(schedGroups[k], c)
				continue
			}
			if _, ok := histGroups[k]; !ok {
				histOrder = append(histOrder, k)
			}
			histGroups[k] = append(histGroups[k], c)
		}
	}
	sst := &c20SizeStats{}
	hst := &c20HistStats{viols: map[string][]*c20HistViol{}, counts: map[string]int{}}
	sem := make(chan struct{}, 8)
	var wg sync.WaitGroup
	id := 0
	// the timed family first, each configuration on its own running pipeline (they mostly sleep)
	cst := &c20SchedStats{viols: map[string][]*c20HistViol{}, counts: map[string]int{}}
	for _, k := range schedOrder {
		id++
		wg.Add(1)
		go func(id int, cs []*c20HistCase) {
			defer wg.Done()
			c20RunSchedGroup(id, cs, cst)
		}(id, schedGroups[k])
	}
	mst := &c20MiscStats{}
	for _, anti := range []string{"disabled", "zero+rule", "large"} {
		for _, dec := range []string{"cri", "auto"} {
			if len(criGroups[anti]) == 0 {
				continue
			}
			id++
			wg.Add(1)
			sem <- struct{}{}
			go func(id int, dec, anti string) {
				defer wg.Done()
				defer func() { <-sem }()
				c20RunCriGroup(id, dec, anti, criGroups[anti], mst)
			}(id, dec, anti)
		}
	}
	for _, c := range seqCases {
		id++
		wg.Add(1)
		sem <- struct{}{}
		go func(id int, c *c20SeqCase) {
			defer wg.Done()
			defer func() { <-sem }()
			c20RunSeq(id, c, mst)
		}(id, c)
	}
	for _, k := range ofsOrder {
		id++
		wg.Add(1)
		sem <- struct{}{}
		go func(id int, cs []*c20OfsCase) {
			defer wg.Done()
			defer func() { <-sem }()
			c20RunOfsGroup(id, cs, mst)
		}(id, ofsGroups[k])
	}
	for _, k := range rlOrder {
		id++
		wg.Add(1)
		sem <- struct{}{}
		go func(id int, cs []*c20RlCase) {
			defer wg.Done()
			defer func() { <-sem }()
			c20RunRlGroup(id, cs, mst)
		}(id, rlGroups[k])
	}
	for _, f := range []bool{false, true} {
		if len(skGroups[f]) == 0 {
			continue
		}
		id++
		wg.Add(1)
		sem <- struct{}{}
		go func(id int, cs []*c20SkCase) {
			defer wg.Done()
			defer func() { <-sem }()
			c20RunSkGroup(id, cs, mst)
		}(id, skGroups[f])
	}
	for _, k := range xlOrder {
		id++
		wg.Add(1)
		sem <- struct{}{}
		go func(id int, cs []*c20XlCase) {
			defer wg.Done()
			defer func() { <-sem }()
			c20RunXlGroup(id, cs, mst)
		}(id, xlGroups[k])
	}
	for _, g := range sizeOrder {
		id++
		wg.Add(1)
		sem <- struct{}{}
		go func(id int, g c20SizeCfg) {
			defer wg.Done()
			defer func() { <-sem }()
			c20RunSizeGroup(id, g, sizeGroups[g], sst)
		}(id, g)
	}
	for _, k := range histOrder {
		// split large groups so that several pipelines work in parallel
		cs := histGroups[k]
		const chunk = 4000
		for a := 0; a < len(cs); a += chunk {
			b := a + chunk
			if b > len(cs) {
				b = len(cs)
			}
			id++
			wg.Add(1)
			sem <- struct{}{}
			go func(id int, part []*c20HistCase) {
				defer wg.Done()
				defer func() { <-sem }()
				c20RunHistGroup(id, part, hst)
			}(id, cs[a:b])
		}
	}
	wg.Wait()
	var hv []*c20HistViol
	for _, vs := range hst.viols {
		hv = append(hv, vs...)
	}
	var cv []*c20HistViol
	for _, vs := range cst.viols {
		cv = append(cv, vs...)
	}
	res := map[string]interface{}{
		"misc": map[string]interface{}{"cri_executed": mst.criExecuted, "cri_delivered": mst.criDelivered, "xlist_executed": mst.xlExecuted,
			"xlist_exempt": mst.xlExempt, "xlist_drift": mst.xlDrift, "rlist_in_calls": mst.rlExecuted, "rlist_drift": mst.rlDrift,
			"skey_in_calls": mst.skExecuted, "skey_drift": mst.skDrift,
			"seq_records": mst.seqExecuted, "seq_delivered": mst.seqDelivered, "offsets_in_calls": mst.ofsExecuted, "offsets_must_admit": mst.ofsMustAdmit, "offsets_drift": mst.ofsDrift, "drift_samples": mst.driftSample, "pipelines": mst.pipelines, "violations": mst.viols},
		"sched": map[string]interface{}{"executed": cst.executed, "steps": cst.steps, "pipelines": cst.groups, "banned_in_first_burst": cst.sawBan,
			"banned_then_admitted": cst.bannedThenAdmit, "interval_ms": c20SchedInterval.Milliseconds(), "violations": cv, "violation_counts": cst.counts},
		"size": map[string]interface{}{"executed": sst.executed, "delivered": sst.delivered, "refused": sst.refused,
			"cut_delivered": sst.cutDelivered, "kept_at_limit": sst.keptBoundary, "pipelines": len(sizeOrder), "violations": sst.viols},
		"hist": map[string]interface{}{"executed": hst.executed, "steps": hst.steps, "spam": hst.spam, "accepted": hst.accepted,
			"determined": hst.det, "drift": hst.drift, "drift_samples": hst.driftSample, "violations": hv, "violation_counts": hst.counts},
	}
	b, _ := json.Marshal(res)
	if err := os.WriteFile(outPath, b, 0o644); err != nil {
		t.Fatal(err)
	}
}
