package pipeline

// C14 replay harness, pipeline half (mapped into /repo/pipeline by `go test -overlay`; /repo is not
// modified).  In-package, so that the real processor.doActions / processor.isMatch can be called.
//
// Rules arrive as action configuration JSON (see the fd half).  do_if rules are built exactly as
// fd.extractDoIfChecker does (simplejson -> MustMap -> doif.NewFromMap); match_fields rules use the
// MatchConditions / MatchMode / MatchInvert that the REAL fd.extractConditions / extractMatchMode /
// extractMatchInvert produced for the same JSON (written out by the fd half; package pipeline cannot
// import fd).  Up to c14Chunk rules are registered as recording actions of one real processor
// (newProcessor + AddActionPlugin):
//   order 1: every event is pushed through processor.doActions; "Do invoked" is the observed decision;
//   order 2: processor.isMatch(rule, event) is called directly, events in a seeded permutation;
//   order 3: the chain ends with a harness-owned HOLDING action (ActionHold / ActionCollapse, like join):
//            a run is opened, so that the processor has a busy action, and then every event (and a
//            time-out event, which is not judged) goes through processor.doActions again: "Do invoked"
//            of the recording actions must still be the decision for (rule, event) alone;
//   order 4: every event once more as a CHILD event, created by the real processor.Spawn (SetChildKind,
//            chain entered at the action after the spawning one): time-out is the only kind that is
//            exempt from the selector.

import (
	"bufio"
	"encoding/json"
	"fmt"
	"math/rand"
	"os"
	"regexp"
	"testing"

	"github.com/bitly/go-simplejson"
	"github.com/ozontech/file.d/pipeline/doif"
	insaneJSON "github.com/ozontech/insane-json"
	"go.uber.org/atomic"
)

const c14Chunk = 256

type c14Rule struct {
	ID   int    `json:"id"`
	Kind string `json:"kind"`
	Set  string `json:"set"`
	Cfg  string `json:"cfg"`
}

type c14Cases struct {
	Seed   int64               `json:"seed"`
	Events map[string][]string `json:"events"`
	// sets whose events are decoded from their JSON text again before every evaluation series (string nodes
	// start escaped; field ops unescape them in place); their rules get a processor of their own
	Fresh []string `json:"fresh"`
}

type c14Cond struct {
	Field  []string `json:"field"`
	Values []string `json:"values"`
	Regexp *string  `json:"regexp"`
}

type c14Extract struct {
	ID     int       `json:"id"`
	Kind   string    `json:"kind"`
	Err    string    `json:"err"`
	Mode   int       `json:"mode"`
	Invert bool      `json:"invert"`
	Conds  []c14Cond `json:"conds"`
}

type c14Out struct {
	ID  int    `json:"id"`
	Err string `json:"err,omitempty"`
	R1  string `json:"r1,omitempty"`
	R2  string `json:"r2,omitempty"`
	R3  string `json:"r3,omitempty"` // Do invoked while another action of the processor is busy
	R4  string `json:"r4,omitempty"` // Do invoked for the event as a child event (processor.Spawn)
}

// recording action: notes for which event its Do was invoked (slot len(events) = "not judged")
type c14Rec struct {
	hits  [3][]bool // [0] order 1, [1] order 3, [2] order 4
	cur   *int
	phase *int
}

func (a *c14Rec) Start(AnyConfig, *ActionPluginParams) {}
func (a *c14Rec) Stop()                                {}
func (a *c14Rec) Do(*Event) ActionResult {
	a.hits[*a.phase][*a.cur] = true
	return ActionPass
}

// holding action (no selector): what join / join_template / k8s multi-line do to the processor
type c14Holder struct {
	mode *int   // 0 pass, 1 hold, 2 collapse, 3 discard and tell the harness that one event went through the chain
	next func() // mode 3
}

func (a *c14Holder) Start(AnyConfig, *ActionPluginParams) {}
func (a *c14Holder) Stop()                                {}
func (a *c14Holder) Do(*Event) ActionResult {
	switch *a.mode {
	case 1:
		return ActionHold
	case 2:
		return ActionCollapse
	case 3:
		a.next()
		return ActionDiscard
	}
	return ActionPass
}

func c14Bits(b []bool) string {
	s := make([]byte, len(b))
	for i, x := range b {
		s[i] = '0'
		if x {
			s[i] = '1'
		}
	}
	return string(s)
}

func c14Build(r *c14Rule, ext map[int]*c14Extract) (info *ActionPluginStaticInfo, err error) {
	defer func() {
		if p := recover(); p != nil {
			info, err = nil, fmt.Errorf("panic: %v", p)
		}
	}()
	info = &ActionPluginStaticInfo{PluginStaticInfo: &PluginStaticInfo{Type: "verif_c14"}}
	switch r.Kind {
	case "doif":
		j, err := simplejson.NewJson([]byte(r.Cfg))
		if err != nil {
			return nil, fmt.Errorf("harness: bad cfg json: %w", err)
		}
		m := j.Get("do_if").MustMap()
		if m == nil {
			return nil, fmt.Errorf("harness: no do_if map")
		}
		chk, err := doif.NewFromMap(m)
		if err != nil {
			return nil, fmt.Errorf("ctor: %w", err)
		}
		info.DoIfChecker = chk
		if e := ext[r.ID]; e != nil { // match_mode / match_invert of the action, as fd extracted them
			info.MatchMode, info.MatchInvert = MatchMode(e.Mode), e.Invert
		}
	case "mf":
		e := ext[r.ID]
		if e == nil {
			return nil, fmt.Errorf("harness: no extraction for rule %d", r.ID)
		}
		if e.Err != "" {
			return nil, fmt.Errorf("%s", e.Err)
		}
		info.MatchMode = MatchMode(e.Mode)
		info.MatchInvert = e.Invert
		info.MatchConditions = make(MatchConditions, 0, len(e.Conds))
		for _, c := range e.Conds {
			mc := MatchCondition{Field: c.Field, Values: c.Values}
			if c.Regexp != nil {
				mc.Regexp = regexp.MustCompile(*c.Regexp)
			}
			info.MatchConditions = append(info.MatchConditions, mc)
		}
	default:
		return nil, fmt.Errorf("harness: unknown kind %q", r.Kind)
	}
	return info, nil
}

func c14RunChunk(rules []*c14Rule, ext map[int]*c14Extract, roots []*insaneJSON.Root, evs []string, fresh bool, rng *rand.Rand, emit func(*c14Out)) {
	redecode := func() {
		if !fresh {
			return
		}
		for i, e := range evs {
			if err := roots[i].DecodeString(e); err != nil {
				panic("harness: " + err.Error())
			}
		}
	}
	p := newProcessor(0, nil, atomic.NewInt32(0), nil, nil, func(*Event, bool, bool) {}, func(...string) {}, func() {})
	cur, phase, mode := 0, 0, 0
	n := len(roots)
	var live []*c14Rule
	var recs []*c14Rec
	for _, r := range rules {
		info, err := c14Build(r, ext)
		if err != nil {
			emit(&c14Out{ID: r.ID, Err: err.Error()})
			continue
		}
		rec := &c14Rec{cur: &cur, phase: &phase}
		rec.hits[0], rec.hits[1], rec.hits[2] = make([]bool, n+1), make([]bool, n+1), make([]bool, n+1)
		p.AddActionPlugin(&ActionPluginInfo{
			ActionPluginStaticInfo: info,
			PluginRuntimeInfo:      &PluginRuntimeInfo{Plugin: rec, ID: "verif_c14"},
		})
		live = append(live, r)
		recs = append(recs, rec)
	}
	if len(live) == 0 {
		return
	}
	// last in the chain: the holding action, selector-less as a plain join would be
	holderIdx := len(live)
	holder := &c14Holder{mode: &mode}
	p.AddActionPlugin(&ActionPluginInfo{
		ActionPluginStaticInfo: &ActionPluginStaticInfo{PluginStaticInfo: &PluginStaticInfo{Type: "verif_c14_hold"}},
		PluginRuntimeInfo:      &PluginRuntimeInfo{Plugin: holder, ID: "verif_c14_hold"},
	})
	events := make([]*Event, len(roots))
	for i, root := range roots {
		events[i] = &Event{Root: root}
	}
	// order 1: the whole action chain, event by event
	chainErr := ""
	func() {
		defer func() {
			if pv := recover(); pv != nil {
				chainErr = fmt.Sprintf("panic in doActions at event %d: %v", cur, pv)
			}
		}()
		redecode()
		for i, ev := range events {
			cur = i
			ev.action = 0
			passed, last := p.doActions(ev)
			if !passed || last != holderIdx {
				panic(fmt.Sprintf("harness: doActions returned (%v, %d)", passed, last))
			}
		}
	}()
	// order 3: the same chain while the holding action is busy
	if chainErr == "" {
		func() {
			defer func() {
				if pv := recover(); pv != nil {
					chainErr = fmt.Sprintf("panic in doActions (busy chain) at event %d: %v", cur, pv)
				}
			}()
			phase = 1
			redecode()
			perm3 := rng.Perm(n)
			send := func(ev *Event, slot, m int) {
				cur, mode = slot, m
				ev.action = 0
				passed, last := p.doActions(ev)
				if want := m == 0; passed != want || last != holderIdx {
					panic(fmt.Sprintf("harness: busy chain: doActions returned (%v, %d) in mode %d", passed, last, m))
				}
			}
			send(events[perm3[0]], n, 1) // opens the run; this evaluation (nothing busy yet) is not recorded
			if p.busyActionsTotal != 1 || !p.busyActions[holderIdx] {
				panic("harness: the holding action did not become busy")
			}
			for j, i := range perm3 {
				if j == n/2 { // a time-out event: selectors are not judged for it, and it must not disturb what follows
					tev := &Event{}
					tev.SetTimeoutKind()
					send(tev, n, 2)
				}
				send(events[i], i, 1+j%2)
				if p.busyActionsTotal != 1 {
					panic("harness: the holding action is no longer busy")
				}
			}
			send(events[perm3[0]], n, 0) // closes the run
			if p.busyActionsTotal != 0 {
				panic("harness: busy actions left after the run was closed")
			}
			phase = 0
		}()
	}
	// order 4: child events through the real processor.Spawn; the last action discards them (no router here)
	if chainErr == "" {
		func() {
			defer func() {
				if pv := recover(); pv != nil {
					chainErr = fmt.Sprintf("panic in Spawn/doActions (child events) at event %d: %v", cur, pv)
				}
			}()
			perm4 := rng.Perm(n)
			// Spawn re-parents the nodes it is given: use private copies of the events
			nodes := make([]*insaneJSON.Node, n)
			for j, i := range perm4 {
				own := insaneJSON.Spawn()
				defer insaneJSON.Release(own)
				if err := own.DecodeString(evs[i]); err != nil {
					panic("harness: " + err.Error())
				}
				nodes[j] = own.Node
			}
			pos := 0
			holder.next = func() {
				pos++
				if pos < n {
					cur = perm4[pos]
				} else {
					cur = n
				}
			}
			phase, mode, cur = 2, 3, perm4[0]
			parent := &Event{Root: insaneJSON.Spawn()}
			parent.action = -1 // as if the spawning action stood in front of the chain
			p.Spawn(parent, nodes)
			if pos != n {
				panic(fmt.Sprintf("harness: %d of %d child events went through the chain", pos, n))
			}
			phase, mode = 0, 0
		}()
	}
	// order 2: isMatch directly, rule by rule, events permuted
	perm := make([]int, len(roots))
	for i := range perm {
		perm[i] = i
	}
	for k, r := range live {
		out := &c14Out{ID: r.ID, Err: chainErr}
		r2 := make([]bool, len(roots))
		rng.Shuffle(len(perm), func(a, b int) { perm[a], perm[b] = perm[b], perm[a] })
		func() {
			defer func() {
				if pv := recover(); pv != nil {
					out.Err = fmt.Sprintf("panic in isMatch: %v", pv)
				}
			}()
			redecode()
			for _, i := range perm {
				r2[i] = p.isMatch(k, events[i])
			}
		}()
		if out.Err == "" {
			out.R1, out.R2, out.R3 = c14Bits(recs[k].hits[0][:n]), c14Bits(r2), c14Bits(recs[k].hits[1][:n])
			out.R4 = c14Bits(recs[k].hits[2][:n])
		}
		emit(out)
	}
}

func TestVerifC14(t *testing.T) {
	evPath, rulesPath, extPath, outPath := os.Getenv("VERIF_C14_EVENTS"), os.Getenv("VERIF_C14_RULES"),
		os.Getenv("VERIF_C14_EXTRACT"), os.Getenv("VERIF_OUT")
	if evPath == "" || rulesPath == "" || extPath == "" || outPath == "" {
		t.Skip("VERIF_C14_EVENTS / VERIF_C14_RULES / VERIF_C14_EXTRACT / VERIF_OUT not set")
	}
	raw, err := os.ReadFile(evPath)
	if err != nil {
		t.Fatal(err)
	}
	var cs c14Cases
	if err := json.Unmarshal(raw, &cs); err != nil {
		t.Fatal(err)
	}
	roots := map[string][]*insaneJSON.Root{}
	for k, evs := range cs.Events {
		rs := make([]*insaneJSON.Root, len(evs))
		for i, e := range evs {
			rs[i] = insaneJSON.Spawn()
			if err := rs[i].DecodeString(e); err != nil {
				t.Fatalf("event %q: %v", e, err)
			}
		}
		roots[k] = rs
	}
	// what the real fd extraction produced for the match_fields rules
	ext := map[int]*c14Extract{}
	ef, err := os.Open(extPath)
	if err != nil {
		t.Fatal(err)
	}
	esc := bufio.NewScanner(ef)
	esc.Buffer(make([]byte, 1<<20), 1<<24)
	for esc.Scan() {
		e := &c14Extract{}
		if err := json.Unmarshal(esc.Bytes(), e); err != nil {
			t.Fatalf("bad extract line: %v", err)
		}
		ext[e.ID] = e
	}
	ef.Close()

	f, err := os.Open(rulesPath)
	if err != nil {
		t.Fatal(err)
	}
	defer f.Close()
	of, err := os.Create(outPath + ".tmp")
	if err != nil {
		t.Fatal(err)
	}
	w := bufio.NewWriterSize(of, 1<<20)
	enc := json.NewEncoder(w)
	n := 0
	emit := func(o *c14Out) {
		if err := enc.Encode(o); err != nil {
			t.Fatal(err)
		}
		n++
	}
	rng := rand.New(rand.NewSource(cs.Seed + 1))
	sc := bufio.NewScanner(f)
	sc.Buffer(make([]byte, 1<<20), 1<<24)
	isFresh := map[string]bool{}
	for _, k := range cs.Fresh {
		isFresh[k] = true
	}
	var chunk []*c14Rule
	flush := func() {
		if len(chunk) > 0 {
			c14RunChunk(chunk, ext, roots[chunk[0].Set], cs.Events[chunk[0].Set], isFresh[chunk[0].Set], rng, emit)
			chunk = chunk[:0]
		}
	}
	for sc.Scan() {
		r := &c14Rule{}
		if err := json.Unmarshal(sc.Bytes(), r); err != nil {
			t.Fatalf("bad rule line: %v", err)
		}
		if _, ok := roots[r.Set]; !ok {
			t.Fatalf("unknown event set %q", r.Set)
		}
		if len(chunk) > 0 && (chunk[0].Set != r.Set || len(chunk) >= c14Chunk || isFresh[chunk[0].Set]) {
			flush()
		}
		chunk = append(chunk, r)
	}
	if err := sc.Err(); err != nil {
		t.Fatal(err)
	}
	flush()
	if err := w.Flush(); err != nil {
		t.Fatal(err)
	}
	of.Close()
	if err := os.Rename(outPath+".tmp", outPath); err != nil {
		t.Fatal(err)
	}
	t.Logf("c14/pipeline: %d rules", n)
}
