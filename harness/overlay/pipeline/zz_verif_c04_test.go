package pipeline

// C04 harness, pool part (mapped into /repo/pipeline by `go test -overlay`).
// Replays on the REAL event pools the window that TLC constructs from specs/EventPoolLowMem.tla /
// specs/EventPoolStd.tla (trap property NeverLostWakeup): a getter has found the pool full and is about to
// call Cond.Wait when the holder returns its event (Dec + Broadcast without the lock) -- the broadcast is lost.
// The property demands that the getter still resumes within a bounded time once capacity is free; the rescue
// is the pool's heartbeat (interval shortened through the in-package field).  Uses the `verif` hook points
// "lowmem.beforeWait" / "std.beforeWait" as a scheduler gate.

import (
	"encoding/json"
	"os"
	"sync"
	"testing"
	"time"
)

type c04Result struct {
	Scenario  string  `json:"scenario"`
	Pool      string  `json:"pool"`
	Trial     int     `json:"trial"`
	Resumed   bool    `json:"resumed"`
	WaitedMs  float64 `json:"waited_ms"`
	BoundMs   float64 `json:"bound_ms"`
	GateSeen  bool    `json:"gate_seen"`
	InUse     int64   `json:"inuse"`
	Waiters   int64   `json:"waiters"`
	Heartbeat float64 `json:"heartbeat_ms"`
}

func c04NewPool(kind string, capacity int, interval time.Duration) pool {
	if kind == "std" {
		p := newEventPool(capacity, 128)
		p.wakeupInterval = interval
		return p
	}
	p := newLowMemoryEventPool(capacity)
	p.wakeupInterval = interval
	return p
}

// schedule (from the TLC trap counterexample): get(g2) granted ; g1: Inc>cap, Dec, waiters++, Lock,
// checked_unavailable  |  g2: back_dec, back_broadcast  |  g1: wait_registered ... must still be granted.
func c04LostWakeup(kind string, trial int, warm bool) c04Result {
	interval := 30 * time.Millisecond
	bound := 3 * time.Second // >= 10x the heartbeat interval, >= 2 s
	res := c04Result{Scenario: "lost_wakeup_window", Pool: kind, Trial: trial, BoundMs: float64(bound.Milliseconds()), Heartbeat: 30}
	p := c04NewPool(kind, 1, interval)
	defer p.stop()
	if warm {
		// an earlier life of the pool: it was exhausted once (the slow path and with it the heartbeat were started), drained, and
		// then sat idle for several heartbeat periods with nobody waiting.  The window below must be rescued all the same.
		res.Scenario = "lost_wakeup_window_after_idle_period"
		h := p.get(10)
		done := make(chan struct{})
		go func() { e := p.get(10); p.back(e); close(done) }()
		for i := 0; i < 20000 && p.waiters() == 0; i++ {
			time.Sleep(100 * time.Microsecond)
		}
		time.Sleep(2 * interval)
		p.back(h)
		select {
		case <-done:
		case <-time.After(bound):
			res.Resumed = false
			return res
		}
		time.Sleep(6 * interval)
	}
	arrived := make(chan struct{}, 1)
	release := make(chan struct{})
	var once sync.Once
	point := "lowmem.beforeWait"
	if kind == "std" {
		point = "std.beforeWait"
	}
	verifHook = func(pt string) {
		if pt != point {
			return
		}
		first := false
		once.Do(func() { first = true })
		if first {
			arrived <- struct{}{}
			<-release
		}
	}
	defer func() { verifHook = nil }()
	held := p.get(10)
	got := make(chan struct{})
	go func() {
		e := p.get(10)
		close(got)
		p.back(e)
	}()
	select {
	case <-arrived:
		res.GateSeen = true
	case <-time.After(2 * time.Second):
		// the getter did not reach the window (different code path): nothing to decide
		p.back(held)
		<-got
		res.Resumed = true
		return res
	}
	p.back(held) // Dec + Broadcast while the getter is between its check and Wait(): the broadcast is lost
	start := time.Now()
	close(release) // the getter now registers on the notify list and sleeps
	select {
	case <-got:
		res.Resumed = true
	case <-time.After(bound):
		res.Resumed = false
		res.InUse, res.Waiters = p.inUse(), p.waiters()
	}
	res.WaitedMs = float64(time.Since(start).Microseconds()) / 1000
	if !res.Resumed {
		// do not leak the sleeping goroutine: wake it by hand
		switch x := p.(type) {
		case *lowMemoryEventPool:
			x.getCond.Broadcast()
		case *eventPool:
			x.getCond.Broadcast()
		}
		<-got
	}
	return res
}

// ordinary blocking: the getter is asleep on the condition when the holder returns
func c04PlainBlock(kind string, trial int) c04Result {
	bound := 3 * time.Second
	res := c04Result{Scenario: "blocked_then_freed", Pool: kind, Trial: trial, BoundMs: float64(bound.Milliseconds()), Heartbeat: 5000}
	p := c04NewPool(kind, 1, 5*time.Second)
	defer p.stop()
	held := p.get(10)
	got := make(chan struct{})
	go func() {
		e := p.get(10)
		close(got)
		p.back(e)
	}()
	for i := 0; i < 2000 && p.waiters() == 0; i++ {
		time.Sleep(100 * time.Microsecond)
	}
	time.Sleep(2 * time.Millisecond)
	start := time.Now()
	p.back(held)
	select {
	case <-got:
		res.Resumed = true
	case <-time.After(bound):
		res.InUse, res.Waiters = p.inUse(), p.waiters()
		switch x := p.(type) {
		case *lowMemoryEventPool:
			x.getCond.Broadcast()
		case *eventPool:
			x.getCond.Broadcast()
		}
		<-got
	}
	res.WaitedMs = float64(time.Since(start).Microseconds()) / 1000
	return res
}

// many getters over a small pool: everybody finishes (heartbeat 20 ms rescues any lost wake-up)
func c04Churn(kind string, trial, capacity, getters, rounds int) c04Result {
	bound := 20 * time.Second
	res := c04Result{Scenario: "churn", Pool: kind, Trial: trial, BoundMs: float64(bound.Milliseconds()), Heartbeat: 20}
	p := c04NewPool(kind, capacity, 20*time.Millisecond)
	defer p.stop()
	var wg sync.WaitGroup
	for g := 0; g < getters; g++ {
		wg.Add(1)
		go func() {
			defer wg.Done()
			for i := 0; i < rounds; i++ {
				e := p.get(10 + i%3)
				if i%7 == 0 {
					time.Sleep(20 * time.Microsecond)
				}
				p.back(e)
			}
		}()
	}
	done := make(chan struct{})
	go func() { wg.Wait(); close(done) }()
	start := time.Now()
	select {
	case <-done:
		res.Resumed = true
	case <-time.After(bound):
		res.InUse, res.Waiters = p.inUse(), p.waiters()
	}
	res.WaitedMs = float64(time.Since(start).Microseconds()) / 1000
	if res.Resumed {
		res.InUse, res.Waiters = p.inUse(), p.waiters()
	}
	return res
}

func TestVerifC04Pools(t *testing.T) {
	out := os.Getenv("VERIF_OUT")
	if out == "" {
		t.Skip("VERIF_OUT not set")
	}
	trials := 3
	if os.Getenv("VERIF_TIER") == "thorough" {
		trials = 10
	}
	var all []c04Result
	for _, kind := range []string{"low_memory", "std"} {
		for i := 0; i < trials; i++ {
			all = append(all, c04LostWakeup(kind, i, false))
			all = append(all, c04LostWakeup(kind, i, true))
			all = append(all, c04PlainBlock(kind, i))
		}
		for i := 0; i < trials; i++ {
			all = append(all, c04Churn(kind, i, 1+i%3, 4+i%3, 300))
		}
	}
	b, _ := json.Marshal(all)
	if err := os.WriteFile(out, b, 0o644); err != nil {
		t.Fatal(err)
	}
}
