package pipeline

// C01, a delivery function that PANICS (nil client, malformed response ...): nothing of its batch may be acknowledged to the input.
// In file.d a panic in a worker goroutine ends the process, so this runs in a child process: the child's commits are written
// (unbuffered) to a file which the parent reads after the child is gone.

import (
	"context"
	"encoding/json"
	"fmt"
	"os"
	"os/exec"
	"strings"
	"testing"
	"time"

	"github.com/ozontech/file.d/metric"
	"github.com/prometheus/client_golang/prometheus"
)

type c01PanicCtl struct{ f *os.File }

func (c *c01PanicCtl) Commit(e *Event) { fmt.Fprintf(c.f, "commit %d\n", e.Offset) }
func (c *c01PanicCtl) Error(string)    {}

func TestVerifC01PanicChild(t *testing.T) {
	path := os.Getenv("VERIF_C01_PANIC_CHILD")
	if path == "" {
		t.Skip("not a child invocation")
	}
	f, err := os.OpenFile(path, os.O_CREATE|os.O_WRONLY|os.O_APPEND, 0o644)
	if err != nil {
		panic(err)
	}
	var client *struct{ n int }
	out := func(_ *WorkerData, b *Batch) error {
		fmt.Fprintf(f, "send %d\n", len(b.events))
		return fmt.Errorf("never reached %d", client.n) // nil pointer dereference inside the delivery function
	}
	rb := NewRetriableBatcher(&BatcherOptions{PipelineName: "verif_c01p", OutputType: "verif", Controller: &c01PanicCtl{f: f}, Workers: 1,
		BatchSizeCount: 2, FlushTimeout: 10 * time.Millisecond, MetricCtl: metric.NewCtl("verif_c01p", prometheus.NewRegistry(), time.Hour, 0)},
		out, BackoffOpts{MinRetention: time.Millisecond, Multiplier: 1.5, AttemptNum: 3}, func(error, []*Event) {})
	rb.Start(context.Background())
	rb.Add(&Event{Offset: 100, Size: 1})
	rb.Add(&Event{Offset: 200, Size: 1})
	time.Sleep(2 * time.Second) // the worker panics long before this
	fmt.Fprintf(f, "survived\n")
}

func TestVerifC01Panic(t *testing.T) {
	out := os.Getenv("VERIF_OUT")
	if out == "" || os.Getenv("VERIF_C01_PANIC") == "" {
		t.Skip("not requested")
	}
	path := out + ".child"
	_ = os.Remove(path)
	cmd := exec.Command(os.Args[0], "-test.run", "^TestVerifC01PanicChild$", "-test.count=1", "-test.timeout", "60s")
	cmd.Env = append(os.Environ(), "VERIF_C01_PANIC_CHILD="+path)
	b, err := cmd.CombinedOutput()
	log, _ := os.ReadFile(path)
	res := map[string]interface{}{
		"child_error":  fmt.Sprint(err),
		"child_panic":  strings.Contains(string(b), "panic:"),
		"sends":        strings.Count(string(log), "send "),
		"commits":      strings.Count(string(log), "commit "),
		"survived":     strings.Contains(string(log), "survived"),
		"child_output": string(b[max(0, len(b)-600):]),
	}
	jb, _ := json.Marshal(res)
	_ = os.WriteFile(out, jb, 0o644)
}
