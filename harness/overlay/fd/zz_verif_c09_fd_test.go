package fd

// C09, scope of a dead queue (specs/DeadQueueScope.tla): mapped into /repo/fd by `go test -overlay`; /repo is not modified.
//
// Every case exported by TLC (2..3 pipelines sharing one output type, each with its own `deadqueue` section or none, a
// construction order) is built the way file.d builds pipelines: a FileD with a private plugin registry, addPipeline called in
// the case's order (getStaticInfo / setupOutput / SetDeadQueueOutput are the real ones), then all pipelines started.
// The main output is a harness plugin around the REAL RetriableBatcher whose destination is always down (retry 1,
// retention 1ms); the dead-queue output is a harness plugin that records what it receives (with the `name` of ITS config)
// and commits it. Per pipeline the harness records: runs of the error callback, hand-overs to a dead queue (offset, name of
// the dead queue's config), commits per offset seen by the input. Static check per case: getStaticInfo for an output without
// a deadqueue section, asked after everything was built, carries no DeadQueueInfo. lib/c09_outputs.py judges.

import (
	"bufio"
	"context"
	"encoding/json"
	"errors"
	"fmt"
	"net/http"
	"os"
	"runtime"
	"sync"
	"sync/atomic"
	"testing"
	"time"

	"github.com/bitly/go-simplejson"
	"github.com/ozontech/file.d/cfg"
	"github.com/ozontech/file.d/pipeline"
	"github.com/prometheus/client_golang/prometheus"
)

type c09fdCase struct {
	Idx   int      `json:"idx"`
	Cfgs  []string `json:"cfgs"`  // per pipeline the shape of its deadqueue section: "none" | "empty" ({}) | "type" (type only) | a config name
	Order []int    `json:"order"` // construction order, 1-based pipeline numbers
}

type c09fdHand struct {
	Offset int64  `json:"offset"`
	DqName string `json:"dq_name"`
}

type c09fdPipe struct {
	Cfg     string         `json:"cfg"`
	ErrCb   int            `json:"errcb"` // runs of the error callback = given-up batches (one event per batch)
	Handed  []c09fdHand    `json:"handed"`
	Commits map[string]int `json:"commits"` // offset -> commits seen by the input
	Timeout bool           `json:"timeout,omitempty"`
	Outs    int            `json:"outs"`   // events that reached the main output
	InSeq   []uint64       `json:"in_seq"` // what Pipeline.In returned for the events
}

type c09fdRes struct {
	Idx         int         `json:"idx"`
	Pipes       []c09fdPipe `json:"pipes"`
	StaticHasDQ bool        `json:"static_plain_has_dq"`
	StaticDQ    string      `json:"static_plain_dq_type,omitempty"`
	// getStaticInfo per section shape, asked after everything was built: does the result carry a DeadQueueInfo?
	StaticShape map[string]bool `json:"static_shape_has_dq"`
}

// bookkeeping of one case, keyed by pipeline name
type c09fdBook struct {
	mu     sync.Mutex
	pipes  map[string]*c09fdPipe
	inputs map[string]*c09fdInput
}

type c09fdInput struct {
	book       *c09fdBook
	name       string
	controller pipeline.InputPluginController
}

func (p *c09fdInput) Start(_ pipeline.AnyConfig, params *pipeline.InputPluginParams) {
	p.name, p.controller = params.PipelineName, params.Controller
	p.book.mu.Lock()
	p.book.inputs[p.name] = p
	p.book.mu.Unlock()
}
func (p *c09fdInput) Stop() {}
func (p *c09fdInput) Commit(e *pipeline.Event) {
	p.book.mu.Lock()
	p.book.pipes[p.name].Commits[fmt.Sprint(e.Offset)]++
	p.book.mu.Unlock()
}
func (p *c09fdInput) PassEvent(*pipeline.Event) bool { return true }

const c09fdEvents = 2

// main output: the real RetriableBatcher, a destination that is always down
type c09fdFailOutput struct {
	name    string
	book    *c09fdBook
	batcher *pipeline.RetriableBatcher
}

func (p *c09fdFailOutput) Start(_ pipeline.AnyConfig, params *pipeline.OutputPluginParams) {
	name, router := params.PipelineName, params.Router
	p.name = name
	p.batcher = pipeline.NewRetriableBatcher(
		&pipeline.BatcherOptions{
			PipelineName: name, OutputType: "c09fdfail", Controller: params.Controller, Workers: 1,
			// one event per batch: a batch must not wait for a later event of the same stream (the pipeline may hand the
			// next event of a stream over only after the previous one was committed)
			BatchSizeCount: 1, FlushTimeout: 20 * time.Millisecond, MetricCtl: params.MetricCtl,
		},
		func(*pipeline.WorkerData, *pipeline.Batch) error { return errors.New("destination is down") },
		pipeline.BackoffOpts{MinRetention: time.Millisecond, Multiplier: 2, AttemptNum: 1, IsDeadQueueAvailable: router.IsDeadQueueAvailable()},
		func(_ error, events []*pipeline.Event) { // what every batching output does on exhaustion
			p.book.mu.Lock()
			p.book.pipes[name].ErrCb++
			p.book.mu.Unlock()
			for i := range events {
				router.Fail(events[i])
			}
		},
	)
	p.batcher.Start(context.Background())
}
func (p *c09fdFailOutput) Stop() { p.batcher.Stop() }
func (p *c09fdFailOutput) Out(e *pipeline.Event) {
	p.book.mu.Lock()
	p.book.pipes[p.name].Outs++
	p.book.mu.Unlock()
	p.batcher.Add(e)
}

// dead-queue output: records what it gets together with the name in ITS config, commits it
type c09fdDQConfig struct {
	Name string `json:"name"`
}
type c09fdDQOutput struct {
	book       *c09fdBook
	pipe       string
	config     *c09fdDQConfig
	controller pipeline.OutputPluginController
}

func (p *c09fdDQOutput) Start(config pipeline.AnyConfig, params *pipeline.OutputPluginParams) {
	p.pipe, p.config, p.controller = params.PipelineName, config.(*c09fdDQConfig), params.Controller
}
func (p *c09fdDQOutput) Stop() {}
func (p *c09fdDQOutput) Out(e *pipeline.Event) {
	p.book.mu.Lock()
	pp := p.book.pipes[p.pipe]
	name := p.config.Name
	if name == "" {
		name = "default" // a dead queue configured with its type alone: every option at its default
	}
	pp.Handed = append(pp.Handed, c09fdHand{Offset: e.Offset, DqName: name})
	p.book.mu.Unlock()
	p.controller.Commit(e)
}

func c09fdConfig(dq string) *cfg.PipelineConfig {
	js := `{"input":{"type":"c09fdin"},"output":{"type":"c09fdfail"}}`
	switch dq {
	case "none":
	case "empty":
		js = `{"input":{"type":"c09fdin"},"output":{"type":"c09fdfail","deadqueue":{}}}`
	case "type":
		js = `{"input":{"type":"c09fdin"},"output":{"type":"c09fdfail","deadqueue":{"type":"c09fddq"}}}`
	default:
		js = fmt.Sprintf(`{"input":{"type":"c09fdin"},"output":{"type":"c09fdfail","deadqueue":{"type":"c09fddq","name":%q}}}`, dq)
	}
	raw, err := simplejson.NewJson([]byte(js))
	if err != nil {
		panic(err)
	}
	return &cfg.PipelineConfig{Raw: raw}
}

func c09fdRun(c *c09fdCase) c09fdRes {
	book := &c09fdBook{pipes: map[string]*c09fdPipe{}, inputs: map[string]*c09fdInput{}}
	reg := &PluginRegistry{plugins: make(map[string]*pipeline.PluginStaticInfo)}
	reg.RegisterInput(&pipeline.PluginStaticInfo{Type: "c09fdin",
		Factory: func() (pipeline.AnyPlugin, pipeline.AnyConfig) { return &c09fdInput{book: book}, &struct{}{} }})
	reg.RegisterOutput(&pipeline.PluginStaticInfo{Type: "c09fdfail",
		Factory: func() (pipeline.AnyPlugin, pipeline.AnyConfig) { return &c09fdFailOutput{book: book}, &struct{}{} }})
	reg.RegisterOutput(&pipeline.PluginStaticInfo{Type: "c09fddq",
		Factory: func() (pipeline.AnyPlugin, pipeline.AnyConfig) { return &c09fdDQOutput{book: book}, &c09fdDQConfig{} }})
	f := &FileD{plugins: reg, mux: http.NewServeMux(), registry: prometheus.NewRegistry(), Pipelines: make([]*pipeline.Pipeline, 0)}

	name := func(p int) string { return fmt.Sprintf("c09fd_%d_p%d", c.Idx, p) }
	for p := range c.Cfgs {
		book.pipes[name(p+1)] = &c09fdPipe{Cfg: c.Cfgs[p], Commits: map[string]int{}}
	}
	// file.d: construct all pipelines one after another (here: in the case's order), then start them all
	for _, p := range c.Order {
		f.addPipeline(name(p), c09fdConfig(c.Cfgs[p-1]))
	}
	res := c09fdRes{Idx: c.Idx}
	// static: whatever was built before, an output without a deadqueue section has no DeadQueueInfo
	if info, err := f.getStaticInfo(c09fdConfig("none"), pipeline.PluginKindOutput, nil); err != nil {
		panic(err)
	} else if info.DeadQueueInfo != nil {
		res.StaticHasDQ, res.StaticDQ = true, info.DeadQueueInfo.Type
	}
	res.StaticShape = map[string]bool{}
	for _, shape := range []string{"none", "empty", "type", "a"} {
		info, err := f.getStaticInfo(c09fdConfig(shape), pipeline.PluginKindOutput, nil)
		if err != nil {
			panic(err)
		}
		res.StaticShape[shape] = info.DeadQueueInfo != nil
	}
	for _, p := range f.Pipelines {
		p.Start()
	}
	for p := range c.Cfgs {
		book.mu.Lock()
		in := book.inputs[name(p+1)]
		book.mu.Unlock()
		if in == nil {
			panic("input not started: " + name(p+1))
		}
		for i := 1; i <= c09fdEvents; i++ {
			seq := in.controller.In(1, "c09fd", pipeline.NewOffsets(int64(i), nil), []byte(`{"k":"v"}`), false, nil)
			book.mu.Lock()
			book.pipes[name(p+1)].InSeq = append(book.pipes[name(p+1)].InSeq, seq)
			book.mu.Unlock()
		}
	}
	deadline := time.Now().Add(30 * time.Second)
	for {
		done := true
		book.mu.Lock()
		for _, pp := range book.pipes {
			done = done && len(pp.Commits) == c09fdEvents
		}
		book.mu.Unlock()
		if done || time.Now().After(deadline) {
			break
		}
		time.Sleep(time.Millisecond)
	}
	for _, p := range f.Pipelines {
		p.Stop() // outputs stopped: whatever they still did is recorded before Stop returns
	}
	book.mu.Lock()
	defer book.mu.Unlock()
	for p := range c.Cfgs {
		pp := *book.pipes[name(p+1)]
		pp.Timeout = len(pp.Commits) != c09fdEvents
		res.Pipes = append(res.Pipes, pp)
	}
	return res
}

func TestVerifC09Fd(t *testing.T) {
	in, out := os.Getenv("VERIF_CASES"), os.Getenv("VERIF_OUT")
	if in == "" || out == "" {
		t.Skip("VERIF_CASES / VERIF_OUT not set")
	}
	fh, err := os.Open(in)
	if err != nil {
		t.Fatal(err)
	}
	defer fh.Close()
	var cases []*c09fdCase
	sc := bufio.NewScanner(fh)
	for sc.Scan() {
		c := &c09fdCase{}
		if err := json.Unmarshal(sc.Bytes(), c); err != nil {
			t.Fatalf("bad case line: %v", err)
		}
		cases = append(cases, c)
	}
	of, err := os.Create(out)
	if err != nil {
		t.Fatal(err)
	}
	defer of.Close()
	w := bufio.NewWriter(of)
	defer w.Flush()
	nw := min(runtime.GOMAXPROCS(0), 8)
	var wg sync.WaitGroup
	var mu sync.Mutex
	var next int64 = -1
	for wi := 0; wi < nw; wi++ {
		wg.Add(1)
		go func() {
			defer wg.Done()
			for {
				i := int(atomic.AddInt64(&next, 1))
				if i >= len(cases) {
					return
				}
				res := c09fdRun(cases[i])
				b, _ := json.Marshal(res)
				mu.Lock()
				_, _ = w.Write(b)
				_ = w.WriteByte('\n')
				mu.Unlock()
			}
		}()
	}
	wg.Wait()
}
