package fd

// C14 replay harness, fd half (mapped into /repo/fd by `go test -overlay`; /repo is not modified).
//
// Every rule exported by TLC from specs/DoIf.tla and specs/MatchFields.tla arrives as the JSON text of
// an action configuration ({"type":..., "do_if":{...}} or {"type":..., "match_fields":{...},
// "match_mode":..., "match_invert":...}).  It is parsed with simplejson and handed to the REAL
// extraction code of package fd:
//   - do_if:        extractDoIfChecker -> doif.NewFromMap; the resulting Checker is evaluated here on
//                   every event of the rule's event set, in two different orders;
//   - match_fields: extractMatchMode / extractMatchInvert / extractConditions; what they produced is
//                   written out so that the in-package pipeline harness (which cannot import fd) can
//                   evaluate exactly these conditions with processor.isMatch.

import (
	"bufio"
	"encoding/json"
	"fmt"
	"math/rand"
	"os"
	"testing"

	"github.com/bitly/go-simplejson"
	"github.com/ozontech/file.d/pipeline"
	"github.com/ozontech/file.d/pipeline/doif"
	insaneJSON "github.com/ozontech/insane-json"
)

type c14Rule struct {
	ID   int    `json:"id"`
	Kind string `json:"kind"` // "doif" | "mf"
	Set  string `json:"set"`  // event-set key
	Cfg  string `json:"cfg"`  // action JSON text
}

type c14Cases struct {
	Seed   int64               `json:"seed"`
	Events map[string][]string `json:"events"`
	// event sets whose events must be decoded from their JSON text again before every evaluation series, so that
	// string nodes start in their escaped form (field ops unescape insane-json nodes in place)
	Fresh []string `json:"fresh"`
}

type c14Cond struct {
	Field  []string `json:"field"`
	Values []string `json:"values"`
	Regexp *string  `json:"regexp"`
}

type c14Out struct {
	ID     int       `json:"id"`
	Kind   string    `json:"kind"`
	Err    string    `json:"err,omitempty"`
	R1     string    `json:"r1,omitempty"` // '0'/'1' per event, events visited in file order
	R2     string    `json:"r2,omitempty"` // same, events visited in a seeded permutation
	Mode   int       `json:"mode"`
	Invert bool      `json:"invert"`
	Conds  []c14Cond `json:"conds,omitempty"`
}

func c14Decode(evs []string) ([]*insaneJSON.Root, error) {
	roots := make([]*insaneJSON.Root, len(evs))
	for i, e := range evs {
		r := insaneJSON.Spawn()
		if err := r.DecodeString(e); err != nil {
			return nil, fmt.Errorf("event %q: %w", e, err)
		}
		roots[i] = r
	}
	return roots, nil
}

func c14Bits(b []bool) string {
	s := make([]byte, len(b))
	for i, x := range b {
		s[i] = '0'
		if x {
			s[i] = '1'
		}
	}
	return string(s)
}

func c14Redecode(roots []*insaneJSON.Root, evs []string) {
	for i, e := range evs {
		if err := roots[i].DecodeString(e); err != nil {
			panic("harness: " + err.Error())
		}
	}
}

func c14RunRule(r *c14Rule, roots []*insaneJSON.Root, perm []int, fresh []string) (out c14Out) {
	out.ID, out.Kind = r.ID, r.Kind
	defer func() {
		if p := recover(); p != nil {
			out.Err = fmt.Sprintf("panic: %v", p)
		}
	}()
	j, err := simplejson.NewJson([]byte(r.Cfg))
	if err != nil {
		out.Err = "harness: bad cfg json: " + err.Error()
		return out
	}
	switch r.Kind {
	case "doif":
		// the action may carry match_mode / match_invert next to do_if: extracted as fd.setupAction does
		mode := extractMatchMode(j)
		if mode == pipeline.MatchModeUnknown {
			out.Err = "ctor: unknown match_mode"
			return out
		}
		out.Mode, out.Invert = int(mode), extractMatchInvert(j)
		chk, err := extractDoIfChecker(j.Get("do_if"))
		if err != nil || chk == nil {
			out.Err = fmt.Sprintf("ctor: %v", err)
			return out
		}
		r1 := make([]bool, len(roots))
		r2 := make([]bool, len(roots))
		if fresh != nil {
			c14Redecode(roots, fresh)
		}
		for i, root := range roots {
			r1[i] = chk.Check(doif.NewEventData(root))
		}
		if fresh != nil {
			c14Redecode(roots, fresh)
		}
		for _, i := range perm {
			r2[i] = chk.Check(doif.NewEventData(roots[i]))
		}
		out.R1, out.R2 = c14Bits(r1), c14Bits(r2)
	case "mf":
		mode := extractMatchMode(j)
		if mode == pipeline.MatchModeUnknown {
			out.Err = "ctor: unknown match_mode"
			return out
		}
		out.Mode = int(mode)
		out.Invert = extractMatchInvert(j)
		conds, err := extractConditions(j.Get("match_fields"))
		if err != nil {
			out.Err = fmt.Sprintf("ctor: %v", err)
			return out
		}
		for _, c := range conds {
			oc := c14Cond{Field: c.Field, Values: c.Values}
			if c.Regexp != nil {
				s := c.Regexp.String()
				oc.Regexp = &s
			}
			out.Conds = append(out.Conds, oc)
		}
	default:
		out.Err = "harness: unknown kind " + r.Kind
	}
	return out
}

func TestVerifC14(t *testing.T) {
	evPath, rulesPath, outPath := os.Getenv("VERIF_C14_EVENTS"), os.Getenv("VERIF_C14_RULES"), os.Getenv("VERIF_OUT")
	if evPath == "" || rulesPath == "" || outPath == "" {
		t.Skip("VERIF_C14_EVENTS / VERIF_C14_RULES / VERIF_OUT not set")
	}
	raw, err := os.ReadFile(evPath)
	if err != nil {
		t.Fatal(err)
	}
	var cs c14Cases
	if err := json.Unmarshal(raw, &cs); err != nil {
		t.Fatal(err)
	}
	roots := map[string][]*insaneJSON.Root{}
	perms := map[string][]int{}
	isFresh := map[string]bool{}
	for _, k := range cs.Fresh {
		isFresh[k] = true
	}
	rng := rand.New(rand.NewSource(cs.Seed))
	for k, evs := range cs.Events {
		rs, err := c14Decode(evs)
		if err != nil {
			t.Fatal(err)
		}
		roots[k] = rs
	}
	f, err := os.Open(rulesPath)
	if err != nil {
		t.Fatal(err)
	}
	defer f.Close()
	of, err := os.Create(outPath + ".tmp")
	if err != nil {
		t.Fatal(err)
	}
	w := bufio.NewWriterSize(of, 1<<20)
	enc := json.NewEncoder(w)
	sc := bufio.NewScanner(f)
	sc.Buffer(make([]byte, 1<<20), 1<<24)
	n := 0
	for sc.Scan() {
		var r c14Rule
		if err := json.Unmarshal(sc.Bytes(), &r); err != nil {
			t.Fatalf("bad rule line: %v", err)
		}
		rs, ok := roots[r.Set]
		if !ok {
			t.Fatalf("unknown event set %q", r.Set)
		}
		// a fresh visiting order for every rule
		perm := perms[r.Set]
		if perm == nil {
			perm = make([]int, len(rs))
			for i := range perm {
				perm[i] = i
			}
			perms[r.Set] = perm
		}
		rng.Shuffle(len(perm), func(a, b int) { perm[a], perm[b] = perm[b], perm[a] })
		var fresh []string
		if isFresh[r.Set] {
			fresh = cs.Events[r.Set]
		}
		out := c14RunRule(&r, rs, perm, fresh)
		if err := enc.Encode(&out); err != nil {
			t.Fatal(err)
		}
		n++
	}
	if err := sc.Err(); err != nil {
		t.Fatal(err)
	}
	if err := w.Flush(); err != nil {
		t.Fatal(err)
	}
	of.Close()
	if err := os.Rename(outPath+".tmp", outPath); err != nil {
		t.Fatal(err)
	}
	t.Logf("c14/fd: %d rules", n)
}
