package fd_test

// C14 replay harness, end-to-end part (external test package of fd, so that it may import the
// test helpers, which import plugins, which import fd).  A seeded sample of the exported rules is
// configured exactly as a user would: an `actions` JSON array handed to the public fd.SetupActions
// (-> extractDoIfChecker / extractMatchMode / extractMatchInvert / extractConditions ->
// Pipeline.AddAction), a real pipeline is started with a fake input and a devnull output, every
// event of the rule's event set is sent in, and a recording action notes for which events its Do
// was invoked.  "Do invoked <=> expected" is then decided by the driver.

import (
	"bufio"
	"encoding/json"
	"fmt"
	"os"
	"strings"
	"sync"
	"testing"
	"time"

	"github.com/bitly/go-simplejson"
	"github.com/ozontech/file.d/fd"
	"github.com/ozontech/file.d/pipeline"
	_ "github.com/ozontech/file.d/plugin/action/split" // registers the real split action
	"github.com/ozontech/file.d/test"
	insaneJSON "github.com/ozontech/insane-json"
	"go.uber.org/atomic"
)

type c14E2ERule struct {
	ID   int    `json:"id"`
	Kind string `json:"kind"`
	Set  string `json:"set"`
	Cfg  string `json:"cfg"`
}

type c14E2ECases struct {
	Seed   int64               `json:"seed"`
	Events map[string][]string `json:"events"`
	Fresh  []string            `json:"fresh"` // sets whose rules get a pipeline of their own (see the fd half)
}

// c14E2EKey is the spelling-independent form of an event (a selector may have unescaped strings in place)
func c14E2EKey(text string) string {
	dec := json.NewDecoder(strings.NewReader(text))
	dec.UseNumber()
	var b strings.Builder
	for {
		tok, err := dec.Token() // key order is kept; strings arrive unescaped
		if err != nil {
			break
		}
		fmt.Fprintf(&b, "%T:%v\x1f", tok, tok)
	}
	return b.String()
}

type c14E2EOut struct {
	ID   int     `json:"id"`
	Err  string  `json:"err,omitempty"`
	R1   string  `json:"r1,omitempty"`
	RS   string  `json:"rs,omitempty"` // Do invoked for the event as a child spawned by the real split action
	RB   string  `json:"rb,omitempty"` // Do invoked while the holding action at the end of the chain is busy
	Cnt  []int32 `json:"cnt,omitempty"` // parallel mode: how many of the reps copies of each event reached Do
	Reps int     `json:"reps,omitempty"`
}

// shared recorder of the running pipeline: hits[action index][event offset]
var (
	c14E2EMu   sync.Mutex
	c14E2EHits [][]int32
	// split mode: the chain is [split, rules...]; child events are recognised by their content
	c14E2ESplitIdx map[string]int
)

type c14E2EConfig struct{}

type c14E2EPlugin struct{ index int }

func (p *c14E2EPlugin) Start(_ pipeline.AnyConfig, params *pipeline.ActionPluginParams) {
	p.index = params.Index
}
func (p *c14E2EPlugin) Stop() {}
func (p *c14E2EPlugin) Do(e *pipeline.Event) pipeline.ActionResult {
	c14E2EMu.Lock()
	if c14E2ESplitIdx != nil {
		if e.IsChildKind() {
			if j, ok := c14E2ESplitIdx[c14E2EKey(e.Root.EncodeToString())]; ok && p.index-1 < len(c14E2EHits) {
				c14E2EHits[p.index-1][j]++
			}
		}
		c14E2EMu.Unlock()
		return pipeline.ActionPass
	}
	if p.index < len(c14E2EHits) && int(e.Offset) >= 0 && int(e.Offset) < len(c14E2EHits[p.index]) {
		c14E2EHits[p.index][e.Offset]++
	}
	c14E2EMu.Unlock()
	return pipeline.ActionPass
}

// holding action, a minimal join: the event with offset c14E2EHoldN opens a run (ActionHold), every following
// event is collapsed into it (ActionCollapse), the event with offset c14E2EHoldN+1 closes the run (the held
// event is propagated, the closing one passes).  While the run is open the processor has a busy action.
var c14E2EHoldN int64

type c14E2EHolder struct {
	controller pipeline.ActionPluginController
	initial    *pipeline.Event
}

func (p *c14E2EHolder) Start(_ pipeline.AnyConfig, params *pipeline.ActionPluginParams) {
	p.controller = params.Controller
}
func (p *c14E2EHolder) Stop() {}
func (p *c14E2EHolder) Do(e *pipeline.Event) pipeline.ActionResult {
	switch {
	case e.IsTimeoutKind() || e.Offset == c14E2EHoldN+1:
		if p.initial != nil {
			ev := p.initial
			p.initial = nil
			p.controller.Propagate(ev)
		}
		return pipeline.ActionPass
	case e.Offset == c14E2EHoldN:
		p.initial = e
		return pipeline.ActionHold
	case p.initial != nil:
		return pipeline.ActionCollapse
	}
	return pipeline.ActionPass
}

func c14E2EHolderFactory() (pipeline.AnyPlugin, pipeline.AnyConfig) {
	return &c14E2EHolder{}, &c14E2EConfig{}
}

func c14E2EFactory() (pipeline.AnyPlugin, pipeline.AnyConfig) {
	return &c14E2EPlugin{}, &c14E2EConfig{}
}

// reps == 0: one processor, every event once (sequential end-to-end replay).
// reps > 0:  parallel pipeline (GOMAXPROCS*2 real processors sharing the checkers), every event sent reps
//            times, each copy from its own source so that the copies are processed concurrently.
// busy:      (with reps == 0) the chain is [rules..., holding action]; a run is opened first, then every event is
//            sent while the holding action is busy, then the run is closed: only opener and closer reach the output.
// split:     (with reps == 0) the chain is [the real split action, rules...]; ONE parent event {"zz":[events...]} is
//            sent, split spawns every event of the set as a child event, the children (and the parent) reach the output.
func c14E2ERunChunk(rules []*c14E2ERule, evs []string, reps int, busy, split bool) (outs []*c14E2EOut, err error) {
	defer func() {
		if pv := recover(); pv != nil {
			err = fmt.Errorf("panic: %v", pv)
		}
	}()
	actions := "["
	if split {
		actions += `{"type":"split","field":"zz"},`
	}
	for i, r := range rules {
		if i > 0 {
			actions += ","
		}
		actions += r.Cfg
	}
	if busy {
		actions += `,{"type":"verif_c14_hold"}`
	}
	actions += "]"
	aj, jerr := simplejson.NewJson([]byte(actions))
	if jerr != nil {
		return nil, fmt.Errorf("harness: bad actions json: %w", jerr)
	}
	opts := []string{"passive", "name"}
	copies := 1
	if reps > 0 {
		opts = append(opts, "parallel")
		copies = reps
	}
	if split {
		// "perf" only to switch off the test helper's event log, which re-encodes the parent after split
		// has handed its nodes over to the children
		opts = append(opts, "perf")
	}
	p, input, output := test.NewPipelineMock(nil, opts...)
	if serr := fd.SetupActions(p, fd.DefaultPluginRegistry, aj, nil); serr != nil {
		return nil, fmt.Errorf("ctor: %w", serr)
	}
	c14E2EMu.Lock()
	c14E2EHits = make([][]int32, len(rules))
	for i := range c14E2EHits {
		c14E2EHits[i] = make([]int32, len(evs))
	}
	c14E2EMu.Unlock()
	left := atomic.NewInt32(int32(len(evs) * copies))
	if busy {
		left.Store(2)
		c14E2EHoldN = int64(len(evs))
	}
	c14E2EMu.Lock()
	c14E2ESplitIdx = nil
	if split {
		left.Store(int32(len(evs) + 1))
		c14E2ESplitIdx = make(map[string]int, len(evs))
		for i, e := range evs {
			r := insaneJSON.Spawn()
			if derr := r.DecodeString(e); derr != nil {
				c14E2EMu.Unlock()
				return nil, fmt.Errorf("harness: %w", derr)
			}
			key := c14E2EKey(r.EncodeToString())
			insaneJSON.Release(r)
			if _, dup := c14E2ESplitIdx[key]; dup {
				c14E2EMu.Unlock()
				return nil, fmt.Errorf("harness: duplicate event %s in a set", key)
			}
			c14E2ESplitIdx[key] = i
		}
	}
	c14E2EMu.Unlock()
	output.SetOutFn(func(*pipeline.Event) { left.Dec() })
	p.Start()
	if busy {
		input.In(0, "verif_c14", test.NewOffset(c14E2EHoldN), []byte(evs[0]))
	}
	if split {
		input.In(0, "verif_c14", test.NewOffset(0), []byte(`{"zz":[`+strings.Join(evs, ",")+`]}`))
		copies = 0
	}
	for c := 0; c < copies; c++ {
		for i, e := range evs {
			src := pipeline.SourceID(0)
			if reps > 0 {
				src = pipeline.SourceID(c*len(evs) + i + 1)
			}
			input.In(src, "verif_c14", test.NewOffset(int64(i)), []byte(e))
		}
	}
	if busy {
		input.In(0, "verif_c14", test.NewOffset(c14E2EHoldN+1), []byte(evs[0]))
	}
	t0 := time.Now()
	for left.Load() > 0 {
		if time.Since(t0) > 60*time.Second {
			p.Stop()
			return nil, fmt.Errorf("harness: %d of %d events did not reach the output within 60s", left.Load(), len(evs)*copies)
		}
		time.Sleep(time.Millisecond)
	}
	p.Stop()
	c14E2EMu.Lock()
	defer c14E2EMu.Unlock()
	for i, r := range rules {
		s := make([]byte, len(evs))
		for j, h := range c14E2EHits[i] {
			s[j] = '0'
			if h > 0 {
				s[j] = '1'
			}
		}
		o := &c14E2EOut{ID: r.ID, R1: string(s)}
		if reps > 0 {
			o.Cnt, o.Reps = append([]int32(nil), c14E2EHits[i]...), reps
		}
		outs = append(outs, o)
	}
	c14E2EHits = nil
	return outs, nil
}

func TestVerifC14E2E(t *testing.T) {
	evPath, rulesPath, outPath := os.Getenv("VERIF_C14_EVENTS"), os.Getenv("VERIF_C14_E2E_RULES"), os.Getenv("VERIF_OUT")
	if evPath == "" || rulesPath == "" || outPath == "" {
		t.Skip("VERIF_C14_EVENTS / VERIF_C14_E2E_RULES / VERIF_OUT not set")
	}
	raw, err := os.ReadFile(evPath)
	if err != nil {
		t.Fatal(err)
	}
	var cs c14E2ECases
	if err := json.Unmarshal(raw, &cs); err != nil {
		t.Fatal(err)
	}
	par := os.Getenv("VERIF_C14_E2E_PAR") != ""
	isFresh := map[string]bool{}
	for _, k := range cs.Fresh {
		isFresh[k] = true
	}
	fd.DefaultPluginRegistry.RegisterAction(&pipeline.PluginStaticInfo{Type: "verif_c14", Factory: c14E2EFactory})
	fd.DefaultPluginRegistry.RegisterAction(&pipeline.PluginStaticInfo{Type: "verif_c14_hold", Factory: c14E2EHolderFactory})

	f, err := os.Open(rulesPath)
	if err != nil {
		t.Fatal(err)
	}
	defer f.Close()
	of, err := os.Create(outPath + ".tmp")
	if err != nil {
		t.Fatal(err)
	}
	w := bufio.NewWriterSize(of, 1<<20)
	enc := json.NewEncoder(w)
	sc := bufio.NewScanner(f)
	sc.Buffer(make([]byte, 1<<20), 1<<24)
	var chunk []*c14E2ERule
	n := 0
	flush := func() {
		if len(chunk) == 0 {
			return
		}
		evs := cs.Events[chunk[0].Set]
		reps := 0
		if par {
			reps = 2000/len(evs) + 2
		}
		outs, err := c14E2ERunChunk(chunk, evs, reps, false, false)
		if err == nil && !par {
			var bouts []*c14E2EOut
			bouts, err = c14E2ERunChunk(chunk, evs, 0, true, false)
			if err == nil {
				for i := range outs {
					outs[i].RB = bouts[i].R1
				}
				bouts, err = c14E2ERunChunk(chunk, evs, 0, false, true)
			}
			if err == nil {
				for i := range outs {
					outs[i].RS = bouts[i].R1
				}
			}
		}
		if err != nil {
			outs = nil
			for _, r := range chunk {
				outs = append(outs, &c14E2EOut{ID: r.ID, Err: err.Error()})
			}
		}
		for _, o := range outs {
			if err := enc.Encode(o); err != nil {
				t.Fatal(err)
			}
			n++
		}
		chunk = chunk[:0]
	}
	for sc.Scan() {
		r := &c14E2ERule{}
		if err := json.Unmarshal(sc.Bytes(), r); err != nil {
			t.Fatalf("bad rule line: %v", err)
		}
		if _, ok := cs.Events[r.Set]; !ok {
			t.Fatalf("unknown event set %q", r.Set)
		}
		if len(chunk) > 0 && (chunk[0].Set != r.Set || len(chunk) >= 200 || (isFresh[chunk[0].Set] && !par)) {
			flush()
		}
		chunk = append(chunk, r)
	}
	if err := sc.Err(); err != nil {
		t.Fatal(err)
	}
	flush()
	if err := w.Flush(); err != nil {
		t.Fatal(err)
	}
	of.Close()
	if err := os.Rename(outPath+".tmp", outPath); err != nil {
		t.Fatal(err)
	}
	t.Logf("c14/e2e: %d rules", n)
}
