package offset

// C07 harness for the generic offsets saver used by the journalctl and dmesg inputs (mapped into
// /repo/offset by `go test -overlay`; /repo is not modified).
//
//   TestVerifC07OffsetProto  a scripted sequence of real SaveYAML calls, meant to run under strace
//                            (optionally with fault injection); one locked OS thread, ordering markers.
//   TestVerifC07OffsetLoad   the real LoadYAML on materialised disk states.
//
// Comparisons are made by checks/C07.py.

import (
	"bufio"
	"encoding/hex"
	"encoding/json"
	"fmt"
	"os"
	"path/filepath"
	"runtime"
	"strconv"
	"testing"
)

// shaped like the journalctl input's offsets: a cursor string and a counter
type c07State struct {
	Offset int64  `json:"offset"`
	Cursor string `json:"cursor"`
}

type c07Script struct {
	Dir    string     `json:"dir"`
	Values []c07State `json:"values"` // Values[0] = what the previous run left behind
}

func TestVerifC07OffsetProto(t *testing.T) {
	in := os.Getenv("VERIF_C07_SCRIPT")
	if in == "" {
		t.Skip("VERIF_C07_SCRIPT not set")
	}
	raw, err := os.ReadFile(in)
	if err != nil {
		t.Fatal(err)
	}
	var sc c07Script
	if err = json.Unmarshal(raw, &sc); err != nil {
		t.Fatal(err)
	}
	runtime.LockOSThread()
	defer runtime.UnlockOSThread()
	cur := filepath.Join(sc.Dir, "offsets.yaml")
	if err = SaveYAML(cur, &sc.Values[0]); err != nil {
		t.Fatal(err)
	}
	init, err := os.ReadFile(cur)
	if err != nil {
		t.Fatal(err)
	}
	mk, err := os.OpenFile(filepath.Join(sc.Dir, "c07.marker"), os.O_WRONLY|os.O_CREATE|os.O_APPEND, 0o600)
	if err != nil {
		t.Fatal(err)
	}
	defer mk.Close()
	mark := func(s string) { _, _ = mk.Write([]byte(s + "\n")) }
	mark("init " + hex.EncodeToString(init))
	for i := 1; i < len(sc.Values); i++ {
		mark(fmt.Sprintf("save_begin %d", i))
		func() {
			defer func() {
				if r := recover(); r != nil {
					mark(fmt.Sprintf("panic %d %s", i, hex.EncodeToString([]byte(fmt.Sprint(r)))))
				}
			}()
			v := sc.Values[i]
			if err := SaveYAML(cur, &v); err != nil {
				mark(fmt.Sprintf("save_err %d %s", i, hex.EncodeToString([]byte(err.Error()))))
			}
		}()
		mark(fmt.Sprintf("save_end %d", i))
	}
	mark("done")
}

type c07Disk struct {
	ID      int    `json:"id"`
	Absent  bool   `json:"absent"`
	Content string `json:"content"` // hex
}

type c07LoadResult struct {
	ID    int      `json:"id"`
	Err   string   `json:"err,omitempty"`
	Panic string   `json:"panic,omitempty"`
	Value c07State `json:"value"`
}

func c07Load(id int, path string) (res c07LoadResult) {
	res.ID = id
	defer func() {
		if r := recover(); r != nil {
			res.Panic = fmt.Sprint(r)
		}
	}()
	if err := LoadYAML(path, &res.Value); err != nil {
		res.Err = err.Error()
	}
	return res
}

func TestVerifC07OffsetLoad(t *testing.T) {
	in, out := os.Getenv("VERIF_CASES"), os.Getenv("VERIF_OUT")
	if in == "" || out == "" {
		t.Skip("VERIF_CASES / VERIF_OUT not set")
	}
	dir, err := os.MkdirTemp(os.Getenv("VERIF_SCRATCH"), "c07-oload-")
	if err != nil {
		t.Fatal(err)
	}
	defer os.RemoveAll(dir)
	f, err := os.Open(in)
	if err != nil {
		t.Fatal(err)
	}
	defer f.Close()
	results := []c07LoadResult{}
	n := 0
	s := bufio.NewScanner(f)
	s.Buffer(make([]byte, 1<<20), 1<<26)
	for s.Scan() {
		if len(s.Bytes()) == 0 {
			continue
		}
		var d c07Disk
		if err := json.Unmarshal(s.Bytes(), &d); err != nil {
			t.Fatalf("bad disk line: %v", err)
		}
		n++
		path := filepath.Join(dir, "offsets-"+strconv.Itoa(n)+".yaml")
		if !d.Absent {
			b, err := hex.DecodeString(d.Content)
			if err != nil {
				t.Fatal(err)
			}
			if err = os.WriteFile(path, b, 0o600); err != nil {
				t.Fatal(err)
			}
		}
		results = append(results, c07Load(d.ID, path))
		_ = os.Remove(path)
	}
	b, _ := json.Marshal(map[string]interface{}{"executed": n, "results": results})
	if err = os.WriteFile(out, b, 0o644); err != nil {
		t.Fatal(err)
	}
}
