\* the mechanism as coded: every mask index can be a member of a field's mask set
SPECIFICATION Spec
CONSTANTS
  NM = 4
  Fields = {"a", "b"}
  W = 2
  M_MaskSetUnbounded = TRUE
INVARIANTS TypeOK IndexIndependent
CHECK_DEADLOCK FALSE
