\* the mutant: the hit counter of a mask without metric_name survives to the next event -- TLC must find a violation
SPECIFICATION Spec
CONSTANTS
  Masks = {1, 2}
  SeqLen = 2
  M_NoStateAcrossEvents = FALSE
INVARIANTS TypeOK EventAlone
CHECK_DEADLOCK FALSE
