---------------------------- MODULE MaskRuleMatch ----------------------------
(* C17, one match rule of a mask (cfg/matchrule/matchrule.go, Rule.match) with a LIST of values of different lengths.

   The property: the rule matches iff SOME of its values matches (as prefix / suffix / substring of the data, after
   lower-casing both when the rule is case-insensitive), negated when the rule is inverted.

   The mechanism in the code (M_EveryValueTried): for prefix / suffix the data is cut to the LONGEST value's length
   (or left alone when shorter), lower-cased if asked, and every value that fits is compared with the matching end of
   that cut.
   The mutant (M_EveryValueTried = FALSE): a case-insensitive prefix / suffix rule cuts the data to the SHORTEST
   value's length -- values longer than the shortest can then never match.  TLC must ACCEPT the mechanism and REJECT
   the mutant.

   Model alphabet: 1 = 'a', 2 = 'A', 3 = 'b'; rule values are lower case when the rule is case-insensitive (Prepare
   lower-cases them).  (matchrule has no "equal" mode: prefix, suffix, contains are all there is.)             *)
EXTENDS Integers, Sequences, FiniteSets, TLC

CONSTANTS MaxData, MaxVal, MaxVals, M_EveryValueTried

Strs(S, lo, hi) == UNION {[1..n -> S] : n \in lo..hi}
Lower(s) == [i \in 1..Len(s) |-> IF s[i] = 2 THEN 1 ELSE s[i]]
Min(a, b) == IF a < b THEN a ELSE b

\* value lists of 1 .. MaxVals different values
ValSets(S) == {{v} : v \in S}
              \cup (IF MaxVals >= 2 THEN {{v, w} : v \in S, w \in S} ELSE {})
              \cup (IF MaxVals >= 3 THEN {{v, w, x} : v \in S, w \in S, x \in S} ELSE {})

VARIABLES cs, pc, res
vars == <<cs, pc, res>>

Init ==
  /\ \E ci \in BOOLEAN : \E mode \in {"prefix", "suffix", "contains"} : \E inv \in BOOLEAN :
     \E vals \in ValSets(Strs(IF ci THEN {1, 3} ELSE {1, 2, 3}, 1, MaxVal)) :
     \E data \in Strs({1, 2, 3}, 0, MaxData) :
       cs = [ci |-> ci, mode |-> mode, inv |-> inv, vals |-> vals, data |-> data]
  /\ pc = "eval" /\ res = FALSE

IsPrefix(p, q) == Len(p) <= Len(q) /\ SubSeq(q, 1, Len(p)) = p
IsSuffix(p, q) == Len(p) <= Len(q) /\ SubSeq(q, Len(q) - Len(p) + 1, Len(q)) = p
IsInfix(p, q) == \E i \in 0..(Len(q) - Len(p)) : SubSeq(q, i + 1, i + Len(p)) = p

(* Rule.match, then Invert *)
MatchCoded ==
  LET raw  == cs.data
      minV == CHOOSE n \in {Len(v) : v \in cs.vals} : \A v \in cs.vals : n <= Len(v)
      maxV == CHOOSE n \in {Len(v) : v \in cs.vals} : \A v \in cs.vals : n >= Len(v)
  IN IF Len(raw) < minV THEN FALSE
     ELSE IF cs.mode = "contains"
       THEN LET d == IF cs.ci THEN Lower(raw) ELSE raw IN \E v \in cs.vals : Len(d) >= Len(v) /\ IsInfix(v, d)
     ELSE LET cutLen == IF M_EveryValueTried \/ ~cs.ci THEN Min(Len(raw), maxV) ELSE minV
              cut0 == IF cs.mode = "prefix" THEN SubSeq(raw, 1, cutLen) ELSE SubSeq(raw, Len(raw) - cutLen + 1, Len(raw))
              cut == IF cs.ci THEN Lower(cut0) ELSE cut0
          IN \E v \in cs.vals :
               /\ Len(cut) >= Len(v)
               /\ v = (IF cs.mode = "prefix" THEN SubSeq(cut, 1, Len(v)) ELSE SubSeq(cut, Len(cut) - Len(v) + 1, Len(cut)))

Eval == /\ pc = "eval" /\ pc' = "done"
        /\ res' = (MatchCoded # cs.inv)
        /\ UNCHANGED cs
Next == Eval
Spec == Init /\ [][Next]_vars

MatchDecl ==
  LET d == IF cs.ci THEN Lower(cs.data) ELSE cs.data
      hit == \E v \in cs.vals :
               LET x == IF cs.ci THEN Lower(v) ELSE v IN
               CASE cs.mode = "prefix" -> IsPrefix(x, d) [] cs.mode = "suffix" -> IsSuffix(x, d) [] cs.mode = "contains" -> IsInfix(x, d)
  IN hit # cs.inv
TypeOK == pc \in {"eval", "done"}
SomeValueMatches == pc = "done" => res = MatchDecl
=============================================================================
