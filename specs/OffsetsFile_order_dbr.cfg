SPECIFICATION Spec
CONSTANTS
  Site = "file"
  NJobs = 2
  NStreams = 2
  MaxCommits = 2
  MaxSaves = 2
  Faults = {"open", "write", "sync", "unlink", "rename", "close"}
  MaxFaults = 2
  D_RenameAfterFailedStep = FALSE
  D_NoFsync = FALSE
  M_ZeroOffsetsWritten = TRUE
  M_SyncBeforeRename = FALSE
  M_TmpStartsEmpty = TRUE
  CLen <- TokLen
  MidSaveCommits = TRUE
  CrashAction = TRUE
  DoExport = FALSE
  MaxIno = 4
INVARIANTS TypeOK DurableBeforeReplace
CHECK_DEADLOCK FALSE
