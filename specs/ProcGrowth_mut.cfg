SPECIFICATION Spec
CONSTANTS
  InitProcs = 2
  MaxProcs = 4
  Streams = {1, 2, 3}
  M_BlockedCountsAsActive = FALSE
INVARIANTS TypeOK
PROPERTIES Attended
CHECK_DEADLOCK FALSE
