\* spec mutant: the flushed text aliases the run buffer (M_FlushCopiesBuffer off); TLC must violate StatementOK
SPECIFICATION Spec
CONSTANTS
  MaxLen1 = 3
  MaxLen2 = 0
  MaxLenPre = 0
  Ms = {0}
  Pres = {"none"}
  D5_TimeoutToLastAction = TRUE
  D15_BreakBypassesHold = TRUE
  M_BusyIgnoresSelector = TRUE
  M_PropagateResetsBusyFirst = TRUE
  M_FlushCopiesBuffer = FALSE
  M_StartCheckIsTheTemplates = TRUE
INVARIANTS TypeOK StatementOK
CHECK_DEADLOCK FALSE
