SPECIFICATION Spec
CONSTANTS
  Slices <- ThoroughSlices
  Mut = "none"
INVARIANTS TypeOK RingConsistent CountersAreArrivals NeverOverLimit TotalWithinSum NoEarlyReject Remap ValueWithinShare MustRespected KeysIndependent Export
CHECK_DEADLOCK FALSE
