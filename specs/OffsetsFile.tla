------------------------------ MODULE OffsetsFile ------------------------------
(* C07 -- the offsets file is always a loadable snapshot, never ahead of commits.

   Three layers, structured like the code:

   1. A small crash-consistent FILE-SYSTEM MODEL.  dir : name -> inode (0 = no entry) is what a
      running process sees.  Per inode: vol (content seen by a running process), base (content as of
      the last successful fsync, or of creation) and keep (length of the prefix of vol that is
      certainly on disk).  Operations: open(O_CREAT|O_TRUNC), write, fsync, rename, unlink, close; each
      may fail (a failed write may leave any proper prefix, possibly torn inside a line).
      CRASH SEMANTICS (the weakest POSIX-plausible ones): after a crash an inode holds either base or
      any prefix of vol not shorter than keep -- cut at any byte, i.e. possibly ending in a torn
      line -- and, since the code never fsyncs the directory, the name "cur" refers to ANY inode that
      was ever renamed onto it since the last known-durable binding (rename itself is atomic: old or
      new, never a mixture).  curDur is that set of candidates (0 = the name does not exist).

   2. THE SAVE PROTOCOL as the code performs it, one action per statement that touches the file
      system, including what it does after a failed step:
        Site = "file"    offsetDB.save (plugin/input/file/offset.go):
                         open(tmp.<rand>) -> snapshot job by job under the job lock -> one Write ->
                         Sync -> Rename(tmp, cur) -> deferred Close.  An Open error returns; after a
                         failed Write or Sync the temp file is removed and the save gives up (no
                         Rename; the deferred Close still runs)            [repaired by commit f12db3f]
        Site = "generic" offset.Save (offset/offset.go), used by journalctl and dmesg:
                         Create(path+".tmp") (fixed name) -> callback Write -> Sync -> deferred Close ->
                         Rename; an Open/Write/Sync error returns before Rename   [Sync: commit 5cb7036]
      Commit(job, stream) changes one job's vector atomically (jobProvider.commit stores under the
      job lock) and may happen between any two steps of a save, also between the per-job snapshots.

      MUTANT SWITCHES.  The two mechanisms the property rests on can be switched off; with a switch
      on the module describes the code as it was BEFORE the repair (DESIGN.md section 8, D6 / D7):
        D_RenameAfterFailedStep  offsetDB.save only logs a failed Write/Sync and still renames
        D_NoFsync                offset.Save has no fsync step
        M_ZeroOffsetsWritten     (mechanism, TRUE = the code) the writer emits every stream of a job
                                 whatever its offset; FALSE = "zero offsets carry no information":
                                 streams at 0 (what Truncate = truncateJob leaves) and all-zero jobs
                                 are skipped, so {a:1, b:0} comes back as {a:1} -- never held
        M_TmpStartsEmpty         (mechanism, TRUE = the code) the temp file of a save starts empty: offsetDB.save
                                 opens a fresh random name with O_TRUNC, offset.Save truncates its fixed
                                 name.  A temp file SURVIVES a save whose rename failed (and a crash); the
                                 mutant FALSE = "fixed name, no truncation" reuses that leftover: a later
                                 SHORTER snapshot (a job went away: RemoveJob) overwrites only its head, and
                                 head + stale tail replaces the good file
        M_SyncBeforeRename       (mechanism, TRUE = the code) ORDER of the steps: every Write, then Sync of the
                                 temp descriptor, and only then Rename (file: ... Sync -> Rename -> Close;
                                 generic: ... Sync -> Close -> Rename).  The mutant FALSE = "rename, then
                                 fsync" (make the snapshot durable under its final name): Write -> Rename ->
                                 Sync -> Close.  It must be rejected by DurableBeforeReplace (the file is
                                 replaced by content that is not durable yet; a crash view is an empty or
                                 partial offsets file) and by FailedStepKeepsOld (when that Sync fails the
                                 good file is already gone although the save reports failure)
      The D_ switches are FALSE and the M_ mechanisms are TRUE in every configuration that describes the code.  The check also runs each mutant
      and TLC MUST reject it (FailedStepKeepsOld / DurableBeforeReplace / AlwaysLoadable violated): this
      keeps "a failed step is never followed by the rename" and "fsync before rename" shown necessary,
      and the mutant's counterexample is a fault schedule that is replayed on the real code.

   3. THE PROPERTIES, declaratively, over every disk state a reader can meet -- the live view and
      every post-crash view:  AlwaysLoadable, NeverAhead, DurableBeforeReplace, FailedStepKeepsOld.

   File content is a sequence of line-level tokens: H(src) (the five header lines of an entry),
   S(src, stream, off) (one stream line) and T (a torn line).  The byte-level format is the
   business of OffsetsFormat.tla.

   The parameterised actions P*(outcome, ...) are reused unchanged by OffsetsFileTrace.tla, which
   replays strace-observed system calls of the real code through them.                           *)
EXTENDS Integers, Sequences, FiniteSets, TLC, Json

CONSTANTS Site,                      \* "file" | "generic"
          NJobs, NStreams,           \* jobs 1..NJobs, streams 1..NStreams
          MaxCommits, MaxSaves,
          Faults,                    \* steps that may fail: subset of {"open","write","sync","rename","close"}
          MaxFaults,
          D_RenameAfterFailedStep,   \* MUTANT (pre-f12db3f): Write/Sync errors are logged, Rename still happens
          D_NoFsync,                 \* MUTANT (pre-5cb7036): offset.Save has no fsync before Rename
          M_ZeroOffsetsWritten,      \* mechanism: offset 0 is written like any other offset (FALSE = mutant)
          M_SyncBeforeRename,        \* mechanism: Sync precedes Rename (FALSE = mutant: Write -> Rename -> Sync -> Close)
          M_TmpStartsEmpty,          \* mechanism: fresh temp name / O_TRUNC (FALSE = mutant: fixed name, no truncation)
          CLen(_),                   \* size of a content: tokens here (TokLen), bytes in OffsetsFileTrace (SegLen)
          MidSaveCommits,            \* commits may interleave with the steps of a save
          CrashAction,               \* explore an explicit Crash step as well
          DoExport,                  \* print replayable schedules
          MaxIno

Jobs    == 1..NJobs
Streams == 1..NStreams
Names   == {"cur"} \cup {"t" \o ToString(k) : k \in 1..8}
Inodes  == 1..MaxIno

VARIABLES
  \* file system
  dir, curDur, vol, base, keep, nextIno,
  \* the saving goroutine (o.mu held from PBegin to the return)
  pc, fd, fpos, tmpName, idx, buf, failed, bad,    \* fpos: file position of the descriptor fd
  \* environment and history
  jobs,      \* jobs[j][s] : offset of stream s of job j, -1 = none            (Job.offsets, under Job.mu)
  held,      \* held[j] : every vector job j has held so far
  ncommits, nsaves, nfaults,
  sched,     \* history of the environment's choices, for replay: <<"c", j, s>> | <<"s", failed steps>>
  sfail,     \* steps that failed in the current save, incl. rename/close (for the schedule only)
  mid,       \* a commit happened inside a save (schedule not replayable by a single thread)
  crashed

fsvars == <<dir, curDur, vol, base, keep, nextIno>>
pvars  == <<pc, fd, fpos, tmpName, idx, buf, failed, bad>>
evars  == <<jobs, held, ncommits, nsaves, nfaults, sched, sfail, mid, crashed>>
vars   == <<fsvars, pvars, evars>>

-----------------------------------------------------------------------------
(* content tokens *)
H(j)       == [t |-> "H", src |-> j, st |-> 0, off |-> 0]
S(j, s, o) == [t |-> "S", src |-> j, st |-> s, off |-> o]
Torn       == [t |-> "T", src |-> 0, st |-> 0, off |-> 0]
AbsentView == <<[t |-> "A", src |-> 0, st |-> 0, off |-> 0]>>       \* the name does not exist

EmptyVec == [s \in Streams |-> -1]
HasOffsets(v) == \E s \in Streams : v[s] # -1
\* what the writer appends for one job (jobs without offsets are skipped)
Entry(j, v) == IF M_ZeroOffsetsWritten
               THEN IF ~HasOffsets(v) THEN <<>>
                    ELSE <<H(j)>> \o SelectSeq([s \in Streams |-> S(j, s, v[s])], LAMBDA tok : tok.off # -1)
               ELSE IF \A s \in Streams : v[s] <= 0 THEN <<>>                                   \* mutant
                    ELSE <<H(j)>> \o SelectSeq([s \in Streams |-> S(j, s, v[s])], LAMBDA tok : tok.off > 0)

\* the previous run left a good, durable offsets file with these vectors
InitVec == [j \in Jobs |-> [s \in Streams |-> IF j = 1 \/ s = 1 THEN 1 ELSE -1]]
RECURSIVE Snapshot(_, _)
Snapshot(js, k) == IF k > NJobs THEN <<>> ELSE Entry(k, js[k]) \o Snapshot(js, k + 1)

-----------------------------------------------------------------------------
(* 1. file system *)
OpenTarget(n) == IF dir[n] # 0 THEN dir[n] ELSE nextIno

FsOpen(n, trunc) ==                      \* open(n, O_CREAT [|O_TRUNC]) succeeded
  LET i == OpenTarget(n) IN
  /\ dir' = [dir EXCEPT ![n] = i]
  /\ nextIno' = IF dir[n] # 0 THEN nextIno ELSE nextIno + 1
  /\ vol'  = IF trunc \/ dir[n] = 0 THEN [vol EXCEPT ![i] = <<>>] ELSE vol
  /\ keep' = IF trunc \/ dir[n] = 0 THEN [keep EXCEPT ![i] = 0] ELSE keep
  /\ base' = IF dir[n] = 0 THEN [base EXCEPT ![i] = <<>>] ELSE base
  /\ curDur' = IF n = "cur" THEN curDur \cup {i} ELSE curDur

TokLen(c) == Len(c)
Min(a, b) == IF a < b THEN a ELSE b
\* the content c after writing d at position p (token granularity): overwrites, extends when it reaches the end
Over(c, p, d) == SubSeq(c, 1, p) \o d \o SubSeq(c, p + Len(d) + 1, Len(c))

FsWrite(i, res, p) ==                    \* a write at position p that left the content res
  /\ vol' = [vol EXCEPT ![i] = res]
  /\ keep' = [keep EXCEPT ![i] = Min(@, p)]
  /\ UNCHANGED <<dir, curDur, base, nextIno>>

FsSync(i) ==                             \* fsync / fdatasync succeeded
  /\ base' = [base EXCEPT ![i] = vol[i]]
  /\ keep' = [keep EXCEPT ![i] = CLen(vol[i])]
  /\ UNCHANGED <<dir, curDur, vol, nextIno>>

FsRename(a, b) ==                        \* rename succeeded (atomic; durability of the entry not implied)
  /\ dir' = [dir EXCEPT ![b] = dir[a], ![a] = 0]
  /\ curDur' = IF b = "cur" THEN curDur \cup {dir[a]} ELSE IF a = "cur" THEN curDur \cup {0} ELSE curDur
  /\ UNCHANGED <<vol, base, keep, nextIno>>

FsUnlink(a) ==
  /\ dir' = [dir EXCEPT ![a] = 0]
  /\ curDur' = IF a = "cur" THEN curDur \cup {0} ELSE curDur
  /\ UNCHANGED <<vol, base, keep, nextIno>>

Durable(i) == base[i] = vol[i] /\ keep[i] = CLen(vol[i])

\* every content a crash may leave in a sequence c whose first k tokens are safe
PrefixViews(c, k) == {SubSeq(c, 1, n) : n \in k..Len(c)} \cup {Append(SubSeq(c, 1, n), Torn) : n \in k..(Len(c) - 1)}
DurableContents(i) == {base[i]} \cup PrefixViews(vol[i], keep[i])
\* what a failed write may leave behind: any proper prefix, possibly torn
Partials(data) == IF data = <<>> THEN {<<>>}
                  ELSE {SubSeq(data, 1, n) : n \in 0..(Len(data) - 1)} \cup {Append(SubSeq(data, 1, n), Torn) : n \in 0..(Len(data) - 1)}

NowView    == IF dir["cur"] = 0 THEN AbsentView ELSE vol[dir["cur"]]
CrashViews == UNION {IF i = 0 THEN {AbsentView} ELSE DurableContents(i) : i \in curDur}
AllViews   == {NowView} \cup CrashViews

(* the line-level reading of a content (what offsetDB.load returns; Err = load error = start-up panic) *)
Err == [ok |-> FALSE, tab |-> <<>>]
Ok(tab) == [ok |-> TRUE, tab |-> tab]
Load(c) ==
  IF c = AbsentView THEN Ok([j \in Jobs |-> EmptyVec])
  ELSE IF \E i \in 1..Len(c) : c[i].t \notin {"H", "S"} THEN Err                       \* torn line
  ELSE IF \E i, k \in 1..Len(c) : i < k /\ c[i].t = "H" /\ c[k].t = "H" /\ c[i].src = c[k].src THEN Err  \* duplicate
  ELSE Ok([j \in Jobs |-> [s \in Streams |->
          IF \E i \in 1..Len(c) : c[i].t = "S" /\ c[i].src = j /\ c[i].st = s
          THEN c[CHOOSE i \in 1..Len(c) : c[i].t = "S" /\ c[i].src = j /\ c[i].st = s].off ELSE -1]])

-----------------------------------------------------------------------------
(* 2. the save protocol; every P-action defines fsvars' and pvars' *)
TmpOf(k) == IF Site = "file" /\ M_TmpStartsEmpty THEN "t" \o ToString(k) ELSE "t1"    \* fresh random name | fixed name
Relevant == {"open", "write", "sync"}                              \* the steps FailedStepKeepsOld talks about

PBegin ==      \* o.mu.Lock (file) / call of Save (generic)
  /\ pc = "idle"
  /\ pc' = "open" /\ failed' = {} /\ buf' = <<>> /\ idx' = 1
  /\ UNCHANGED <<fd, fpos, tmpName, bad>> /\ UNCHANGED fsvars

POpen(ok, name) ==    \* O_CREATE|O_TRUNC (the mutant of M_TmpStartsEmpty: O_CREATE only); the position starts at 0
  /\ pc = "open"
  /\ tmpName' = name
  /\ IF ok THEN /\ FsOpen(name, M_TmpStartsEmpty) /\ fd' = OpenTarget(name) /\ pc' = "snap" /\ failed' = failed
           ELSE /\ UNCHANGED fsvars /\ fd' = 0 /\ pc' = "idle" /\ failed' = failed \cup {"open"}   \* return
  /\ fpos' = 0
  /\ UNCHANGED <<idx, buf, bad>>

PSnap ==       \* one iteration of `for _, job := range snapshot` under job.mu (generic: the value passed in)
  /\ pc = "snap"
  /\ IF idx <= NJobs THEN /\ buf' = buf \o Entry(idx, jobs[idx]) /\ idx' = idx + 1 /\ pc' = pc
                     ELSE /\ pc' = "write" /\ UNCHANGED <<buf, idx>>
  /\ UNCHANGED <<fd, fpos, tmpName, failed, bad>> /\ UNCHANGED fsvars

PWrite(ok, res, n) == \* one Write at the descriptor's position: res = the file's content afterwards, n = units written
  /\ pc = "write"
  /\ FsWrite(fd, res, fpos)
  /\ fpos' = fpos + n
  /\ IF ok THEN /\ failed' = failed
                /\ pc' = IF ~M_SyncBeforeRename THEN "rename"                             \* mutant: rename first
                         ELSE IF Site = "generic" /\ D_NoFsync THEN "close" ELSE "sync"
           ELSE /\ failed' = failed \cup {"write"}
                /\ pc' = IF Site = "generic" THEN "close"                               \* return err (deferred Close)
                         ELSE IF D_RenameAfterFailedStep THEN "sync"                    \* mutant: error only logged
                         ELSE "unlink"                                                  \* os.Remove(tmp); return
  /\ UNCHANGED <<fd, tmpName, idx, buf, bad>>

PSync(ok) ==
  /\ pc = "sync"
  /\ IF ok THEN /\ FsSync(fd) /\ failed' = failed /\ bad' = bad
                /\ pc' = IF ~M_SyncBeforeRename THEN "close" ELSE IF Site = "file" THEN "rename" ELSE "close"
           ELSE /\ UNCHANGED fsvars /\ failed' = failed \cup {"sync"}
                \* a Sync that fails when this save's file has ALREADY replaced the offsets file: the unsuccessful save replaced it
                /\ bad' = bad \cup (IF dir["cur"] = fd THEN {"replaced_after_failed_step"} ELSE {})
                /\ pc' = IF ~M_SyncBeforeRename \/ Site = "generic" THEN "close"
                         ELSE IF D_RenameAfterFailedStep THEN "rename"                  \* mutant: error only logged
                         ELSE "unlink"
  /\ UNCHANGED <<fd, fpos, tmpName, idx, buf>>

PUnlink(ok) == \* `_ = os.Remove(tmp)` on the error path of offsetDB.save; its own error is ignored
  /\ pc = "unlink"
  /\ IF ok THEN FsUnlink(tmpName) ELSE UNCHANGED fsvars
  /\ pc' = "close"
  /\ UNCHANGED <<fd, fpos, tmpName, idx, buf, failed, bad>>

PRename(ok) ==
  /\ pc = "rename"
  /\ LET i == dir[tmpName] IN
       bad' = bad \cup (IF ok /\ failed \cap Relevant # {} THEN {"replaced_after_failed_step"} ELSE {})
                  \cup (IF ok /\ ~Durable(i) THEN {"replaced_by_undurable"} ELSE {})
  /\ IF ok THEN FsRename(tmpName, "cur") ELSE UNCHANGED fsvars
  /\ pc' = IF ~M_SyncBeforeRename THEN (IF ok THEN "sync" ELSE "close")                  \* mutant: Sync comes after
           ELSE IF Site = "file" THEN "close" ELSE "idle"
  /\ UNCHANGED <<fd, fpos, tmpName, idx, buf, failed>>

PClose(ok) ==  \* the descriptor is released whether or not close reports an error; the error is ignored/logged
  /\ pc = "close"
  /\ fd' = 0
  /\ pc' = IF Site = "file" \/ ~M_SyncBeforeRename THEN "idle" ELSE IF failed \cap Relevant = {} THEN "rename" ELSE "idle"
  /\ UNCHANGED <<fpos, tmpName, idx, buf, failed, bad>> /\ UNCHANGED fsvars

-----------------------------------------------------------------------------
(* environment *)
CanFail(step) == step \in Faults /\ nfaults < MaxFaults
Outcomes(step) == IF CanFail(step) THEN {TRUE, FALSE} ELSE {TRUE}

Commit(j, s) ==       \* a removed job (RemoveJob) receives no commits: jobProvider.commit finds no job and returns
  /\ ncommits < MaxCommits /\ HasOffsets(jobs[j])
  /\ MidSaveCommits \/ pc = "idle"
  /\ LET v == [jobs[j] EXCEPT ![s] = IF @ = -1 THEN 1 ELSE @ + 1] IN
       /\ jobs' = [jobs EXCEPT ![j] = v]
       /\ held' = [held EXCEPT ![j] = @ \cup {v}]
  /\ ncommits' = ncommits + 1
  /\ mid' = (mid \/ pc # "idle")
  /\ sched' = IF mid \/ pc # "idle" THEN <<>> ELSE Append(sched, <<"c", j, s>>)
  /\ UNCHANGED <<nsaves, nfaults, sfail, crashed>> /\ UNCHANGED fsvars /\ UNCHANGED pvars

Truncate(j) == \* jobProvider.truncateJob: under the job lock every stream of the job is reset to 0
  /\ Site = "file" /\ ncommits < MaxCommits
  /\ MidSaveCommits \/ pc = "idle"
  /\ \E s \in Streams : jobs[j][s] > 0
  /\ LET v == [s \in Streams |-> IF jobs[j][s] = -1 THEN -1 ELSE 0] IN
       /\ jobs' = [jobs EXCEPT ![j] = v]
       /\ held' = [held EXCEPT ![j] = @ \cup {v}]
  /\ ncommits' = ncommits + 1
  /\ mid' = (mid \/ pc # "idle")
  /\ sched' = IF mid \/ pc # "idle" THEN <<>> ELSE Append(sched, <<"t", j, 0>>)
  /\ UNCHANGED <<nsaves, nfaults, sfail, crashed>> /\ UNCHANGED fsvars /\ UNCHANGED pvars

RemoveJob(j) == \* jobProvider.deleteJobAndUnlock (the watched file is gone): the job leaves jp.jobs, the next
                \* snapshot has no entry for it; "no offsets" becomes a legitimate reading for this source
  /\ Site = "file" /\ ncommits < MaxCommits
  /\ pc = "idle" /\ HasOffsets(jobs[j])
  /\ jobs' = [jobs EXCEPT ![j] = EmptyVec]
  /\ held' = [held EXCEPT ![j] = @ \cup {EmptyVec}]
  /\ ncommits' = ncommits + 1
  /\ sched' = IF mid THEN <<>> ELSE Append(sched, <<"r", j, 0>>)
  /\ UNCHANGED <<nsaves, nfaults, sfail, mid, crashed>> /\ UNCHANGED fsvars /\ UNCHANGED pvars

Begin == /\ nsaves < MaxSaves /\ PBegin /\ nsaves' = nsaves + 1 /\ sfail' = {}
         /\ sched' = sched
         /\ UNCHANGED <<jobs, held, ncommits, nfaults, mid, crashed>>

Do(A, ok, name) ==
  /\ A
  /\ nfaults' = (IF ok THEN nfaults ELSE nfaults + 1)
  /\ sfail' = (IF ok THEN sfail ELSE sfail \cup {name})
  /\ sched' = (IF mid THEN <<>> ELSE IF pc' = "idle" THEN Append(sched, <<"s", sfail'>>) ELSE sched)
  /\ UNCHANGED <<jobs, held, ncommits, nsaves, mid, crashed>>

Crash ==       \* power loss: the durable state becomes the state
  /\ CrashAction /\ ~crashed
  /\ \E i \in curDur :
       \E c \in (IF i = 0 THEN {<<>>} ELSE DurableContents(i)) :
         /\ dir' = [n \in Names |-> IF n = "cur" THEN i ELSE 0]
         /\ curDur' = {i}
         /\ vol'  = IF i = 0 THEN vol  ELSE [vol  EXCEPT ![i] = c]
         /\ base' = IF i = 0 THEN base ELSE [base EXCEPT ![i] = c]
         /\ keep' = IF i = 0 THEN keep ELSE [keep EXCEPT ![i] = Len(c)]
  /\ crashed' = TRUE /\ pc' = "crashed" /\ fd' = 0
  /\ UNCHANGED <<nextIno, fpos, tmpName, idx, buf, failed, bad, jobs, held, ncommits, nsaves, nfaults, sched, mid, sfail>>

Init ==
  /\ dir = [n \in Names |-> IF n = "cur" THEN 1 ELSE 0]
  /\ curDur = {1}
  /\ vol  = [i \in Inodes |-> IF i = 1 THEN Snapshot(InitVec, 1) ELSE <<>>]
  /\ base = vol
  /\ keep = [i \in Inodes |-> Len(vol[i])]
  /\ nextIno = 2
  /\ pc = "idle" /\ fd = 0 /\ fpos = 0 /\ tmpName = "t1" /\ idx = 1 /\ buf = <<>> /\ failed = {} /\ bad = {}
  /\ jobs = InitVec /\ held = [j \in Jobs |-> {InitVec[j]}]
  /\ ncommits = 0 /\ nsaves = 0 /\ nfaults = 0 /\ sched = <<>> /\ mid = FALSE /\ crashed = FALSE
  /\ sfail = {}

Next ==
  /\ ~crashed
  /\ \/ \E j \in Jobs, s \in Streams : Commit(j, s)
     \/ \E j \in Jobs : Truncate(j)
     \/ \E j \in Jobs : RemoveJob(j)
     \/ Begin
     \/ \E ok \in Outcomes("open")   : Do(POpen(ok, TmpOf(nsaves)), ok, "open")
     \/ Do(PSnap, TRUE, "snap")
     \/ Do(PWrite(TRUE, Over(vol[fd], fpos, buf), Len(buf)), TRUE, "write")
     \/ CanFail("write") /\ \E d \in Partials(buf) : Do(PWrite(FALSE, Over(vol[fd], fpos, d), Len(d)), FALSE, "write")
     \/ \E ok \in Outcomes("sync")   : Do(PSync(ok), ok, "sync")
     \/ \E ok \in Outcomes("rename") : Do(PRename(ok), ok, "rename")
     \/ \E ok \in Outcomes("close")  : Do(PClose(ok), ok, "close")
     \/ \E ok \in Outcomes("unlink") : Do(PUnlink(ok), ok, "unlink")
     \/ Crash

Spec == Init /\ [][Next]_vars

-----------------------------------------------------------------------------
(* 3. properties *)
TypeOK ==
  /\ pc \in {"idle", "open", "snap", "write", "sync", "rename", "close", "unlink", "crashed"}
  /\ nextIno <= MaxIno + 1
  /\ \A j \in Jobs : jobs[j] \in held[j]

\* every disk state a reader can meet -- now, or after a crash at this instant -- loads, and loads, job by
\* job, to a vector that job held at some earlier moment (cross-job atomicity is not demanded)
AlwaysLoadableP == \A c \in AllViews : Load(c).ok /\ \A j \in Jobs : Load(c).tab[j] \in held[j]
\* ... and never beyond anything committed so far (a truncation lowers the current table, hence "some held vector")
NeverAheadP     == \A c \in AllViews : Load(c).ok => \A j \in Jobs, s \in Streams : \E v \in held[j] : Load(c).tab[j][s] <= v[s]
\* the offsets file was replaced only by a file whose complete content had been fsynced
DurableBeforeReplaceP == "replaced_by_undurable" \notin bad
\* no save in which an Open/Write/Sync failed has replaced the offsets file -- neither by a Rename after the failure nor
\* (steps out of order) by a Rename before it
FailedStepKeepsOldP   == "replaced_after_failed_step" \notin bad

AlwaysLoadable       == AlwaysLoadableP
NeverAhead           == NeverAheadP
DurableBeforeReplace == DurableBeforeReplaceP
FailedStepKeepsOld   == FailedStepKeepsOldP

-----------------------------------------------------------------------------
(* export of every replayable schedule (commits only between saves) with the declarative expectation:
   mayReplace[k] = save k is allowed to replace the offsets file (no Open/Write/Sync failure) *)
RECURSIVE SaveFails(_)
SaveFails(sc) == IF sc = <<>> THEN <<>>
                 ELSE (IF Head(sc)[1] = "s" THEN <<Head(sc)[2]>> ELSE <<>>) \o SaveFails(Tail(sc))
RECURSIVE Steps(_)
Steps(sc) == IF sc = <<>> THEN <<>>
             ELSE <<(IF Head(sc)[1] = "c"
                     THEN [op |-> "commit", job |-> Head(sc)[2], stream |-> Head(sc)[3], fails |-> {}]
                     ELSE IF Head(sc)[1] = "t"
                     THEN [op |-> "truncate", job |-> Head(sc)[2], stream |-> 0, fails |-> {}]
                     ELSE IF Head(sc)[1] = "r"
                     THEN [op |-> "remove", job |-> Head(sc)[2], stream |-> 0, fails |-> {}]
                     ELSE [op |-> "save", job |-> 0, stream |-> 0, fails |-> Head(sc)[2]])>> \o Steps(Tail(sc))
ExportRec == [site |-> Site, steps |-> Steps(sched),
              mayReplace |-> [k \in 1..Len(SaveFails(sched)) |-> SaveFails(sched)[k] \cap Relevant = {}],
              modelBad |-> bad]
Export == (DoExport /\ pc = "idle" /\ nsaves = MaxSaves /\ ~mid /\ ~crashed /\ Len(SaveFails(sched)) = MaxSaves)
             => PrintT(ToJson(ExportRec))
=============================================================================
