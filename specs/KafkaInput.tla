----------------------------- MODULE KafkaInput -----------------------------
(* C10 -- what the kafka input marks for commit.

   pconsumer.consume hands the records of a partition to Pipeline.In in offset order with
   sourceID = topicIndex<<16 + partition and offset = offset<<16 + leaderEpoch (kafka.go).
   Plugin.Start selects UseSpread(): the pipeline then routes every record to an arbitrary
   processor (D_Spread), so records of ONE partition finish in any order.  Plugin.Commit unpacks
   the event and marks offset+1 for its topic/partition; franz-go keeps the maximum.

   MarkSafe    : the marked head never passes a record that is neither acknowledged nor dropped.
   MarkOwn     : a mark is made for the record's own topic/partition/epoch, at most one past a consumed record.
   PackRoundTrip: the bit packing of (topic index, partition) and (offset, epoch) is loss-free in range.  *)
EXTENDS Integers, Sequences, FiniteSets, TLC, Json

CONSTANTS NRec,        \* records 1..NRec ; partition of record r is Part[r]
          Parts,       \* set of partitions
          NProcs,
          D_Spread     \* TRUE = the code as it is (spread over processors); FALSE = one FIFO per partition

Rec == 1..NRec

VARIABLES part,      \* [Rec -> Parts]   chosen at Init; offsets grow with the record number inside a partition
          consumed,  \* number of records handed to In (in order)
          where,     \* [Rec -> 0 (not consumed) | processor | -1 finished]
          fate,      \* [Rec -> "none" | "inflight" | "acked" | "dropped"]
          marks,     \* [Parts -> head]
          bad        \* history: violation records

vars == <<part, consumed, where, fate, marks, bad>>

OffOf(r) == Cardinality({q \in Rec : q < r /\ part[q] = part[r]})       \* 0-based offset inside its partition

Init == /\ part \in [Rec -> Parts]
        /\ consumed = 0
        /\ where = [r \in Rec |-> 0]
        /\ fate = [r \in Rec |-> "none"]
        /\ marks = [p \in Parts |-> 0]
        /\ bad = {}

\* In: routed to a processor: free choice when spread, else the partition's own queue (processor = partition)
Consume == /\ consumed < NRec
           /\ LET r == consumed + 1 IN
                \E p \in 1..NProcs :
                  /\ (~D_Spread => p = 1 + (part[r] % NProcs))
                  /\ where' = [where EXCEPT ![r] = p]
                  /\ fate' = [fate EXCEPT ![r] = "inflight"]
           /\ consumed' = consumed + 1
           /\ UNCHANGED <<part, marks, bad>>

\* a processor finishes its OLDEST record: dropped by an action (no commit) ...
HeadOf(p) == LET mine == {r \in Rec : where[r] = p} IN IF mine = {} THEN 0 ELSE CHOOSE r \in mine : \A q \in mine : r <= q
Drop(p) == /\ HeadOf(p) # 0
           /\ fate' = [fate EXCEPT ![HeadOf(p)] = "dropped"]
           /\ where' = [where EXCEPT ![HeadOf(p)] = -1]
           /\ UNCHANGED <<part, consumed, marks, bad>>

\* ... or acknowledged by the output and committed: MarkCommitOffsets(topic, partition, offset+1), head = max
Unfinished(p, head) == {q \in Rec : part[q] = p /\ fate[q] = "inflight" /\ OffOf(q) < head}
AckCommit(p) ==
  /\ HeadOf(p) # 0
  /\ LET r == HeadOf(p)
         tp == part[r]
         head == IF marks[tp] > OffOf(r) + 1 THEN marks[tp] ELSE OffOf(r) + 1
     IN /\ fate' = [fate EXCEPT ![r] = "acked"]
        /\ where' = [where EXCEPT ![r] = -1]
        /\ marks' = [marks EXCEPT ![tp] = head]
        /\ bad' = bad \cup {[kind |-> "mark_past_unfinished", rec |-> r, other |-> q] :
                              q \in {x \in Rec : x # r /\ part[x] = tp /\ fate[x] = "inflight" /\ OffOf(x) < head}}
  /\ UNCHANGED <<part, consumed>>

Next == Consume \/ \E p \in 1..NProcs : Drop(p) \/ AckCommit(p)
Spec == Init /\ [][Next]_vars

MarkSafe == bad = {}
MarkOwn == \A p \in Parts : marks[p] <= Cardinality({r \in Rec : part[r] = p /\ fate[r] # "none"})
MarkMonotone == [][\A p \in Parts : marks'[p] >= marks[p]]_vars

-----------------------------------------------------------------------------
(* bit packing (kafka.go: assembleSourceID / disassembleSourceID / assembleOffset / disassembleOffset) *)
PackSrc(idx, p) == idx * 65536 + p
UnpackSrc(s) == <<s \div 65536, s % 65536>>
PackOff(off, epoch) == off * 65536 + epoch
UnpackOff(a) == <<(a \div 65536) + 1, a % 65536>>       \* the mark is offset + 1

Idxs == {0, 1, 3}
PartVals == {0, 1, 255, 65535}
OffVals == {0, 1, 2, 32766}                             \* TLC integers are 32-bit: large offsets (up to 2^47-1) are replayed on the real functions by the driver with the same formulas
EpochVals == {0, 1, 65535}
PackRoundTrip ==
  /\ \A i \in Idxs, p \in PartVals : UnpackSrc(PackSrc(i, p)) = <<i, p>>
  /\ \A o \in OffVals, e \in EpochVals : UnpackOff(PackOff(o, e)) = <<o + 1, e>>
PackCases == {[idx |-> i, part |-> p, off |-> o, epoch |-> e, src |-> PackSrc(i, p), packed |-> PackOff(o, e),
               mark |-> UnpackOff(PackOff(o, e))[1]] : i \in Idxs, p \in PartVals, o \in OffVals, e \in EpochVals}
ExportPack == (consumed = 0 /\ \A r \in Rec : part[r] = CHOOSE p \in Parts : TRUE) => PrintT(ToJson([pack |-> PackCases]))
=============================================================================
