SPECIFICATION Spec
CONSTANTS
  Names = {"f", "f1", "f2"}
  MaxInode = 3
  MaxOps = 4
  M_JobDescribedByOpenedFile = TRUE
INVARIANTS TypeOK KeyIsOpenedFile
PROPERTIES AllDiscovered
CHECK_DEADLOCK FALSE
