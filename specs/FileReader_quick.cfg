SPECIFICATION Spec
CONSTANTS
  MaxLen = 5
  Alphabet = {0, 1}
  M_MaintenanceKeepsTail = TRUE
  M_MaintenanceSkipsBusyJob = TRUE
  Ms = {0, 1, 2, 3}
INVARIANTS TypeOK LinesExactlyOnce CallsAreLines TailIsRemainder AccumBounded Export
CHECK_DEADLOCK FALSE
