---------------------------- MODULE OffsetsFormat ----------------------------
(* C07, round-trip clause -- the textual format of the file input's offsets file
   (plugin/input/file/offset.go), at BYTE level: the writer inside offsetDB.save and the
   line-oriented parser offsetDB.parse / parseOne / parseStreams / parseLine / parseOptionalLine
   are transcribed statement by statement over byte sequences.  File names and stream names
   range over all sequences (up to a length bound, including the empty one) of a small alphabet
   of *name symbols* that contains exactly the bytes the parser treats specially --
   ':' (separator, split at the LAST one), ' ' (indentation), '\n' (line end), '-' (start of the
   next entry) -- plus a plain letter and a non-ASCII (two byte) letter.  Numbers are symbolic
   (0, 1, 2, 2^63-1, 2^64-1) because TLC integers are 32 bit; their decimal renderings are literal.

   Declarative property (RoundTrip):  Parse(PrintTable(t)) = t  for EVERY job table t, as a MAP
   source -> (stream -> offset) on the whole domain of offsets INCLUDING 0: a stream whose offset is 0
   (what truncateJob leaves: every stream of the job reset to 0) must come back PRESENT with offset 0,
   not absent -- the resume rule seeks to the minimum loaded offset, so a dropped zero stream moves
   the restart point past events that were never committed.  Mechanism switch M_ZeroOffsetsWritten
   (TRUE = the code: the writer emits every stream of a job that has any stream, whatever its offset);
   the mutant FALSE ("a zero offset carries no information": zero streams and all-zero jobs are
   skipped) must be REJECTED by TLC (R_RoundTrip violated).
   The code does not satisfy it for stream names that are empty or contain a newline and for file
   names that contain a newline (DESIGN.md section 8, D8).  That set is the named deviation
   D8Class; the residual invariant R_RoundTrip proves that nothing else breaks the round trip,
   ModelD8 proves that everything in the class does, and the faithful configuration
   (Unconditional = TRUE) makes TLC produce the counterexample.

   BYTE TRANSPARENCY.  Besides the structural alphabet the case space contains ExtraNames /
   ExtraFileNames: names made of the bytes a naive writer or parser could trip on although this
   format gives them no meaning -- '%' and whole format directives ("%d", "%s", "%%", "a%20b",
   "%!d(MISSING)"), backslash, quotes, tab, CR, '#', braces, YAML-ish scalars.  The writer must copy a
   name VERBATIM; mechanism switch M_NamesVerbatim (TRUE = the code).  The mutant FALSE = "the name is
   interpreted as a format" (every "%x" pair is consumed / expanded the way fmt does with a missing
   operand) must be REJECTED by TLC (R_RoundTrip violated).

   KEY OF AN ENTRY.  Two jobs may share an inode under different source ids (sourceIDByStat mixes the
   symlink name in: one file watched directly and through a symlink, the k8s layout); the case space
   contains such tables and the round trip must hold: the key of an entry is the SOURCE ID
   (mechanism M_KeyIsSourceId, TRUE = the code).  The mutant FALSE = "an inode must be unique too"
   must be REJECTED by TLC.

   One behaviour = one table (kept in the variable t).  Export prints every table with the
   declaratively expected result (the table itself) and the transcription's prediction; the
   real save/load pair is executed on every exported table by the Go harness.                *)
EXTENDS Integers, Sequences, FiniteSets, TLC, Json

CONSTANTS NameSyms,       \* name symbols: 1 'a'  2 ':'  3 ' '  4 '\n'  5 '-'  6 'e-acute' (2 bytes)
          MaxName1,       \* length bound of the first stream name
          MaxName2,       \* length bound of the second stream name
          Unconditional,  \* TRUE: check RoundTrip for every table (faithful: D8 counterexample expected)
          M_KeyIsSourceId,       \* mechanism: entries are keyed by source id only (FALSE = mutant: inode must be unique too)
          M_NamesVerbatim,       \* mechanism: names are copied byte for byte (FALSE = mutant: name used as a format string)
          M_ZeroOffsetsWritten   \* mechanism: streams with offset 0 are written like any other (FALSE = mutant)

VARIABLE t

NL == 10
SymBytes(s) == CASE s = 1 -> <<97>> [] s = 2 -> <<58>> [] s = 3 -> <<32>> [] s = 4 -> <<10>>
                 [] s = 5 -> <<45>> [] s = 6 -> <<195, 169>> [] OTHER -> <<s>>     \* s > 6: the byte itself

RECURSIVE Bytes(_)
Bytes(name) == IF name = <<>> THEN <<>> ELSE SymBytes(Head(name)) \o Bytes(Tail(name))

KwFile    == <<45,32,102,105,108,101,58,32>>                                               \* "- file: "
KwInode   == <<32,32,105,110,111,100,101,58,32>>                                           \* "  inode: "
KwSrc     == <<32,32,115,111,117,114,99,101,95,105,100,58,32>>                             \* "  source_id: "
KwTs      == <<32,32,108,97,115,116,95,114,101,97,100,95,116,105,109,101,115,116,97,109,112,58,32>>
                                                                                           \* "  last_read_timestamp: "
KwStreams == <<32,32,115,116,114,101,97,109,115,58>>                                       \* "  streams:"
Indent    == <<32,32,32,32>>
Sep       == <<58,32>>                                                                     \* ": "

(* symbolic numbers: id -> decimal rendering (strconv.AppendUint / AppendInt) *)
NumIds == {0, 1, 2, 63, 64}
Digits(n) == CASE n = 0 -> <<48>> [] n = 1 -> <<49>> [] n = 2 -> <<50>>
               [] n = 63 -> <<57,50,50,51,51,55,50,48,51,54,56,53,52,55,55,53,56,48,55>>       \* 2^63-1
               [] n = 64 -> <<49,56,52,52,54,55,52,52,48,55,51,55,48,57,53,53,49,54,49,53>>    \* 2^64-1
Err == [ok |-> FALSE]
\* strconv.ParseUint(s, 10, 64) / strconv.ParseInt(s, 10, 64) on the strings that can arise
ParseUint(s) == IF \E n \in NumIds : Digits(n) = s THEN [ok |-> TRUE, n |-> CHOOSE n \in NumIds : Digits(n) = s] ELSE Err
ParseInt(s)  == IF \E n \in NumIds \ {64} : Digits(n) = s THEN [ok |-> TRUE, n |-> CHOOSE n \in NumIds : Digits(n) = s] ELSE Err

-----------------------------------------------------------------------------
(* the case space *)
RECURSIVE SeqsUpTo(_, _)
SeqsUpTo(S, n) == IF n = 0 THEN {<<>>} ELSE LET r == SeqsUpTo(S, n - 1) IN r \cup {Append(x, s) : x \in {y \in r : Len(y) = n - 1}, s \in S}

ExtraNames == { <<37>>,   \* '%'
                <<37,100>>,   \* '%d'
                <<37,115>>,   \* '%s'
                <<37,118>>,   \* '%v'
                <<37,37>>,   \* '%%'
                <<97,37>>,   \* 'a%'
                <<37,97>>,   \* '%a'
                <<97,37,50,48,98>>,   \* 'a%20b'
                <<117,115,97,103,101,37,100,45,114,101,112,111,114,116>>,   \* 'usage%d-report'
                <<37,33,100,40,77,73,83,83,73,78,71,41>>,   \* '%!d(MISSING)'
                <<37,91,49,93,100>>,   \* '%[1]d'
                <<37,53,46,50,102>>,   \* '%5.2f'
                <<37,33,40,78,79,86,69,82,66,41>>,   \* '%!(NOVERB)'
                <<92>>,   \* '\\'
                <<92,110>>,   \* '\\n'
                <<97,92>>,   \* 'a\\'
                <<34>>,   \* '"'
                <<34,97,34>>,   \* '"a"'
                <<39>>,   \* "'"
                <<39,97,39>>,   \* "'a'"
                <<9>>,   \* '\t'
                <<97,9,98>>,   \* 'a\tb'
                <<35>>,   \* '#'
                <<35,32,97>>,   \* '# a'
                <<97,32,35,98>>,   \* 'a #b'
                <<123>>,   \* '{'
                <<125>>,   \* '}'
                <<123,97,125>>,   \* '{a}'
                <<123,123,97,125,125>>,   \* '{{a}}'
                <<36,123,97,125>>,   \* '${a}'
                <<97,13,98>>,   \* 'a\rb'
                <<96,97,96>>,   \* '`a`'
                <<42>>,   \* '*'
                <<38,97>>,   \* '&a'
                <<33,97>>,   \* '!a'
                <<124>>,   \* '|'
                <<62>>,   \* '>'
                <<91,97,93>>,   \* '[a]'
                <<64,97>>,   \* '@a'
                <<126>>,   \* '~'
                <<110,117,108,108>>,   \* 'null'
                <<116,114,117,101>>,   \* 'true'
                <<48>>,   \* '0'
                <<45,49>>,   \* '-1'
                <<97,44,98>>,   \* 'a,b'
                <<97,61,98>>,   \* 'a=b'
                <<97,59,98>>,   \* 'a;b'
                <<97,63>>,   \* 'a?'
                <<60,97,62>>,   \* '<a>'
                <<36,40,97,41>> }   \* '$(a)'
ExtraFileNames == { <<114,101,112,111,114,116,37,50,48,120,46,108,111,103>>,   \* 'report%20x.log'
                    <<117,115,97,103,101,37,100,45,114,101,112,111,114,116,46,108,111,103>>,   \* 'usage%d-report.log'
                    <<49,48,48,37,46,108,111,103>>,   \* '100%.log'
                    <<97,92,98,46,108,111,103>>,   \* 'a\\b.log'
                    <<105,116,39,115,32,34,120,34,46,108,111,103>>,   \* 'it\'s "x".log'
                    <<97,9,98,35,123,99,125,46,108,111,103>> }   \* 'a\tb#{c}.log'

\* the mutant writer: the name goes through a formatter with no operands left for it:
\* "%%" -> "%", "%x" -> "%!x(MISSING)", a trailing '%' -> "%!(NOVERB)"
RECURSIVE Fmt(_)
Fmt(b) == IF b = <<>> THEN <<>>
          ELSE IF b[1] # 37 THEN <<b[1]>> \o Fmt(Tail(b))
          ELSE IF Len(b) = 1 THEN <<37,33,40,78,79,86,69,82,66,41>>
          ELSE IF b[2] = 37 THEN <<37>> \o Fmt(SubSeq(b, 3, Len(b)))
          ELSE <<37,33,b[2],40,77,73,83,83,73,78,71,41>> \o Fmt(SubSeq(b, 3, Len(b)))
NameOut(name) == IF M_NamesVerbatim THEN Bytes(name) ELSE Fmt(Bytes(name))

Names1 == SeqsUpTo(NameSyms, MaxName1)
Names2 == SeqsUpTo(NameSyms, MaxName2)
FileNames == {<<1>>, <<1, 3, 1>>, <<1, 4, 1>>}             \* "a"  "a a"  "a\na"
Offs == {0, 1, 63}                                          \* 0, 1, 2^63-1

Job(f, ino, src, strs) == [file |-> f, inode |-> ino, src |-> src, streams |-> strs]
Stream(n, o) == [name |-> n, off |-> o]

\* no second job | an unrelated second job | a second job with the SAME inode under another source id (symlink)
SecondJob(k, ino1) == CASE k = 0 -> <<>>
                        [] k = 1 -> <<Job(<<1>>, 2, 2, <<Stream(<<1>>, 2)>>)>>
                        [] k = 2 -> <<Job(<<1, 3, 1>>, ino1, 2, <<Stream(<<1>>, 2)>>)>>
StructTables ==      \* the structural alphabet, exhaustively
  { [jobs |-> <<Job(f, big, big, s1)>> \o SecondJob(k2, big)] :
      f \in FileNames, big \in {1, 64},
      s1 \in { <<Stream(n1, o1)>> : n1 \in Names1, o1 \in Offs }
             \cup { <<Stream(n1, o1), Stream(n2, o2)>> : n1 \in Names1, o1 \in Offs, n2 \in Names2, o2 \in {0, 1} }
             \cup { <<>> },
      k2 \in {0, 1, 2} }
ExtraTables ==       \* byte transparency: every extra stream name x every file name, every extra file name
  { [jobs |-> <<Job(f, big, big, s1)>> \o SecondJob(k2, big)] :
      f \in FileNames \cup ExtraFileNames, big \in {1, 64},
      s1 \in { <<Stream(n1, o1)>> : n1 \in ExtraNames, o1 \in Offs }
             \cup { <<Stream(n1, 1), Stream(n2, 1)>> : n1 \in ExtraNames, n2 \in {<<1>>, <<37, 100>>} }
             \cup { <<Stream(<<1>>, 1)>> },
      k2 \in {0, 1, 2} }
Tables == StructTables \cup ExtraTables

\* a SliceMap holds each stream name once
WellFormed(tb) == \A k \in 1..Len(tb.jobs) :
                     \A i, j \in 1..Len(tb.jobs[k].streams) : i # j => tb.jobs[k].streams[i].name # tb.jobs[k].streams[j].name

-----------------------------------------------------------------------------
(* the writer: offsetDB.save, lines 258-291 *)
RECURSIVE PrintStreams(_)
PrintStreams(ss) == IF ss = <<>> THEN <<>>
                    ELSE IF ~M_ZeroOffsetsWritten /\ Head(ss).off = 0 THEN PrintStreams(Tail(ss))   \* mutant only
                    ELSE Indent \o NameOut(Head(ss).name) \o Sep \o Digits(Head(ss).off) \o <<NL>> \o PrintStreams(Tail(ss))

PrintJob(j) ==
  IF j.streams = <<>> THEN <<>>                                     \* len(job.offsets) == 0: skipped
  ELSE IF ~M_ZeroOffsetsWritten /\ \A i \in 1..Len(j.streams) : j.streams[i].off = 0 THEN <<>>       \* mutant only
  ELSE KwFile \o NameOut(j.file) \o <<NL>> \o KwInode \o Digits(j.inode) \o <<NL>>
       \o KwSrc \o Digits(j.src) \o <<NL>> \o KwTs \o Digits(0) \o <<NL>>
       \o KwStreams \o <<NL>> \o PrintStreams(j.streams)

RECURSIVE PrintJobs(_)
PrintJobs(js) == IF js = <<>> THEN <<>> ELSE PrintJob(Head(js)) \o PrintJobs(Tail(js))
PrintTable(tb) == PrintJobs(tb.jobs)

-----------------------------------------------------------------------------
(* the parser *)
IndexByte(c, b) == IF \E i \in 1..Len(c) : c[i] = b THEN CHOOSE i \in 1..Len(c) : c[i] = b /\ \A j \in 1..(i - 1) : c[j] # b ELSE 0
LastIndexByte(c, b) == IF \E i \in 1..Len(c) : c[i] = b THEN CHOOSE i \in 1..Len(c) : c[i] = b /\ \A j \in (i + 1)..Len(c) : c[j] # b ELSE 0
HasPrefix(c, p) == Len(c) >= Len(p) /\ SubSeq(c, 1, Len(p)) = p
From(c, k) == SubSeq(c, k, Len(c))

\* parseLine(content, prefix) -> (value, remaining, err)
ParseLine(c, p) ==
  IF c = <<>> THEN Err
  ELSE LET k == IndexByte(c, NL) IN
       IF k = 0 THEN Err
       ELSE LET line == SubSeq(c, 1, k - 1) IN
            IF ~HasPrefix(line, p) THEN Err
            ELSE [ok |-> TRUE, val |-> From(line, Len(p) + 1), rest |-> From(c, k + 1)]

\* parseOptionalLine
ParseOptionalLine(c, p) ==
  IF c = <<>> THEN [ok |-> TRUE, val |-> <<>>, rest |-> c]
  ELSE IF HasPrefix(c, p) THEN ParseLine(c, p)
  ELSE [ok |-> TRUE, val |-> <<>>, rest |-> c]

\* the loop of parseStreams; streams = set of <<name bytes, number id>> collected so far.
\* `line[pos+2:]` panics (slice bounds) when ':' is the last byte of the line: reported as an error here.
RECURSIVE StreamLoop(_, _)
StreamLoop(c, streams) ==
  IF c = <<>> \/ c[1] = 45 THEN [ok |-> TRUE, streams |-> streams, rest |-> c]
  ELSE LET k == IndexByte(c, NL) IN
       IF k = 0 THEN Err
       ELSE LET line == SubSeq(c, 1, k - 1)
                linePos == k - 1
            IN IF linePos < 5 \/ SubSeq(line, 1, 4) # Indent THEN Err
               ELSE LET pos == LastIndexByte(line, 58) IN     \* 1-based; Go's pos = this - 1
                    IF pos = 0 THEN Err
                    ELSE LET stream == SubSeq(line, 5, pos - 1) IN
                         IF stream = <<>> THEN Err
                         ELSE IF \E x \in streams : x[1] = stream THEN Err
                         ELSE IF pos + 1 > Len(line) THEN Err            \* line[pos+2:] out of range: panic
                         ELSE LET o == ParseInt(From(line, pos + 2)) IN
                              IF ~o.ok THEN Err
                              ELSE StreamLoop(From(c, k + 1), streams \cup {<<stream, o.n>>})

ParseStreams(c) ==
  LET h == ParseLine(c, KwStreams) IN IF ~h.ok THEN Err ELSE StreamLoop(h.rest, {})

\* parseOne: one entry; srcs = source ids seen so far
ParseOne(c, srcs) ==
  LET f == ParseLine(c, KwFile) IN IF ~f.ok THEN Err ELSE
  LET i == ParseLine(f.rest, KwInode) IN IF ~i.ok THEN Err ELSE
  LET s == ParseLine(i.rest, KwSrc) IN IF ~s.ok THEN Err ELSE
  LET ts == ParseOptionalLine(s.rest, KwTs) IN IF ~ts.ok THEN Err ELSE
  LET ino == ParseUint(i.val) IN IF ~ino.ok THEN Err ELSE
  LET src == ParseUint(s.val) IN IF ~src.ok THEN Err ELSE
  IF src.n \in srcs THEN Err ELSE
  IF ts.val # <<>> /\ ~ParseInt(ts.val).ok THEN Err ELSE
  LET st == ParseStreams(ts.rest) IN IF ~st.ok THEN Err ELSE
  [ok |-> TRUE, src |-> src.n, ino |-> ino.n, file |-> f.val, streams |-> st.streams, rest |-> st.rest]

RECURSIVE ParseAll(_, _, _)
ParseAll(c, acc, inos) ==
  IF c = <<>> THEN [ok |-> TRUE, table |-> acc]
  ELSE LET one == ParseOne(c, {e.src : e \in acc}) IN
       IF ~one.ok THEN Err
       ELSE IF ~M_KeyIsSourceId /\ one.ino \in inos THEN Err                          \* mutant only
       ELSE ParseAll(one.rest, acc \cup {[src |-> one.src, streams |-> one.streams]}, inos \cup {one.ino})
Parse(c) == ParseAll(c, {}, {})

-----------------------------------------------------------------------------
(* declarative side *)
\* what a fresh load must return for table tb: per source that has offsets, its stream -> offset map
Proj(tb) == { [src |-> tb.jobs[k].src,
               streams |-> { <<Bytes(tb.jobs[k].streams[i].name), tb.jobs[k].streams[i].off>> : i \in 1..Len(tb.jobs[k].streams) }] :
              k \in {kk \in 1..Len(tb.jobs) : tb.jobs[kk].streams # <<>>} }

RoundTripOf(tb) == LET r == Parse(PrintTable(tb)) IN r.ok /\ r.table = Proj(tb)

HasNL(name) == \E i \in 1..Len(name) : name[i] = 4
\* the named deviation (D8): names the writer emits but the parser cannot read back
D8Stream(tb) == \E k \in 1..Len(tb.jobs) : \E i \in 1..Len(tb.jobs[k].streams) :
                   tb.jobs[k].streams[i].name = <<>> \/ HasNL(tb.jobs[k].streams[i].name)
D8File(tb)   == \E k \in 1..Len(tb.jobs) : tb.jobs[k].streams # <<>> /\ HasNL(tb.jobs[k].file)
D8Class(tb)  == D8Stream(tb) \/ D8File(tb)

Init == t \in {tb \in Tables : WellFormed(tb)}
Next == UNCHANGED t
Spec == Init /\ [][Next]_t

RoundTrip   == Unconditional => RoundTripOf(t)             \* the property; violated by the code (D8)
R_RoundTrip == ~D8Class(t) => RoundTripOf(t)               \* residual: everything outside D8 round-trips
ModelD8     == D8Class(t) => ~Parse(PrintTable(t)).ok           \* ... and everything inside D8 fails to load

ExportRec == [jobs |-> t.jobs, model_ok |-> RoundTripOf(t), d8 |-> D8Class(t)]
Export == PrintT(ToJson(ExportRec))
=============================================================================
