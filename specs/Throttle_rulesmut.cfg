SPECIFICATION SpecRule
CONSTANTS
  Slices <- MutantSlices
  Mut = "none"
INVARIANTS FirstMatchingRuleGoverns
CHECK_DEADLOCK FALSE
