\* the mutant: a set over the indices < W -- TLC must find a violation (three masks, W = 2)
SPECIFICATION Spec
CONSTANTS
  NM = 3
  Fields = {"a", "b"}
  W = 2
  M_MaskSetUnbounded = FALSE
INVARIANTS TypeOK IndexIndependent
CHECK_DEADLOCK FALSE
