\* the mutant: case-insensitive prefix / suffix rules look at the shortest value's length only -- TLC must find a violation
SPECIFICATION Spec
CONSTANTS
  MaxData = 2
  MaxVal = 2
  MaxVals = 2
  M_EveryValueTried = FALSE
INVARIANTS TypeOK SomeValueMatches
CHECK_DEADLOCK FALSE
