SPECIFICATION SpecInst
CONSTANTS
  Fams <- InstFams
  D_SwapDelete = TRUE
  M_RemovePerSelector = TRUE
  ScanT = 1
  M_NamesComparedWhole = TRUE
  NameW = 5
  Cap = 2
  M_DepthBuffersDisjoint = TRUE
  M_AllDocumentKindsFiltered = TRUE
  M_BuffersPerInstance = TRUE
INVARIANTS InstInv
CHECK_DEADLOCK FALSE
