\* spec mutant: an indented line never starts a run (M_StartCheckIsTheTemplates off); TLC must violate StatementOK
SPECIFICATION Spec
CONSTANTS
  MaxLen1 = 0
  MaxLen2 = 0
  MaxLenPre = 3
  Ms = {0}
  Pres = {"ind"}
  D5_TimeoutToLastAction = TRUE
  D15_BreakBypassesHold = TRUE
  M_BusyIgnoresSelector = TRUE
  M_PropagateResetsBusyFirst = TRUE
  M_FlushCopiesBuffer = TRUE
  M_StartCheckIsTheTemplates = FALSE
INVARIANTS TypeOK StatementOK
CHECK_DEADLOCK FALSE
