SPECIFICATION Spec
CONSTANTS
  Mode = "gz"
  MaxLen = 0
  SeqLen = 0
  ConcLen = 0
  GzLen = 1
  Symbols = {1, 2}
  Mutant = "gz_double_put"
INVARIANTS TypeOK LinesPrefix LinesExact NoForeignBytes OKOnlyAfterAllLines GoodGets200
CHECK_DEADLOCK FALSE
