\* the mutant: do_if re-evaluated per value on the partially masked event -- TLC must find a violation
SPECIFICATION Spec
CONSTANTS
  NF = 2
  M_DoIfOnOriginalEvent = FALSE
INVARIANTS TypeOK DoIfOnOriginal
CHECK_DEADLOCK FALSE
