\* spec mutant = the behaviour before fix 850331b: an empty log fragment panics. TLC must reject it (NoPanic).
SPECIFICATION Spec
CONSTANTS
  MaxLen = 3
  Ls = {0, 6}
  SPs = {0}
  MaxExotic = 0
  D12_EmptyLogPanics = TRUE
  D16_TimeoutDropsPartials = TRUE
  D17_SkipSurvivesTimeout = FALSE
  D20_BackslashNIsEnd = TRUE
INVARIANTS TypeOK NoPanic
CHECK_DEADLOCK FALSE
