SPECIFICATION Spec
CONSTANTS
  Mode = "conc"
  MaxLen = 0
  SeqLen = 0
  ConcLen = 1
  GzLen = 0
  Symbols = {1, 2}
  Mutant = "put_before_last_in"
INVARIANTS TypeOK LinesPrefix LinesExact NoForeignBytes OKOnlyAfterAllLines
CHECK_DEADLOCK FALSE
