SPECIFICATION FairSpec
CONSTANTS
  Adders = {"a1", "a2"}
  PerAdder = 2
  Workers = 2
  BatchCount = 2
  Sizes = {1}
  BatchBytes = 0
  SendUnderLock = TRUE
  WithStop = TRUE
INVARIANTS StopSafe SizeBound CommitOnlySent CommitOnce CommitInSeqOrder Staleness
PROPERTIES StopTerminates
CHECK_DEADLOCK FALSE
