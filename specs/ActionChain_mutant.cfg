\* spec mutant: the selector guard uses busyActionsTotal instead of the own busy flag of the action.
\* TLC MUST reject it (SelectorDecides).
SPECIFICATION Spec
CONSTANTS
  N = 2
  MaxEvents = 3
  M_SelectorIndependentOfOtherActions = FALSE
  M_OnlyTimeoutExempt = TRUE
INVARIANTS TypeOK SelectorDecides
CHECK_DEADLOCK FALSE
