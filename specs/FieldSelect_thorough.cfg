SPECIFICATION Spec
CONSTANTS
  Fams <- ThoroughFams
  D_SwapDelete = TRUE
INVARIANTS AllInv
CHECK_DEADLOCK FALSE
