------------------------------- MODULE DoIf -------------------------------
(* C14 (do_if half) -- the documented meaning of a do_if rule tree on an event, written as a
   DECLARATIVE three-valued evaluator (T / F / U = "the documentation does not decide"), next to
   an implementation-shaped transcription of pipeline/doif (eventData.Get, fieldOpNode ctor +
   Check with the valuesBySize buckets, minValLen early exit, maxValLen truncation and
   lower-casing after truncation, lenCmpOpNode, tsCmpOpNode, checkTypeOpNode, logicalNode).

   One state = one RULE of one PART of the case space; the rule is evaluated on every event of the
   part.  Invariant ImplRefinesDecl: the transcription agrees with the documented meaning wherever
   the documentation decides, except in the named deviation classes D_* (defects of the code that
   the replay re-establishes on the real doif.Checker).  Export prints, per rule, the declaratively
   expected value and the transcription's value for every event; the Go harness builds each rule
   through the real constructor path and compares the real decision with `exp`.

   Abstract characters (small integers) carry a byte width and a lower-case image:
     1 'a'   2 'A'   3 U+0130 (2 bytes, lower-cases to 'i': a length-changing fold)   4 'i'   5 'b'
     10+d = the ASCII digit d.
     60 newline, 61 double quote, 62 backslash: one byte each, always written as a JSON escape (2 bytes) in the event;
            a string value may moreover be written all-escaped (EscStr: U+00E9 as \u00e9, U+1F600 as a surrogate pair),
            so that the decoder's node starts in its ESCAPED form; the value is the same string.
     40.. = multi-byte characters without case, given by their UTF-8 bytes (CharBytes): pairs that share a lead
            byte (e-acute / e-grave, EURO / RUBLE / TRADE MARK, Cyrillic io / hard sign), that share only a
            continuation byte (e-acute / COPYRIGHT), and two 4-byte characters.
   Regexps are not modelled: they come from a fixed family whose truth is a structural predicate. *)
EXTENDS Integers, Sequences, FiniteSets, TLC, Json
LOCAL INSTANCE SequencesExt

CONSTANTS Chars,       \* letters used in rule values and string fields (subset of 1..5)
          MaxVal,      \* maximal length of a value string
          MaxVal2,     \* maximal length of the second value of a two-value list
          MaxData,     \* maximal length of a string field
          PoolN,       \* number of pool leaves used for the depth<=2 trees (4..6)
          Depth3,      \* BOOLEAN: also every depth-3 tree (not / binary and / binary or) over two leaves
          D_FoldWidth,         \* deviation: length shortcuts use byte lengths taken before lower-casing
          D_ContainerNul,      \* deviation: object/array field is handed to field ops as one NUL byte
          D_EmptyContainerLen, \* deviation: computed size of an empty object/array is 1, not 2
          M_ShiftOnce,         \* mechanism: value_shift enters the ts_cmp threshold exactly once (FALSE = mutant
                               \* "shift applied twice", which TLC must reject: DoIf_mutant_shift.cfg)
          M_ContainsAnyRunes,  \* mechanism: contains_any compares CHARACTERS (bytes.ContainsAny is rune based); FALSE =
                               \* mutant "256-entry byte table", which TLC must reject: DoIf_mutant_bytetable.cfg
          M_LenOfValue,        \* mechanism: byte_len_cmp of a string field measures its VALUE, not the escaped text the
                               \* decoder still holds (FALSE = mutant "escaped length": DoIf_mutant_esclen.cfg)
          UChars,              \* the characters of part U (subset of {1} \cup 40..50)
          UMaxData,            \* maximal length of a string field in part U
          PartsOn              \* the parts of the case space to explore ({} = all)

VARIABLE cs            \* the case: [part, kind ("start" | "bucket" | "rule" | "events"), b, rule]

-----------------------------------------------------------------------------
(* characters *)
Null == <<-1>>                     \* the null element of a values list
Nil  == <<-2>>                     \* a nil []byte in the transcription
\* UTF-8 bytes of a character (bytes >= 128 are the real byte values; 31, 32 stand for the two bytes of U+0130)
CharBytes(c) ==
  CASE c = 3  -> <<31, 32>>
    [] c = 40 -> <<195, 169>>            \* U+00E9 e-acute
    [] c = 41 -> <<195, 168>>            \* U+00E8 e-grave           (lead byte of 40)
    [] c = 42 -> <<226, 130, 172>>       \* U+20AC EURO SIGN
    [] c = 43 -> <<226, 130, 189>>       \* U+20BD RUBLE SIGN        (first two bytes of 42)
    [] c = 44 -> <<226, 132, 162>>       \* U+2122 TRADE MARK SIGN   (lead byte of 42)
    [] c = 45 -> <<209, 145>>            \* U+0451 Cyrillic io
    [] c = 46 -> <<209, 138>>            \* U+044A Cyrillic hard sign (lead byte of 45)
    [] c = 47 -> <<208, 191>>            \* U+043F Cyrillic pe
    [] c = 48 -> <<194, 169>>            \* U+00A9 COPYRIGHT SIGN    (only the continuation byte of 40)
    [] c = 49 -> <<240, 159, 152, 128>>  \* U+1F600
    [] c = 50 -> <<240, 159, 152, 129>>  \* U+1F601                  (first three bytes of 49)
    [] OTHER  -> <<c>>
MultiByte == {3} \cup 40..50
Width(c)     == Len(CharBytes(c))
LowerGo(c)   == IF c = 2 THEN 1 ELSE IF c = 3 THEN 4 ELSE c     \* unicode.ToLower
LowerFine(c) == IF c = 2 THEN 1 ELSE c                          \* a fold under which U+0130 only equals itself
Ident(c)     == c
IsDigit(c)   == c \in 10..19
Strs(S, n)   == UNION {[1..k -> S] : k \in 0..n}
Map(s, F(_)) == [i \in 1..Len(s) |-> F(s[i])]

StrHasPrefix(s, p) == Len(p) <= Len(s) /\ SubSeq(s, 1, Len(p)) = p
StrHasSuffix(s, p) == Len(p) <= Len(s) /\ SubSeq(s, Len(s) - Len(p) + 1, Len(s)) = p
StrContains(s, p)  == \E i \in 0..(Len(s) - Len(p)) : SubSeq(s, i + 1, i + Len(p)) = p

NumRepr(n) == IF n < 10 THEN <<10 + n>> ELSE <<10 + (n \div 10), 10 + (n % 10)>>   \* n in 0..99
RECURSIVE DecVal(_)
DecVal(s) == IF s = <<>> THEN 0 ELSE DecVal(SubSeq(s, 1, Len(s) - 1)) * 10 + (s[Len(s)] - 10)
Parsable(s) == s # <<>> /\ \A i \in 1..Len(s) : IsDigit(s[i])      \* format "unixtime"

RECURSIVE SumSeq(_)
SumSeq(s) == IF s = <<>> THEN 0 ELSE Head(s) + SumSeq(Tail(s))
ByteLen(s) == SumSeq([i \in 1..Len(s) |-> Width(s[i])])
Max2(a, b) == IF a > b THEN a ELSE b

(* the fixed regexp family; truth on a character sequence, by structure *)
Regexps == {"^a", "A$", "a.*A", ".*", "^$"}
ReTruth(re, s) ==
  CASE re = "^a"   -> Len(s) > 0 /\ s[1] = 1
    [] re = "A$"   -> Len(s) > 0 /\ s[Len(s)] = 2
    [] re = "a.*A" -> \E i \in 1..Len(s) : \E j \in (i + 1)..Len(s) : s[i] = 1 /\ s[j] = 2
    [] re = ".*"   -> TRUE
    [] re = "^$"   -> s = <<>>

Cmp(c, a, b) ==
  CASE c = "lt" -> a < b [] c = "le" -> a <= b [] c = "gt" -> a > b
    [] c = "ge" -> a >= b [] c = "eq" -> a = b [] c = "ne" -> a # b
CmpOps == {"lt", "le", "gt", "ge", "eq", "ne"}

-----------------------------------------------------------------------------
(* abstract JSON values and events (an event is its root object) *)
Abs     == [k |-> "abs"]
Nul     == [k |-> "null"]
Num(n)  == [k |-> "num", n |-> n]
Str(s)  == [k |-> "str", s |-> s]
EscStr(s) == [k |-> "str", s |-> s, esc |-> TRUE]   \* the same value, written with \uXXXX escapes in the event text
Obj(fs) == [k |-> "obj", fs |-> fs]          \* fs: sequence of [name, v]
Arr(xs) == [k |-> "arr", xs |-> xs]
Fld(nm, v) == [name |-> nm, v |-> v]
NameLen(nm) == IF nm = "f.g" THEN 3 ELSE 1   \* field names used: "f", "g", "h", "f.g"

RECURSIVE Lookup(_, _)
Lookup(v, path) ==
  IF path = <<>> THEN v
  ELSE IF v.k = "obj" /\ \E i \in 1..Len(v.fs) : v.fs[i].name = path[1]
       THEN Lookup(v.fs[CHOOSE i \in 1..Len(v.fs) : v.fs[i].name = path[1]].v, Tail(path))
       ELSE Abs

\* length in bytes of the compact JSON encoding (the events are handed over compact)
RECURSIVE EncLen(_, _)
EncLen(v, quirk) ==
  CASE v.k = "str"  -> ByteLen(v.s) + 2
    [] v.k = "num"  -> Len(NumRepr(v.n))
    [] v.k = "null" -> 4
    [] v.k = "obj"  -> 2 + SumSeq([i \in 1..Len(v.fs) |-> NameLen(v.fs[i].name) + 3 + EncLen(v.fs[i].v, quirk)])
                         + (IF quirk THEN Len(v.fs) - 1 ELSE Max2(Len(v.fs) - 1, 0))
    [] v.k = "arr"  -> 2 + SumSeq([i \in 1..Len(v.xs) |-> EncLen(v.xs[i], quirk)])
                         + (IF quirk THEN Len(v.xs) - 1 ELSE Max2(Len(v.xs) - 1, 0))
RECURSIVE HasEmptyContainer(_)
HasEmptyContainer(v) ==
  CASE v.k = "obj" -> v.fs = <<>> \/ \E i \in 1..Len(v.fs) : HasEmptyContainer(v.fs[i].v)
    [] v.k = "arr" -> v.xs = <<>> \/ \E i \in 1..Len(v.xs) : HasEmptyContainer(v.xs[i])
    [] OTHER -> FALSE

-----------------------------------------------------------------------------
(* rules.  Leaves:
     field op : [op, path, cs, vals]     cs: 0 = case_sensitive:false, 1 = true, 2 = omitted (= true)
     regex    : [op |-> "regex", path, cs, res]
     length   : [op, path, cmp, value]   op in byte_len_cmp / array_len_cmp / int_val_cmp
     ts_cmp   : [op, path, cmp, value, shift, now, upd, unit]   format "unixtime"
                unit "s": value / shift in seconds, event times are small absolute numbers (1970), `now` is
                          only known to be far later;
                unit "m": `value: now` with value_shift in MINUTES (rendered as hours), event times are given
                          relative to the moment of the replay ("nowstr" values), see NowBand
     check    : [op |-> "check_type", path, types]
   Inner nodes: [op in and/or/not, args]                                                         *)
StrOps  == {"equal", "contains", "prefix", "suffix", "contains_any"}
LenOps  == {"byte_len_cmp", "array_len_cmp", "int_val_cmp"}
LogOps  == {"and", "or", "not"}
Now     == 1000          \* "now": later than every event time in scope, whatever the shift
(* `value: now`: "Actual cmp value in that case is now + value_shift + update_interval", where `now` is refreshed
   every update_interval.  Relative to the moment at which the driver renders the events, the documented
   threshold therefore lies in  value_shift + [0, update_interval + (time between rendering and the check)].
   update_interval is 10s or 1m in scope and the driver bounds the replay to 8 minutes after rendering, so the
   threshold is within value_shift + [0, 9] minutes.  Events closer than NowBand minutes to value_shift are not
   judged; the events in scope are 30 minutes or more away from every threshold, the shifts are whole hours. *)
NowBand == 20
NowStr(off) == [k |-> "nowstr", off |-> off]      \* a string field: unixtime of (rendering moment + off minutes)
AbsInt(x) == IF x < 0 THEN -x ELSE x
Sens(l) == l.cs # 0

(* ---- the documented meaning, declaratively ---- *)
TV(b)  == IF b THEN "T" ELSE "F"
Neg(t) == IF t = "T" THEN "F" ELSE IF t = "F" THEN "T" ELSE "U"

N(s, sens, F(_)) == IF sens THEN s ELSE Map(s, F)
StrOp(op, d, vals, sens, F(_)) ==
  LET nd == N(d, sens, F) IN
  CASE op = "equal"    -> \E i \in 1..Len(vals) : vals[i] # Null /\ N(vals[i], sens, F) = nd
    [] op = "contains" -> \E i \in 1..Len(vals) : StrContains(nd, N(vals[i], sens, F))
    [] op = "prefix"   -> \E i \in 1..Len(vals) : StrHasPrefix(nd, N(vals[i], sens, F))
    [] op = "suffix"   -> \E i \in 1..Len(vals) : StrHasSuffix(nd, N(vals[i], sens, F))
    [] op = "contains_any" -> \E i \in 1..Len(nd) : \E j \in 1..Len(vals[1]) : nd[i] = N(vals[1], sens, F)[j]
\* "case insensitive" is decided only where both readings of the fold agree
Both(op, d, vals, sens) ==
  LET x == StrOp(op, d, vals, sens, LowerGo)
      y == StrOp(op, d, vals, sens, LowerFine)
  IN IF x = y THEN TV(x) ELSE "U"

ReAny(res, s) == \E i \in 1..Len(res) : ReTruth(res[i], s)
ReBoth(res, s, sens) ==
  IF sens THEN TV(ReAny(res, s))
  ELSE LET x == ReAny(res, s)
           y == ReAny(res, Map(s, LowerGo))
           z == ReAny(res, Map(s, LowerFine))
       IN IF x = y /\ y = z THEN TV(x) ELSE "U"

DeclLeaf(l, fv) ==
  CASE l.op \in StrOps ->
         ( CASE fv.k \in {"abs", "null"} ->
                  \* "null and empty strings are considered as different values; null can also come
                  \*  if field value is absent" (field_op.go); other ops on a missing value: decided
                  \* only if they fail on the empty value too
                  IF l.op = "equal" THEN TV(\E i \in 1..Len(l.vals) : l.vals[i] = Null)
                  ELSE IF Both(l.op, <<>>, l.vals, Sens(l)) = "F" THEN "F" ELSE "U"
             [] fv.k = "str" -> Both(l.op, fv.s, l.vals, Sens(l))
             [] fv.k = "num" -> Both(l.op, NumRepr(fv.n), l.vals, Sens(l))
             [] fv.k \in {"obj", "arr"} -> "F" )      \* "Array and object values are considered as not matched"
    [] l.op = "regex" ->
         ( CASE fv.k \in {"abs", "null"} -> IF ReAny(l.res, <<>>) THEN "U" ELSE "F"
             [] fv.k = "str" -> ReBoth(l.res, fv.s, Sens(l))
             [] fv.k = "num" -> TV(ReAny(l.res, NumRepr(fv.n)))
             [] fv.k \in {"obj", "arr"} -> "F" )
    [] l.op = "byte_len_cmp" ->
         ( CASE fv.k = "str" -> TV(Cmp(l.cmp, ByteLen(fv.s), l.value))
             [] fv.k = "num" -> TV(Cmp(l.cmp, Len(NumRepr(fv.n)), l.value))
             [] fv.k \in {"obj", "arr"} -> TV(Cmp(l.cmp, EncLen(fv, FALSE), l.value))
             [] OTHER -> "U" )                         \* absent / null: not documented
    [] l.op = "array_len_cmp" ->
         IF fv.k = "arr" THEN TV(Cmp(l.cmp, Len(fv.xs), l.value)) ELSE "F"   \* not an array / not found
    [] l.op = "int_val_cmp" ->
         IF fv.k = "num" THEN TV(Cmp(l.cmp, fv.n, l.value)) ELSE "U"          \* only the name documents it
    [] l.op = "ts_cmp" ->
         IF fv.k = "nowstr"
           THEN IF AbsInt(fv.off - l.shift) > NowBand THEN TV(Cmp(l.cmp, fv.off, l.shift)) ELSE "U"
         ELSE IF fv.k = "str" /\ Parsable(fv.s)
           THEN TV(Cmp(l.cmp, DecVal(fv.s), (IF l.now THEN Now ELSE l.value) + l.shift))
           ELSE "F"                                    \* no field / not a string / not parsable
    [] l.op = "check_type" ->
         TV(\E i \in 1..Len(l.types) :
              LET t == l.types[i] IN
                \/ t \in {"obj", "object"} /\ fv.k = "obj"
                \/ t \in {"arr", "array"}  /\ fv.k = "arr"
                \/ t \in {"num", "number"} /\ fv.k = "num"
                \/ t \in {"str", "string"} /\ fv.k = "str"
                \/ t = "null" /\ fv.k = "null"
                \/ t = "nil"  /\ fv.k = "abs")

RECURSIVE Decl(_, _)
Decl(r, ev) ==
  IF r.op \in LogOps
    THEN LET a == [i \in 1..Len(r.args) |-> Decl(r.args[i], ev)]
             R == {a[i] : i \in 1..Len(a)}
         IN CASE r.op = "not" -> Neg(a[1])
              [] r.op = "and" -> IF "F" \in R THEN "F" ELSE IF "U" \in R THEN "U" ELSE "T"
              [] r.op = "or"  -> IF "T" \in R THEN "T" ELSE IF "U" \in R THEN "U" ELSE "F"
    ELSE DeclLeaf(r, Lookup(ev, r.path))

-----------------------------------------------------------------------------
(* ---- what the code does (pipeline/doif), step by step; bytes: U+0130 = <<31, 32>> ---- *)
RECURSIVE Bytes(_)
Bytes(s) == IF s = <<>> THEN <<>> ELSE CharBytes(s[1]) \o Bytes(Tail(s))
\* utf8.DecodeRune over the bytes: the characters; a byte of a split multi-byte character is a RuneError (99)
IsMBByte(x) == x \in {31, 32} \/ x >= 128
StartsWith(b, p) == Len(p) <= Len(b) /\ SubSeq(b, 1, Len(p)) = p
RECURSIVE Runes(_)
Runes(b) ==
  IF b = <<>> THEN <<>>
  ELSE IF ~IsMBByte(b[1]) THEN <<b[1]>> \o Runes(Tail(b))
  ELSE IF \E c \in MultiByte : StartsWith(b, CharBytes(c))
       THEN LET c == CHOOSE c \in MultiByte : StartsWith(b, CharBytes(c)) IN
            <<c>> \o Runes(SubSeq(b, Width(c) + 1, Len(b)))
       ELSE <<99>> \o Runes(Tail(b))
\* bytes.ToLower: rune by rune; a RuneError stays one
LowerB(b) == Bytes(Map(Runes(b), LowerGo))
DLen(d) == IF d = Nil THEN 0 ELSE Len(d)
NB(d)   == IF d = Nil THEN <<>> ELSE d

\* eventData.Get
Get(fv) ==
  CASE fv.k \in {"abs", "null"} -> Nil
    [] fv.k \in {"obj", "arr"}  -> IF D_ContainerNul THEN <<0>> ELSE <<-3>>
    [] fv.k = "str" -> Bytes(fv.s)
    [] fv.k = "num" -> NumRepr(fv.n)

ImplStrOp(l, fv) ==
  LET sens   == Sens(l)
      raw    == Get(fv)
      cont   == raw = <<-3>>                       \* repaired: containers never match
      \* repaired (D_FoldWidth = FALSE): lower-case first, take every length afterwards
      data   == IF ~D_FoldWidth /\ ~sens /\ raw # Nil THEN LowerB(raw) ELSE raw
      orig   == [i \in 1..Len(l.vals) |-> IF l.vals[i] = Null THEN Nil ELSE Bytes(l.vals[i])]
      cur    == [i \in 1..Len(orig) |-> IF ~sens /\ orig[i] # Nil THEN LowerB(orig[i]) ELSE orig[i]]
      lenOf  == [i \in 1..Len(orig) |-> IF D_FoldWidth THEN DLen(orig[i]) ELSE DLen(cur[i])]
      minLen == CHOOSE m \in {lenOf[i] : i \in 1..Len(lenOf)} : \A i \in 1..Len(lenOf) : m <= lenOf[i]
      maxLen == CHOOSE m \in {lenOf[i] : i \in 1..Len(lenOf)} : \A i \in 1..Len(lenOf) : m >= lenOf[i]
      low(d) == IF sens THEN d ELSE LowerB(d)
  IN
  IF cont THEN FALSE
  ELSE IF l.op # "contains_any" /\ DLen(data) < minLen THEN FALSE          \* fast check
  ELSE CASE l.op = "equal" ->
              LET d2 == IF ~sens /\ data # Nil THEN LowerB(data) ELSE data IN
              \E i \in 1..Len(cur) :
                 /\ DLen(cur[i]) = DLen(data)                                  \* valuesBySize bucket
                 /\ (d2 = Nil) = (cur[i] = Nil)
                 /\ NB(d2) = NB(cur[i])
         [] l.op = "contains" ->
              \E i \in 1..Len(cur) : StrContains(low(NB(data)), NB(cur[i]))
         [] l.op = "contains_any" ->
              \* bytes.ContainsAny(eventData, string(values[0])): runes of both; the mutant looks bytes up in a table
              LET d2 == IF M_ContainsAnyRunes THEN Runes(low(NB(data))) ELSE low(NB(data))
                  cv == IF M_ContainsAnyRunes THEN Runes(cur[1]) ELSE cur[1] IN
              \E i \in 1..Len(d2) : \E j \in 1..Len(cv) : d2[i] = cv[j] /\ d2[i] # 99
         [] l.op = "prefix" ->
              LET t == IF DLen(data) > maxLen THEN SubSeq(data, 1, maxLen) ELSE NB(data) IN
              \E i \in 1..Len(cur) : StrHasPrefix(low(t), NB(cur[i]))
         [] l.op = "suffix" ->
              LET t == IF DLen(data) > maxLen THEN SubSeq(data, Len(data) - maxLen + 1, Len(data)) ELSE NB(data) IN
              \E i \in 1..Len(cur) : StrHasSuffix(low(t), NB(cur[i]))

\* length of the escaped text of a string value as the decoder first holds it (without the quotes)
RawLen(fv) ==
  LET esc == "esc" \in DOMAIN fv /\ fv.esc IN
  SumSeq([i \in 1..Len(fv.s) |->
            IF fv.s[i] \in {60, 61, 62} THEN 2
            ELSE IF esc /\ fv.s[i] \in MultiByte THEN (IF Width(fv.s[i]) = 4 THEN 12 ELSE 6)
            ELSE Width(fv.s[i])])

\* "?" = the transcription does not predict (only where the documentation does not decide either)
ImplLeaf(l, fv) ==
  CASE l.op \in StrOps -> TV(ImplStrOp(l, fv))
    [] l.op = "regex" ->          \* the flag is ignored; a container is the NUL byte
         ( CASE fv.k \in {"abs", "null"} -> TV(ReAny(l.res, <<>>))
             [] fv.k = "str" -> TV(ReAny(l.res, fv.s))
             [] fv.k = "num" -> TV(ReAny(l.res, NumRepr(fv.n)))
             [] fv.k \in {"obj", "arr"} -> IF D_ContainerNul THEN TV(ReAny(l.res, <<0>>)) ELSE "F" )
    [] l.op = "byte_len_cmp" ->
         ( CASE fv.k = "abs"  -> "F"
             [] fv.k = "null" -> TV(Cmp(l.cmp, 4, l.value))                   \* len("null")
             [] fv.k = "str"  -> TV(Cmp(l.cmp, IF M_LenOfValue THEN ByteLen(fv.s) ELSE RawLen(fv), l.value))   \* len(node.AsString())
             [] fv.k = "num"  -> TV(Cmp(l.cmp, Len(NumRepr(fv.n)), l.value))
             [] fv.k \in {"obj", "arr"} -> TV(Cmp(l.cmp, EncLen(fv, D_EmptyContainerLen), l.value)) )
    [] l.op = "array_len_cmp" ->
         IF fv.k = "arr" THEN TV(Cmp(l.cmp, Len(fv.xs), l.value)) ELSE "F"
    [] l.op = "int_val_cmp" ->
         ( CASE fv.k = "num" -> TV(Cmp(l.cmp, fv.n, l.value))
             [] fv.k = "str" -> IF Parsable(fv.s) THEN TV(Cmp(l.cmp, DecVal(fv.s), l.value)) ELSE "?"
             [] OTHER -> "F" )
    [] l.op = "ts_cmp" ->          \* rhs = (now + update_interval | const); rhs += value_shift
         LET sh == IF M_ShiftOnce THEN l.shift ELSE 2 * l.shift IN
         IF fv.k = "nowstr"
           THEN IF AbsInt(fv.off - sh) > NowBand THEN TV(Cmp(l.cmp, fv.off, sh)) ELSE "?"
         ELSE IF fv.k = "str" /\ Parsable(fv.s)
           THEN TV(Cmp(l.cmp, DecVal(fv.s), (IF l.now THEN Now ELSE l.value) + sh))
           ELSE "F"
    [] l.op = "check_type" -> DeclLeaf(l, fv)      \* one closure per listed type, first hit wins

\* logicalNode.Check: left-to-right with early exit ("?" = an operand that was needed is unpredicted)
RECURSIVE Impl(_, _)
RECURSIVE ImplScan(_, _, _, _)
ImplScan(args, ev, i, stopOn) ==
  \* returns stopOn as soon as an operand yields it, otherwise its negation
  IF i > Len(args) THEN Neg(stopOn)
  ELSE LET x == Impl(args[i], ev) IN
       IF x = "?" THEN "?" ELSE IF x = stopOn THEN stopOn ELSE ImplScan(args, ev, i + 1, stopOn)
Impl(r, ev) ==
  IF r.op \in LogOps
    THEN CASE r.op = "not" -> LET x == Impl(r.args[1], ev) IN IF x = "?" THEN "?" ELSE Neg(x)
           [] r.op = "or"  -> ImplScan(r.args, ev, 1, "T")
           [] r.op = "and" -> ImplScan(r.args, ev, 1, "F")
    ELSE ImplLeaf(r, Lookup(ev, r.path))

(* the deviation classes (where the code is known to leave the documented meaning) *)
HasWide(s) == \E i \in 1..Len(s) : s[i] = 3
LeafDeviates(l, fv) ==
  \/ /\ D_FoldWidth /\ l.op \in StrOps /\ ~Sens(l) /\ fv.k \notin {"obj", "arr"}
     /\ \/ \E i \in 1..Len(l.vals) : HasWide(l.vals[i])
        \/ fv.k = "str" /\ HasWide(fv.s)
  \/ /\ D_ContainerNul /\ fv.k \in {"obj", "arr"} /\ l.op \in {"contains", "prefix", "suffix", "regex"}
  \/ /\ D_EmptyContainerLen /\ l.op = "byte_len_cmp" /\ HasEmptyContainer(fv)
RECURSIVE Deviates(_, _)
Deviates(r, ev) ==
  IF r.op \in LogOps THEN \E i \in 1..Len(r.args) : Deviates(r.args[i], ev)
  ELSE LeafDeviates(r, Lookup(ev, r.path))
\* the name of the class, for the violation records of the replay ("" = none / inner node)
DevClass(r, ev) ==
  IF r.op \in LogOps THEN (IF Deviates(r, ev) THEN "operand" ELSE "")
  ELSE LET fv == Lookup(ev, r.path) IN
       IF ~LeafDeviates(r, fv) THEN ""
       ELSE IF r.op \in StrOps /\ fv.k \notin {"obj", "arr"} THEN "fold_width"
       ELSE IF r.op = "byte_len_cmp" THEN "empty_container_len"
       ELSE "container_nul"

-----------------------------------------------------------------------------
(* the case space: parts, their rules and their events *)
PF == <<"f">>
ValStr  == Strs(Chars, MaxVal)
ValStr2 == Strs(Chars, MaxVal2)
ValLists == {<<v>> : v \in ValStr} \cup {<<v, w>> : v \in ValStr, w \in ValStr2}
                                   \cup {<<w, v>> : v \in ValStr, w \in ValStr2}
NullLists == {<<Null>>} \cup {<<Null, v>> : v \in Strs(Chars, 1)} \cup {<<v, Null>> : v \in Strs(Chars, 1)}
DataStr == Strs(Chars, MaxData)

\* part F: every string field op x value list x case flag, on one field
RulesF ==
  {[op |-> o, path |-> PF, cs |-> c, vals |-> vl] : o \in {"equal", "contains", "prefix", "suffix"}, c \in {0, 1}, vl \in ValLists}
  \cup {[op |-> "equal", path |-> PF, cs |-> c, vals |-> vl] : c \in {0, 1, 2}, vl \in NullLists}
  \cup {[op |-> "contains_any", path |-> PF, cs |-> c, vals |-> <<v>>] : c \in {0, 1}, v \in ValStr \ {<<>>}}
OtherKinds == {Abs, Nul, Num(7), Num(12), Obj(<<>>), Obj(<<Fld("g", Str(<<1>>))>>), Arr(<<>>), Arr(<<Str(<<1>>)>>)}
EvOf(fvs) == {IF fv.k = "abs" THEN Obj(<<Fld("g", Str(<<1>>))>>) ELSE Obj(<<Fld("f", fv)>>) : fv \in fvs}
EventsF == SetToSeq(EvOf({Str(s) : s \in DataStr} \cup OtherKinds))

\* part R: regex leaves
ReLists == {<<r>> : r \in Regexps} \cup {<<r, q>> : r \in Regexps, q \in Regexps}
RulesR  == {[op |-> "regex", path |-> PF, cs |-> c, res |-> rl] : c \in {0, 2}, rl \in ReLists}
EventsR == EventsF

\* part L: length / int / timestamp / type leaves
TypeNames == {"obj", "object", "arr", "array", "num", "number", "str", "string", "null", "nil"}
RulesL ==
  {[op |-> o, path |-> PF, cmp |-> c, value |-> n] : o \in LenOps, c \in CmpOps, n \in 0..10}
  \cup {[op |-> "ts_cmp", path |-> PF, cmp |-> c, value |-> v, shift |-> sh, now |-> FALSE, upd |-> 0, unit |-> "s"] :
          c \in CmpOps, v \in {2, 12}, sh \in {-1, 0, 1}}
  \cup {[op |-> "ts_cmp", path |-> PF, cmp |-> c, value |-> 0, shift |-> sh, now |-> TRUE, upd |-> u, unit |-> "s"] :
          c \in CmpOps, sh \in {-1, 0}, u \in {0, 1}}
  \cup {[op |-> "check_type", path |-> PF, types |-> <<t>>] : t \in TypeNames}
  \cup {[op |-> "check_type", path |-> PF, types |-> <<t, u>>] : t \in TypeNames, u \in TypeNames}
D(n) == 10 + n
EventsL == SetToSeq(EvOf(
  {Abs, Nul, Num(0), Num(7), Num(12),
   Str(<<>>), Str(<<1>>), Str(<<3>>), Str(<<1, 2>>), Str(<<1, 3, 2>>),
   Str(<<D(1)>>), Str(<<D(2)>>), Str(<<D(1), D(1)>>), Str(<<D(1), D(2)>>), Str(<<D(2), D(1)>>), Str(<<D(1), 1>>),
   Obj(<<>>), Obj(<<Fld("g", Str(<<1>>))>>), Obj(<<Fld("g", Obj(<<>>))>>), Obj(<<Fld("g", Num(7)), Fld("h", Nul)>>),
   Arr(<<>>), Arr(<<Str(<<1>>)>>), Arr(<<Num(7), Num(12)>>), Arr(<<Arr(<<>>)>>), Arr(<<Obj(<<>>)>>),
   Arr(<<Str(<<3>>), Nul, Num(0)>>)}))

\* part P: field paths (nested, dotted key, root)
Paths  == {<<"f">>, <<"f", "g">>, <<"f.g">>, <<"f", "g", "h">>, <<"g">>}
RulesP ==
  UNION {{[op |-> "check_type", path |-> p, types |-> <<"str">>],
          [op |-> "check_type", path |-> p, types |-> <<"nil">>],
          [op |-> "check_type", path |-> p, types |-> <<"obj">>],
          [op |-> "equal", path |-> p, cs |-> 2, vals |-> <<<<1>>>>],
          [op |-> "regex", path |-> p, cs |-> 2, res |-> <<"^a">>],
          [op |-> "byte_len_cmp", path |-> p, cmp |-> "eq", value |-> 1],
          [op |-> "array_len_cmp", path |-> p, cmp |-> "ge", value |-> 0]} : p \in Paths}
  \cup {[op |-> "check_type", path |-> <<>>, types |-> <<"obj">>],
        [op |-> "check_type", path |-> <<>>, types |-> <<"str", "nil">>],
        [op |-> "equal", path |-> <<>>, cs |-> 2, vals |-> <<<<1>>>>],
        [op |-> "regex", path |-> <<>>, cs |-> 2, res |-> <<"^a">>]}
A1 == Str(<<1>>)
EventsP == SetToSeq({
  Obj(<<>>),
  Obj(<<Fld("f", A1)>>),
  Obj(<<Fld("g", A1)>>),
  Obj(<<Fld("f", Obj(<<Fld("g", A1)>>))>>),
  Obj(<<Fld("f.g", A1)>>),
  Obj(<<Fld("f", Obj(<<Fld("g", Obj(<<Fld("h", A1)>>))>>))>>),
  Obj(<<Fld("f", Arr(<<A1>>))>>),
  Obj(<<Fld("f", Obj(<<Fld("g", Arr(<<A1>>))>>))>>),
  Obj(<<Fld("f.g", A1), Fld("f", Obj(<<Fld("g", Str(<<5>>))>>))>>),
  Obj(<<Fld("f", Obj(<<Fld("g", Str(<<5>>))>>)), Fld("f.g", A1)>>),
  Obj(<<Fld("f", Nul)>>),
  Obj(<<Fld("f", Obj(<<Fld("g", Nul)>>))>>),
  Obj(<<Fld("f", Str(<<5>>)), Fld("g", A1)>>)})

\* part T: trees over a pool of leaves (which on EventsT are T, F and U in turn, and in no deviation class)
PG == <<"g">>
PoolSeq == <<
  [op |-> "equal", path |-> PF, cs |-> 1, vals |-> <<<<1>>>>],
  [op |-> "byte_len_cmp", path |-> PG, cmp |-> "lt", value |-> 2],
  [op |-> "prefix", path |-> PF, cs |-> 0, vals |-> <<<<1>>, <<5, 5>>>>],
  [op |-> "check_type", path |-> PG, types |-> <<"num">>],
  [op |-> "int_val_cmp", path |-> PG, cmp |-> "eq", value |-> 7],
  [op |-> "ts_cmp", path |-> PG, cmp |-> "lt", value |-> 12, shift |-> 0, now |-> FALSE, upd |-> 0, unit |-> "s"] >>
Pool(n) == {PoolSeq[i] : i \in 1..n}
Logic(S) == {[op |-> "not", args |-> <<x>>] : x \in S}
            \cup {[op |-> o, args |-> <<x>>] : o \in {"and", "or"}, x \in S}
            \cup {[op |-> o, args |-> <<x, y>>] : o \in {"and", "or"}, x \in S, y \in S}
Logic2(S) == {[op |-> "not", args |-> <<x>>] : x \in S}
             \cup {[op |-> o, args |-> <<x, y>>] : o \in {"and", "or"}, x \in S, y \in S}
RulesT == LET P == Pool(PoolN) IN P \cup Logic(P \cup Logic(P))
EvT(fs, gs) == {Obj((IF f.k = "abs" THEN <<>> ELSE <<Fld("f", f)>>) \o (IF g.k = "abs" THEN <<>> ELSE <<Fld("g", g)>>)) :
                  f \in fs, g \in gs}
EventsT == SetToSeq(EvT({Abs, Str(<<1>>), Str(<<2>>), Str(<<5>>)},
                        {Abs, Num(7), Num(12), Str(<<1>>), Str(<<D(7)>>)}))
RulesT3 == IF Depth3 THEN LET P == Pool(2) IN Logic2(P \cup Logic2(P \cup Logic2(P))) ELSE {}
EventsT3 == SetToSeq(EvT({Abs, Str(<<1>>)}, {Abs, Num(7), Num(12)}))

\* part U: multi-byte characters for the per-character operator (contains_any) and the substring operators
UStr1   == Strs(UChars, 1) \ {<<>>}
UStr2   == Strs(UChars, 2) \ {<<>>}
RulesU  == {[op |-> "contains_any", path |-> PF, cs |-> c, vals |-> <<v>>] : c \in {0, 1}, v \in UStr2}
           \cup {[op |-> o, path |-> PF, cs |-> c, vals |-> <<v>>] :
                   o \in {"equal", "contains", "prefix", "suffix"}, c \in {0, 1}, v \in UStr1}
           \cup {[op |-> o, path |-> PF, cs |-> 1, vals |-> <<v, w>>] :
                   o \in {"contains", "prefix", "suffix"}, v \in UStr1, w \in UStr1}
EventsU == SetToSeq(EvOf({Str(s) : s \in Strs(UChars, UMaxData)} \cup {Abs, Nul}))

\* part E: string values that reach the checker in their ESCAPED form (decoded from JSON text for every evaluation):
\* byte length is that of the value; and, since field ops unescape the node in place, every binary and / or over a
\* length leaf and a field leaf on the same field is evaluated in both operand orders
EChars  == {1, 60, 61, 62, 40, 49}
EStr1   == Strs(EChars, 1) \ {<<>>}
HasMB(x) == \E i \in 1..Len(x) : x[i] \in MultiByte
ELen    == {[op |-> "byte_len_cmp", path |-> PF, cmp |-> c, value |-> n] : c \in CmpOps, n \in 0..8}
ELenFew == {[op |-> "byte_len_cmp", path |-> PF, cmp |-> c, value |-> n] : c \in {"eq", "lt", "ge"}, n \in {1, 2, 3, 4, 6}}
EFld    == {[op |-> o, path |-> PF, cs |-> c, vals |-> <<v>>] :
              o \in {"equal", "contains", "prefix", "suffix", "contains_any"}, c \in {0, 1}, v \in EStr1}
EFldFew == {[op |-> "contains", path |-> PF, cs |-> 1, vals |-> <<<<1>>>>],
            [op |-> "contains", path |-> PF, cs |-> 1, vals |-> <<<<60>>>>],
            [op |-> "equal", path |-> PF, cs |-> 1, vals |-> <<<<40>>>>],
            [op |-> "prefix", path |-> PF, cs |-> 0, vals |-> <<<<62>>>>],
            [op |-> "suffix", path |-> PF, cs |-> 1, vals |-> <<<<49>>>>],
            [op |-> "contains_any", path |-> PF, cs |-> 1, vals |-> <<<<61, 40>>>>]}
RulesE  == ELen \cup EFld
           \cup {[op |-> o, args |-> <<x, y>>] : o \in {"and", "or"}, x \in ELenFew, y \in EFldFew}
           \cup {[op |-> o, args |-> <<y, x>>] : o \in {"and", "or"}, x \in ELenFew, y \in EFldFew}
EventsE == LET S == SetToSeq({Str(x) : x \in Strs(EChars, 2)} \cup {EscStr(x) : x \in {y \in Strs(EChars, 2) : HasMB(y)}}
                             \cup {Nul})
           IN  \* a second field makes the events distinct whatever the spelling of the string
               [i \in 1..Len(S) |-> Obj(<<Fld("f", S[i]), Fld("g", Num(i))>>)] \o <<Obj(<<Fld("g", Num(0))>>)>>

\* part N: ts_cmp against `now` with value_shift of hours, on event times placed around the moment of the replay
RulesN == {[op |-> "ts_cmp", path |-> PF, cmp |-> c, value |-> 0, shift |-> sh, now |-> TRUE, upd |-> u, unit |-> "m"] :
             c \in CmpOps, sh \in {-60, 0, 60}, u \in {0, 2}}
EventsN == SetToSeq(EvOf({NowStr(o) : o \in {-150, -90, -30, 30, 90, 150}}
                         \cup {Abs, Nul, Num(7), Str(<<1>>), Str(<<>>), Obj(<<>>)}))

AllParts == {"F", "R", "L", "P", "T", "T3", "N", "U", "E"}
Parts == IF PartsOn = {} THEN AllParts ELSE PartsOn
RulesOf(p) == CASE p = "F" -> RulesF [] p = "R" -> RulesR [] p = "L" -> RulesL
                [] p = "P" -> RulesP [] p = "T" -> RulesT [] p = "T3" -> RulesT3 [] p = "N" -> RulesN
                [] p = "U" -> RulesU [] p = "E" -> RulesE
EventsOf(p) == CASE p = "F" -> EventsF [] p = "R" -> EventsR [] p = "L" -> EventsL
                 [] p = "P" -> EventsP [] p = "T" -> EventsT [] p = "T3" -> EventsT3 [] p = "N" -> EventsN
                 [] p = "U" -> EventsU [] p = "E" -> EventsE

-----------------------------------------------------------------------------
NoRule == [op |-> "none"]
(* The case is chosen in two steps (part and bucket, then the rule) only so that TLC's workers share
   the evaluation; every rule of every part is reached exactly once. *)
NBuckets == 64
RuleSeqF == SetToSeq(RulesF)
RuleSeqR == SetToSeq(RulesR)
RuleSeqL == SetToSeq(RulesL)
RuleSeqP == SetToSeq(RulesP)
RuleSeqT == SetToSeq(RulesT)
RuleSeqT3 == SetToSeq(RulesT3)
RuleSeqN == SetToSeq(RulesN)
RuleSeqU == SetToSeq(RulesU)
RuleSeqE == SetToSeq(RulesE)
RuleSeqOf(p) == CASE p = "F" -> RuleSeqF [] p = "R" -> RuleSeqR [] p = "L" -> RuleSeqL
                  [] p = "P" -> RuleSeqP [] p = "T" -> RuleSeqT [] p = "T3" -> RuleSeqT3 [] p = "N" -> RuleSeqN
                  [] p = "U" -> RuleSeqU [] p = "E" -> RuleSeqE

Init == cs = [part |-> "-", kind |-> "start", b |-> 0, rule |-> NoRule]
Next ==
  \/ /\ cs.kind = "start"
     /\ \E p \in Parts : \E b \in 0..(NBuckets - 1) :
          cs' = [part |-> p, kind |-> "bucket", b |-> b, rule |-> NoRule]
  \/ /\ cs.kind = "bucket"
     /\ \/ cs.b = 0 /\ cs' = [cs EXCEPT !.kind = "events"]
        \/ LET rs == RuleSeqOf(cs.part) IN
           \E k \in 0..((Len(rs) - cs.b - 1) \div NBuckets) :
              cs' = [part |-> cs.part, kind |-> "rule", b |-> cs.b, rule |-> rs[cs.b + 1 + NBuckets * k]]
  \/ cs.kind \in {"rule", "events"} /\ UNCHANGED cs
Spec == Init /\ [][Next]_cs

-----------------------------------------------------------------------------
(* properties *)
Evs == EventsOf(cs.part)
IsRule == cs.kind = "rule"

TypeOK == cs.kind \in {"start", "bucket", "rule", "events"} /\ (cs.kind # "start" => cs.part \in Parts)

\* the transcription of the code agrees with the documented meaning wherever the documentation
\* decides, outside the named deviation classes
ImplRefinesDecl ==
  IsRule => \A i \in 1..Len(Evs) :
     LET d == Decl(cs.rule, Evs[i])
         m == Impl(cs.rule, Evs[i])
     IN d = "U" \/ m = "?" \/ m = d \/ Deviates(cs.rule, Evs[i])

\* short-circuit evaluation is unobservable: and/or are commutative, double negation is the identity
LogicLaws ==
  IsRule /\ cs.rule.op \in {"and", "or"} /\ Len(cs.rule.args) = 2 =>
     \A i \in 1..Len(Evs) :
        /\ Decl(cs.rule, Evs[i]) = Decl([op |-> cs.rule.op, args |-> <<cs.rule.args[2], cs.rule.args[1]>>], Evs[i])
        /\ Decl([op |-> "not", args |-> <<[op |-> "not", args |-> <<cs.rule>>]>>], Evs[i]) = Decl(cs.rule, Evs[i])

\* value order inside a values list is irrelevant for the documented meaning
ValueOrderIrrelevant ==
  IsRule /\ cs.rule.op \in StrOps /\ Len(cs.rule.vals) = 2 =>
     \A i \in 1..Len(Evs) :
        Decl(cs.rule, Evs[i]) = Decl([cs.rule EXCEPT !.vals = <<cs.rule.vals[2], cs.rule.vals[1]>>], Evs[i])

-----------------------------------------------------------------------------
(* export: one line per rule with the expected value per event, one line per part with its events *)
ExportRec ==
  IF IsRule
    THEN [part |-> cs.part, rule |-> cs.rule,
          exp   |-> [i \in 1..Len(Evs) |-> Decl(cs.rule, Evs[i])],
          model |-> [i \in 1..Len(Evs) |-> Impl(cs.rule, Evs[i])],
          dev   |-> [i \in 1..Len(Evs) |-> DevClass(cs.rule, Evs[i])]]
    ELSE [part |-> cs.part, events |-> Evs]
Export == cs.kind \in {"rule", "events"} => PrintT(ToJson(ExportRec))

=============================================================================
