------------------------------- MODULE KafkaMon -------------------------------
(* Trace validation for C10: lines recorded from the REAL kafka input plugin (Commit, packing), the real
   pconsumer.consume loop, a real pipeline in spread mode and a real (never connected) franz-go client whose
   marked offsets are read after every Commit.  The clauses of KafkaInput.tla are evaluated on every line:
     mark_past_unfinished : the marked head of a partition passes a consumed record that is neither acked nor dropped
     mark_wrong / mark_missing / mark_foreign : a mark is exactly offset+1 (with its leader epoch) of the furthest
                            committed record of the record's OWN topic and partition, and nothing else is marked     *)
EXTENDS Integers, Sequences, FiniteSets, TLC, Json

CONSTANTS TraceFile, MaxId
Trace == ndJsonDeserialize(TraceFile)
Ids == 1..MaxId
Finished == {"refused", "dropped", "acked"}

VARIABLES l, fate, meta, committed, committing, out
mvars == <<l, fate, meta, committed, committing, out>>

NoMeta == [topic |-> -1, part |-> -1, off |-> -1, epoch |-> -1]
Fresh == /\ fate = [i \in Ids |-> "unread"] /\ meta = [i \in Ids |-> NoMeta] /\ committed = {} /\ committing = {}
Init == l = 1 /\ Fresh /\ out = {}

SeqToSet(s) == {s[i] : i \in 1..Len(s)}
SameTP(a, b) == meta[a].topic = meta[b].topic /\ meta[a].part = meta[b].part
\* franz-go keeps the head that is largest by (epoch, offset)
Less(a, b) == a.epoch < b.epoch \/ (a.epoch = b.epoch /\ a.head < b.head)
HeadOf(r) == [head |-> meta[r].off + 1, epoch |-> meta[r].epoch]
\* a record whose offset was handed out again under a higher leader epoch no longer exists in the log (truncation after an
\* unclean leader election): a mark cannot "pass" it any more
Superseded(x) == \E y \in Ids : fate[y] # "unread" /\ SameTP(x, y) /\ meta[y].epoch > meta[x].epoch /\ meta[y].off <= meta[x].off
\* records the consumer was handed by the broker: unfinished as long as they have not been acked / dropped / refused,
\* also when the consumer never passed them to the pipeline
Unfinished(x) == fate[x] \in {"inflight", "fetched"} /\ ~Superseded(x)
Passed(x, m) == meta[x].topic = m.topic /\ meta[x].part = m.part /\ meta[x].off < m.head /\ meta[x].epoch <= m.epoch

\* marks observed right after a record was handed to the pipeline (the consumer must not mark on its own what passes an unfinished record)
\* only heads that do not come from a Commit (issued or in progress) are judged here; commit-derived heads are judged at the Commit line
MarksViol(t) ==
  LET fromCommit(m) == \E c \in committed \cup committing : meta[c].topic = m.topic /\ meta[c].part = m.part /\ meta[c].off + 1 = m.head
  IN UNION {{[kind |-> "mark_past_unfinished", id |-> t.id, other |-> q, info |-> "not_from_commit"] :
               q \in {x \in Ids : Unfinished(x) /\ Passed(x, m)}}
            : m \in {x \in SeqToSet(t.marks) : ~fromCommit(x)}}

CommitViol(t, com) ==
  LET id == t.id
      marks == SeqToSet(t.marks)
      mine == {m \in marks : m.topic = meta[id].topic /\ m.part = meta[id].part}
      peers == {c \in com : SameTP(c, id)}
      best == CHOOSE c \in peers : \A d \in peers : ~Less(HeadOf(c), HeadOf(d))
      v1 == IF mine = {} THEN {[kind |-> "mark_missing", id |-> id, other |-> 0, info |-> ""]} ELSE {}
      v2 == {[kind |-> "mark_wrong", id |-> id, other |-> m.head, info |-> "expected head and epoch of the furthest committed record"] :
               m \in {x \in mine : x.head # HeadOf(best).head \/ x.epoch # HeadOf(best).epoch}}
      v3 == {[kind |-> "mark_foreign", id |-> id, other |-> m.part, info |-> ""] :
               m \in {x \in marks : ~\E c \in com : meta[c].topic = x.topic /\ meta[c].part = x.part}}
      v4 == UNION {{[kind |-> "mark_past_unfinished", id |-> id, other |-> q,
                     info |-> IF fate[q] = "fetched" THEN "never_entered_pipeline"
                              ELSE IF fate[id] \in Finished THEN "self_finished" ELSE "self_unfinished"] :
                      q \in {x \in Ids : x # id /\ Unfinished(x) /\ Passed(x, m)}} : m \in mine}
      v5 == IF fate[id] \notin Finished
              THEN {[kind |-> "mark_of_unfinished", id |-> id, other |-> 0, info |-> fate[id]]} ELSE {}
  IN v1 \cup v2 \cup v3 \cup v4 \cup v5

Step ==
  /\ l <= Len(Trace)
  /\ LET t == Trace[l] IN
       /\ CASE t.ev = "Reset" -> /\ fate' = [i \in Ids |-> "unread"] /\ meta' = [i \in Ids |-> NoMeta] /\ committed' = {} /\ committing' = {}
                                 /\ UNCHANGED out
            [] t.ev = "Fetched" -> /\ fate' = [fate EXCEPT ![t.id] = IF @ = "unread" THEN "fetched" ELSE @]
                                   /\ meta' = [meta EXCEPT ![t.id] = [topic |-> t.topic, part |-> t.part, off |-> t.off, epoch |-> t.epoch]]
                                   /\ UNCHANGED <<committed, committing, out>>
            [] t.ev = "InCall" -> /\ fate' = [fate EXCEPT ![t.id] = "inflight"]
                                  /\ meta' = [meta EXCEPT ![t.id] = [topic |-> t.topic, part |-> t.part, off |-> t.off, epoch |-> t.epoch]]
                                  /\ UNCHANGED <<committed, committing, out>>
            \* the input is told to commit something that is not a record it handed over (e.g. a child of a split record, carrying
            \* the record's source id and offset): whatever it marks, the record itself is not finished by that
            [] t.ev \in {"CommitCall", "Commit"} /\ t.id \notin Ids ->
                 /\ out' = out \cup {[run |-> t.run, n |-> t.n, v |-> [kind |-> "commit_for_non_record", id |-> t.id, other |-> 0, info |-> ""]]}
                 /\ UNCHANGED <<fate, meta, committed, committing>>
            [] t.ev = "CommitCall" -> /\ committing' = committing \cup {t.id} /\ UNCHANGED <<fate, meta, committed, out>>
            [] t.ev = "InRet" -> /\ fate' = [fate EXCEPT ![t.id] = IF t.ok THEN @ ELSE "refused"]
                                 /\ UNCHANGED <<meta, committed, committing, out>>
            [] t.ev = "DoRet" -> /\ fate' = [fate EXCEPT ![t.id] = IF t.res = "discard" THEN "dropped" ELSE @]
                                 /\ UNCHANGED <<meta, committed, committing, out>>
            [] t.ev = "SendRet" -> /\ fate' = [i \in Ids |-> IF t.ok /\ i \in SeqToSet(t.ids) THEN "acked" ELSE fate[i]]
                                   /\ UNCHANGED <<meta, committed, committing, out>>
            [] t.ev = "Commit" -> /\ committed' = committed \cup {t.id}
                                  /\ out' = out \cup {[run |-> t.run, n |-> t.n, v |-> v] : v \in CommitViol(t, committed \cup {t.id})}
                                  /\ UNCHANGED <<fate, meta, committing>>
            [] t.ev = "Marks" -> /\ out' = out \cup {[run |-> t.run, n |-> t.n, v |-> v] : v \in MarksViol(t)}
                                 /\ UNCHANGED <<fate, meta, committed, committing>>
            \* an OffsetCommit request the broker received (at Stop): it must not pass an unfinished record and must belong to a consumed partition
            [] t.ev = "BrokerCommit" ->
                 /\ out' = out \cup
                      {[run |-> t.run, n |-> t.n, v |-> [kind |-> "broker_commit_past_unfinished", id |-> q, other |-> t.offset, info |-> ""]] :
                         q \in {x \in Ids : Unfinished(x) /\ meta[x].topic = t.topic /\ meta[x].part = t.part /\ meta[x].off < t.offset}}
                      \cup (IF \E x \in Ids : fate[x] # "unread" /\ meta[x].topic = t.topic /\ meta[x].part = t.part THEN {}
                            ELSE {[run |-> t.run, n |-> t.n, v |-> [kind |-> "broker_commit_foreign", id |-> 0, other |-> t.offset, info |-> ""]]})
                 /\ UNCHANGED <<fate, meta, committed, committing>>
            [] t.ev = "End" -> /\ out' = IF t.idle THEN out ELSE out \cup {[run |-> t.run, n |-> t.n,
                                              v |-> [kind |-> "not_idle", id |-> 0, other |-> 0, info |-> ""]]}
                               /\ UNCHANGED <<fate, meta, committed, committing>>
            [] OTHER -> UNCHANGED <<fate, meta, committed, committing, out>>
  /\ l' = l + 1

Spec == Init /\ [][Step]_mvars
Done == l = Len(Trace) + 1
Report == Done => PrintT(ToJson([lines |-> Len(Trace), viol |-> out]))
=============================================================================
