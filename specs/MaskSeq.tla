------------------------------- MODULE MaskSeq -------------------------------
(* C17, sequences of events through ONE instance of the mask plugin (plugin/action/mask/mask.go, Do / processMask).

   The property: the result for an event -- masked values, applied marks, metrics -- is a function of
   (configuration, that event) alone.  Nothing is carried from one event to the next.

   The mechanism in the code (M_NoStateAcrossEvents): a mask's applied_field is written while the value is being
   masked; the only per-instance state is maskApplyCount[i], kept for masks with a metric_name and reset to 0 every
   time it is read at the end of Do.
   The mutant (M_NoStateAcrossEvents = FALSE): the per-mask hit counter is kept for masks with an applied_field too
   and the mark is written from it at the end of Do, but the counter of a mask WITHOUT a metric_name is never reset
   -- it survives to the next event.  TLC must ACCEPT the mechanism and REJECT the mutant on a 2-event sequence.

   Abstraction: an event is the set of masks that match somewhere in it.                                     *)
EXTENDS Integers, Sequences, FiniteSets, TLC

CONSTANTS Masks, SeqLen, M_NoStateAcrossEvents

VARIABLES cfg,       \* mask -> [af, metric]: applied_field set? metric_name set?
          evs,       \* the sequence of events (each: the set of masks that match in it)
          k,         \* events processed so far
          count,     \* maskApplyCount
          marks,     \* per processed event: the masks whose applied_field was written
          metrics    \* per processed event: the masks whose metric was incremented
vars == <<cfg, evs, k, count, marks, metrics>>

Init ==
  /\ cfg \in [Masks -> [af : BOOLEAN, metric : BOOLEAN]]
  /\ evs \in [1..SeqLen -> SUBSET Masks]
  /\ k = 0
  /\ count = [m \in Masks |-> 0]
  /\ marks = <<>> /\ metrics = <<>>

(* one call of Do *)
DoEvent ==
  /\ k < SeqLen
  /\ LET e == evs[k + 1] IN
     IF M_NoStateAcrossEvents
       THEN \* processMask: applied_field written on the spot; counter only for masks with a metric; reset after use
            LET c1 == [m \in Masks |-> IF m \in e /\ cfg[m].metric THEN count[m] + 1 ELSE count[m]] IN
            /\ marks' = Append(marks, {m \in e : cfg[m].af})
            /\ metrics' = Append(metrics, IF e # {} THEN {m \in Masks : c1[m] > 0} ELSE {})
            /\ count' = IF e # {} THEN [m \in Masks |-> 0] ELSE c1
       ELSE \* the mutant: counter for every mask; mark and metric from the counter; reset only behind the metric
            LET c1 == [m \in Masks |-> IF m \in e THEN count[m] + 1 ELSE count[m]] IN
            /\ marks' = Append(marks, IF e # {} THEN {m \in Masks : c1[m] > 0 /\ cfg[m].af} ELSE {})
            /\ metrics' = Append(metrics, IF e # {} THEN {m \in Masks : c1[m] > 0 /\ cfg[m].metric} ELSE {})
            /\ count' = IF e # {} THEN [m \in Masks |-> IF c1[m] > 0 /\ cfg[m].metric THEN 0 ELSE c1[m]] ELSE c1
  /\ k' = k + 1
  /\ UNCHANGED <<cfg, evs>>

Next == DoEvent
Spec == Init /\ [][Next]_vars

TypeOK == k \in 0..SeqLen
\* every processed event got exactly the marks / metrics of the masks that matched IN IT
EventAlone ==
  \A j \in 1..k : /\ marks[j] = {m \in evs[j] : cfg[m].af}
                  /\ metrics[j] = {m \in evs[j] : cfg[m].metric}
=============================================================================
