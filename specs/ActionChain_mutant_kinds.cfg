\* spec mutant: only regular events are matched (child events spawned by split bypass every selector).
\* TLC MUST reject it (SelectorDecides).
SPECIFICATION Spec
CONSTANTS
  N = 2
  MaxEvents = 3
  M_SelectorIndependentOfOtherActions = TRUE
  M_OnlyTimeoutExempt = FALSE
INVARIANTS TypeOK SelectorDecides
CHECK_DEADLOCK FALSE
