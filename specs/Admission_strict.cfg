SPECIFICATION Spec
CONSTANTS
  Parts = {"spam"}
  Ms = {0, 1, 2, 3, 4, 5, 6, 7, 8}
  LMax = 9
  NSrc = 2
  Dts = {1, 2}
  Interval = 2
  Kinds = {"n"}
  MaxSteps = 6
  Ts = {1, 2}
  WithDisabled = FALSE
  T2s = {1}
  Us = {4, 1}
  Modes = {"exc"}
  D_ResidualAfterUnban = TRUE
  D_ExceptionsIgnoredWithRules = TRUE
  M_CapPerSource = TRUE
  M_InvertAfterShortcut = TRUE
  M_LowerCopies = TRUE
  M_ErrClearedBeforeDecode = TRUE
  M_SubjectPerException = TRUE
  M_FirstRuleWins = TRUE
  M_SourceFallsBackToInputId = TRUE
  M_PrecheckOnlyForKnownStream = TRUE
  M_RootResetPerRecord = TRUE
  M_ExceptionsFirst = TRUE
  SKeyMaxLen = 4
  MSyms = {1, 2}
  MDataMax = 3
  MValMax = 2
  MCi = {FALSE}
  MPairLens = {1, 2}
INVARIANTS TypeOK RefusedOnlyIf CutIsPrefix WithinLimitUntouched MatchAgrees DataUnchanged CriAdmitted CriVerdictIgnoresAntispam ExceptionListExempts RuleListGoverns SourceKeyAgrees NoSharedCounter RefusedOnlyForStatedReasons DeliveredDependsOnRecordOnly ExemptNeverSpam DisabledNeverDrops ExceptionNeverDropsStrict SpamOnlyIfBanned BanOnlyAfterThresholdStrict UnbanWithin VerdictDeterminedStrict
CHECK_DEADLOCK FALSE
