------------------------------- MODULE LockOrder -------------------------------
(* Lock order between a stream's mutex and the streamer's list of blocked streams (stream.go blockGet / tryUnblock,
   streamer.go makeBlocked / resetBlocked / heartbeat).

     processor in blockGet : holds stream.mu, then takes blockedMu (makeBlocked before it sleeps, resetBlocked when it wakes)
     input put             : holds stream.mu (and signals the sleeping processor)
     heartbeat             : takes blockedMu only to COPY the list, releases it, and then takes each stream's mu in tryUnblock

   So the only nesting is stream.mu -> blockedMu.  Mechanism M_HeartbeatWorksOnCopy (TRUE = the code).  The mutant calls
   tryUnblock while still holding blockedMu, i.e. nests blockedMu -> stream.mu: with a processor inside blockGet the two wait for
   each other, blockedMu is never released, and from then on every processor entering or leaving blockGet, every put on such a
   stream and every later heartbeat hangs: no time-out event is ever produced again.                                         *)
EXTENDS Naturals, FiniteSets

CONSTANTS Streams, M_HeartbeatWorksOnCopy

VARIABLES smu,      \* [Streams -> "free" | "proc" | "hb"]    holder of stream.mu
          bmu,      \* "free" | "proc" | "hb"                    holder of blockedMu
          ppc,      \* [Streams -> pc of the processor that owns the stream]
          hpc, hs   \* heartbeat: pc and the stream it is looking at

vars == <<smu, bmu, ppc, hpc, hs>>
NoS == CHOOSE s \in Streams : TRUE

Init == /\ smu = [s \in Streams |-> "free"] /\ bmu = "free"
        /\ ppc = [s \in Streams |-> "idle"] /\ hpc = "idle" /\ hs = NoS

\* processor: blockGet = lock s.mu ; lock blockedMu (makeBlocked) ; unlock blockedMu ; (cond.Wait releases s.mu) ...
PLockS(s)   == ppc[s] = "idle" /\ smu[s] = "free" /\ smu' = [smu EXCEPT ![s] = "proc"] /\ ppc' = [ppc EXCEPT ![s] = "hasS"]
               /\ UNCHANGED <<bmu, hpc, hs>>
PLockB(s)   == ppc[s] = "hasS" /\ bmu = "free" /\ bmu' = "proc" /\ ppc' = [ppc EXCEPT ![s] = "hasSB"]
               /\ UNCHANGED <<smu, hpc, hs>>
PUnlockB(s) == ppc[s] = "hasSB" /\ bmu' = "free" /\ ppc' = [ppc EXCEPT ![s] = "hasS2"] /\ UNCHANGED <<smu, hpc, hs>>
PUnlockS(s) == ppc[s] = "hasS2" /\ smu' = [smu EXCEPT ![s] = "free"] /\ ppc' = [ppc EXCEPT ![s] = "idle"]
               /\ UNCHANGED <<bmu, hpc, hs>>

\* heartbeat
HLockB   == hpc = "idle" /\ bmu = "free" /\ bmu' = "hb" /\ hpc' = "hasB" /\ UNCHANGED <<smu, ppc, hs>>
HCopied  == hpc = "hasB" /\ M_HeartbeatWorksOnCopy /\ bmu' = "free" /\ hpc' = "copied" /\ UNCHANGED <<smu, ppc, hs>>
HPick(s) == hpc \in (IF M_HeartbeatWorksOnCopy THEN {"copied"} ELSE {"hasB"}) /\ hs' = s /\ hpc' = "want" /\ UNCHANGED <<smu, bmu, ppc>>
HLockS   == hpc = "want" /\ smu[hs] = "free" /\ smu' = [smu EXCEPT ![hs] = "hb"] /\ hpc' = "hasS" /\ UNCHANGED <<bmu, ppc, hs>>
HUnlockS == hpc = "hasS" /\ smu' = [smu EXCEPT ![hs] = "free"]
            /\ bmu' = (IF M_HeartbeatWorksOnCopy THEN bmu ELSE "free")
            /\ hpc' = "idle" /\ UNCHANGED <<ppc, hs>>

Next == \/ \E s \in Streams : PLockS(s) \/ PLockB(s) \/ PUnlockB(s) \/ PUnlockS(s) \/ HPick(s)
        \/ HLockB \/ HCopied \/ HLockS \/ HUnlockS
Spec == Init /\ [][Next]_vars

MutexOK == \A s \in Streams : (ppc[s] \in {"hasS", "hasSB", "hasS2"}) = (smu[s] = "proc")
\* nobody waits for ever: checked as absence of deadlock (CHECK_DEADLOCK TRUE; every thread of this model loops for ever)
=============================================================================
