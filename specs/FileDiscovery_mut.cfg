SPECIFICATION Spec
CONSTANTS
  Names = {"f", "f1", "f2"}
  MaxInode = 3
  MaxOps = 4
  M_JobDescribedByOpenedFile = FALSE
INVARIANTS TypeOK KeyIsOpenedFile
PROPERTIES AllDiscovered
CHECK_DEADLOCK FALSE
