--------------------------- MODULE OutputStreamSink ---------------------------
(* C19, connection-oriented sink -- companion of OutputPayload.tla (what a batch payload contains) and
   OutputFileSink.tla (how payloads reach files): how the payloads of the attempts of a batch reach the byte streams of the
   TCP connections of one batcher worker (plugin/output/gelf/gelf.go: out -> data.gelf.send; client.go).

   Code: the worker data keeps ONE connection (data.gelf).  out() encodes the batch into frames (a document and a
   terminating NUL per event), connects if there is no connection, and issues one conn.Write of the whole payload with a
   write deadline.  A write can succeed, fail before any byte was taken, or fail after a PART of the payload was taken by
   the connection (deadline expired while the receiver was not reading).  On ANY error the connection is closed and
   dropped (data.gelf = nil), out() returns the error, and the RetriableBatcher calls out() again with the same batch:
   the retry goes onto a NEW connection.  On success the batch is acknowledged.

   Mechanism switch (TRUE = as in the code):
     M_ReconnectAfterFailedWrite   FALSE = after a failed write the connection is kept: the retry's payload is written
                                   behind whatever the failed attempt left on the stream.

   A frame is two cells <<b, i, 1>> (document) and <<b, i, 2>> (terminator), so that a cut can fall inside a frame.   *)
EXTENDS Integers, Sequences, FiniteSets, TLC

CONSTANTS Batches,       \* number of successive batches of the worker
          MaxFrames,     \* frames (events) per batch: 1..MaxFrames, chosen per batch
          MaxFailures,   \* failed attempts in the whole behaviour
          M_ReconnectAfterFailedWrite

VARIABLES nframes,       \* per batch: number of frames (part of the case)
          conns,         \* byte streams of the connections opened so far, in order; the last one may be the live one
          live,          \* TRUE: data.gelf # nil (the last element of conns is the worker's connection)
          b,             \* batch being sent (Batches + 1 = all acknowledged)
          acked,         \* per acknowledged batch: index of the connection its successful attempt used
          failures

vars == <<nframes, conns, live, b, acked, failures>>

Payload(x) == [c \in 1..(2 * nframes[x]) |-> <<x, (c + 1) \div 2, IF c % 2 = 1 THEN 1 ELSE 2>>]

Init ==
  /\ nframes \in [1..Batches -> 1..MaxFrames]
  /\ conns = <<>> /\ live = FALSE /\ b = 1 /\ acked = <<>> /\ failures = 0

(* out(): `if data.gelf == nil { newClient }` *)
Streams == IF live THEN conns ELSE Append(conns, <<>>)
Cur     == Len(Streams)

(* the write takes the first k cells of the payload; k = all: success, the batch is acknowledged *)
Attempt ==
  /\ b <= Batches
  /\ \E k \in 0..(2 * nframes[b]) :
       LET s == Streams
           whole == k = 2 * nframes[b]
       IN /\ (~whole) => failures < MaxFailures
          /\ conns' = [s EXCEPT ![Cur] = @ \o SubSeq(Payload(b), 1, k)]
          /\ IF whole
               THEN /\ acked' = Append(acked, Cur) /\ b' = b + 1 /\ live' = TRUE /\ failures' = failures
               ELSE \* error: `_ = data.gelf.close(); data.gelf = nil` -- or, mutant, the connection is kept
                    /\ live' = ~M_ReconnectAfterFailedWrite
                    /\ failures' = failures + 1 /\ UNCHANGED <<acked, b>>
  /\ UNCHANGED nframes

(* maintenance (reconnect_interval): the worker drops its connection between batches *)
Reconnect ==
  /\ live /\ live' = FALSE
  /\ UNCHANGED <<nframes, conns, b, acked, failures>>

Next == Attempt \/ Reconnect
Spec == Init /\ [][Next]_vars

-----------------------------------------------------------------------------
\* s is a prefix of a concatenation of whole frames: whole frames, then at most one incomplete frame at the very end
RECURSIVE FramesPrefix(_, _)
FramesPrefix(s, p) ==
  IF p > Len(s) THEN TRUE
  ELSE /\ s[p][3] = 1                                                 \* a frame starts with its document
       /\ IF p = Len(s) THEN TRUE                                     \* cut inside the last frame: fine, it is the end
          ELSE s[p + 1] = <<s[p][1], s[p][2], 2>> /\ FramesPrefix(s, p + 2)

\* what a receiver sees on ONE connection is always a prefix of a sequence of whole frames:
\* every terminated frame it can cut out of the stream is one whole document of one event
StreamIsPrefixOfWholeFrames == \A i \in DOMAIN conns : FramesPrefix(conns[i], 1)

Contains(s, pl) == \E off \in 0..(Len(s) - Len(pl)) : SubSeq(s, off + 1, off + Len(pl)) = pl
\* every acknowledged batch is on the connection of its successful attempt, whole and contiguous
AckedBatchIsWhole == \A x \in DOMAIN acked : Contains(conns[acked[x]], Payload(x))

\* a frame never appears twice on one connection (the same event delivered twice to one receiver stream)
NoFrameTwiceOnOneConnection ==
  \A i \in DOMAIN conns : \A p, q \in DOMAIN conns[i] : (p # q /\ conns[i][p][3] = 2) => conns[i][p] # conns[i][q]

=============================================================================
