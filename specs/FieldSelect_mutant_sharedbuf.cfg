SPECIFICATION Spec
CONSTANTS
  Fams <- MutantFams
  D_SwapDelete = TRUE
  M_RemovePerSelector = TRUE
  ScanT = 1
  M_NamesComparedWhole = TRUE
  NameW = 5
  M_BuffersPerInstance = TRUE
  M_AllDocumentKindsFiltered = TRUE
  Cap = 2
  M_DepthBuffersDisjoint = FALSE
INVARIANTS MutantInv
CHECK_DEADLOCK FALSE
