SPECIFICATION SpecMap
CONSTANTS
  Slices <- MutantSlices
  Mut = "none"
INVARIANTS MapNeverOverLimit MapNoEarlyReject
CHECK_DEADLOCK FALSE
