\* abstract tables, faithful transcription (D13 = TRUE: the code as written)
SPECIFICATION Spec
CONSTANTS
  MaxLen = 3
  Chars = {1, 3}
  MaxMatches = 2
  NGs = {1, 2}
  MCs = {0, 1, 2}
  D13 = TRUE
  M_AllMatches = TRUE
INVARIANTS TypeOK PanicsExactlyWhenNamed AllMatchesVisited ReturnsAcceptable ExactImpliesWeaker RejectsSurvivor RejectsDamage Export
CHECK_DEADLOCK FALSE
