SPECIFICATION Spec
CONSTANTS
  Workers = {1, 2}
  Batches = 1
  MaxChunks = 3
  MaxSeals = 0
  M_BatchWrittenUnderOneLock = TRUE
INVARIANTS FilesAreWholeBatches EachChunkOnce
CHECK_DEADLOCK FALSE
