SPECIFICATION Spec
CONSTANTS
  MaxLen1 = 5
  MaxLen2 = 3
  MaxLenPre = 4
  Ms = {0, 2}
  Pres = {"none", "discard", "break", "sel", "post", "ind"}
  D5_TimeoutToLastAction = TRUE
  D15_BreakBypassesHold = TRUE
  M_BusyIgnoresSelector = TRUE
  M_PropagateResetsBusyFirst = TRUE
  M_FlushCopiesBuffer = TRUE
  M_StartCheckIsTheTemplates = TRUE
INVARIANTS TypeOK TimeoutOnlyWhileJoining BusyIffJoining JoiningHasInitial StatementOK ExplainedByDeliveredTimeouts DevSwitched Export
CHECK_DEADLOCK FALSE
