SPECIFICATION SpecKey
CONSTANTS
  Slices <- MutantSlices
  Mut = "none"
INVARIANTS KeyOwnBudget
CHECK_DEADLOCK FALSE
