SPECIFICATION Spec
CONSTANTS
  Fams <- QuickFams
  D_SwapDelete = TRUE
  M_RemovePerSelector = TRUE
  ScanT = 1
  M_NamesComparedWhole = TRUE
  NameW = 5
  M_BuffersPerInstance = TRUE
  M_AllDocumentKindsFiltered = TRUE
  Cap = 2
  M_DepthBuffersDisjoint = TRUE
INVARIANTS AllInv
CHECK_DEADLOCK FALSE
