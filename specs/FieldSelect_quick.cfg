SPECIFICATION Spec
CONSTANTS
  Fams <- QuickFams
  D_SwapDelete = TRUE
INVARIANTS AllInv
CHECK_DEADLOCK FALSE
