SPECIFICATION Spec
CONSTANTS
  Fams <- QuickFams
  D_SwapDelete = TRUE
  Cap = 2
  M_DepthBuffersDisjoint = TRUE
INVARIANTS AllInv
CHECK_DEADLOCK FALSE
