SPECIFICATION FairSpec
CONSTANTS
  N = 4
  M_InputStopsBeforeOutput = TRUE
INVARIANTS ShutdownSafe
PROPERTIES StopCompletes
CHECK_DEADLOCK FALSE
