SPECIFICATION Spec
CONSTANTS
  Mode = "conc"
  MaxLen = 0
  SeqLen = 0
  ConcLen = 2
  Symbols = {1, 2}
  Mutant = "none"
INVARIANTS TypeOK OracleSane LinesExact LinesPrefix CarryIsTail OKOnlyAfterAllLines NoOKOnError SidExclusive NoMixing NoForeignBytes BufOwned PendingStable Balanced
CHECK_DEADLOCK FALSE
