SPECIFICATION SpecMap
CONSTANTS
  Slices <- MutantSlices
  Mut = "none"
INVARIANTS MapNeverOverLimit MapNoEarlyReject MapOneLimiterPerKey
CHECK_DEADLOCK FALSE
