SPECIFICATION Spec
CONSTANTS
  Capacity = 1
  Getters = {"g1", "g2"}
  Rounds = 1
  M_HeartbeatLives = TRUE
  RecordGate = FALSE
  HeartbeatWhenAvailable = FALSE
INVARIANTS Bounded CounterSound MutexOK NoWedge
CHECK_DEADLOCK FALSE
