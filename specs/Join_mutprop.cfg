\* spec mutant: Propagate resets the holder's busy flag only AFTER the flushed event went through the later actions
\* (M_PropagateResetsBusyFirst off). TLC must find StatementOK violated (chain [join, discarding action])
SPECIFICATION Spec
CONSTANTS
  MaxLen1 = 0
  MaxLen2 = 0
  MaxLenPre = 4
  Ms = {0}
  Pres = {"post"}
  D5_TimeoutToLastAction = TRUE
  D15_BreakBypassesHold = TRUE
  M_BusyIgnoresSelector = TRUE
  M_PropagateResetsBusyFirst = FALSE
  M_FlushCopiesBuffer = TRUE
  M_StartCheckIsTheTemplates = TRUE
INVARIANTS TypeOK StatementOK
CHECK_DEADLOCK FALSE
