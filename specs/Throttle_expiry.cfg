SPECIFICATION Spec
CONSTANTS
  Slices <- ExpirySlices
  Mut = "none"
INVARIANTS TypeOK BusyKeyWithinLimit EvictedOnlyIdle
CHECK_DEADLOCK FALSE
