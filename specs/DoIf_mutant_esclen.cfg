\* spec mutant: byte_len_cmp measures the escaped text of a string field (\\n, \\", \\\\ count 2, \\uXXXX 6) instead of its value.
\* TLC MUST reject it (ImplRefinesDecl) on part E.
SPECIFICATION Spec
CONSTANTS
  Chars = {1, 2, 3}
  MaxVal = 2
  MaxVal2 = 1
  MaxData = 3
  PoolN = 4
  Depth3 = FALSE
  M_ShiftOnce = TRUE
  M_LenOfValue = FALSE
  M_ContainsAnyRunes = TRUE
  UChars = {1, 40, 41, 42, 43, 45, 46, 48, 49}
  UMaxData = 2
  PartsOn = {"E"}
  D_FoldWidth = TRUE
  D_ContainerNul = TRUE
  D_EmptyContainerLen = TRUE
INVARIANTS TypeOK ImplRefinesDecl
CHECK_DEADLOCK FALSE
