SPECIFICATION Spec
CONSTANTS
  MaxInode = 4
  M_LinksReresolved = TRUE
INVARIANTS FollowsTheLink
CHECK_DEADLOCK FALSE
