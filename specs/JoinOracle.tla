----------------------------- MODULE JoinOracle -----------------------------
(* C15 -- the DECLARATIVE statement of multi-line reassembly for one stream, shared by Join.tla (one joining
   action inside the processor) and JoinInstances.tla (one plugin instance per processor):
   the stream's events are split uniquely into non-joined events and maximal runs (a start followed by
   continuations), a run is also closed by a time-out; Output(seq, TO) is the non-joined events unchanged and in
   order and each closed run replaced by one event.  Pure operators, no state. *)
EXTENDS Integers, Sequences, FiniteSets

(* classes *)
StartCls == {"S1", "S2"}
TOf(c) == IF c = "S1" THEN 1 ELSE 2
CName(t) == IF t = 1 THEN "C1" ELSE "C2"

(* ---------------- the declarative statement ---------------- *)

\* positions of the events that are not removed by the discarding action, in order
Vis(seq) == SelectSeq([k \in 1..Len(seq) |-> k], LAMBDA k : seq[k] # "D")

\* does class c continue a run opened under template t?  (ns = "pattern": a non-string value, and the value of
\* an event that does not satisfy the join's selector, is judged by its rendering, which matches no pattern;
\* ns = "never": such an event never continues -- the statement does not say which, both are accepted.
\* Without negate both readings agree: such an event is a non-continuing event and closes the run.)
ContC(neg, t, c, ns) ==
  /\ c \notin {"NF", "B", "S1", "S2", "XN"}
  /\ IF c \in {"NS", "XO"} /\ ns = "never" THEN FALSE ELSE ((c = CName(t)) # neg[t])

TOBetween(T, p, q) == \E x \in T : p <= x /\ x < q

\* P = visible positions; a = index (into P) of a start event; the run a..j is unbroken
Extends(seq, neg, T, ns, P, a, j) ==
  \A m \in (a + 1)..j : /\ ContC(neg, TOf(seq[P[a]]), seq[P[m]], ns)
                        /\ ~TOBetween(T, P[m - 1], P[m])
RunEnd(seq, neg, T, ns, P, a) ==
  CHOOSE b \in a..Len(P) : /\ Extends(seq, neg, T, ns, P, a, b)
                           /\ (b = Len(P) \/ ~Extends(seq, neg, T, ns, P, a, b + 1))
LastStart(seq, P, j) ==
  LET S == {a \in 1..j : seq[P[a]] \in StartCls}
  IN IF S = {} THEN 0 ELSE CHOOSE a \in S : \A x \in S : x <= a
InRun(seq, neg, T, ns, P, j) ==
  LET a == LastStart(seq, P, j) IN a # 0 /\ j <= RunEnd(seq, neg, T, ns, P, a)
\* a run is closed (must have been flushed) when a later event of the stream arrived or a time-out did
Closed(seq, neg, T, ns, P, a) ==
  LET b == RunEnd(seq, neg, T, ns, P, a) IN b < Len(P) \/ \E x \in T : x >= P[b]

Item(seq, neg, T, ns, P, j) ==
  IF seq[P[j]] \in StartCls
    THEN IF Closed(seq, neg, T, ns, P, j)
           THEN <<[k |-> "j", ids |-> [m \in 1..(RunEnd(seq, neg, T, ns, P, j) - j + 1) |-> P[j + m - 1]]]>>
           ELSE <<>>                                   \* still held: nothing may be demanded yet
    ELSE IF InRun(seq, neg, T, ns, P, j) THEN <<>>
         ELSE <<[k |-> "p", ids |-> <<P[j]>>]>>

\* some run is still open: no later event and no time-out has closed it yet
Pending(seq, neg, T, ns) ==
  LET P == Vis(seq) IN \E a \in 1..Len(P) : seq[P[a]] \in StartCls /\ ~Closed(seq, neg, T, ns, P, a)

RECURSIVE ItemsFrom(_, _, _, _, _, _)
ItemsFrom(seq, neg, T, ns, P, j) ==
  IF j > Len(P) THEN <<>>
  ELSE Item(seq, neg, T, ns, P, j) \o ItemsFrom(seq, neg, T, ns, P, j + 1)

\* Output(seq, TO): what the next stage must have received, in order
Output(seq, neg, T, ns) == ItemsFrom(seq, neg, T, ns, Vis(seq), 1)

\* "up to the configured size limit": the joined field is a prefix of the full concatenation; complete
\* when the run fits, otherwise nothing below the limit is lost
IsPrefix(s, t) == Len(s) <= Len(t) /\ SubSeq(t, 1, Len(s)) = s
ItemOK(o, e, M) ==
  /\ o.k = e.k
  /\ IF e.k = "p" THEN o.ids = e.ids
     ELSE /\ o.ids # <<>> /\ IsPrefix(o.ids, e.ids)
          /\ IF M = 0 \/ Len(e.ids) <= M THEN o.ids = e.ids ELSE Len(o.ids) >= M
SeqOK(os, es, M) == Len(os) = Len(es) /\ \A n \in 1..Len(os) : ItemOK(os[n], es[n], M)

=============================================================================
