SPECIFICATION Spec
CONSTANTS
  MaxLen = 3
  Alphabet = {0, 1}
  M_MaintenanceKeepsTail = TRUE
  M_MaintenanceSkipsBusyJob = FALSE
  Ms = {0, 1, 2, 3}
INVARIANTS TypeOK LinesExactlyOnce CallsAreLines TailIsRemainder AccumBounded
CHECK_DEADLOCK FALSE
