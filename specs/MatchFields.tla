---------------------------- MODULE MatchFields ----------------------------
(* C14 (match_fields half) -- the documented meaning of the legacy selector
       match_fields: {field: pattern, ...}   match_mode: and | or | and_prefix | or_prefix   match_invert
   (pipeline/plugin.go "match-modes", docs/configuring.md) written declaratively and three-valued
   (T / F / U = not decided by the documentation), next to a transcription of
   processor.isMatch / isMatchOr / isMatchAnd / MatchCondition.valueExists.

   A pattern is a string (one value), a list of strings (any of them) or "/re/" (a regexp, searched
   anywhere in the field value).  and/or: values must be equal to the field; *_prefix: values must be
   prefixes of the field; a regexp is a regexp in every mode.  A condition on a missing field is false.
   and = all conditions, or = at least one; match_invert negates the result.

   One state = one rule of one part; the rule is evaluated on every event of the part.
   Characters: 1 'a', 2 'A', 5 'b', 10+d the digit d (numbers are never values, only field contents). *)
EXTENDS Integers, Sequences, FiniteSets, TLC, Json
LOCAL INSTANCE SequencesExt

CONSTANTS CharsM,     \* letters of values and string fields
          MaxPat,     \* maximal length of a single-string pattern
          MaxFld,     \* maximal length of the string in field f
          M_DoIfDecidesAlone, \* mechanism (processor.isMatch): when the action has a do_if checker its answer is the
                      \* decision, whatever match_mode / match_invert say (no match_fields logic after it); FALSE =
                      \* mutant "do_if is a pre-filter in front of the match_fields logic" (MatchFields_mutant_doif.cfg)
          D_AndRegexp \* former defect D11 (repaired in file.d by "fix: match_mode and / and_prefix must honour
                      \* regexp conditions"): in the and-modes a regexp condition was also asked for a listed
                      \* value and therefore never matched.  FALSE in the faithful configurations; TRUE only in
                      \* MatchFields_mutant_d11.cfg, a spec mutant that TLC must reject (ImplMatchesDecl).

VARIABLE cs           \* [part, kind ("start" | "bucket" | "rule" | "events"), b, rule]

-----------------------------------------------------------------------------
Strs(S, n) == UNION {[1..k -> S] : k \in 0..n}
StrHasPrefix(s, p) == Len(p) <= Len(s) /\ SubSeq(s, 1, Len(p)) = p
NumRepr(n) == IF n < 10 THEN <<10 + n>> ELSE <<10 + (n \div 10), 10 + (n % 10)>>

Regexps == {"^a", "A$", "a.*A", ".*", "^$"}
ReTruth(re, s) ==
  CASE re = "^a"   -> Len(s) > 0 /\ s[1] = 1
    [] re = "A$"   -> Len(s) > 0 /\ s[Len(s)] = 2
    [] re = "a.*A" -> \E i \in 1..Len(s) : \E j \in (i + 1)..Len(s) : s[i] = 1 /\ s[j] = 2
    [] re = ".*"   -> TRUE
    [] re = "^$"   -> s = <<>>

Abs     == [k |-> "abs"]
Nul     == [k |-> "null"]
Num(n)  == [k |-> "num", n |-> n]
Str(s)  == [k |-> "str", s |-> s]
Obj(fs) == [k |-> "obj", fs |-> fs]
Arr(xs) == [k |-> "arr", xs |-> xs]
Fld(nm, v) == [name |-> nm, v |-> v]
RECURSIVE Lookup(_, _)
Lookup(v, path) ==
  IF path = <<>> THEN v
  ELSE IF v.k = "obj" /\ \E i \in 1..Len(v.fs) : v.fs[i].name = path[1]
       THEN Lookup(v.fs[CHOOSE i \in 1..Len(v.fs) : v.fs[i].name = path[1]].v, Tail(path))
       ELSE Abs

-----------------------------------------------------------------------------
(* rule = [conds, mode, invert]; cond = [path, form ("str" | "list" | "re"), vals, re] *)
Modes    == {"and", "or", "and_prefix", "or_prefix"}
IsPrefixMode(m) == m \in {"and_prefix", "or_prefix"}
IsAndMode(m)    == m \in {"and", "and_prefix"}
TV(b)  == IF b THEN "T" ELSE "F"
Neg(t) == IF t = "T" THEN "F" ELSE IF t = "F" THEN "T" ELSE "U"

(* ---- the documented meaning ---- *)
CondTV(c, ev, byPrefix) ==
  LET fv == Lookup(ev, c.path) IN
  CASE fv.k = "abs" -> "F"
    [] fv.k = "str" -> IF c.form = "re" THEN TV(ReTruth(c.re, fv.s))
                       ELSE TV(\E i \in 1..Len(c.vals) :
                                 IF byPrefix THEN StrHasPrefix(fv.s, c.vals[i]) ELSE fv.s = c.vals[i])
    [] OTHER -> "U"          \* numbers, null, objects, arrays: "patterns ... not a number or null"; fields: silent

Decl(r, ev) ==
  LET R == {CondTV(r.conds[i], ev, IsPrefixMode(r.mode)) : i \in 1..Len(r.conds)}
      raw == IF IsAndMode(r.mode)
               THEN (IF "F" \in R THEN "F" ELSE IF "U" \in R THEN "U" ELSE "T")
               ELSE (IF "T" \in R THEN "T" ELSE IF "U" \in R THEN "U" ELSE "F")
  IN IF r.invert THEN Neg(raw) ELSE raw

(* ---- what the code does ---- *)
AsString(fv) ==             \* insaneJSON Node.AsString
  CASE fv.k = "str"  -> fv.s
    [] fv.k = "num"  -> NumRepr(fv.n)
    [] fv.k = "null" -> <<21, 22, 23, 23>>      \* "null"
    [] OTHER -> <<>>                            \* object / array
ValueExists(c, s, byPrefix) ==
  \E i \in 1..Len(c.vals) : IF byPrefix THEN StrHasPrefix(s, c.vals[i]) ELSE c.vals[i] = s

RECURSIVE ScanOr(_, _, _, _)
ScanOr(conds, ev, byPrefix, i) ==
  IF i > Len(conds) THEN FALSE
  ELSE LET c == conds[i]  fv == Lookup(ev, c.path) IN
       IF fv.k = "abs" THEN ScanOr(conds, ev, byPrefix, i + 1)
       ELSE IF c.form = "re" /\ ReTruth(c.re, AsString(fv)) THEN TRUE
       ELSE IF ValueExists(c, AsString(fv), byPrefix) THEN TRUE
       ELSE ScanOr(conds, ev, byPrefix, i + 1)
RECURSIVE ScanAnd(_, _, _, _)
ScanAnd(conds, ev, byPrefix, i) ==
  IF i > Len(conds) THEN TRUE
  ELSE LET c == conds[i]  fv == Lookup(ev, c.path) IN
       IF fv.k = "abs" THEN FALSE
       ELSE IF c.form = "re" /\ ~ReTruth(c.re, AsString(fv)) THEN FALSE
       ELSE IF (D_AndRegexp \/ c.form # "re") /\ ~ValueExists(c, AsString(fv), byPrefix) THEN FALSE
       ELSE ScanAnd(conds, ev, byPrefix, i + 1)
ImplOn(conds, r, ev) ==
  LET m == IF IsAndMode(r.mode) THEN ScanAnd(conds, ev, IsPrefixMode(r.mode), 1)
           ELSE ScanOr(conds, ev, IsPrefixMode(r.mode), 1)
  IN IF r.invert THEN ~m ELSE m
Impl(r, ev) == TV(ImplOn(r.conds, r, ev))


Deviates(r) == D_AndRegexp /\ IsAndMode(r.mode) /\ \E i \in 1..Len(r.conds) : r.conds[i].form = "re"

-----------------------------------------------------------------------------
(* case space *)
S1 == Strs(CharsM, 1)
PatStr(v)  == [form |-> "str",  vals |-> <<v>>, re |-> ""]
PatList(l) == [form |-> "list", vals |-> l,     re |-> ""]
PatRe(r)   == [form |-> "re",   vals |-> <<>>,  re |-> r]
PatFull  == {PatStr(v) : v \in Strs(CharsM, MaxPat)}
            \cup {PatList(<<v>>) : v \in S1} \cup {PatList(<<v, w>>) : v \in S1, w \in S1}
            \cup {PatRe(r) : r \in Regexps}
PatSmall == {PatStr(<<1>>), PatStr(<<>>), PatList(<<<<1>>, <<2>>>>), PatRe("^a"), PatRe(".*")}
PatTiny  == {PatStr(<<1>>), PatList(<<<<1>>, <<2>>>>), PatRe("^a"), PatRe("A$")}
Cond(path, p) == [path |-> path, form |-> p.form, vals |-> p.vals, re |-> p.re]
Rule(cc, m, inv) == [conds |-> cc, mode |-> m, invert |-> inv]

\* part M: one condition on f, or one on f and one on g
RulesM == {Rule(<<Cond(<<"f">>, p)>>, m, inv) : p \in PatFull, m \in Modes, inv \in BOOLEAN}
          \cup {Rule(<<Cond(<<"f">>, p), Cond(<<"g">>, q)>>, m, inv) : p \in PatFull, q \in PatSmall, m \in Modes, inv \in BOOLEAN}
EvOf(fs, gs, hs) ==
  {Obj((IF f.k = "abs" THEN <<>> ELSE <<Fld("f", f)>>) \o (IF g.k = "abs" THEN <<>> ELSE <<Fld("g", g)>>)
       \o (IF h.k = "abs" THEN <<>> ELSE <<Fld("h", h)>>)) : f \in fs, g \in gs, h \in hs}
EventsM == SetToSeq(EvOf({Abs, Num(7), Nul} \cup {Str(s) : s \in Strs(CharsM, MaxFld)},
                         {Abs, Str(<<>>), Str(<<1>>), Str(<<2>>), Str(<<1, 2>>)}, {Abs}))

\* part M3: three conditions
RulesM3 == {Rule(<<Cond(<<"f">>, p), Cond(<<"g">>, q), Cond(<<"h">>, s)>>, m, inv) :
              p \in PatTiny, q \in PatTiny, s \in PatTiny, m \in Modes, inv \in BOOLEAN}
EventsM3 == LET V == {Abs, Str(<<1>>), Str(<<2>>)} IN SetToSeq(EvOf(V, V, V \cup {Arr(<<Str(<<1>>)>>)}))

\* part N: nested paths and dotted keys
PathsN == {<<"f", "g">>, <<"f.g">>, <<"h", "g", "f">>}
RulesN == {Rule(<<Cond(pa, p)>>, m, inv) : pa \in PathsN, p \in PatTiny, m \in Modes, inv \in BOOLEAN}
          \cup {Rule(<<Cond(pa, p), Cond(<<"f">>, PatRe(".*"))>>, m, inv) : pa \in PathsN, p \in PatTiny, m \in Modes, inv \in BOOLEAN}
A1 == Str(<<1>>)
EventsN == SetToSeq({
  Obj(<<>>),
  Obj(<<Fld("f", A1)>>),
  Obj(<<Fld("f", Obj(<<Fld("g", A1)>>))>>),
  Obj(<<Fld("f.g", A1)>>),
  Obj(<<Fld("f.g", Str(<<2>>)), Fld("f", Obj(<<Fld("g", A1)>>))>>),
  Obj(<<Fld("h", Obj(<<Fld("g", Obj(<<Fld("f", A1)>>))>>))>>),
  Obj(<<Fld("h", Obj(<<Fld("g", A1)>>)), Fld("f", Str(<<2>>))>>),
  Obj(<<Fld("f", Obj(<<Fld("g", Obj(<<Fld("f", A1)>>))>>))>>),
  Obj(<<Fld("f", Arr(<<A1>>))>>)})

Parts == {"M", "M3", "N"}
EventsOf(p) == CASE p = "M" -> EventsM [] p = "M3" -> EventsM3 [] p = "N" -> EventsN
RuleSeqM  == SetToSeq(RulesM)
RuleSeqM3 == SetToSeq(RulesM3)
RuleSeqN  == SetToSeq(RulesN)
RuleSeqOf(p) == CASE p = "M" -> RuleSeqM [] p = "M3" -> RuleSeqM3 [] p = "N" -> RuleSeqN

-----------------------------------------------------------------------------
NoRule == [mode |-> "none"]
NBuckets == 64
Init == cs = [part |-> "-", kind |-> "start", b |-> 0, rule |-> NoRule]
Next ==
  \/ /\ cs.kind = "start"
     /\ \E p \in Parts : \E b \in 0..(NBuckets - 1) :
          cs' = [part |-> p, kind |-> "bucket", b |-> b, rule |-> NoRule]
  \/ /\ cs.kind = "bucket"
     /\ \/ cs.b = 0 /\ cs' = [cs EXCEPT !.kind = "events"]
        \/ LET rs == RuleSeqOf(cs.part) IN
           \E k \in 0..((Len(rs) - cs.b - 1) \div NBuckets) :
              cs' = [part |-> cs.part, kind |-> "rule", b |-> cs.b, rule |-> rs[cs.b + 1 + NBuckets * k]]
  \/ cs.kind \in {"rule", "events"} /\ UNCHANGED cs
Spec == Init /\ [][Next]_cs

-----------------------------------------------------------------------------
Evs == EventsOf(cs.part)
IsRule == cs.kind = "rule"
TypeOK == cs.kind \in {"start", "bucket", "rule", "events"} /\ (cs.kind # "start" => cs.part \in Parts)

\* the transcription agrees with the documented meaning wherever it is decided, outside the deviation class
ImplRefinesDecl ==
  IsRule => \A i \in 1..Len(Evs) :
     LET d == Decl(cs.rule, Evs[i]) IN d = "U" \/ Impl(cs.rule, Evs[i]) = d \/ Deviates(cs.rule)

\* the same with no excuse at all: holds for the code as it is now; the D11 mutant must violate it
ImplMatchesDecl ==
  IsRule => \A i \in 1..Len(Evs) :
     LET d == Decl(cs.rule, Evs[i]) IN d = "U" \/ Impl(cs.rule, Evs[i]) = d

\* processor.isMatch for an action that has a do_if checker (answer d) next to match_mode / match_invert
IsMatchWithDoIf(d, r, ev) ==
  IF M_DoIfDecidesAlone THEN d ELSE d /\ ImplOn(r.conds, r, ev)
\* do_if decides alone: with (empty) match_fields of any mode, inverted or not, the decision is do_if's answer
DoIfDecidesAlone ==
  IsRule => \A i \in 1..Len(Evs) : \A d \in BOOLEAN :
     /\ IsMatchWithDoIf(d, cs.rule, Evs[i]) = d
     /\ IsMatchWithDoIf(d, [cs.rule EXCEPT !.conds = <<>>], Evs[i]) = d

\* the (random) order in which the Go map hands over the conditions cannot matter
CondOrderIrrelevant ==
  IsRule => \A i \in 1..Len(Evs) :
     ImplOn(cs.rule.conds, cs.rule, Evs[i]) = ImplOn(Reverse(cs.rule.conds), cs.rule, Evs[i])

\* match_invert is exactly the negation
InvertIsNegation ==
  IsRule => \A i \in 1..Len(Evs) :
     Decl([cs.rule EXCEPT !.invert = ~cs.rule.invert], Evs[i]) = Neg(Decl(cs.rule, Evs[i]))

\* what D11 was: with D_AndRegexp the transcription never matches a rule of the README's own and-mode example
\* shape (exact list + regexp).  Only meaningful in the mutant; vacuous in the faithful configurations.
AndRegexpNeverMatches ==
  IsRule /\ Deviates(cs.rule) /\ ~cs.rule.invert => \A i \in 1..Len(Evs) : Impl(cs.rule, Evs[i]) = "F"

ExportRec ==
  IF IsRule
    THEN [part |-> cs.part, rule |-> cs.rule,
          exp   |-> [i \in 1..Len(Evs) |-> Decl(cs.rule, Evs[i])],
          model |-> [i \in 1..Len(Evs) |-> Impl(cs.rule, Evs[i])],
          dev   |-> IF Deviates(cs.rule) THEN "and_regexp" ELSE ""]
    ELSE [part |-> cs.part, events |-> Evs]
Export == cs.kind \in {"rule", "events"} => PrintT(ToJson(ExportRec))

=============================================================================
