SPECIFICATION Spec
CONSTANTS
  MaxSize = 3
  M_SizeAfterPosition = FALSE
  M_CheckReadOnly = TRUE
INVARIANTS TypeOK TruncatedOnlyIfShrunk OffsetIsPosition
CHECK_DEADLOCK FALSE
