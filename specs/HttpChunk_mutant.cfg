SPECIFICATION Spec
CONSTANTS
  Mode = "serial"
  MaxLen = 3
  SeqLen = 2
  ConcLen = 2
  GzLen = 1
  Symbols = {1, 2}
  Mutant = "none"
INVARIANTS TypeOK OracleSane LinesExact LinesPrefix CarryIsTail OKOnlyAfterAllLines NoOKOnError SidExclusive NoMixing NoForeignBytes BufOwned PendingStable PoolHoldsEachObjectOnce ReaderIsMine GoodGets200 Balanced
CHECK_DEADLOCK FALSE
