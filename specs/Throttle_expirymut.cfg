SPECIFICATION Spec
CONSTANTS
  Slices <- ExpirySlices
  Mut = "none"
INVARIANTS BusyKeyWithinLimit
CHECK_DEADLOCK FALSE
