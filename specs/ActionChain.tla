----------------------------- MODULE ActionChain -----------------------------
(* C14 -- the part of processor.doActions (pipeline/processor.go) that decides WHETHER an action's
   selector (match_fields / do_if) is consulted.  DoIf.tla and MatchFields.tla say what the selector
   answers for (rule, event); this module says that the answer is what decides, whatever earlier events
   did to the processor:

     "Do of action a is invoked for event e"  <=>  selector_a(e)          for every ordinary event e,

   with the two documented exceptions: an action that is itself BUSY (it returned ActionHold or
   ActionCollapse and waits for the next event of the sequence: join, join_template, k8s multi-line,
   parse_es) receives the next event regardless of its own selector, and time-out events are not judged.

   Chain of N actions; every event brings, per action, the selector's answer and what the action would
   return.  Mechanism M_SelectorIndependentOfOtherActions: the guard in front of isMatch is the action's
   OWN busy flag (busyActions[index]); the mutant uses busyActionsTotal, so that one holding action
   switches off the selectors of all the others.  TLC must accept the faithful configuration and reject
   the mutant (ActionChain_mutant.cfg).                                                                *)
EXTENDS Integers, Sequences, FiniteSets, TLC

CONSTANTS N,                                   \* actions in the chain
          MaxEvents,                           \* events per behaviour
          M_SelectorIndependentOfOtherActions  \* TRUE: as the code is; FALSE: the mutant

VARIABLES busy,      \* busyActions: [1..N -> BOOLEAN]
          nEv,       \* events processed so far
          last       \* the last processed event with what happened: [tmo, sel, wasBusy, applied]

vars == <<busy, nEv, last>>
Actions == 1..N
Results == {"pass", "hold", "collapse", "discard"}
BusyTotal(b) == Cardinality({a \in Actions : b[a]})

\* one pass of doActions over the chain, from action i, with the busy flags b
RECURSIVE Run(_, _, _, _, _, _)
Run(i, b, tmo, sel, res, applied) ==      \* applied[a]: 0 not reached, 1 reached and skipped, 2 Do invoked
  IF i > N THEN [busy |-> b, applied |-> applied]
  ELSE LET guardOpen == IF M_SelectorIndependentOfOtherActions THEN ~b[i] ELSE BusyTotal(b) = 0
           skip == guardOpen /\ ~tmo /\ ~sel[i]                 \* isMatch consulted and it said no
       IN IF skip THEN Run(i + 1, b, tmo, sel, res, [applied EXCEPT ![i] = 1])
          ELSE LET ap == [applied EXCEPT ![i] = 2] IN
               CASE res[i] = "pass"     -> Run(i + 1, [b EXCEPT ![i] = FALSE], tmo, sel, res, ap)   \* tryResetBusy
                 [] res[i] = "discard"  -> [busy |-> [b EXCEPT ![i] = FALSE], applied |-> ap]
                 [] res[i] \in {"hold", "collapse"} -> [busy |-> [b EXCEPT ![i] = TRUE], applied |-> ap]  \* tryMarkBusy

Init == /\ busy = [a \in Actions |-> FALSE]
        /\ nEv = 0
        /\ last = [tmo |-> TRUE, sel |-> [a \in Actions |-> FALSE], wasBusy |-> [a \in Actions |-> FALSE],
                   applied |-> [a \in Actions |-> 0]]

Event ==
  /\ nEv < MaxEvents
  /\ \E tmo \in BOOLEAN : \E sel \in [Actions -> BOOLEAN] : \E res \in [Actions -> Results] :
       /\ tmo => BusyTotal(busy) > 0              \* time-out events exist only while something is busy
       /\ LET r == Run(1, busy, tmo, sel, res, [a \in Actions |-> 0]) IN
            /\ busy' = r.busy
            /\ last' = [tmo |-> tmo, sel |-> sel, wasBusy |-> busy, applied |-> r.applied]
  /\ nEv' = nEv + 1

Next == Event
Spec == Init /\ [][Next]_vars

TypeOK == busy \in [Actions -> BOOLEAN] /\ nEv \in 0..MaxEvents

\* C14: an action is applied to an ordinary event only if its own selector says so or it is itself busy;
\* in particular the busy state of ANOTHER action never opens it
SelectorDecides ==
  ~last.tmo => \A a \in Actions :
     /\ last.applied[a] = 2 => (last.sel[a] \/ last.wasBusy[a])
     /\ last.applied[a] = 1 => ~last.sel[a]            \* and an event that reaches a matching action is not skipped

=============================================================================
