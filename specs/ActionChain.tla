----------------------------- MODULE ActionChain -----------------------------
(* C14 -- the part of processor.doActions (pipeline/processor.go) that decides WHETHER an action's
   selector (match_fields / do_if) is consulted.  DoIf.tla and MatchFields.tla say what the selector
   answers for (rule, event); this module says that the answer is what decides, whatever earlier events
   did to the processor:

     "Do of action a is invoked for event e"  <=>  selector_a(e)          for every ordinary event e,

   with the two documented exceptions: an action that is itself BUSY (it returned ActionHold or
   ActionCollapse and waits for the next event of the sequence: join, join_template, k8s multi-line,
   parse_es) receives the next event regardless of its own selector, and time-out events are not judged.

   Chain of N actions; every event brings, per action, the selector's answer and what the action would
   return.  Mechanism M_SelectorIndependentOfOtherActions: the guard in front of isMatch is the action's
   OWN busy flag (busyActions[index]); the mutant uses busyActionsTotal, so that one holding action
   switches off the selectors of all the others.  Mechanism M_OnlyTimeoutExempt: time-out is the ONLY event
   kind that is exempt from the selector; in particular the child events that an action such as split spawns
   (processor.Spawn: SetChildKind, chain entered at the action after the spawning one) are judged like
   regular events; the mutant judges regular events only.  TLC must accept the faithful configuration and
   reject both mutants (ActionChain_mutant.cfg, ActionChain_mutant_kinds.cfg).                           *)
EXTENDS Integers, Sequences, FiniteSets, TLC

CONSTANTS N,                                   \* actions in the chain
          MaxEvents,                           \* events per behaviour
          M_SelectorIndependentOfOtherActions, \* TRUE: as the code is; FALSE: the mutant
          M_OnlyTimeoutExempt                  \* TRUE: as the code is; FALSE: only regular events are matched

VARIABLES busy,      \* busyActions: [1..N -> BOOLEAN]
          nEv,       \* events processed so far
          last       \* the last processed event with what happened: [kind, tmo, sel, wasBusy, applied]

vars == <<busy, nEv, last>>
Actions == 1..N
Results == {"pass", "hold", "collapse", "discard"}
BusyTotal(b) == Cardinality({a \in Actions : b[a]})

\* one pass of doActions over the chain, from action i, with the busy flags b
Kinds == {"regular", "child", "timeout"}
RECURSIVE Run(_, _, _, _, _, _, _)
Run(i, b, kind, tmo, sel, res, applied) ==      \* applied[a]: 0 not reached, 1 reached and skipped, 2 Do invoked
  IF i > N THEN [busy |-> b, applied |-> applied]
  ELSE LET guardOpen == IF M_SelectorIndependentOfOtherActions THEN ~b[i] ELSE BusyTotal(b) = 0
           judged == IF M_OnlyTimeoutExempt THEN ~tmo ELSE kind = "regular"
           skip == guardOpen /\ judged /\ ~sel[i]              \* isMatch consulted and it said no
       IN IF skip THEN Run(i + 1, b, kind, tmo, sel, res, [applied EXCEPT ![i] = 1])
          ELSE LET ap == [applied EXCEPT ![i] = 2] IN
               CASE res[i] = "pass"     -> Run(i + 1, [b EXCEPT ![i] = FALSE], kind, tmo, sel, res, ap)   \* tryResetBusy
                 [] res[i] = "discard"  -> [busy |-> [b EXCEPT ![i] = FALSE], applied |-> ap]
                 [] res[i] \in {"hold", "collapse"} -> [busy |-> [b EXCEPT ![i] = TRUE], applied |-> ap]  \* tryMarkBusy

Init == /\ busy = [a \in Actions |-> FALSE]
        /\ nEv = 0
        /\ last = [kind |-> "timeout", tmo |-> TRUE, sel |-> [a \in Actions |-> FALSE], wasBusy |-> [a \in Actions |-> FALSE],
                   applied |-> [a \in Actions |-> 0]]

Event ==
  /\ nEv < MaxEvents
  /\ \E kind \in Kinds : \E start \in Actions : \E sel \in [Actions -> BOOLEAN] : \E res \in [Actions -> Results] :
       /\ kind = "timeout" => BusyTotal(busy) > 0 \* time-out events exist only while something is busy
       /\ kind = "regular" => start = 1           \* children enter the chain after the action that spawned them
       /\ LET tmo == kind = "timeout"
              r == Run(start, busy, kind, tmo, sel, res, [a \in Actions |-> 0]) IN
            /\ busy' = r.busy
            /\ last' = [kind |-> kind, tmo |-> tmo, sel |-> sel, wasBusy |-> busy, applied |-> r.applied]
  /\ nEv' = nEv + 1

Next == Event
Spec == Init /\ [][Next]_vars

TypeOK == busy \in [Actions -> BOOLEAN] /\ nEv \in 0..MaxEvents

\* C14: an action is applied to an event of any kind but time-out only if its own selector says so or it is itself busy;
\* in particular the busy state of ANOTHER action never opens it
SelectorDecides ==
  ~last.tmo => \A a \in Actions :
     /\ last.applied[a] = 2 => (last.sel[a] \/ last.wasBusy[a])
     /\ last.applied[a] = 1 => ~last.sel[a]            \* and an event that reaches a matching action is not skipped

=============================================================================
