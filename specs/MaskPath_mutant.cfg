\* the mutant: all-digit elements address array elements only -- TLC must find a violation
SPECIFICATION Spec
CONSTANTS
  Elems = {"1", "x"}
  Digits = {"1"}
  MaxArr = 2
  M_NumericKeyAddressesObjectMember = FALSE
INVARIANTS TypeOK ElementAddressesMember
CHECK_DEADLOCK FALSE
