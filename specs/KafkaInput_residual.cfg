SPECIFICATION Spec
CONSTANTS
  NRec = 4
  Parts = {0, 1}
  NProcs = 2
  D_Spread = FALSE
INVARIANTS MarkOwn PackRoundTrip MarkSafe ExportPack
PROPERTIES MarkMonotone
CHECK_DEADLOCK FALSE
