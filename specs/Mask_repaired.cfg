\* abstract tables, repaired loop (D13 = FALSE): never panics and is acceptable on EVERY table
SPECIFICATION Spec
CONSTANTS
  MaxLen = 2
  Chars = {1, 3}
  MaxMatches = 2
  NGs = {1, 2}
  MCs = {0, 1}
  D13 = FALSE
  M_AllMatches = TRUE
INVARIANTS TypeOK PanicsExactlyWhenNamed AllMatchesVisited ReturnsAcceptable
CHECK_DEADLOCK FALSE
