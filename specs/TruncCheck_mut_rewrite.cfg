SPECIFICATION Spec
CONSTANTS
  MaxSize = 3
  M_SizeAfterPosition = TRUE
  M_CheckReadOnly = FALSE
INVARIANTS TypeOK TruncatedOnlyIfShrunk OffsetIsPosition
CHECK_DEADLOCK FALSE
