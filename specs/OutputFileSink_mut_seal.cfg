SPECIFICATION Spec
CONSTANTS
  Workers = {1}
  Batches = 1
  MaxChunks = 3
  MaxSeals = 1
  M_BatchWrittenUnderOneLock = TRUE
INVARIANTS FilesAreWholeBatches EachChunkOnce
CHECK_DEADLOCK FALSE
