SPECIFICATION Spec
CONSTANTS
  TraceFile = "trace.ndjson"
INVARIANT Report
CHECK_DEADLOCK FALSE
