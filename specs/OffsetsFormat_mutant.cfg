SPECIFICATION Spec
CONSTANTS
  NameSyms = {1, 2, 3, 4, 5, 6}
  MaxName1 = 1
  MaxName2 = 1
  Unconditional = FALSE
  M_KeyIsSourceId = TRUE
  M_NamesVerbatim = TRUE
  M_ZeroOffsetsWritten = FALSE
INVARIANTS R_RoundTrip
CHECK_DEADLOCK FALSE
