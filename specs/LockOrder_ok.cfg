SPECIFICATION Spec
CONSTANTS
  Streams = {1, 2}
  M_HeartbeatWorksOnCopy = TRUE
INVARIANTS MutexOK
CHECK_DEADLOCK TRUE
