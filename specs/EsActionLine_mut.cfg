SPECIFICATION Spec
CONSTANTS
  MaxBatch = 3
  M_ActionLinePerEvent = TRUE
INVARIANTS RoutingOwn
CHECK_DEADLOCK FALSE
