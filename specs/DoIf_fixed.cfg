\* residual configuration: every named deviation switched off (= the code with the four defects repaired);
\* the transcription must then agree with the documented meaning with no excuse. Not exported, not replayed.
SPECIFICATION Spec
CONSTANTS
  Chars = {1, 2, 3, 4}
  MaxVal = 2
  MaxVal2 = 1
  MaxData = 3
  PoolN = 4
  Depth3 = FALSE
  M_ShiftOnce = TRUE
  M_LenOfValue = TRUE
  M_ContainsAnyRunes = TRUE
  UChars = {1, 40, 41, 42, 48}
  UMaxData = 2
  PartsOn = {}
  D_FoldWidth = FALSE
  D_ContainerNul = FALSE
  D_EmptyContainerLen = FALSE
INVARIANTS TypeOK ImplRefinesDecl LogicLaws ValueOrderIrrelevant
CHECK_DEADLOCK FALSE
