------------------------------- MODULE MaskSet -------------------------------
(* C17, number and index of masks: the per-field mask sets of the mask action
   (plugin/action/mask/field_masks_node.go, fieldMasksNode.processMasks / ignoreMasks, filled by
   gatherFieldMasksTree and consulted by processMask).

   The property: whether mask i looks at a field depends on mask i's own list only -- not on i.

   The mechanism in the code (M_MaskSetUnbounded): the set of masks that list a field is a map keyed by the mask
   index, so every index can be a member.
   The mutant (M_MaskSetUnbounded = FALSE): a fixed-width set over the indices < W (a machine word used as a bit
   set: `1 << i` is 0 for i >= W): inserting a larger index is lost silently, the membership test answers "no".
   A mask at index >= W with its own process list is then never applied, one with its own ignore list rewrites
   the field it should leave alone.  TLC must ACCEPT the mechanism and REJECT the mutant (W = 2, three masks).

   One field node is modelled per field; a mask has no own list, or a process list, or an ignore list over the
   fields.  Steps: Gather(i) for i = 0 .. NM-1 (the loop of gatherFieldMasksTree), then the decision of
   processMask for every (mask, field) is compared with the declarative one.                               *)
EXTENDS Integers, FiniteSets, TLC

CONSTANTS NM,                    \* number of masks, indexed 0 .. NM-1 as in the code
          Fields,                \* field names
          W,                     \* width of the bounded representation
          M_MaskSetUnbounded     \* TRUE = the code (map); FALSE = the mutant (W-bit set)

Idx == 0..(NM - 1)
Kinds == {"none", "proc", "ign"}

VARIABLES cfg,        \* mask -> [kind, list]
          procSet,    \* field -> represented set of masks that list it in process_fields
          ignSet,     \* field -> ... in ignore_fields
          next        \* next mask to gather; NM = done
vars == <<cfg, procSet, ignSet, next>>

\* insertion into the representation: the bounded one drops what does not fit
Insert(S, i) == IF M_MaskSetUnbounded \/ i < W THEN S \cup {i} ELSE S

Init ==
  /\ cfg \in [Idx -> {[kind |-> k, list |-> l] : k \in Kinds, l \in (SUBSET Fields) \ {{}}}]
  /\ procSet = [f \in Fields |-> {}]
  /\ ignSet = [f \in Fields |-> {}]
  /\ next = 0

Gather ==
  /\ next < NM
  /\ LET c == cfg[next] IN
       /\ procSet' = [f \in Fields |-> IF c.kind = "proc" /\ f \in c.list THEN Insert(procSet[f], next) ELSE procSet[f]]
       /\ ignSet'  = [f \in Fields |-> IF c.kind = "ign" /\ f \in c.list THEN Insert(ignSet[f], next) ELSE ignSet[f]]
  /\ next' = next + 1
  /\ UNCHANGED cfg

Next == Gather
Spec == Init /\ [][Next]_vars

\* processMask: does mask i work on a value of field f?
LooksCoded(i, f) == CASE cfg[i].kind = "ign"  -> i \notin ignSet[f]
                      [] cfg[i].kind = "proc" -> i \in procSet[f]
                      [] cfg[i].kind = "none" -> TRUE
LooksDecl(i, f) == CASE cfg[i].kind = "ign"  -> f \notin cfg[i].list
                     [] cfg[i].kind = "proc" -> f \in cfg[i].list
                     [] cfg[i].kind = "none" -> TRUE

TypeOK == next \in 0..NM
IndexIndependent == next = NM => \A i \in Idx : \A f \in Fields : LooksCoded(i, f) = LooksDecl(i, f)
=============================================================================
