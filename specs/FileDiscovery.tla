---------------------------- MODULE FileDiscovery ----------------------------
(* How the file input learns about files (watcher.go notify, provider.go processNotification / refreshFile / addJob) while
   the directory changes under it (rotation by rename, a new file under the old name).

   A notification carries a NAME.  The watcher stats the name (Lstat), the provider looks the inode up in its job table and,
   for an unknown inode, opens the file BY NAME and adds a job.  Stat and open are two steps; the name can be re-pointed in
   between.  Jobs are keyed by inode ("a renamed file keeps its offsets; a new inode starts at 0"), so what must hold is

       KeyIsOpenedFile : every job reads the file whose inode it is filed under
       AllDiscovered   : every file that stays reachable under a watched name gets a job (liveness, fair notification handling)

   Mechanism M_JobDescribedByOpenedFile (TRUE = the code as repaired, commit ee969ea): addJob files the job under the inode of
   the descriptor that was opened.  The mutant files it under the inode seen by the earlier stat -- D22: the new file's
   descriptor under the old file's inode; the rotated file is then "known" and never read, the new one is read twice.      *)
EXTENDS Naturals, FiniteSets, Sequences

CONSTANTS Names, MaxInode, MaxOps, M_JobDescribedByOpenedFile

VARIABLES dir,        \* [Names -> 0..MaxInode]   name -> inode (0 = no such name)
          nextIno,    \* next fresh inode number
          queue,      \* pending notifications (names), FIFO
          handling,   \* notification being handled: [name, st] (st = inode seen by the stat; 0 = none in progress)
          jobs,       \* job table: key inode -> inode of the descriptor the job reads
          ops         \* bound on directory operations

vars == <<dir, nextIno, queue, handling, jobs, ops>>
NoHandling == [name |-> CHOOSE n \in Names : TRUE, st |-> 0]

Init == /\ dir = [n \in Names |-> 0] /\ nextIno = 1 /\ queue = <<>> /\ handling = NoHandling
        /\ jobs = [i \in {} |-> 0] /\ ops = 0

\* the writer creates a file under a free name
Create(n) == /\ ops < MaxOps /\ dir[n] = 0 /\ nextIno <= MaxInode
             /\ dir' = [dir EXCEPT ![n] = nextIno] /\ nextIno' = nextIno + 1
             /\ queue' = Append(queue, n) /\ ops' = ops + 1
             /\ UNCHANGED <<handling, jobs>>

\* rotation: rename n to a free name m (both names are notified)
Rename(n, m) == /\ ops < MaxOps /\ n # m /\ dir[n] # 0 /\ dir[m] = 0
                /\ dir' = [dir EXCEPT ![m] = dir[n], ![n] = 0]
                /\ queue' = Append(Append(queue, n), m) /\ ops' = ops + 1
                /\ UNCHANGED <<nextIno, handling, jobs>>

\* watcher.notify: take the next notification and Lstat the name (a vanished name is dropped)
Stat == /\ handling.st = 0 /\ queue # <<>>
        /\ queue' = Tail(queue)
        /\ handling' = IF dir[Head(queue)] = 0 THEN NoHandling ELSE [name |-> Head(queue), st |-> dir[Head(queue)]]
        /\ UNCHANGED <<dir, nextIno, jobs, ops>>

\* refreshFile: known inode -> resume; unknown -> open BY NAME (now) and add the job
Refresh == /\ handling.st # 0
           /\ LET st == handling.st
                  fd == dir[handling.name]              \* what the name points to at open time
              IN IF st \in DOMAIN jobs \/ fd = 0 THEN UNCHANGED jobs
                 ELSE LET key == IF M_JobDescribedByOpenedFile THEN fd ELSE st
                      IN IF key \in DOMAIN jobs THEN UNCHANGED jobs            \* addJob: already created
                         ELSE jobs' = [i \in DOMAIN jobs \cup {key} |-> IF i = key THEN fd ELSE jobs[i]]
           /\ handling' = NoHandling
           /\ UNCHANGED <<dir, nextIno, queue, ops>>

Next == \/ \E n \in Names : Create(n)
        \/ \E n, m \in Names : Rename(n, m)
        \/ Stat \/ Refresh
Spec == Init /\ [][Next]_vars /\ WF_vars(Stat) /\ WF_vars(Refresh)

TypeOK == nextIno \in 1..(MaxInode + 1) /\ ops \in 0..MaxOps
KeyIsOpenedFile == \A k \in DOMAIN jobs : jobs[k] = k
Reachable == {dir[n] : n \in Names} \ {0}
\* once the directory stops changing, every reachable file has a job of its own
AllDiscovered == <>[](\A i \in Reachable : i \in DOMAIN jobs /\ jobs[i] = i)
=============================================================================
