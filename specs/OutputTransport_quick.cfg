SPECIFICATION Spec
CONSTANTS
  MaxEndpoints = 3
  MaxAttempts = 3
  PayloadLen = 2
  M_BodyBuiltOncePerAttempt = TRUE
INVARIANTS BodyIsPayload OneRequestPerDelivery
CHECK_DEADLOCK FALSE
