---------------------------- MODULE PipelineTrace ----------------------------
(* Conformance: a run recorded from the REAL pipeline must be a behaviour of the design model Pipeline.tla.

   Every recorded line that corresponds to a model action is bound to that action
   (IsEvent /\ logged fields /\ SpecAction); steps of the implementation that are not logged
   (joinStream pop, attach, instantGet, blockGet, Router.Out -> Batcher.Add, the batch heartbeat, a worker taking a
   batch, waiting for the commit turn, freeing the batch, the retry branch, the stream time-out heartbeat) are composed
   as silent model steps.  The run is accepted when every line was consumed (high-water mark = number of lines).
   Only runs generated from the model itself are validated (same constants; classes P D B H C R); a rejected run is a
   MODEL-DRIFT warning -- the listed properties are decided by PipelineMon on the same trace.                      *)
EXTENDS Pipeline

CONSTANT TraceFile
Trace == ndJsonDeserialize(TraceFile)

VARIABLE l
tvars == <<vars, l>>

LinesOf(t) == [i \in 1..Len(t.lines) |-> [src |-> t.lines[i].src, stream |-> t.lines[i].stream, cls |-> t.lines[i].cls]]

TraceInit == /\ TLCSet(1, 0)
             /\ l = 2
             /\ Trace[1].ev = "Reset"
             /\ InitWith(LinesOf(Trace[1]))

Ev_(e) == l <= Len(Trace) /\ Trace[l].ev = e
Consume == l' = l + 1
T == Trace[l]

\* lines that carry no model step of their own
SkipLine ==
  /\ l <= Len(Trace)
  /\ \/ T.ev \in {"InCall", "Propagate", "Commit", "End", "Out", "Corrupt", "Attend", "SendBytes", "Stale", "Refuse", "Skipped"}
     \/ (T.ev = "InRet" /\ T.ok)
     \/ (T.ev = "InRet" /\ ~T.ok /\ T.id <= rd /\ lines[T.id].cls = "X")      \* its Own line was the ReadIn step
     \/ (T.ev = "DoRet" /\ T.act = 2)
     \/ (T.ev = "DoRet" /\ T.id = 0 /\ T.act = 0)
     \/ (T.ev = "DoRet" /\ T.id = 0 /\ T.act = 1 /\ \E p \in Procs : pr[p].pc \in {"spawned", "out"} /\ IsParent(pr[p].ev))   \* Spawn's own time-out
  /\ Consume /\ UNCHANGED vars

T_Own      == Ev_("Own") /\ rd + 1 = T.id /\ lines[T.id].cls # "R" /\ ReadIn /\ Consume
T_Refused  == Ev_("InRet") /\ ~T.ok /\ rd + 1 = T.id /\ lines[T.id].cls = "R" /\ ReadIn /\ Consume
T_DoRet    == /\ Ev_("DoRet") /\ T.act \in {0, 1} /\ ~(T.id = 0 /\ T.act = 0)
              /\ \E p \in Procs :
                   \/ (pr[p].pc = "act" /\ Cur(p) = T.id /\ pr[p].act = T.act /\ ~(IsParent(T.id) /\ T.act = 0) /\ DoAct(p))
                   \* the split action returns (break) only after Spawn pushed every child through
                   \/ (pr[p].pc = "spawned" /\ pr[p].ev = T.id /\ T.act = 0 /\ T.res = "break" /\ SpawnDone(p))
              /\ Consume
\* the harness logs Spawn inside the split action's Do, right before processor.Spawn
T_Spawn    == /\ Ev_("Spawn")
              /\ \E p \in Procs : pr[p].pc = "act" /\ pr[p].kid = 0 /\ pr[p].ev = T.id /\ pr[p].act = 0 /\ IsParent(T.id)
                                   /\ T.kids = Kids(T.id) /\ DoAct(p)
              /\ Consume
T_SendCall == /\ Ev_("SendCall")
              /\ \E k \in Workers : wk[T.b][k].pc = "send" /\ wk[T.b][k].ids = T.ids /\ wk[T.b][k].seq = T.seq /\ SendCall(T.b, k)
              /\ Consume
T_SendRet  == /\ Ev_("SendRet")
              /\ \E k \in Workers : wk[T.b][k].pc = "sending" /\ wk[T.b][k].ids = T.ids
                                     /\ (IF T.ok THEN SendOK(T.b, k) ELSE SendFail(T.b, k))
              /\ Consume
T_GiveUp   == /\ Ev_("GiveUp")
              /\ \E k \in Workers : wk[T.b][k].pc = "failed" /\ wk[T.b][k].ids = T.ids /\ Retry >= 0 /\ wk[T.b][k].tries > Retry
                                     /\ RetryOrGiveUp(T.b, k)
              /\ Consume
T_Fail     == /\ Ev_("Fail")
              /\ \E k \in Workers : wk["main"][k].pc = "failing" /\ wk["main"][k].i <= Len(wk["main"][k].ids)
                                     /\ wk["main"][k].ids[wk["main"][k].i] = T.id /\ FailOne("main", k)
              /\ Consume
T_BCommit  == /\ Ev_("BCommit")
              /\ \E k \in Workers : wk[T.b][k].pc = "commit" /\ wk[T.b][k].i <= Len(wk[T.b][k].ids)
                                     /\ wk[T.b][k].ids[wk[T.b][k].i] = T.id /\ CommitOne(T.b, k)
              /\ Consume

\* the next recorded run starts: the previous one must have been followed to its end (it was: we are at its last line + 1)
T_Reset    == Ev_("Reset") /\ ResetWith(LinesOf(T)) /\ Consume

Logged == T_Reset \/ T_Spawn \/ T_Own \/ T_Refused \/ T_DoRet \/ T_SendCall \/ T_SendRet \/ T_GiveUp \/ T_Fail \/ T_BCommit

\* unlogged implementation steps
Silent ==
  /\ l <= Len(Trace)
  /\ UNCHANGED l
  /\ \/ \E p \in Procs : JoinPop(p) \/ Attach(p) \/ InstantGet(p) \/ BlockGet(p) \/ TimeoutInject(p) \/ Flush(p) \/ Out(p) \/ SpawnFlush(p)
     \/ \E b \in UsedBatchers :
          \/ FlushTimer(b)
          \/ \E k \in Workers : \/ WorkerTake(b, k) \/ CommitTurn(b, k) \/ CommitDone(b, k)
                                \/ (wk[b][k].pc = "failed" /\ ~(Retry >= 0 /\ wk[b][k].tries > Retry) /\ RetryOrGiveUp(b, k))
                                \/ (wk[b][k].pc = "failing" /\ wk[b][k].i > Len(wk[b][k].ids) /\ FailOne(b, k))

TraceNext == SkipLine \/ Logged \/ Silent
TraceSpec == TraceInit /\ [][TraceNext]_tvars

\* acceptance: the high-water mark of consumed lines
HighWater == TLCSet(1, IF TLCGet(1) < l THEN l ELSE TLCGet(1))
Mark == HighWater
Accepted == TLCGet(1) > Len(Trace)
Report == PrintT(ToJson([lines |-> Len(Trace), reached |-> TLCGet(1) - 1]))
traceview == <<lines, rd, inUse, st, seqOf, charged, pr, bt, wk, nfail, l>>
=============================================================================
