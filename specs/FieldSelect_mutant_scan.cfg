SPECIFICATION Spec
CONSTANTS
  Fams <- ScanFams
  D_SwapDelete = TRUE
  M_RemovePerSelector = FALSE
  ScanT = 1
  M_NamesComparedWhole = TRUE
  NameW = 5
  M_BuffersPerInstance = TRUE
  Cap = 2
  M_DepthBuffersDisjoint = TRUE
  M_AllDocumentKindsFiltered = TRUE
INVARIANTS MutantScanInv
CHECK_DEADLOCK FALSE
