SPECIFICATION Spec
CONSTANTS
  Capacity = 1
  Getters = {"g1", "g2"}
  Rounds = 1
  HasHeartbeat = FALSE
INVARIANTS NoWedge
CHECK_DEADLOCK FALSE
