-------------------------------- MODULE Join --------------------------------
(* C15 -- multi-line reassembly by the join / join_template actions
   (plugin/action/join/join.go: Plugin.Do / flush / isNextOK; plugin/action/join_template/
   join_template.go: firstCheck / nextCheck with curTemplateIdx and the per-template Negate),
   transcribed branch by branch, inside the part of the processor that decides where an event and a
   time-out go when ONE other action stands before the join (pipeline/processor.go: processEvent,
   doActions, Propagate, busyActions, lastAction; pipeline/stream.go: blockGet / tryUnblock):

     chain "none"    : [join]
     chain "discard" : [discard(match_fields), join]   -- class D events are discarded by action 0
     chain "break"   : [breaking action, join]         -- class B events get ActionBreak from action 0
     chain "sel"     : [join with match_fields / do_if] -- class XO / XN events do not satisfy the join's selector
     chain "post"    : [join, discard(match_fields)]   -- class S1d / Od = a start line / other line that the action
                                                          AFTER the join discards (S1d: the whole flushed run is dropped)

   together with the DECLARATIVE statement of the property: the stream's events are split uniquely
   into non-joined events and maximal runs (a start followed by continuations), a run is also closed by a time-out;
   the output is the non-joined events unchanged and in order, each closed run replaced by one
   event whose field is the in-order concatenation of the run (cut at max_event_size).

   One behaviour = one CASE  cs = (templates' negate flags, max_event_size, chain, class sequence);
   the time-out placements are chosen while the case runs (a time-out can only be generated while
   the processor is parked in blockGet) and recorded in `to`, so every (case, placement) pair ends
   in its own terminal state, exported by Export with the declaratively expected output.

   Event classes: S1/C1 (S2/C2) = a string matching the start/continue pattern of template 1 (2);
   O = a string matching neither; NF = the field is absent; NS = the field is not a string (its
   rendering matches no pattern); D / B = discarded / broken out by the action before the join;
   XO / XN = an event that does not satisfy the selector (match_fields / do_if) of the join itself, with a
   field value matching neither pattern (XO) or without the field (XN).
   Sizes are counted in values: every value has the same length, max_event_size M is a number of
   values (the harness scales it to bytes).

   Named deviations of the code from the ideal (TRUE = what the code does):
     D5_TimeoutToLastAction : processEvent addresses a time-out to the action that returned last
                              (event.action = lastAction), not to the busy one.
     D15_BreakBypassesHold  : ActionBreak from an earlier action sends the event straight to the
                              output although a later action is holding an older event of the stream.
   Named mechanisms (TRUE = what the code does; FALSE = mutant, must violate StatementOK: Join_mutsel.cfg,
   Join_mutprop.cfg):
     M_FlushCopiesBuffer    : flush() gives the event a COPY of the run buffer (string(p.buff)): the text of a flushed
                              event is a value fixed at the flush. Mutant (Join_mutalias.cfg): the text aliases the buffer,
                              which the next run overwrites in place, so an output that looks at the event later sees
                              bytes of later runs.
     M_StartCheckIsTheTemplates : whether a line starts a run is decided by the templates' own start patterns, and
                              some allow leading white space (cs_exception: ^\s*Unhandled exception; go_panic: "http: panic
                              serving" anywhere in the line). Classes S1i / S2i (chain "ind") = such an indented start
                              line. Mutant (Join_mutind.cfg): an indented line never starts a run.
     M_PropagateResetsBusyFirst : Propagate clears busyActions[holder] BEFORE it sends the flushed event through the
                              remaining actions. If a later action stops that event, the nested processEvent sees
                              nothing busy and returns into the suspended join.Do. In the mutant (reset after) the
                              nested call goes to blockGet and pulls the NEXT events of the stream through the whole
                              chain while join.Do of the current event is still suspended inside flush().
     M_BusyIgnoresSelector  : doActions evaluates an action's selector only while that action is NOT busy
                              ("!p.busyActions[index] && !event.IsTimeoutKind()"): an action that is collecting a
                              run is handed EVERY event of its stream, so a non-matching event ends the run like
                              any other non-continuing event instead of overtaking the held one. *)
EXTENDS Integers, Sequences, FiniteSets, TLC, Json, JoinOracle

CONSTANTS MaxLen1,        \* maximal sequence length, one template, chain "none"
          MaxLen2,        \* maximal sequence length, two templates, chain "none"
          MaxLenPre,      \* maximal sequence length for chains "discard" / "break" (one template)
          Ms,             \* candidate max_event_size values, in values (0 = unlimited)
          Pres,           \* chains explored, subset of {"none", "discard", "break"}
          D5_TimeoutToLastAction,
          D15_BreakBypassesHold,
          M_BusyIgnoresSelector,
          M_PropagateResetsBusyFirst,
          M_FlushCopiesBuffer,
          M_StartCheckIsTheTemplates

VARIABLES cs,             \* the case: [nt, neg, M, pre, seq]
          i,              \* events of the stream consumed so far
          to,             \* history: positions p such that a time-out was generated after p events
          toMis,          \* history: those of them that were delivered to action 0 instead of the join
          isJoining, buff, curT,            \* join.Plugin: isJoining, buff (as ids; initial = buff[1]), curTemplateIdx
          busy,           \* processor.busyActions[join]
          blocked,        \* the processor is parked in stream.blockGet for this stream
          lastAction,     \* lastAction returned by the last doActions
          out,            \* history: what reached the next stage, in order  <<[k, ids]>>
          dev,            \* history: deviations that were exercised
          pc,             \* run | done
          stack, resume   \* only used by the mutant of M_PropagateResetsBusyFirst: join.Do frames suspended inside
                          \* flush() -> Propagate -> nested processEvent; resume = the nested call has just returned

vars == <<cs, i, to, toMis, isJoining, buff, curT, busy, blocked, lastAction, out, dev, pc, stack, resume>>

-----------------------------------------------------------------------------
(* classes (StartCls, TOf, CName and the declarative statement Output / SeqOK: JoinOracle.tla) *)
ClassesOf(nt, pre) == {"S1", "C1", "O", "NF", "NS"}
                      \cup (IF nt = 2 THEN {"S2", "C2"} ELSE {})
                      \cup (IF pre = "discard" THEN {"D"} ELSE {})
                      \cup (IF pre = "break" THEN {"B"} ELSE {})
                      \cup (IF pre = "sel" THEN {"XO", "XN"} ELSE {})
                      \cup (IF pre = "post" THEN {"S1d", "Od"} ELSE {})
                      \cup (IF pre = "ind" THEN {"S1i"} \cup (IF nt = 2 THEN {"S2i"} ELSE {}) ELSE {})
\* what the join sees when it is handed an event that does not satisfy its selector
Content(c) == CASE c = "XO" -> "O" [] c = "XN" -> "NF" [] c = "S1d" -> "S1" [] c = "Od" -> "O"
                   [] c = "S1i" -> (IF M_StartCheckIsTheTemplates THEN "S1" ELSE "O")
                   [] c = "S2i" -> (IF M_StartCheckIsTheTemplates THEN "S2" ELSE "O")
                   [] OTHER -> c
\* what the statement says the line is (the template's documented pattern)
Declared(c) == CASE c = "S1i" -> "S1" [] c = "S2i" -> "S2" [] OTHER -> c
DropCls == {"S1d", "Od"}                 \* carry the mark the discarding action after the join matches
MaxLenOf(nt, pre) == IF nt = 2 THEN MaxLen2 ELSE IF pre # "none" THEN MaxLenPre ELSE MaxLen1
SeqsOver(S, n) == UNION {[1..m -> S] : m \in 0..n}

JI == IF cs.pre \in {"none", "sel", "post", "ind"} THEN 0 ELSE 1      \* index of the join in the chain

-----------------------------------------------------------------------------
(* ---------------- the declarative statement: JoinOracle.tla; here only the chain "post" wrapper ---------------- *)

\* chain "post": the action after the join removes the events that carry its mark -- passed events and whole
\* flushed runs (the joined event is the run's first event, with its other fields)
Strip(seq) == [k \in 1..Len(seq) |-> IF seq[k] \in DropCls THEN Content(seq[k]) ELSE Declared(seq[k])]
OutputX(seq, neg, T, ns) ==
  SelectSeq(Output(Strip(seq), neg, T, ns), LAMBDA it : seq[it.ids[1]] \notin DropCls)

-----------------------------------------------------------------------------
(* ---------------- the transcription ---------------- *)

Init ==
  /\ \E nt \in {1, 2} : \E pre \in Pres : \E M \in Ms :
       \E neg \in [1..nt -> BOOLEAN] : \E seq \in SeqsOver(ClassesOf(nt, pre), MaxLenOf(nt, pre)) :
         /\ nt = 2 => pre \in {"none", "ind"} /\ ~(neg[1] /\ neg[2])      \* only one negating template exists
         /\ pre = "ind" => \E k \in 1..Len(seq) : seq[k] \in {"S1i", "S2i"}
         /\ pre = "discard" => \E k \in 1..Len(seq) : seq[k] = "D"
         /\ pre = "break" => \E k \in 1..Len(seq) : seq[k] = "B"
         /\ pre = "sel" => \E k \in 1..Len(seq) : seq[k] \in {"XO", "XN"}
         /\ pre = "post" => \E k \in 1..Len(seq) : seq[k] \in DropCls
         /\ cs = [nt |-> nt, neg |-> neg, M |-> M, pre |-> pre, seq |-> seq]
  /\ i = 0 /\ to = {} /\ toMis = {}
  /\ isJoining = FALSE /\ buff = <<>> /\ curT = 0
  /\ busy = FALSE /\ blocked = FALSE /\ lastAction = 0
  /\ out = <<>> /\ dev = {} /\ pc = "run"
  /\ stack = <<>> /\ resume = FALSE

Ev == cs.seq[i + 1]
EvC == Content(Ev)
CanStep == pc = "run" /\ i < Len(cs.seq) /\ ~resume
\* "if !p.busyActions[index] && !event.IsTimeoutKind() { if !p.isMatch(index, event) { continue } }"
SelSkips == Ev \in {"XO", "XN"} /\ ~(M_BusyIgnoresSelector /\ busy)
ReachesJoin == Ev \notin {"D", "B"} /\ ~SelSkips

\* the discarding action after the join stops the events that carry its mark
Dropped(id) == cs.pre = "post" /\ cs.seq[id] \in DropCls
\* flush(): field := string(buff); controller.Propagate(initial): busyActions[join] is reset, then the event runs
\* through the remaining actions (dropped there: the nested processEvent finds nothing busy and returns)
Flushed(o) == IF Dropped(buff[1]) THEN o ELSE Append(o, [k |-> "j", ids |-> buff])
Passed(o) == IF Dropped(i + 1) THEN o ELSE Append(o, [k |-> "p", ids |-> <<i + 1>>])
\* mutant of M_FlushCopiesBuffer: the text of the events flushed earlier is a view of the run buffer nb
AliasFix(o, nb) ==
  IF M_FlushCopiesBuffer THEN o
  ELSE [n \in 1..Len(o) |->
          IF o[n].k = "j"
            THEN [o[n] EXCEPT !.ids = [m \in 1..Len(o[n].ids) |-> IF m <= Len(nb) THEN nb[m] ELSE o[n].ids[m]]]
            ELSE o[n]]
StackSame == UNCHANGED <<stack, resume>>
\* the event was passed on by the join (busy reset): a nested processEvent returns to its suspended caller
ReturnsFromNested == stack' = stack /\ resume' = (stack # <<>>)

\* isNextOK / nextCheck: the pattern of the run's template, negated if that template negates
NextOK(c) == (c = CName(curT)) # cs.neg[curT]

\* mutant of M_PropagateResetsBusyFirst: the next event makes the join flush a run that the later action drops
SuspendCond ==
  /\ ~M_PropagateResetsBusyFirst /\ cs.pre = "post" /\ CanStep
  /\ isJoining /\ Dropped(buff[1])
  /\ (EvC \in StartCls \/ EvC = "NF" \/ ~NextOK(EvC))

(* action 0 = discard: Do returns ActionDiscard; doActions returns (false, 0); processEvent goes to
   blockGet iff some action is busy *)
PreDiscard ==
  /\ CanStep /\ cs.pre = "discard" /\ Ev = "D"
  /\ i' = i + 1 /\ lastAction' = 0 /\ blocked' = busy
  /\ UNCHANGED <<cs, to, toMis, isJoining, buff, curT, busy, out, dev, pc>>
  /\ StackSame

(* action 0 returns ActionBreak: doActions returns (true, 0), processSequence hands the event to the
   output; the held event stays held, the processor goes back to instantGet (not blockGet) *)
PreBreak ==
  /\ CanStep /\ cs.pre = "break" /\ Ev = "B"
  /\ i' = i + 1 /\ lastAction' = 0 /\ blocked' = FALSE
  /\ IF D15_BreakBypassesHold
       THEN /\ out' = Passed(out)
            /\ dev' = IF isJoining THEN dev \cup {"D15"} ELSE dev
            /\ UNCHANGED <<isJoining, busy>>
       ELSE /\ out' = Passed(IF isJoining THEN Flushed(out) ELSE out)   \* ideal: the held run goes first
            /\ isJoining' = FALSE /\ busy' = FALSE
            /\ UNCHANGED dev
  /\ UNCHANGED <<cs, to, toMis, buff, curT, pc>>
  /\ StackSame

(* the join's selector does not match and is evaluated: the action is skipped, the event has passed all
   actions (doActions returns (true, l-1)) and goes to the output; the join's state is untouched *)
SelNotMatched ==
  /\ CanStep /\ SelSkips
  /\ out' = Passed(out)
  /\ i' = i + 1 /\ lastAction' = JI /\ blocked' = FALSE
  /\ UNCHANGED <<cs, to, toMis, isJoining, buff, curT, busy, dev, pc>>
  /\ StackSame

(* join.Do, "node == nil": flush if joining, ActionPass *)
DoNoField ==
  /\ CanStep /\ ReachesJoin /\ EvC = "NF"
  /\ ~SuspendCond
  /\ out' = Passed(IF isJoining THEN Flushed(out) ELSE out)
  /\ isJoining' = FALSE /\ busy' = FALSE /\ blocked' = FALSE /\ lastAction' = JI
  /\ i' = i + 1
  /\ UNCHANGED <<cs, to, toMis, buff, curT, dev, pc>>
  /\ ReturnsFromNested

(* join.Do, "firstOK" (string value, start pattern of some template): flush the previous run, hold *)
DoStart ==
  /\ CanStep /\ EvC \in StartCls
  /\ ~SuspendCond
  /\ out' = AliasFix(IF isJoining THEN Flushed(out) ELSE out, <<i + 1>>)
  /\ buff' = <<i + 1>> /\ isJoining' = TRUE /\ curT' = TOf(EvC)
  /\ busy' = TRUE /\ blocked' = TRUE /\ lastAction' = JI          \* ActionHold
  /\ i' = i + 1
  /\ UNCHANGED <<cs, to, toMis, dev, pc>>
  /\ StackSame

(* join.Do, joining and isNextOK: append unless len(buff) >= max_event_size, ActionCollapse *)
DoContinue ==
  /\ CanStep /\ ReachesJoin /\ EvC \notin StartCls /\ EvC # "NF"
  /\ isJoining /\ NextOK(EvC)
  /\ buff' = IF cs.M = 0 \/ Len(buff) < cs.M THEN Append(buff, i + 1) ELSE buff
  /\ out' = AliasFix(out, buff')
  /\ blocked' = TRUE /\ lastAction' = JI
  /\ i' = i + 1
  /\ UNCHANGED <<cs, to, toMis, isJoining, curT, busy, dev, pc>>
  /\ StackSame

(* join.Do, otherwise: flush if joining, ActionPass *)
DoOther ==
  /\ CanStep /\ ReachesJoin /\ EvC \notin StartCls /\ EvC # "NF"
  /\ ~SuspendCond
  /\ ~(isJoining /\ NextOK(EvC))
  /\ out' = Passed(IF isJoining THEN Flushed(out) ELSE out)
  /\ isJoining' = FALSE /\ busy' = FALSE /\ blocked' = FALSE /\ lastAction' = JI
  /\ i' = i + 1
  /\ UNCHANGED <<cs, to, toMis, buff, curT, dev, pc>>
  /\ ReturnsFromNested

(* heartbeat -> tryUnblock puts a time-out event into the blocked stream; blockGet returns it;
   processEvent sets event.action = lastAction; doActions runs Do of that action without a match check *)
Timeout ==
  /\ pc = "run" /\ blocked /\ i \notin to
  /\ ~resume
  /\ to' = to \cup {i}
  /\ LET addr == IF D5_TimeoutToLastAction THEN lastAction ELSE JI IN
       IF addr = JI
         THEN \* join.Do(time-out): flush, ActionDiscard; nothing busy any more: processEvent returns
              /\ out' = Flushed(out)
              /\ isJoining' = FALSE /\ busy' = FALSE /\ blocked' = FALSE /\ lastAction' = JI
              /\ UNCHANGED <<toMis, dev>>
         ELSE \* discard.Do(time-out) = ActionDiscard; the join is still busy: blockGet again
              /\ toMis' = toMis \cup {i} /\ dev' = dev \cup {"D5"}
              /\ lastAction' = 0
              /\ UNCHANGED <<out, isJoining, busy, blocked>>
  /\ UNCHANGED <<cs, i, buff, curT, pc>>
  /\ StackSame

Finish ==
  /\ pc = "run" /\ i = Len(cs.seq)
  /\ pc' = "done"
  /\ UNCHANGED <<cs, i, to, toMis, isJoining, buff, curT, busy, blocked, lastAction, out, dev>>
  /\ StackSame

(* ---- only in the mutant of M_PropagateResetsBusyFirst ----
   join.Do(e) is inside flush(): isJoining is already false, Propagate(run) -> the later action discards the run ->
   busyActions[join] is still set -> the nested processEvent goes to blockGet for the next event of the stream *)
MutSuspend ==
  /\ SuspendCond
  /\ isJoining' = FALSE
  /\ stack' = Append(stack, [kind |-> IF EvC \in StartCls THEN "start" ELSE "pass", id |-> i + 1])
  /\ i' = i + 1 /\ blocked' = TRUE /\ resume' = FALSE
  /\ UNCHANGED <<cs, to, toMis, buff, curT, busy, lastAction, out, dev, pc>>

(* the nested call has returned: Propagate resets busy (too late), flush() returns, the suspended join.Do goes on *)
MutResume ==
  /\ pc = "run" /\ resume /\ stack # <<>>
  /\ LET f == stack[Len(stack)] IN
       /\ stack' = SubSeq(stack, 1, Len(stack) - 1)
       /\ IF f.kind = "start"
            THEN \* p.initial = event; p.isJoining = true; ActionHold
                 /\ buff' = <<f.id>> /\ isJoining' = TRUE /\ curT' = TOf(Content(cs.seq[f.id]))
                 /\ busy' = TRUE /\ blocked' = TRUE /\ resume' = FALSE
                 /\ UNCHANGED out
            ELSE \* ActionPass: busy reset, the event goes on to the later action / the output
                 /\ out' = IF Dropped(f.id) THEN out ELSE Append(out, [k |-> "p", ids |-> <<f.id>>])
                 /\ busy' = FALSE /\ blocked' = FALSE /\ resume' = (Len(stack) > 1)
                 /\ UNCHANGED <<buff, isJoining, curT>>
  /\ UNCHANGED <<cs, i, to, toMis, lastAction, dev, pc>>

Next == MutSuspend \/ MutResume \/ PreDiscard \/ PreBreak \/ SelNotMatched \/ DoNoField \/ DoStart \/ DoContinue \/ DoOther \/ Timeout \/ Finish

Spec == Init /\ [][Next]_vars

-----------------------------------------------------------------------------
(* ---------------- properties of the transcription ---------------- *)

TypeOK == /\ pc \in {"run", "done"} /\ i \in 0..Len(cs.seq)
          /\ to \subseteq 0..Len(cs.seq) /\ toMis \subseteq to
          /\ dev \subseteq {"D5", "D15"}

\* join.Do panics ("timeout without joining") if a time-out reaches it while it is not joining:
\* a time-out is only generated while blocked, and then the join is joining
TimeoutOnlyWhileJoining == blocked => (busy /\ isJoining)
BusyIffJoining == busy = isJoining
JoiningHasInitial == isJoining => (buff # <<>> /\ curT \in 1..cs.nt)

Consumed == SubSeq(cs.seq, 1, i)

\* C15 at every step: what has been output so far is exactly what the statement demands for the events
\* and time-outs seen so far (flush happens BEFORE the triggering event is passed on, and AT a time-out)
\* (in the mutant of M_PropagateResetsBusyFirst an event may be in flight inside a suspended join.Do: judged once the
\* frames have returned, or at the end)
StatementOK == (dev = {} /\ (stack = <<>> \/ pc = "done")) => SeqOK(out, OutputX(Consumed, cs.neg, to, "pattern"), cs.M)

\* with D5 exercised the output is still explained by the time-outs the join really received
ExplainedByDeliveredTimeouts ==
  "D15" \notin dev => SeqOK(out, OutputX(Consumed, cs.neg, to \ toMis, "pattern"), cs.M)

\* deviations only when the switch is on
DevSwitched == /\ ("D5" \in dev => D5_TimeoutToLastAction)
               /\ ("D15" \in dev => D15_BreakBypassesHold)

-----------------------------------------------------------------------------
(* export of every explored (case, time-out placement) with the declaratively expected output *)
\* compact rendering: a passed event is its id, a joined event is the tuple of the ids of its run;
\* alt / model are 0 when equal to exp
Enc(items) == [n \in 1..Len(items) |-> IF items[n].k = "p" THEN items[n].ids[1] ELSE items[n].ids]
ExportRec ==
  LET e == OutputX(cs.seq, cs.neg, to, "pattern")
      a == OutputX(cs.seq, cs.neg, to, "never")
  IN [nt |-> cs.nt, neg |-> cs.neg, M |-> cs.M, pre |-> cs.pre, seq |-> cs.seq,
      to |-> to, toMis |-> toMis, dev |-> dev,
      exp |-> Enc(e),
      alt |-> IF a = e THEN 0 ELSE Enc(a),
      model |-> IF out = e THEN 0 ELSE Enc(out),
      held |-> isJoining,                                   \* the transcription still holds a run
      pend |-> Pending(Strip(cs.seq), cs.neg, to, "pattern")]     \* the statement still allows a run to be held

Export == pc = "done" => PrintT(ToJson(ExportRec))

=============================================================================
