------------------------------ MODULE FileInput ------------------------------
(* C03 -- the file input across kill -9 and restart (plugin/input/file: provider.go, file.go, offset.go).

   One watched file whose complete lines 1..NLines carry a stream-field value each.  A line's offset is its
   index (offsets grow with the lines).  One run of file.d:

     Read(l)        worker hands line l to Pipeline.In; Plugin.PassEvent refuses it iff its stream has a saved
                    offset >= the line's offset (known stream only)
     ActDone(l)     the actions finished with the line (per stream in read order -- C02)
     Deliver(l)     the output made the line durable downstream and acknowledged it (per stream in order)
     Commit(l)      jobProvider.commit: job.offsets[stream] := offset   (sync persistence: saved in the same step)
     SaveAsync      the periodic save writes job.offsets to the offsets file (C07 makes that atomic)
     Kill           kill -9 at ANY instant: everything in memory is lost, the offsets file stays
     Stop           graceful shutdown (Pipeline.Stop -> Plugin.Stop -> jobProvider.stop): the input writes job.offsets
                    to the offsets file once more and the process ends; what was not committed by then is not saved.
                    (A send that completes and commits during the shutdown is a Deliver/Commit before this step.)
     Restart        load the offsets file; job.offsets := saved; seek to the MINIMUM of the SAVED stream offsets
                    (no saved offsets for the file: start from 0)
     Append / Rotate  lines are appended, and the file is rotated by rename, at any time -- also while down

   AtLeastOnce: after the restart and once idle, every complete line was delivered at least once over the two runs.

   D_SeekMinSaved = TRUE is the code: a stream that has not committed anything yet is invisible to "minimum of
   the saved offsets", so its earlier undelivered lines are skipped (known finding D3).  FALSE is the repaired
   rule (a per-job low-water mark: never seek past the first undelivered line).
   M_* switches disable one mechanism each; TLC's counterexample is a kill/restart history that distinguishes an
   implementation with the mechanism from one without.                                                     *)
EXTENDS Integers, Sequences, FiniteSets, TLC, Json

CONSTANTS NLines, Streams, SyncMode,
          D_SeekMinSaved,
          ResidualOnly,       \* TRUE: exclude D3's enabling condition (a kill while some stream that already appeared has no saved offset)
          M_SeekMin,          \* FALSE: seek to the maximum saved offset
          M_CommitAfterAck,   \* FALSE: the offset is committed when the line is read, not when it was acknowledged
          M_SkipOnlyOwnStream,\* FALSE: PassEvent compares with the largest saved offset of ANY stream
          M_SkipStrict,       \* FALSE: PassEvent also refuses the first line after the saved offset (off-by-one)
          GracefulStop,       \* TRUE: the first run may also end by a graceful stop
          M_StopSaves         \* FALSE: the graceful stop does not write the offsets (async persistence loses the last interval)

Lines == 1..NLines

VARIABLES strm,       \* [Lines -> Streams]
          written,    \* number of lines in the file
          up, run,    \* process alive? ; run number (1, 2)
          pos,        \* lines consumed by the reader in this run (job.curOffset)
          st,         \* [Lines -> "unread" | "skipped" | "proc" | "out" | "acked" | "committed"]  (this run)
          joff,       \* job.offsets: [Streams -> 0..NLines]  (0 = no offset for the stream)
          disk,       \* offsets file: [Streams -> 0..NLines]
          delivered,  \* [Lines -> Nat]  durable downstream deliveries, both runs
          lowWater,   \* repaired rule only: first line not yet known delivered (persisted with the offsets)
          diskLow,
          ended,      \* how the first run ended: "no" | "kill" | "stop"
          hist        \* history of externally visible steps, for replay

vars == <<strm, written, up, run, pos, st, joff, disk, delivered, lowWater, diskLow, ended, hist>>
view == <<strm, written, up, run, pos, st, joff, disk, delivered, lowWater, diskLow, ended>>

Init == /\ strm \in [Lines -> Streams]
        /\ written = 0 /\ up = TRUE /\ run = 1 /\ pos = 0
        /\ st = [l \in Lines |-> "unread"]
        /\ joff = [s \in Streams |-> 0] /\ disk = [s \in Streams |-> 0]
        /\ delivered = [l \in Lines |-> 0]
        /\ lowWater = 0 /\ diskLow = 0
        /\ ended = "no" /\ hist = <<>>

H(x) == hist' = Append(hist, x)

Append1 == /\ written < NLines /\ written' = written + 1 /\ H(<<"append", written + 1>>)
           /\ UNCHANGED <<strm, up, run, pos, st, joff, disk, delivered, lowWater, diskLow, ended>>

MaxSaved == IF \A s \in Streams : joff[s] = 0 THEN 0 ELSE CHOOSE m \in {joff[s] : s \in Streams} : \A s \in Streams : joff[s] <= m

Read == /\ up /\ pos < written
        /\ LET l == pos + 1
               saved == IF M_SkipOnlyOwnStream THEN joff[strm[l]] ELSE MaxSaved
               skip == saved # 0 /\ (IF M_SkipStrict THEN l <= saved ELSE l <= saved + 1)
           IN /\ st' = [st EXCEPT ![l] = IF skip THEN "skipped" ELSE "proc"]
              /\ joff' = IF ~M_CommitAfterAck /\ ~skip THEN [joff EXCEPT ![strm[l]] = l] ELSE joff
              /\ disk' = IF ~M_CommitAfterAck /\ ~skip /\ SyncMode THEN [disk EXCEPT ![strm[l]] = l] ELSE disk
        /\ pos' = pos + 1
        /\ UNCHANGED <<strm, written, up, run, delivered, lowWater, diskLow, hist, ended>>

EarlierSameStream(l) == {k \in Lines : k < l /\ strm[k] = strm[l]}

ActDone(l) == /\ up /\ st[l] = "proc"
              /\ \A k \in EarlierSameStream(l) : st[k] \notin {"proc"}
              /\ st' = [st EXCEPT ![l] = "out"]
              /\ H(<<"act", l>>)
              /\ UNCHANGED <<strm, written, up, run, pos, joff, disk, delivered, lowWater, diskLow, ended>>

Deliver(l) == /\ up /\ st[l] = "out"
              /\ \A k \in EarlierSameStream(l) : st[k] \notin {"proc", "out"}
              /\ st' = [st EXCEPT ![l] = "acked"]
              /\ delivered' = [delivered EXCEPT ![l] = @ + 1]
              /\ H(<<"deliver", l>>)
              /\ UNCHANGED <<strm, written, up, run, pos, joff, disk, lowWater, diskLow, ended>>

\* first line that is not known to be delivered (repaired rule): all lines below it are committed / skipped
NewLow(s2) == IF \E l \in Lines : s2[l] \notin {"committed", "skipped"} /\ l <= pos
              THEN (CHOOSE l \in Lines : s2[l] \notin {"committed", "skipped"} /\ l <= pos /\
                                         \A k \in Lines : (s2[k] \notin {"committed", "skipped"} /\ k <= pos) => l <= k) - 1
              ELSE pos

Commit(l) == /\ up /\ st[l] = "acked"
             /\ \A k \in EarlierSameStream(l) : st[k] \notin {"proc", "out", "acked"}
             /\ LET s2 == [st EXCEPT ![l] = "committed"]
                    j2 == IF M_CommitAfterAck THEN [joff EXCEPT ![strm[l]] = l] ELSE joff
                    lw == IF NewLow(s2) > lowWater THEN NewLow(s2) ELSE lowWater
                IN /\ st' = s2 /\ joff' = j2 /\ lowWater' = lw
                   /\ disk' = IF SyncMode THEN j2 ELSE disk
                   /\ diskLow' = IF SyncMode THEN lw ELSE diskLow
             /\ H(<<"commit", l>>)
             /\ UNCHANGED <<strm, written, up, run, pos, delivered, ended>>

SaveAsync == /\ up /\ ~SyncMode /\ (disk # joff \/ diskLow # lowWater)
             /\ disk' = joff /\ diskLow' = lowWater
             /\ H(<<"save", 0>>)
             /\ UNCHANGED <<strm, written, up, run, pos, st, joff, delivered, lowWater, ended>>

StreamSeen(s) == \E l \in Lines : l <= pos /\ strm[l] = s
Kill == /\ up /\ run = 1
        /\ (ResidualOnly => \A s \in Streams : StreamSeen(s) => disk[s] # 0)
        /\ up' = FALSE /\ ended' = "kill"
        /\ H(<<"kill", 0>>)
        /\ UNCHANGED <<strm, written, run, pos, st, joff, disk, delivered, lowWater, diskLow>>

Stop == /\ GracefulStop /\ up /\ run = 1
        /\ (ResidualOnly => \A s \in Streams : StreamSeen(s) => joff[s] # 0)
        /\ up' = FALSE /\ ended' = "stop"
        /\ disk' = (IF M_StopSaves THEN joff ELSE disk) /\ diskLow' = (IF M_StopSaves THEN lowWater ELSE diskLow)
        /\ H(<<"stop", 0>>)
        /\ UNCHANGED <<strm, written, run, pos, st, joff, delivered, lowWater>>

MinSaved == LET saved == {disk[s] : s \in {x \in Streams : disk[x] # 0}}
            IN IF saved = {} THEN 0
               ELSE IF M_SeekMin THEN CHOOSE m \in saved : \A x \in saved : m <= x
                    ELSE CHOOSE m \in saved : \A x \in saved : m >= x

Restart == /\ ~up /\ run = 1
           /\ up' = TRUE /\ run' = 2
           /\ joff' = disk
           /\ pos' = IF D_SeekMinSaved THEN MinSaved ELSE (IF diskLow < MinSaved THEN diskLow ELSE MinSaved)
           /\ lowWater' = diskLow
           /\ st' = [l \in Lines |-> "unread"]
           /\ H(<<"restart", 0>>)
           /\ UNCHANGED <<strm, written, disk, delivered, diskLow, ended>>

Next == Append1 \/ Read \/ SaveAsync \/ Kill \/ Stop \/ Restart \/ \E l \in Lines : ActDone(l) \/ Deliver(l) \/ Commit(l)
Spec == Init /\ [][Next]_vars

-----------------------------------------------------------------------------
Quiet == up /\ pos = written /\ \A l \in Lines : st[l] \in {"unread", "skipped", "committed"}
AtLeastOnce == (run = 2 /\ Quiet /\ written = NLines) => \A l \in Lines : delivered[l] >= 1
\* the offsets file never claims more than was committed; committed never more than was delivered
NeverAheadOnDisk == \A s \in Streams : disk[s] <= joff[s] \/ ~up
CommittedWasDelivered == M_CommitAfterAck => \A s \in Streams : joff[s] # 0 => delivered[joff[s]] >= 1
\* after a graceful stop the offsets file holds exactly what was committed (nothing acknowledged is delivered again for
\* want of a save)
CleanStopSavesAll == (~up /\ ended = "stop") => disk = joff
TypeOK == pos \in 0..NLines /\ written \in 0..NLines

(* export of complete kill/restart histories for replay on the real input (simulation mode) *)
ExportHist == (run = 2 /\ Quiet /\ written = NLines) =>
                 PrintT(ToJson([streams |-> strm, sync |-> SyncMode, hist |-> hist,
                                lost |-> {l \in Lines : delivered[l] = 0}]))
=============================================================================
