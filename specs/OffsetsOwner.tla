----------------------------- MODULE OffsetsOwner -----------------------------
(* C07, the assumption behind OffsetsFile.tla made explicit: ONE WRITER PER OFFSETS FILE.

   offsetDB.save renames a snapshot of the saving pipeline's OWN job table over the offsets file.  If two
   file inputs (two pipelines) wrote the same file, each save would replace the other's snapshot and a
   pipeline's file would no longer load back to what IT committed.  Plugin.Start (plugin/input/file/file.go)
   therefore keeps a registry of offsets files in use and refuses (Fatal) a second pipeline on the same
   FILE.  Mechanism M_OneWriterPerFile (TRUE = the code): the registry key is the NORMALISED path
   (filepath.Clean), so "d/o", "d/./o", "d//o", "d/x/../o" are one file.  The mutant FALSE = "compared as
   spelled" admits two writers on one file and must be REJECTED by TLC (RoundTripOwn / NeverForeign).

   Spellings are abstract: Norm(s) is the file a spelling denotes after lexical normalisation.  (A path
   through a symlinked directory is a different lexical path; the property statement does not decide that
   case and it is outside this model.)

   Export: every ordered pair of spellings with the declarative expectation: the second Start must be
   refused iff both spellings denote the same file.  The real Plugin.Start is run on every pair.        *)
EXTENDS Integers, Sequences, FiniteSets, TLC, Json

CONSTANTS M_OneWriterPerFile, MaxCommits

Pipes == {1, 2}
Spellings == {"plain", "dot", "slashes", "updown", "other"}     \* d/o  d/./o  d//o  d/x/../o  d/other
Norm(s) == IF s = "other" THEN "file2" ELSE "file1"

VARIABLES cs,        \* the case: <<spelling of pipeline 1, spelling of pipeline 2>>
          started,   \* pipelines whose Start was admitted
          refused,   \* pipelines whose Start was refused
          registry,  \* keys of the offsets files in use
          tab,       \* tab[p]: pipeline p's committed table (a counter stands for it)
          saved,     \* saved[p]: the table p last saved (-1: never)
          disk       \* file -> [owner, tab] of the snapshot it holds (owner 0: none)

vars == <<cs, started, refused, registry, tab, saved, disk>>
Files == {"file1", "file2"}
Key(s) == IF M_OneWriterPerFile THEN Norm(s) ELSE s

Init == /\ cs \in Spellings \X Spellings
        /\ started = {} /\ refused = {} /\ registry = {}
        /\ tab = [p \in Pipes |-> 0] /\ saved = [p \in Pipes |-> -1]
        /\ disk = [f \in Files |-> [owner |-> 0, tab |-> 0]]

Start(p) == /\ p \notin started \cup refused
            /\ p = 1 \/ 1 \in started \cup refused                    \* pipelines start in order
            /\ IF Key(cs[p]) \in registry
                 THEN refused' = refused \cup {p} /\ UNCHANGED <<started, registry>>       \* logger.Fatalf
                 ELSE started' = started \cup {p} /\ registry' = registry \cup {Key(cs[p])} /\ UNCHANGED refused
            /\ UNCHANGED <<cs, tab, saved, disk>>

Commit(p) == /\ p \in started /\ tab[p] < MaxCommits
             /\ tab' = [tab EXCEPT ![p] = @ + 1]
             /\ UNCHANGED <<cs, started, refused, registry, saved, disk>>

Save(p) == /\ p \in started                                            \* offsetDB.save: own table only
           /\ disk' = [disk EXCEPT ![Norm(cs[p])] = [owner |-> p, tab |-> tab[p]]]
           /\ saved' = [saved EXCEPT ![p] = tab[p]]
           /\ UNCHANGED <<cs, started, refused, registry, tab>>

Next == \E p \in Pipes : Start(p) \/ Commit(p) \/ Save(p)
Spec == Init /\ [][Next]_vars

\* what a pipeline loads back from its offsets file is the snapshot IT last saved -- never a foreign table
RoundTripOwn == \A p \in started : saved[p] # -1 =>
                   disk[Norm(cs[p])].owner = p /\ disk[Norm(cs[p])].tab = saved[p]
NeverForeign == \A p \in started : saved[p] # -1 => disk[Norm(cs[p])].owner = p
\* the guard: at most one admitted pipeline per file
OneWriter    == \A p, q \in started : p # q => Norm(cs[p]) # Norm(cs[q])

Export == (started \cup refused = Pipes /\ tab = [p \in Pipes |-> 0] /\ saved = [p \in Pipes |-> -1]) =>
             PrintT(ToJson([sp1 |-> cs[1], sp2 |-> cs[2], sameFile |-> Norm(cs[1]) = Norm(cs[2]),
                            secondRefused |-> 2 \in refused]))
=============================================================================
