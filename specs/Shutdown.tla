------------------------------ MODULE Shutdown ------------------------------
(* Pipeline.Stop (pipeline/pipeline.go) and what the input makes durable at shutdown.

     Stop():  processors are told to stop; streamer.stop(); input.Stop(); router.Stop() (output, then dead queue);
              eventPool.stop()

   An input makes its position durable in its own Stop: the kafka input commits the marked offsets to the broker and closes
   its client (later marks go nowhere); the file input writes its offsets file (C03: FileInput.tla, action Stop).
   An output's Stop ends the sends that are in flight: some outputs cancel the request context first (clickhouse, postgres),
   and a send that fails until its retries are exhausted is given up -- without a dead queue and without
   fatal_on_failed_insert the batch is then committed like any other, i.e. the input is notified for events that were never
   delivered.  While the pipeline runs that is the documented loss on give-up; at shutdown it is only harmless because the
   input has already made its position durable:

     M_InputStopsBeforeOutput   TRUE = the code.  The mutant stops the output first: the notifications for the abandoned
                                events arrive while the input is alive and its Stop makes them durable: a restart from the
                                durable position skips events that no output ever delivered         (ShutdownSafe)

   Events 1..N of one source, in read order; the output works on them in order (one worker is enough for the argument).   *)
EXTENDS Integers, FiniteSets, TLC

CONSTANTS N, M_InputStopsBeforeOutput

Ev == 1..N

VARIABLES st,          \* [Ev -> "queued" | "inflight" | "delivered" | "abandoned"]
          notified,    \* events the input was notified for (commit), while it was alive
          durable,     \* what the input made durable (set of events its persisted position covers)
          inputUp, outputUp, stopping

vars == <<st, notified, durable, inputUp, outputUp, stopping>>

Init == /\ st = [e \in Ev |-> "queued"] /\ notified = {} /\ durable = {} /\ inputUp = TRUE /\ outputUp = TRUE /\ stopping = FALSE

Notify(e) == notified' = IF inputUp THEN notified \cup {e} ELSE notified

\* the output takes the next event (only while the pipeline runs: processors are stopped first)
Take(e) == /\ ~stopping /\ outputUp /\ st[e] = "queued" /\ \A d \in Ev : d < e => st[d] # "queued"
           /\ st' = [st EXCEPT ![e] = "inflight"]
           /\ UNCHANGED <<notified, durable, inputUp, outputUp, stopping>>
\* the backend answers: delivered, committed, the input is notified
Deliver(e) == /\ outputUp /\ st[e] = "inflight"
              /\ st' = [st EXCEPT ![e] = "delivered"] /\ Notify(e)
              /\ UNCHANGED <<durable, inputUp, outputUp, stopping>>

BeginStop == /\ ~stopping /\ stopping' = TRUE /\ UNCHANGED <<st, notified, durable, inputUp, outputUp>>

\* input.Stop: the position covers everything notified so far
StopInput == /\ stopping /\ inputUp
             /\ (M_InputStopsBeforeOutput => outputUp)      \* the code: before the output
             /\ (~M_InputStopsBeforeOutput => ~outputUp)    \* the mutant: after it
             /\ durable' = notified /\ inputUp' = FALSE
             /\ UNCHANGED <<st, notified, outputUp, stopping>>

\* output.Stop: requests are cancelled, retries run out, the batches in flight are given up and committed
StopOutput == /\ stopping /\ outputUp
              /\ (M_InputStopsBeforeOutput => ~inputUp)
              /\ (~M_InputStopsBeforeOutput => inputUp)
              /\ LET ab == {e \in Ev : st[e] = "inflight"}
                 IN /\ st' = [e \in Ev |-> IF e \in ab THEN "abandoned" ELSE st[e]]
                    /\ notified' = IF inputUp THEN notified \cup ab ELSE notified
              /\ outputUp' = FALSE
              /\ UNCHANGED <<durable, inputUp, stopping>>

Next == BeginStop \/ StopInput \/ StopOutput \/ \E e \in Ev : Take(e) \/ Deliver(e)
Spec == Init /\ [][Next]_vars
FairSpec == Spec /\ WF_vars(StopInput) /\ WF_vars(StopOutput)

\* nothing that was abandoned at shutdown (or never left the queue) is covered by the durable position
ShutdownSafe == \A e \in durable : st[e] = "delivered"
\* and a stop, once begun, completes
StopCompletes == stopping ~> (~inputUp /\ ~outputUp)
=============================================================================
