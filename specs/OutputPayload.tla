--------------------------- MODULE OutputPayload ---------------------------
(* C19 -- what an output plugin puts on the wire for a batch.

   Implementation-shaped part: the elasticsearch (and, identically, http) output's `out` function
   (plugin/output/elasticsearch/elasticsearch.go:365-473) executed by ONE batcher worker over a
   sequence of successive batches: the per-worker data{outBuf, begin} that survives from batch to
   batch (re-sliced to length 0, not cleared), Batch.ForEach skipping child-parent events
   (pipeline/batch.go:101-108), the `begin` offset table, send / the recursive sendSplit on 413,
   and what out() hands back to the RetriableBatcher (nil = the batch is acknowledged).
   The other sinks (file, kafka, splunk, loki, gelf) are the send-whole-buffer case (split = FALSE).

   Declarative part: Payload, FramingOK, BodyIs, SplitCovers.

   One behaviour = one CASE (split_batch on/off, <= 3 successive batches of shrinking size with
   event kinds and size classes, a 413 pattern).  A 413 pattern is a MONOTONE predicate on the set of
   event ids contained in a request, given by its minimal rejected sets (an antichain): a request is
   answered 413 iff its id set includes one of them.  The case is kept in `cs` so that terminal states
   stay distinct and Export can print every case with its declaratively expected result.

   Named deviation (DESIGN.md section 8, D14):  D14_SingleTooLargeAborts = TRUE transcribes
       `if right-left == 1 { return statusCode, err }`
   -- a request holding a single event that is still answered 413 aborts the whole recursion; out()
   maps 413 to `return nil`, so the batch is acknowledged although the events to the right of that
   event were never sent.  FALSE is the ideal (skip the undeliverable event, carry on).

   Fault family: the sink answers 5xx to EVERY attempt of one batch.  out() returns the error, the
   RetriableBatcher (pipeline/backoff.go) calls out() again with the same batch until numTries > retry,
   then gives up: onError -> Router.Fail (dead queue, if configured, and then batch.reset()), the batch is
   committed, the Batch OBJECT goes back to freeBatches, is refilled with the next events and handed to the
   same worker (one worker = one Batch object), whose worker data has survived.  Nothing of the given-up batch
   may show up in a later request.

   Routing family: every event has a routing value (`route`: "none" = the routing field is absent or empty,
   else the value) that the sink must see next to the event -- kafka record topic (default_topic when none),
   elasticsearch index name, splunk copied field, gelf host.  The kafka worker data keeps the kgo.Record
   objects (`data.messages[i]`, here `slots`) from batch to batch; the code assigns Topic on every event.
   The routing a sink sees is carried in the header cell of the framed unit.

   Mechanism switches for spec mutants (TRUE = mechanism present, as in the code):
       M_TopicPerEvent  `data.messages[i].Topic = topic` for every event, topic computed from that event alone.
                     FALSE = default topic only when the slot is first allocated, field topic only when
                     non-empty and different: a topic-less event inherits the slot's topic of an earlier batch
       M_ReencodeAfterGiveUp  out() encodes the batch it is given on every call.  FALSE = an "encode once per
                     batch object" cache in the worker data (marker = the *Batch pointer), dropped on success
                     and on 400/413 but not when the retries run out
       M_ResetBegin  `data.begin = data.begin[:0]` at the start of out()
       M_ResetBuf    `data.outBuf = data.outBuf[:0]` at the start of out()
       M_SkipParent  `if event.IsChildParentKind() { continue }` in Batch.ForEach                  *)
EXTENDS Integers, Sequences, FiniteSets, TLC, Json

CONSTANTS MaxN1,           \* maximal batch size in single-batch cases
          MaxN,            \* maximal size of the first batch in multi-batch cases
          MaxBatches,      \* successive batches per case (<= 3)
          Kinds,           \* subset of {"regular", "child", "parent"}
          SizeClasses,     \* subset of {1, 2}; 2 = big (grows the worker buffer past its cap threshold)
          MaxBig,          \* at most this many big events per batch
          SplitModes,      \* values of split_batch explored
          MaxPatBatches,   \* cases with at most this many batches carry a 413 pattern (on one of their batches)
          Retry,           \* `retry` of the plugin: the RetriableBatcher gives up when numTries > Retry
          DeadQueueModes,  \* values of "a dead queue is configured" explored in the fault family
          Routes,          \* routing values explored in the routing family, e.g. {"none", "a", "b"}
          RouteKinds,      \* event kinds explored in the routing family
          MaxRouteBatches, \* successive batches per routing-family case
          D14_SingleTooLargeAborts,
          M_ResetBegin, M_ResetBuf, M_SkipParent, M_ReencodeAfterGiveUp, M_TopicPerEvent

ASSUME MaxBatches \in 1..3

VARIABLES cs,        \* the case: [split, batches, pats, fail, dq]
          k,         \* index of the batch the worker is processing (0 = none yet)
          pc,        \* idle | prologue | foreach | close | send | split | ret | outret | retry | done
          arr, blen, \* data.outBuf: backing array (high-water content survives [:0]) and current length
          grown,     \* cap(outBuf) > BatchSize*avgEventSize
          begin,     \* data.begin
          fi, ec,    \* ForEach position, eventsCount
          stack, rv, \* sendSplit call stack <<[l, r, st]>>, value being returned: none | ok | e413 | e5xx
          tries,     \* RetriableBatcher.Out: numTries
          slots,     \* kafka data.messages: per slot the Topic left there (survives the batch)
          encoded,   \* (mutant only) worker data: "outBuf/begin were built for the Batch object in hand"
          reqs,      \* history: requests of the current batch <<[body, ok]>>
          hist       \* history: per finished batch [reqs, acked]

vars == <<cs, k, pc, arr, blen, grown, begin, fi, ec, stack, rv, tries, slots, encoded, reqs, hist>>

-----------------------------------------------------------------------------
(* wire cells: an event of size class s is framed as one header cell and s document cells *)
HCell(id, rt)   == [id |-> id, part |-> "h", j |-> 0, of |-> 0, rt |-> rt]     \* rt: the routing the sink sees
DCell(id, q, s) == [id |-> id, part |-> "d", j |-> q, of |-> s, rt |-> ""]
Cells(e, rt)    == <<HCell(e.id, rt)>> \o [q \in 1..e.size |-> DCell(e.id, q, e.size)]
PanicBody       == <<[id |-> -2, part |-> "panic", j |-> 0, of |-> 0, rt |-> ""]>>
BAD == -1

(* abstraction function of the sink: body -> sequence of ids, BAD where the framing is broken *)
RECURSIVE ParseFrom(_, _)
ParseFrom(body, p) ==
  IF p > Len(body) THEN <<>>
  ELSE IF \/ body[p].part # "h" \/ p + 1 > Len(body)
          \/ body[p + 1] # DCell(body[p].id, 1, body[p + 1].of)
       THEN <<BAD>>
  ELSE LET s == body[p + 1].of IN
       IF p + s > Len(body) \/ \E q \in 1..s : body[p + q] # DCell(body[p].id, q, s)
         THEN <<BAD>>
         ELSE <<body[p].id>> \o ParseFrom(body, p + s + 1)
Parse(body)   == ParseFrom(body, 1)
Range(s)      == {s[x] : x \in DOMAIN s}
ParseOK(body) == BAD \notin Range(Parse(body))
IdsIn(body)   == {body[x].id : x \in DOMAIN body}      \* what the sink's size limit looks at
Routing(body) == LET hs == SelectSeq(body, LAMBDA c : c.part = "h") IN [x \in 1..Len(hs) |-> <<hs[x].id, hs[x].rt>>]

RECURSIVE Flatten(_)
Flatten(ss) == IF ss = <<>> THEN <<>> ELSE Head(ss) \o Flatten(Tail(ss))

-----------------------------------------------------------------------------
(* declarative statement *)
Payload(b)       == LET nb == SelectSeq(b, LAMBDA e : e.kind # "parent") IN [x \in 1..Len(nb) |-> nb[x].id]
Rejects(pat, S)  == \E m \in pat : m \subseteq S
\* an event the sink refuses even on its own cannot be delivered by any request (monotonicity)
Deliverable(b, pat) == SelectSeq(Payload(b), LAMBDA id : ~Rejects(pat, {id}))
\* what the accepted requests of batch x must carry: nothing if the sink fails every attempt (configured give-up)
Exp(x) == IF cs.fail[x] THEN <<>> ELSE Deliverable(cs.batches[x], cs.pats[x])
\* the routing an event must be given: its own value, the sink's default when it has none
OwnRoute(e)      == IF e.route = "none" THEN "default" ELSE e.route
HasIterable(b)   == \E x \in DOMAIN b : b[x].kind # "parent"       \* Batch.hasIterableEvents
Accepted(rs)     == Flatten([x \in 1..Len(SelectSeq(rs, LAMBDA r : r.ok)) |->
                               Parse(SelectSeq(rs, LAMBDA r : r.ok)[x].body)])

-----------------------------------------------------------------------------
(* the case space *)
NonEmptySubsets(m) == (SUBSET (1..m)) \ {{}}
AC == [m \in 0..(IF MaxN1 > MaxN THEN MaxN1 ELSE MaxN) |->
         {a \in SUBSET NonEmptySubsets(m) : \A x \in a, y \in a : x \subseteq y => x = y}]
PatsFor(b) == LET pl == Payload(b) IN {{{pl[p] : p \in s} : s \in a} : a \in AC[Len(pl)]}

Shapes(n) == {f \in [1..n -> Kinds \X SizeClasses] : Cardinality({x \in 1..n : f[x][2] > 1}) <= MaxBig}
Batches(bi, n) == {[x \in 1..n |-> [id |-> 10 * bi + x, kind |-> f[x][1], size |-> f[x][2], route |-> "any"]] : f \in Shapes(n)}
\* routing family: small events, every combination of routing values (and kinds: a parent shifts the slots)
RBatches(bi, n) == {[x \in 1..n |-> [id |-> 10 * bi + x, kind |-> f[x][1], size |-> 1, route |-> f[x][2]]] :
                      f \in [1..n -> RouteKinds \X Routes]}
RBatchSeqs(ns) ==
  IF Len(ns) = 1 THEN {<<b1>> : b1 \in RBatches(1, ns[1])}
  ELSE IF Len(ns) = 2 THEN {<<b1, b2>> : b1 \in RBatches(1, ns[1]), b2 \in RBatches(2, ns[2])}
  ELSE {<<b1, b2, b3>> : b1 \in RBatches(1, ns[1]), b2 \in RBatches(2, ns[2]), b3 \in RBatches(3, ns[3])}
ShrinkSeqs(nb) == {s \in [1..nb -> 1..(IF nb = 1 THEN MaxN1 ELSE MaxN)] : \A x \in 1..(nb - 1) : s[x] > s[x + 1]}
BatchSeqs(ns) ==
  IF Len(ns) = 1 THEN {<<b1>> : b1 \in Batches(1, ns[1])}
  ELSE IF Len(ns) = 2 THEN {<<b1, b2>> : b1 \in Batches(1, ns[1]), b2 \in Batches(2, ns[2])}
  ELSE {<<b1, b2, b3>> : b1 \in Batches(1, ns[1]), b2 \in Batches(2, ns[2]), b3 \in Batches(3, ns[3])}

CaseMain ==
  \E split \in SplitModes : \E nb \in 1..MaxBatches : \E ns \in ShrinkSeqs(nb) : \E bs \in BatchSeqs(ns) :
       \E sb \in (IF split /\ nb <= MaxPatBatches THEN 1..nb ELSE {0}) :
         \E pt \in (IF sb = 0 THEN {{}} ELSE PatsFor(bs[sb])) :
          \* fault family: no 413 pattern, no big event; one batch (fb) fails on every attempt
          \E fb \in (IF pt = {} /\ \A x \in 1..nb : \A y \in DOMAIN bs[x] : bs[x][y].size = 1 THEN 0..nb ELSE {0}) :
           \E dq \in (IF fb = 0 THEN {FALSE} ELSE DeadQueueModes) :
             cs = [split |-> split, batches |-> bs, pats |-> [x \in 1..nb |-> IF x = sb THEN pt ELSE {}],
                   fail |-> [x \in 1..nb |-> x = fb], dq |-> dq]

\* routing family: no split, no 413, no fault; <= MaxRouteBatches shrinking batches, all routing combinations
CaseRouting ==
  \E nb \in 1..MaxRouteBatches : \E ns \in ShrinkSeqs(nb) : \E bs \in RBatchSeqs(ns) :
     cs = [split |-> FALSE, batches |-> bs, pats |-> [x \in 1..nb |-> {}],
           fail |-> [x \in 1..nb |-> FALSE], dq |-> FALSE]

Init ==
  /\ (CaseMain \/ CaseRouting)
  /\ k = 0 /\ pc = "idle"
  /\ arr = <<>> /\ blen = 0 /\ grown = FALSE /\ begin = <<>>
  /\ fi = 0 /\ ec = 0 /\ stack = <<>> /\ rv = "none" /\ reqs = <<>> /\ hist = <<>>
  /\ tries = 0 /\ encoded = FALSE /\ slots = <<>>

Cur == cs.batches[k]
Pat == cs.pats[k]

-----------------------------------------------------------------------------
(* Go slice semantics of data.outBuf *)
BufAppend(a, n, cells) ==      \* append(outBuf, cells...): overwrite the backing array from n, extend if needed
  [x \in 1..(IF n + Len(cells) > Len(a) THEN n + Len(cells) ELSE Len(a)) |->
     IF x > n /\ x <= n + Len(cells) THEN cells[x - n] ELSE a[x]]
BufSlice(lo, hi) ==            \* data[lo:hi]; legal up to the capacity, so stale cells can be read
  IF lo > hi \/ hi > Len(arr) THEN PanicBody ELSE SubSeq(arr, lo + 1, hi)

(* Batcher.work: takes the next full batch; out() is called only if the batch has iterable events *)
Take ==
  /\ pc = "idle" /\ k < Len(cs.batches)
  /\ k' = k + 1 /\ reqs' = <<>> /\ tries' = 0
  /\ IF HasIterable(cs.batches[k + 1])
       THEN pc' = "prologue" /\ hist' = hist
       ELSE /\ hist' = Append(hist, [reqs |-> <<>>, acked |-> TRUE, gaveup |-> FALSE])   \* commitBatch without out()
            /\ pc' = IF k + 1 < Len(cs.batches) THEN "idle" ELSE "done"
  /\ UNCHANGED <<cs, arr, blen, grown, begin, fi, ec, stack, rv, slots, encoded>>

(* out(): cap rule; eventsCount := 0; begin = begin[:0]; outBuf = outBuf[:0] *)
Prologue ==
  /\ pc = "prologue"
  /\ IF ~M_ReencodeAfterGiveUp /\ encoded
       THEN \* mutant: `if data.encoded != batch {...}` skipped -- one worker, one Batch object, so the pointer
            \* compares equal also for the NEXT batch; eventsCount := len(begin) - 1
            /\ ec' = Len(begin) - 1
            /\ IF cs.split THEN stack' = <<[l |-> 0, r |-> Len(begin) - 1, st |-> "call"]>> /\ pc' = "split"
                           ELSE stack' = <<>> /\ pc' = "send"
            /\ UNCHANGED <<arr, grown, blen, begin, fi>>
       ELSE /\ arr' = IF grown THEN <<>> ELSE arr            \* make([]byte, 0, BatchSize*avgEventSize)
            /\ grown' = FALSE
            /\ blen' = IF M_ResetBuf \/ grown THEN 0 ELSE blen
            /\ begin' = IF M_ResetBegin THEN <<>> ELSE begin
            /\ fi' = 1 /\ ec' = 0
            /\ pc' = "foreach" /\ stack' = stack
  /\ UNCHANGED <<cs, k, rv, tries, slots, encoded, reqs, hist>>

(* one iteration of batch.ForEach(func(event){ eventsCount++; begin = append(begin, len(outBuf)); appendEvent }) *)
ForEach ==
  /\ pc = "foreach"
  /\ IF fi > Len(Cur) THEN pc' = "close" /\ UNCHANGED <<arr, blen, grown, begin, fi, ec, slots>>
     ELSE LET e == Cur[fi] IN
          /\ fi' = fi + 1 /\ pc' = "foreach"
          /\ IF e.kind = "parent" /\ M_SkipParent
               THEN UNCHANGED <<arr, blen, grown, begin, ec, slots>>
               ELSE LET i   == ec + 1                                  \* kafka: data.messages[i]
                        old == IF i <= Len(slots) THEN slots[i] ELSE "default"   \* first allocation: DefaultTopic
                        rt  == IF M_TopicPerEvent THEN OwnRoute(e)
                               ELSE IF e.route # "none" /\ e.route # old THEN e.route ELSE old
                    IN /\ ec' = i
                       /\ slots' = [x \in 1..(IF i > Len(slots) THEN i ELSE Len(slots)) |-> IF x = i THEN rt ELSE slots[x]]
                       /\ begin' = Append(begin, blen)
                       /\ arr' = BufAppend(arr, blen, Cells(e, rt))
                       /\ blen' = blen + Len(Cells(e, rt))
                       /\ grown' = (grown \/ e.size > 1)
  /\ UNCHANGED <<cs, k, stack, rv, tries, encoded, reqs, hist>>

(* begin = append(begin, len(outBuf)); then sendSplit(0, eventsCount, begin, outBuf) or send(outBuf) *)
Close ==
  /\ pc = "close"
  /\ begin' = Append(begin, blen)
  /\ IF cs.split THEN stack' = <<[l |-> 0, r |-> ec, st |-> "call"]>> /\ pc' = "split"
                 ELSE stack' = <<>> /\ pc' = "send"
  /\ encoded' = ~M_ReencodeAfterGiveUp                   \* mutant: data.encoded = batch
  /\ UNCHANGED <<cs, k, arr, blen, grown, fi, ec, rv, tries, slots, reqs, hist>>

\* the sink: 5xx for every request of a failing batch, else 413 by the pattern, else 200
Status(body) == IF cs.fail[k] THEN 500 ELSE IF Rejects(Pat, IdsIn(body)) THEN 413 ELSE 200

(* send(data.outBuf) *)
Send ==
  /\ pc = "send"
  /\ LET body == BufSlice(0, blen)
         st   == Status(body)
     IN /\ reqs' = Append(reqs, [body |-> body, ok |-> st = 200, st |-> st])
        /\ rv' = IF st = 200 THEN "ok" ELSE IF st = 413 THEN "e413" ELSE "e5xx"
  /\ pc' = "outret"
  /\ UNCHANGED <<cs, k, arr, blen, grown, begin, fi, ec, stack, tries, slots, encoded, hist>>

Top == stack[Len(stack)]
Pop == SubSeq(stack, 1, Len(stack) - 1)

(* entry of sendSplit(left, right, begin, data) up to its first recursive call / return *)
SplitCall ==
  /\ pc = "split" /\ Top.st = "call"
  /\ LET l == Top.l  r == Top.r IN
     IF l = r
       THEN /\ rv' = "ok" /\ stack' = Pop /\ pc' = "ret" /\ reqs' = reqs
       ELSE LET body == BufSlice(begin[l + 1], begin[r + 1])            \* data[begin[left]:begin[right]]
                st   == Status(body)
                ok   == st = 200
            IN /\ reqs' = Append(reqs, [body |-> body, ok |-> ok, st |-> st])
               /\ IF ok THEN rv' = "ok" /\ stack' = Pop /\ pc' = "ret"
                  ELSE IF st = 500
                    THEN rv' = "e5xx" /\ stack' = Pop /\ pc' = "ret"      \* default: return statusCode, err
                  ELSE IF r - l = 1
                    THEN \* "can't save even one log"
                         /\ rv' = IF D14_SingleTooLargeAborts THEN "e413" ELSE "ok"
                         /\ stack' = Pop /\ pc' = "ret"
                    ELSE \* statusCode, err = p.sendSplit(left, middle, begin, data)
                         /\ stack' = Append(Append(Pop, [l |-> l, r |-> r, st |-> "afterLeft"]),
                                            [l |-> l, r |-> (l + r) \div 2, st |-> "call"])
                         /\ rv' = "none" /\ pc' = "split"
  /\ UNCHANGED <<cs, k, arr, blen, grown, begin, fi, ec, tries, slots, encoded, hist>>

(* a sendSplit call returned rv to its caller *)
SplitRet ==
  /\ pc = "ret"
  /\ IF stack = <<>> THEN pc' = "outret" /\ UNCHANGED <<stack, rv>>
     ELSE IF rv \in {"e413", "e5xx"}
       THEN stack' = Pop /\ pc' = "ret" /\ rv' = rv                      \* if err != nil { return statusCode, err }
       ELSE \* return p.sendSplit(middle, right, begin, data)
            /\ stack' = Append(Pop, [l |-> (Top.l + Top.r) \div 2, r |-> Top.r, st |-> "call"])
            /\ pc' = "split" /\ rv' = "none"
  /\ UNCHANGED <<cs, k, arr, blen, grown, begin, fi, ec, tries, slots, encoded, reqs, hist>>

(* tail of out(): 413 (and 400) are "non-retryable": logged, `return nil`; success: `return nil` -- the
   RetriableBatcher sees nil and the batch is committed.  Any other failure: `return err`. *)
OutReturn ==
  /\ pc = "outret"
  /\ IF rv = "e5xx"
       THEN pc' = "retry" /\ UNCHANGED <<hist, encoded>>
       ELSE /\ hist' = Append(hist, [reqs |-> reqs, acked |-> TRUE, gaveup |-> FALSE])
            /\ encoded' = FALSE                                          \* mutant: data.encoded = nil
            /\ pc' = IF k < Len(cs.batches) THEN "idle" ELSE "done"
  /\ UNCHANGED <<cs, k, arr, blen, grown, begin, fi, ec, stack, rv, tries, slots, reqs>>

(* RetriableBatcher.Out after outFn returned an error: give up when numTries > AttemptNum -- onRetryError
   (Router.Fail per event; with a dead queue batch.reset()), return; Batcher.work then commits the batch and
   puts the Batch object back into freeBatches -- else numTries++, wait, call outFn again with the same batch *)
RetryOrGiveUp ==
  /\ pc = "retry"
  /\ IF tries > Retry
       THEN /\ hist' = Append(hist, [reqs |-> reqs, acked |-> TRUE, gaveup |-> TRUE])
            /\ pc' = IF k < Len(cs.batches) THEN "idle" ELSE "done"
            /\ tries' = tries
       ELSE tries' = tries + 1 /\ pc' = "prologue" /\ hist' = hist
  /\ UNCHANGED <<cs, k, arr, blen, grown, begin, fi, ec, stack, rv, slots, encoded, reqs>>

Next == Take \/ Prologue \/ ForEach \/ Close \/ Send \/ SplitCall \/ SplitRet \/ OutReturn \/ RetryOrGiveUp
Spec == Init /\ [][Next]_vars

-----------------------------------------------------------------------------
(* properties; evaluated when out() is about to return (pc = "outret") *)
TypeOK ==
  /\ pc \in {"idle", "prologue", "foreach", "close", "send", "split", "ret", "outret", "retry", "done"}
  /\ blen <= Len(arr) /\ k \in 0..Len(cs.batches)
  /\ rv \in {"none", "ok", "e413", "e5xx"} /\ tries \in 0..(Retry + 1)

\* every request body parses in the sink's framing
FramingOK == \A x \in DOMAIN reqs : ParseOK(reqs[x].body)

\* without splitting: one request per attempt, and each carries Payload(b) of the batch being sent -- nothing
\* stale (of an earlier, possibly given-up batch), nothing missing
BodyIs == (pc = "outret" /\ ~cs.split) =>
             (Len(reqs) = tries + 1 /\ \A x \in DOMAIN reqs : Parse(reqs[x].body) = Payload(Cur))

\* with splitting: no request ever carries anything but events of this batch, in batch order, ...
SplitBodiesInOrder ==
  (pc = "outret" /\ cs.split) =>
     \A x \in DOMAIN reqs : \E lo \in 1..(Len(Payload(Cur)) + 1), hi \in 0..Len(Payload(Cur)) :
        Parse(reqs[x].body) = SubSeq(Payload(Cur), lo, hi)

SingleTooLarge == \E id \in Range(Payload(Cur)) : Rejects(Pat, {id})
Covered(rs, x) == Accepted(rs) = Exp(x)

\* ... and the accepted requests cover the deliverable events exactly once (STRICT statement)
SplitCovers == (pc = "outret" /\ cs.split) => Covered(reqs, k)

\* what the transcription really guarantees: strict unless D14's enabling condition holds, and then exactly the
\* deliverable events in front of the first undeliverable one were sent, the rest of the batch never
PrefixBeforeFirstTooLarge(b, pat) ==
  LET pl == Payload(b)
      first == CHOOSE x \in 1..Len(pl) : Rejects(pat, {pl[x]}) /\ \A y \in 1..(x - 1) : ~Rejects(pat, {pl[y]})
  IN SubSeq(pl, 1, first - 1)
SplitCoversModuloD14 ==
  (pc = "outret" /\ cs.split) =>
     IF D14_SingleTooLargeAborts /\ SingleTooLarge
       THEN Accepted(reqs) = PrefixBeforeFirstTooLarge(Cur, Pat)
       ELSE Covered(reqs, k)

\* the batch is acknowledged only when covered (modulo D14)
AckOnlyCovered ==
  \A x \in DOMAIN hist :
     hist[x].acked => \/ Covered(hist[x].reqs, x)
                      \/ D14_SingleTooLargeAborts /\ cs.split
                           /\ \E id \in Range(Payload(cs.batches[x])) : Rejects(cs.pats[x], {id})

\* the routing a sink sees next to an event is that event's own (its value, or the default when it has none):
\* it does not depend on what an earlier batch left in the worker
RoutingOwn ==
  \A x \in DOMAIN reqs : ParseOK(reqs[x].body) =>
     \A y \in DOMAIN Routing(reqs[x].body) :
        LET pr == Routing(reqs[x].body)[y] IN
          \A z \in DOMAIN Cur : Cur[z].id = pr[1] => pr[2] = OwnRoute(Cur[z])

\* a batch is given up only after Retry + 2 attempts that all failed, and only a failing batch is given up
GiveUpOnlyAfterRetries ==
  \A x \in DOMAIN hist :
     /\ hist[x].gaveup <=> (cs.fail[x] /\ HasIterable(cs.batches[x]))
     /\ hist[x].gaveup => Len(hist[x].reqs) = Retry + 2

\* the recursion sends a request only for a range that has not been accepted yet: no id is accepted twice
NoDuplicateAccept ==
  LET a == Accepted(reqs) IN \A x \in DOMAIN a, y \in DOMAIN a : a[x] = a[y] /\ a[x] # BAD => x = y

-----------------------------------------------------------------------------
(* export: the case, the declaratively expected result per batch, and what the transcription does *)
ExportRec ==
  [split   |-> cs.split,
   batches |-> cs.batches,
   pats    |-> [x \in DOMAIN cs.pats |-> cs.pats[x]],
   fail    |-> cs.fail,
   dq      |-> cs.dq,
   payload |-> [x \in DOMAIN cs.batches |-> Payload(cs.batches[x])],
   exp     |-> [x \in DOMAIN cs.batches |-> Exp(x)],
   model   |-> [x \in DOMAIN hist |-> [y \in DOMAIN hist[x].reqs |->
                   [ids |-> Parse(hist[x].reqs[y].body), ok |-> hist[x].reqs[y].ok, st |-> hist[x].reqs[y].st]]],
   d14     |-> [x \in DOMAIN hist |-> ~Covered(hist[x].reqs, x)]]

Export == pc = "done" => PrintT(ToJson(ExportRec))

=============================================================================
