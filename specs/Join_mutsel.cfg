\* spec mutant: the selector of a busy action IS evaluated (M_BusyIgnoresSelector off). TLC must find StatementOK
\* violated: the shortest behaviour is the schedule/input that distinguishes the mechanism (replayed at pipeline level)
SPECIFICATION Spec
CONSTANTS
  MaxLen1 = 0
  MaxLen2 = 0
  MaxLenPre = 4
  Ms = {0}
  Pres = {"sel"}
  D5_TimeoutToLastAction = TRUE
  D15_BreakBypassesHold = TRUE
  M_BusyIgnoresSelector = FALSE
  M_PropagateResetsBusyFirst = TRUE
  M_FlushCopiesBuffer = TRUE
  M_StartCheckIsTheTemplates = TRUE
INVARIANTS TypeOK StatementOK
CHECK_DEADLOCK FALSE
