------------------------------ MODULE ProcGrowth ------------------------------
(* Processor-pool growth (pipeline.go growProcs / expandProcs, processor.go process / processEvent).

   A processor that attached to a stream is counted in activeProcs from joinStream's return until it leaves the stream --
   also while it SLEEPS in stream.blockGet behind an action that holds a run (join, k8s multi-line, ...).  Every 100 ms
   growProcs compares activeProcs with procCount and doubles the pool when they are equal.  That is the only thing that
   lets a charged stream be attended when every existing processor is parked behind a multi-line run whose continuation
   lines keep arriving before the stream time-out: without it the pipeline wedges for as long as those streams stay busy.

   Mechanism M_BlockedCountsAsActive (TRUE = the code).  The mutant does not count a processor sleeping in blockGet.    *)
EXTENDS Naturals, FiniteSets

CONSTANTS InitProcs, MaxProcs, Streams, M_BlockedCountsAsActive

VARIABLES procs,      \* number of processors
          state,      \* [1..MaxProcs -> "idle" | "working" | "blocked"]   (only 1..procs exist)
          owner,      \* [Streams -> 0..MaxProcs]  processor attached to the stream (0 = none)
          charged,    \* streams with pending events and no processor
          busyRun     \* streams in the middle of a multi-line run (their owner sleeps in blockGet between the lines)

vars == <<procs, state, owner, charged, busyRun>>
P == 1..MaxProcs

Init == /\ procs = InitProcs
        /\ state = [p \in P |-> "idle"]
        /\ owner = [s \in Streams |-> 0]
        /\ charged = Streams                 \* every stream has a first line pending
        /\ busyRun = {}

Active == Cardinality({p \in 1..procs : state[p] = "working" \/ (state[p] = "blocked" /\ M_BlockedCountsAsActive)})

\* joinStream: an idle processor takes a charged stream
Join(p, s) == /\ p <= procs /\ state[p] = "idle" /\ s \in charged
              /\ state' = [state EXCEPT ![p] = "working"] /\ owner' = [owner EXCEPT ![s] = p]
              /\ charged' = charged \ {s} /\ UNCHANGED <<procs, busyRun>>

\* the event starts or continues a multi-line run: the action holds it, the processor sleeps in blockGet
Hold(p, s) == /\ owner[s] = p /\ state[p] = "working"
              /\ state' = [state EXCEPT ![p] = "blocked"] /\ busyRun' = busyRun \cup {s}
              /\ UNCHANGED <<procs, owner, charged>>

\* a continuation line arrives before the stream time-out: the owner wakes up, collapses it and sleeps again (the
\* environment may keep doing this for ever: no fairness is assumed on time-outs)
Continue(p, s) == /\ owner[s] = p /\ state[p] = "blocked" /\ UNCHANGED vars

\* growProcs: all processors active -> double the pool
Grow == /\ Active = procs /\ procs < MaxProcs
        /\ procs' = IF 2 * procs > MaxProcs THEN MaxProcs ELSE 2 * procs
        /\ UNCHANGED <<state, owner, charged, busyRun>>

Next == \/ \E p \in P, s \in Streams : Join(p, s) \/ Hold(p, s) \/ Continue(p, s)
        \/ Grow
Spec == Init /\ [][Next]_vars
        /\ \A p \in P : \A s \in Streams : WF_vars(Join(p, s))
        /\ WF_vars(Grow)

TypeOK == procs \in InitProcs..MaxProcs
\* no stream with pending events stays unattended for ever (as long as the pool may still grow)
Attended == \A s \in Streams : (s \in charged) ~> (s \notin charged)
=============================================================================
