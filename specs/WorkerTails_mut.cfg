SPECIFICATION Spec
CONSTANTS
  Files = {1, 2, 3}
  M_TailCopied = FALSE
  MaxServes = 6
INVARIANTS TypeOK TailsIntact
CHECK_DEADLOCK FALSE
