SPECIFICATION Spec
CONSTANTS
  N1 = 3
  N2 = 3
  M_HandoverBeforeRelease = FALSE
INVARIANTS DeadQueueGetsTheBatch
CHECK_DEADLOCK FALSE
