SPECIFICATION Spec
CONSTANTS
  N1 = 3
  N2 = 3
  M_HandoverBeforeRelease = TRUE
INVARIANTS DeadQueueGetsTheBatch
CHECK_DEADLOCK FALSE
