SPECIFICATION Spec
CONSTANTS
  Streams = {1, 2}
  M_HeartbeatWorksOnCopy = FALSE
INVARIANTS MutexOK
CHECK_DEADLOCK TRUE
