SPECIFICATION Spec
CONSTANTS
  CharsM = {1, 2, 5}
  MaxPat = 2
  MaxFld = 3
  D_AndRegexp = FALSE
INVARIANTS TypeOK ImplRefinesDecl ImplMatchesDecl CondOrderIrrelevant InvertIsNegation Export
CHECK_DEADLOCK FALSE
