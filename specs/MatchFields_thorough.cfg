SPECIFICATION Spec
CONSTANTS
  CharsM = {1, 2, 5}
  MaxPat = 2
  MaxFld = 3
  D_AndRegexp = TRUE
INVARIANTS TypeOK ImplRefinesDecl CondOrderIrrelevant InvertIsNegation AndRegexpNeverMatches Export
CHECK_DEADLOCK FALSE
