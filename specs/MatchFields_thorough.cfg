SPECIFICATION Spec
CONSTANTS
  CharsM = {1, 2, 5}
  MaxPat = 2
  MaxFld = 3
  M_DoIfDecidesAlone = TRUE
  D_AndRegexp = FALSE
INVARIANTS TypeOK ImplRefinesDecl ImplMatchesDecl CondOrderIrrelevant InvertIsNegation DoIfDecidesAlone Export
CHECK_DEADLOCK FALSE
