SPECIFICATION Spec
CONSTANTS
  Mode = "mes"
  MaxLen = 4
  SeqLen = 0
  ConcLen = 0
  GzLen = 0
  Symbols = {1, 2}
  Mutant = "carry_capped"
INVARIANTS TypeOK LinesExact
CHECK_DEADLOCK FALSE
