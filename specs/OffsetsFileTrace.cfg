SPECIFICATION TSpec
CONSTANTS
  TraceFile = "c07_trace.ndjson"
  Site = "file"
  NJobs = 1
  NStreams = 1
  MaxCommits = 0
  MaxSaves = 0
  Faults = {}
  MaxFaults = 0
  D_RenameAfterFailedStep = FALSE
  D_NoFsync = FALSE
  M_ZeroOffsetsWritten = TRUE
  M_SyncBeforeRename = TRUE
  M_TmpStartsEmpty = TRUE
  CLen <- SegLen
  MidSaveCommits = FALSE
  CrashAction = FALSE
  DoExport = FALSE
  MaxIno = 12
INVARIANTS ExportStep ExportEnd
CHECK_DEADLOCK FALSE
