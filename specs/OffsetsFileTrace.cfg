SPECIFICATION TSpec
CONSTANTS
  TraceFile = "c07_trace.ndjson"
  Site = "file"
  NJobs = 1
  NStreams = 1
  MaxCommits = 0
  MaxSaves = 0
  Faults = {}
  MaxFaults = 0
  D_RenameAfterFailedStep = TRUE
  D_NoFsync = TRUE
  MidSaveCommits = FALSE
  CrashAction = FALSE
  Unconditional = FALSE
  DoExport = FALSE
  MaxIno = 12
INVARIANTS ExportStep ExportEnd
CHECK_DEADLOCK FALSE
