SPECIFICATION Spec
CONSTANTS
  Workers = {1, 2}
  Batches = 2
  MaxChunks = 3
  MaxSeals = 2
  M_BatchWrittenUnderOneLock = TRUE
INVARIANTS FilesAreWholeBatches EachChunkOnce
CHECK_DEADLOCK FALSE
