SPECIFICATION Spec
CONSTANTS
  MaxPipelines = 2
  DqConfigs = {"a", "b"}
  M_DeadQueueOnCopy = TRUE
  M_LenCheckedBeforeTypeRemoved = TRUE
  D_DqConfigOnRegistryEntry = TRUE
INVARIANTS DeadQueueIffDeclared DeadQueueIsOwnModuloDeviation
CHECK_DEADLOCK FALSE
